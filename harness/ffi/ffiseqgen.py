"""Generator for the C17 sequence harness (harness/ffi/ffiseq.c): foreign calls IN SEQUENCE.

The single-call cases of ffigen.py run one call per process.  The property also says *which* function a call
reaches ("a call delivers each argument to the C function" of the DECLARED library; "a missing library or symbol, or
a nil string/record argument, raises ffi_fail instead of calling") and it says so for every call of a program, not
for the first one.  Here a *history* is a script for ffiseq: several programs and VMs alive in one process, calls that
must succeed interleaved with calls that must end in ffi_fail (caught by the program, or unhandled: nev_execute
returns non-zero), VMs deleted and created in between.

Libraries.  Every generated library exports the same four functions
    c17_who(int)  c17_len(char *)  c17_rec(struct {int; long long})  c17_only_<tag>(int)
printing "@C <tag> <function> <argument>" and returning <its constant> + f(argument); the executable (= the library
"host", reserved name of `extern`) exports them too (tag `host`).  So the SAME symbol is defined in several libraries
and in the executable with different constants, and `c17_only_<tag>` exists in exactly one of them.
Library NAMES are generated around the reserved word: proper prefixes of it, the word plus a suffix, paths whose
last or first component is the word, plain names, names that are prefixes/extensions of each other; for every class
some names exist (bare names are found through LD_LIBRARY_PATH, names with a slash relative to the working directory)
and some do not.  Two names may denote one file (bare name and ./name).

Oracle = the property: the transcript required of every operation is computed from the history alone
(`expected_of`): a valid call prints the "@C" line of the library it was DECLARED for, with the exact argument, and
returns that library's value — whatever failed before it, on this VM or another; a call that must fail prints no "@C"
line and ends in ffi_fail.
"""
import os

RESERVED = "host"
HOST_CONST = 90000000
SENTINEL = -777777
PAIR_B = 7
SUFFIXES = ["util.so", ".so", "ess", "2", "_a.so", "name.so", "s.so.1", "-x"]
PREFIXES = ["h", "ho", "hos"]
PLAIN = ["libplain.so", "plain", "plain.so", "plain.so.1", "libseq.so", "q"]

FAIL_KINDS = ["missing-symbol", "symbol-of-another-library", "missing-lib", "nil-string", "nil-record"]


class Lib(object):
    """an existing library file (or the executable)"""

    def __init__(self, tag, relfile, const):
        self.tag, self.relfile, self.const = tag, relfile, const

    def c_source(self):
        t, k = self.tag, self.const
        return ("#include <stdio.h>\n#include <string.h>\n"
                "typedef struct c17_pair { int a; long long b; } c17_pair;\n"
                'int c17_who(int x) { printf("@C %s who %%d\\n", x); return %d + x; }\n'
                'int c17_len(const char * s) { printf("@C %s len %%s\\n", s ? s : "NULL"); return %d + (s ? (int)strlen(s) : -1); }\n'
                'int c17_rec(c17_pair p) { printf("@C %s rec %%d,%%lld\\n", p.a, p.b); return %d + p.a; }\n'
                'int c17_only_%s(int x) { printf("@C %s only %%d\\n", x); return %d + 1000 + x; }\n'
                % (t, k, t, k, t, k, t, t, k))


HOST = Lib("host", None, HOST_CONST)


class Name(object):
    """one way of writing a library in an extern declaration"""

    def __init__(self, written, cls, lib):
        self.written, self.cls, self.lib = written, cls, lib     # lib None = no such library

    def __repr__(self):
        return "%s[%s]%s" % (self.written, self.cls, "" if self.lib else "(missing)")


def make_names(rng, libdir):
    """-> (libs to build, names).  Every class gets existing and missing names; which ones exist is drawn."""
    libs, names = [], []
    counter = [0]

    def newlib(relfile):
        counter[0] += 1
        lib = Lib("L%d" % counter[0], relfile, 100000 * counter[0] + rng.randrange(100) * 100)
        libs.append(lib)
        return lib

    def split(pool, n_exist):
        pool = list(pool)
        rng.shuffle(pool)
        return pool[:n_exist], pool[n_exist:]

    names.append(Name(RESERVED, "reserved", HOST))
    # proper prefixes of the reserved word (bare, found through LD_LIBRARY_PATH)
    ex, mi = split(PREFIXES, 2)
    for w in ex:
        names.append(Name(w, "reserved-prefix", newlib(w)))
    for w in mi:
        names.append(Name(w, "reserved-prefix", None))
    # the reserved word + a suffix (bare)
    ex, mi = split(SUFFIXES, 4)
    bare_existing = []
    for s in ex:
        lib = newlib(RESERVED + s)
        bare_existing.append(lib)
        names.append(Name(RESERVED + s, "reserved+suffix", lib))
    for s in mi:
        names.append(Name(RESERVED + s, "reserved+suffix", None))
    names.append(Name(RESERVED + "missing.so", "reserved+suffix", None))
    # paths: ./<the word>, ./<word+suffix> (an alias of the bare name), <word>/<file>, absolute
    word_is_dir = rng.random() < 0.5
    if word_is_dir:
        names.append(Name(RESERVED + "/util.so", "path-with-reserved", newlib(RESERVED + "/util.so")))
        names.append(Name("./" + RESERVED + "/util.so", "path-with-reserved", libs[-1]))
        names.append(Name(RESERVED + "/none.so", "path-with-reserved", None))
        names.append(Name("./" + RESERVED, "path-with-reserved", None))            # a directory: cannot be loaded
    else:
        names.append(Name("./" + RESERVED, "path-with-reserved", newlib(RESERVED)))
        names.append(Name(RESERVED + "/util.so", "path-with-reserved", None))
        names.append(Name("./" + RESERVED + "x", "path-with-reserved", None))
    alias = rng.choice(bare_existing)
    names.append(Name("./" + alias.relfile, "path-with-reserved", alias))
    ab = rng.choice(bare_existing)
    names.append(Name(os.path.join(libdir, ab.relfile), "absolute-path", ab))
    names.append(Name(os.path.join(libdir, RESERVED + "_absent.so"), "absolute-path", None))
    # plain names, some of them prefixes / extensions of each other
    ex, mi = split(PLAIN, 3)
    for w in ex:
        names.append(Name(w, "plain", newlib(w)))
    for w in mi:
        names.append(Name(w, "plain", None))
    names.append(Name("./" + ex[0], "plain", [l for l in libs if l.relfile == ex[0]][0]))
    names.append(Name("./libnothere.so", "plain", None))
    return libs, names


# ------------------------------------------------------------------------------------------
# programs
class Binding(object):
    """one extern declaration of a program + the entry points that exercise it.
    kind: who | only | len | rec | absent (symbol in no library) | foreign (c17_only_<tag> of ANOTHER library)"""

    def __init__(self, idx, kind, name, sym):
        self.idx, self.kind, self.name, self.sym = idx, kind, name, sym

    def callable(self):
        return self.name.lib is not None and self.kind in ("who", "only", "len", "rec")

    def decl(self):
        ps = {"len": "s : string", "rec": "p : C17Pair"}.get(self.kind, "x : int")
        return 'extern "%s" func %s(%s) -> int' % (self.name.written, self.sym, ps)

    def entries(self):
        """{entry name: (never text, must_fail_kind | None, guarded)}"""
        i, s = self.idx, self.sym
        catch = " catch (ffi_fail) { %d }" % SENTINEL
        out = {}
        why = None
        if self.name.lib is None:
            why = "missing-lib"
        elif self.kind == "absent":
            why = "missing-symbol"
        elif self.kind == "foreign":
            why = "symbol-of-another-library"
        if self.kind in ("who", "only", "absent", "foreign"):
            out["g%d" % i] = ("func g%d(x : int) -> int { %s(x) }%s" % (i, s, catch), why, True)
            out["u%d" % i] = ("func u%d(x : int) -> int { %s(x) }" % (i, s), why, False)
        elif self.kind == "len":
            out["g%d" % i] = ('func g%d(x : int) -> int { %s(if (x %% 2 == 0) { "hello" } else { "seq" }) }%s' % (i, s, catch), why, True)
            out["u%d" % i] = ('func u%d(x : int) -> int { %s(if (x %% 2 == 0) { "hello" } else { "seq" }) }' % (i, s), why, False)
            nil = "var nils = {[ 1 ]} : string; %s(nils[0])" % s
            out["n%d" % i] = ("func n%d(x : int) -> int { %s }%s" % (i, nil, catch), why or "nil-string", True)
            out["m%d" % i] = ("func m%d(x : int) -> int { %s }" % (i, nil), why or "nil-string", False)
        elif self.kind == "rec":
            out["g%d" % i] = ("func g%d(x : int) -> int { %s(C17Pair(x, %dL)) }%s" % (i, s, PAIR_B, catch), why, True)
            out["u%d" % i] = ("func u%d(x : int) -> int { %s(C17Pair(x, %dL)) }" % (i, s, PAIR_B), why, False)
            out["n%d" % i] = ("func n%d(x : int) -> int { %s(nil) }%s" % (i, s, catch), why or "nil-record", True)
            out["m%d" % i] = ("func m%d(x : int) -> int { %s(nil) }" % (i, s), why or "nil-record", False)
        return out

    def ok_transcript(self, x):
        """('@C' line, result) of a valid call with argument x"""
        lib = self.name.lib
        if self.kind == "who":
            return "@C %s who %d" % (lib.tag, x), lib.const + x
        if self.kind == "only":
            return "@C %s only %d" % (lib.tag, x), lib.const + 1000 + x
        if self.kind == "len":
            s = "hello" if x % 2 == 0 else "seq"
            return "@C %s len %s" % (lib.tag, s), lib.const + len(s)
        if self.kind == "rec":
            return "@C %s rec %d,%d" % (lib.tag, x, PAIR_B), lib.const + x
        raise ValueError(self.kind)


class Program(object):
    def __init__(self, bindings):
        self.bindings = bindings
        self.entry = {}
        for b in bindings:
            for e, (txt, why, guarded) in b.entries().items():
                self.entry[e] = (b, txt, why, guarded)

    def source(self):
        lines = ["record C17Pair { a : int; b : long; }"]
        lines += [b.decl() for b in self.bindings]
        lines += [self.entry[e][1] for e in sorted(self.entry, key=lambda n: (int(n[1:]), n[0]))]
        lines.append("func main() -> int { 0 }")
        return "\n".join(lines) + "\n"

    def entries_where(self, pred):
        return sorted(e for e, (b, _, why, g) in self.entry.items() if pred(b, why, g))


def only_sym(lib):
    return "c17_only_%s" % lib.tag


def make_program(rng, names, want=None, n_extra=None, focus=None):
    """a program with one binding per shared symbol at most (a Never program cannot declare one function name
    twice): c17_who, c17_len, c17_rec each bound to a name of its own, some c17_only_<tag>, absent symbols,
    symbols of another library.  `want`: names that must be used (first for who, then len, rec, only...)"""
    existing = [n for n in names if n.lib is not None]
    missing = [n for n in names if n.lib is None]
    real = [n for n in existing if n.lib is not HOST]
    want = list(want or [])
    bs = []

    def pick(pool):
        return want.pop(0) if want else rng.choice(pool)

    def add(kind, name, sym):
        bs.append(Binding(len(bs), kind, name, sym))

    add("who", pick(existing + missing[:2]), "c17_who")
    add("len", pick(existing), "c17_len")
    add("rec", pick(existing), "c17_rec")
    used = set()
    for _ in range(n_extra if n_extra is not None else rng.randrange(1, 4)):
        nm = pick(existing)
        if nm.lib.tag in used:
            continue
        used.add(nm.lib.tag)
        add("only", nm, only_sym(nm.lib))
    # a symbol that exists nowhere, in an existing library (one that is also used for valid calls when possible)
    add("absent", focus or rng.choice([b.name for b in bs if b.name.lib is not None] or existing), "c17_absent_%d" % len(bs))
    # the private symbol of library A declared for library B (A is loaded in the process, B must not serve it)
    cand = [(a, b) for a in real for b in ([focus] if focus else existing) if a.lib is not b.lib and a.lib.tag not in used]
    if cand:
        a, b = rng.choice(cand)
        used.add(a.lib.tag)
        add("foreign", b, only_sym(a.lib))
    # a missing library
    m = pick(missing)
    free = [l for l in real if l.lib.tag not in used]
    add("only" if free else "absent", m, only_sym(rng.choice(free).lib) if free else "c17_absent_%d" % len(bs))
    return Program(bs)


# ------------------------------------------------------------------------------------------
# histories.  ops: ("prog", h, program index) ("vm", v) ("call", h, v, entry, x) ("vmdel", v) ("progdel", h)
class History(object):
    def __init__(self, hid, family, programs, ops, note=""):
        self.hid, self.family, self.programs, self.ops, self.note = hid, family, programs, ops, note

    def valid(self):
        progs, vms = {}, {}
        for op in self.ops:
            if op[0] == "prog":
                if op[1] in progs:
                    return False
                progs[op[1]] = op[2]
            elif op[0] == "vm":
                if op[1] in vms:
                    return False
                vms[op[1]] = None
            elif op[0] == "call":
                if op[1] not in progs or op[2] not in vms or vms[op[2]] not in (None, op[1]):
                    return False
                if op[3] not in self.programs[progs[op[1]]].entry:
                    return False
                vms[op[2]] = op[1]
            elif op[0] == "vmdel":
                if op[1] not in vms:
                    return False
                del vms[op[1]]
            elif op[0] == "progdel":
                if op[1] not in progs or any(b == op[1] for b in vms.values()):
                    return False           # a VM that ran this program is still alive
                del progs[op[1]]
        return True

    def script(self, srcfile_of):
        out = []
        for op in self.ops:
            if op[0] == "prog":
                out.append("prog %d %s" % (op[1], srcfile_of(op[2])))
            elif op[0] == "call":
                out.append("call %d %d %s %d" % (op[1], op[2], op[3], op[4]))
            else:
                out.append("%s %d" % (op[0], op[1]))
        return out

    def expected(self):
        """per op: None (no transcript demanded beyond not crashing) or for calls
        {"c": '@C' line | None, "x": '@X' line | None (any non-zero ret), "role", "cls", "why"}"""
        progs = {}
        failed_before = False
        out = []
        for op in self.ops:
            if op[0] == "prog":
                progs[op[1]] = self.programs[op[2]]
                out.append({"p": "@P %d ret=0" % op[1]})
            elif op[0] == "call":
                b, _, why, guarded = progs[op[1]].entry[op[3]]
                if why is None:
                    c, r = b.ok_transcript(op[4])
                    out.append({"c": c, "x": "@X ret=0 res=%d" % r, "why": None, "cls": b.name.cls,
                                "role": "valid-call-after-failed-call" if failed_before else "valid-call",
                                "lib": b.name.written})
                else:
                    out.append({"c": None, "x": ("@X ret=0 res=%d" % SENTINEL) if guarded else None, "why": why,
                                "cls": b.name.cls, "role": why, "lib": b.name.written})
                    failed_before = True
            else:
                out.append(None)
        return out

    def to_json(self):
        return {"hid": self.hid, "family": self.family, "note": self.note,
                "programs": [p.source() for p in self.programs], "ops": [list(o) for o in self.ops]}


def fail_entries(prog, kind, guarded):
    return prog.entries_where(lambda b, why, g: why == kind and g == guarded)


def ok_entries(prog, lib=None, guarded=None):
    return prog.entries_where(lambda b, why, g: why is None and (lib is None or b.name.lib is lib) and
                              (guarded is None or g == guarded))


def systematic(rng, names):
    """failure kind x caught/unhandled x scenario; the library in the middle of it rotates over the existing names"""
    real = [n for n in names if n.lib is not None and n.lib is not HOST]
    hs = []
    k = 0
    for kind in FAIL_KINDS:
        for guarded in (True, False):
            for scen in ("same-vm", "other-live-vm", "after-vm-delete", "two-programs"):
                nm = real[k % len(real)]
                k += 1
                other = real[(k * 7 + 3) % len(real)]
                # every shared symbol of program 0 bound to nm: the failing call and the valid ones meet in one library
                p0 = make_program(rng, names, want=[nm, nm, nm, nm], n_extra=1, focus=nm)
                p1 = make_program(rng, names, want=[other, nm, nm, nm], n_extra=1)
                fe = fail_entries(p0, kind, guarded)
                if not fe:
                    continue
                f = rng.choice(fe)
                ok0 = ok_entries(p0, nm.lib)
                ok1 = ok_entries(p1, nm.lib)

                def ok(h, v, pool):
                    return ("call", h, v, rng.choice(pool), rng.randrange(1000))
                if scen == "same-vm":
                    ops = [("prog", 0, 0), ("vm", 0), ok(0, 0, ok0), ("call", 0, 0, f, 3), ok(0, 0, ok0), ok(0, 0, ok0),
                           ("call", 0, 0, f, 4), ok(0, 0, ok0)]
                    ps = [p0]
                elif scen == "other-live-vm":
                    ops = [("prog", 0, 0), ("vm", 0), ("vm", 1), ok(0, 0, ok0), ok(0, 1, ok0), ("call", 0, 0, f, 3),
                           ok(0, 1, ok0), ok(0, 0, ok0), ok(0, 1, ok0)]
                    ps = [p0]
                elif scen == "after-vm-delete":
                    ops = [("prog", 0, 0), ("vm", 0), ("vm", 1), ok(0, 0, ok0), ok(0, 1, ok0), ("call", 0, 0, f, 3),
                           ("vmdel", 0), ok(0, 1, ok0), ("vm", 0), ok(0, 0, ok0), ok(0, 1, ok0)]
                    ps = [p0]
                else:
                    ops = [("prog", 0, 0), ("prog", 1, 1), ("vm", 0), ("vm", 1), ok(0, 0, ok0), ok(1, 1, ok1),
                           ("call", 0, 0, f, 3), ok(1, 1, ok1), ("vmdel", 0), ("progdel", 0), ok(1, 1, ok1), ok(1, 1, ok1)]
                    ps = [p0, p1]
                hs.append(History("q%03d" % len(hs), "failure-then-valid", ps, ops,
                                  "%s (%s), %s, library %r" % (kind, "caught" if guarded else "unhandled", scen, nm.written)))
    return hs


def identity(rng, names):
    """which library does a name denote?  For every name: a program whose shared symbol c17_who (defined in every
    library and in the executable) is bound to it, called between calls into libraries with similar names"""
    hs = []
    existing = [n for n in names if n.lib is not None]
    for i, nm in enumerate(names):
        near = [n for n in existing if n is not nm and n.cls == nm.cls] or existing
        other = rng.choice(near)
        p0 = make_program(rng, names, want=[nm, other, nm if nm.lib else other, nm if nm.lib else other], n_extra=1)
        p1 = make_program(rng, names, want=[other, nm if nm.lib else other], n_extra=2)
        e_who0 = [e for e in ("g0", "u0")]
        ops = [("prog", 0, 0), ("prog", 1, 1), ("vm", 0), ("vm", 1)]
        for _ in range(2):
            ops.append(("call", 1, 1, rng.choice(["g0", "u0"]), rng.randrange(1000)))
            ops.append(("call", 0, 0, rng.choice(e_who0), rng.randrange(1000)))
        every = sorted(p0.entry)
        rng.shuffle(every)
        for e in every[:6]:
            ops.append(("call", 0, 0, e, rng.randrange(1000)))
        ops.append(("call", 1, 1, "g0", rng.randrange(1000)))
        ops.append(("call", 0, 0, "g0", rng.randrange(1000)))
        hs.append(History("n%03d" % i, "library-identity", [p0, p1], ops, "c17_who declared for %r" % nm))
    return hs


def random_history(rng, names, hid):
    nprog = rng.randrange(1, 4)
    ps = [make_program(rng, names) for _ in range(nprog)]
    ops = []
    progs, vms = {}, {}
    for _ in range(rng.randrange(8, 26)):
        r = rng.random()
        if (r < 0.12 or not progs) and len(progs) < nprog:
            h = len(progs)
            progs[h] = h
            ops.append(("prog", h, h))
        elif r < 0.22 and len(vms) < 4:
            v = min(x for x in range(5) if x not in vms)
            vms[v] = None
            ops.append(("vm", v))
        elif r < 0.30 and vms:
            v = rng.choice(sorted(vms))
            del vms[v]
            ops.append(("vmdel", v))
        elif progs:
            h = rng.choice(sorted(progs))
            cand = [v for v in vms if vms[v] in (None, h)]
            if not cand:
                if len(vms) >= 4:
                    continue
                v = min(x for x in range(5) if x not in vms)
                vms[v] = None
                ops.append(("vm", v))
                cand = [v]
            v = rng.choice(sorted(cand))
            vms[v] = h
            p = ps[h]
            # valid calls and failing calls about half and half
            pool = sorted(e for e in p.entry if (p.entry[e][2] is None) == (rng.random() < 0.55)) or sorted(p.entry)
            ops.append(("call", h, v, rng.choice(pool), rng.randrange(1000)))
    h = History(hid, "random", ps, ops)
    assert h.valid(), ops
    return h


def generate(rng, tier, libdir):
    """-> (libs, names, histories)"""
    libs, names = make_names(rng, libdir)
    hs = systematic(rng, names) + identity(rng, names)
    for i in range(40 if tier == "quick" else 600):
        hs.append(random_history(rng, names, "r%03d" % i))
    for h in hs:
        assert h.valid(), (h.hid, h.ops)
    return libs, names, hs


class StoredProgram(object):
    def __init__(self, text):
        self.text = text

    def source(self):
        return self.text


class StoredHistory(History):
    """a corpus entry: self-contained (library constants, program texts, operations, the transcript the property
    demands); @LIBDIR@ in a program text stands for the directory the libraries are built in"""

    def __init__(self, hid, j):
        History.__init__(self, hid, "corpus", [StoredProgram(t) for t in j["programs"]], [tuple(o) for o in j["ops"]],
                         j.get("note", ""))
        self.libs = [Lib(l["tag"], l["relfile"], l["const"]) for l in j["libs"]]
        self.stored_expected = j["expected"]

    def valid(self):
        return True

    def expected(self):
        return self.stored_expected


def store(h, libs, libdir):
    """JSON of a history that StoredHistory reads back"""
    progs = [p.source().replace(libdir, "@LIBDIR@") for p in h.programs]
    need = [l for l in libs if any(('%s"' % l.relfile) in t for t in progs)]     # the libraries some extern names
    return {"note": "%s: %s" % (h.family, h.note), "libs": [{"tag": l.tag, "relfile": l.relfile, "const": l.const} for l in need],
            "programs": progs, "ops": [list(o) for o in h.ops], "expected": h.expected()}
