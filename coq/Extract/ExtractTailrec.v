From Coq Require Import ExtrOcamlBasic.
From NV Require Import Src.Syntax Src.Tailrec.
Extraction "tailrecmodel.ml" tail_calls sub shadowed_on.
