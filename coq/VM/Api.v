(* VM/Api.v — abstract state machine of the embedding API (include/nev.h) at the level where
   property C15 lives.  Definitions only (proofs: VM/ApiProofs.v).  No axioms.

   What is modelled (back/nev.c nev_execute, back/vmexec.c vm_execute, back/vm.c vm_new,
   front/emit.c func_entry_emit) — exactly the bookkeeping the API does AROUND a run of the VM:

     vm_new:        sp = fp = pp = -1, initialized = 0
     nev_execute:   if (machine->initialized == 0) { machine->ip = 0; machine->initialized = 1; }
                    else machine->ip = prog->module_value->code_entry;
                    return vm_execute(machine, prog, result);
       first call:  the code from ip 0 is the global prelude (30 stdlib closures + the program's top
                    level binds): it leaves one stack slot per global, `gdepth m` slots in all, and
                    then FALLS THROUGH into the entry stub emitted right behind it
       entry stub:  LABEL(code_entry) MARK PUSH_PARAM GLOBAL_VEC 0 ID_FUNC_ENTRY CALL LABEL HALT
                    LABEL UNHANDLED_EXCEPTION        (exctab entry [0..) -> the last label)
     vm_execute:    runs until machine->running != VM_RUNNING;
                    VM_HALT : *result = *gc_get_object(collector, stack[sp].addr); return 0;
                              -- the pinned tree does NOT pop the result slot
                    VM_ERROR: prints the machine, returns 1 -- sp/fp/pp stay where the run stopped
     vm_check_stack: sp >= stack_size -> "stack too large", exit(1): the PROCESS ends

   What is a parameter (Section variables; recorded in the trusted base): the instruction-level
   VM.  `init m` is the run of the global prelude, `exec m e a g` the run of the entry stub for
   entry e with arguments a over globals g; each returns what the API level can see of it:
     - the outcome: Halted v (HALT reached: by the frame discipline that property C07's verifier
       theorem covers — MARK at sp = s ... CALL ... RET puts the result at s+1 and sets sp = s+1 —
       exactly ONE slot lies above the starting sp); Unhandled e (the exception unwound every frame
       through RETHROW = RET + re-raise, so again exactly one slot, then the stub's handler
       UNHANDLED_EXCEPTION set VM_ERROR); Aborted r (VM_ERROR raised in the middle of a frame —
       a failed assert —: r slots are left above the starting sp);
     - the globals afterwards (the contents of the global cells: the only state a later call sees);
     - the peak stack depth reached, relative to the starting sp.
   The model says what sp, initialized and the globals are after each API call under a POLICY:
     pop_at_halt      : does the VM_HALT branch pop the result slot?            (pinned tree: no)
     restore_on_error : does nev_execute put sp (and initialized) back to what they were when the
                        call started if vm_execute fails?                       (pinned tree: no)
   Compile-time determinism/isolation (flex/bison/utils.c globals) is NOT modelled here: no Gallina
   state expresses it; that part of C15 is correspondence-only (checks/c15.py, oracle 1). *)
From Coq Require Import ZArith List Bool.
Import ListNotations.
Local Open Scope Z_scope.

Record policy := { pop_at_halt : bool; restore_on_error : bool }.
Definition pinned_policy   := {| pop_at_halt := false; restore_on_error := false |}.
Definition popfix_policy   := {| pop_at_halt := true;  restore_on_error := false |}.
Definition repaired_policy := {| pop_at_halt := true;  restore_on_error := true |}.

Section Api.
  Variables Module Entry Args G Value Exc : Type.

  Inductive outcome :=
  | Halted (v : Value)
  | Unhandled (e : Exc)
  | Aborted (residue : Z).

  Inductive init_outcome :=
  | InitOk (g : G)
  | InitFailed (residue : Z).

  (* the instruction-level VM, as seen from the API *)
  Variable gdepth : Module -> Z.                                  (* number of global slots *)
  Variable init : Module -> init_outcome * Z.                     (* outcome, peak *)
  Variable exec : Module -> Entry -> Args -> G -> outcome * G * Z. (* outcome, globals, peak *)
  Variable gnone : G.                                             (* "no globals yet" *)

  Variable pol : policy.

  Record vm := mkvm { initialized : bool; sp : Z; globals : G; stack_size : Z }.

  Definition vm_new (ss : Z) : vm := mkvm false (-1) gnone ss.

  (* what the embedding application sees of one nev_execute *)
  Inductive result :=
  | RHalt (v : Value)        (* returns 0, *result filled from stack[sp] *)
  | RUnhandled (e : Exc)     (* returns 1 after "unhandled ... exception" *)
  | RAborted                 (* returns 1 after "assert failed" *)
  | RInitFailed              (* returns 1: the global initialisation itself failed *)
  | RDied.                   (* "stack too large": exit(1) *)

  (* vm_check_stack: the run dies iff its peak reaches stack_size *)
  Definition over (v : vm) (start peak : Z) : bool := stack_size v <=? start + peak.

  (* the entry stub, started with sp = sp v, globals = globals v; returns the absolute peak too *)
  Definition run_stub (v : vm) (m : Module) (e : Entry) (a : Args) : result * Z * vm :=
    let '(o, g', pk) := exec m e a (globals v) in
    let s := sp v in
    if over v s pk then (RDied, s + pk, v) else
    match o with
    | Halted x =>
        (RHalt x, s + pk, mkvm true (if pop_at_halt pol then s else s + 1) g' (stack_size v))
    | Unhandled ex =>
        (RUnhandled ex, s + pk, mkvm true (if restore_on_error pol then s else s + 1) g' (stack_size v))
    | Aborted r =>
        (RAborted, s + pk, mkvm true (if restore_on_error pol then s else s + r) g' (stack_size v))
    end.

  (* did the call come back with a result (or end the process)? *)
  Definition returns (r : result) : bool :=
    match r with RHalt _ => true | RDied => true | _ => false end.

  (* nev_execute.  Under restore_on_error a FIRST call that fails — in the global initialisation or
     in the entry stub — leaves the VM as vm_new made it (sp, initialized put back): initialisation
     is redone by the next call. *)
  Definition execute (v : vm) (m : Module) (e : Entry) (a : Args) : result * Z * vm :=
    if initialized v then run_stub v m e a
    else
      let '(io, pk) := init m in
      if over v (sp v) pk then (RDied, sp v + pk, v) else
      match io with
      | InitFailed r =>
          (RInitFailed, sp v + pk,
           if restore_on_error pol then v else mkvm true (sp v + r) gnone (stack_size v))
      | InitOk g =>
          let v1 := mkvm true (sp v + gdepth m) g (stack_size v) in
          let '(r, pk2, v2) := run_stub v1 m e a in
          (r, Z.max (sp v + pk) pk2,
           if restore_on_error pol then (if returns r then v2 else v) else v2)
      end.

  (* a fresh VM right after a successful global initialisation, its globals replaced by g:
     "a fresh VM primed with the earlier calls' global-variable effects" *)
  Definition base (m : Module) : Z := -1 + gdepth m.
  Definition primed (ss : Z) (m : Module) (g : G) : vm := mkvm true (base m) g ss.

  (* a sequence of calls of one program on one VM; stops when the process dies *)
  Fixpoint run_calls (v : vm) (m : Module) (cs : list (Entry * Args)) : list (result * Z) * vm :=
    match cs with
    | [] => ([], v)
    | (e, a) :: cs' =>
        let '(r, pk, v') := execute v m e a in
        match r with
        | RDied => ([(r, pk)], v')
        | _ => let '(rs, v'') := run_calls v' m cs' in ((r, pk) :: rs, v'')
        end
    end.

  (* every state a VM goes through (before each call and at the end) *)
  Fixpoint states (v : vm) (m : Module) (cs : list (Entry * Args)) : list vm :=
    match cs with
    | [] => [v]
    | (e, a) :: cs' =>
        let '(r, _, v') := execute v m e a in
        match r with
        | RDied => [v; v']
        | _ => v :: states v' m cs'
        end
    end.

  Definition died (rs : list (result * Z)) : bool :=
    existsb (fun rp => match fst rp with RDied => true | _ => false end) rs.

  (* ---- several VMs alive at once: a pool of VM records addressed by handles --------------- *)
  Definition pool := nat -> option vm.
  Definition pool_empty : pool := fun _ => None.
  Definition pool_set (p : pool) (h : nat) (x : option vm) : pool :=
    fun k => if Nat.eqb k h then x else p k.

  Inductive op :=
  | NewVM (h : nat) (ss : Z)
  | Execute (h : nat) (m : Module) (e : Entry) (a : Args)
  | DeleteVM (h : nat).

  Definition op_handle (o : op) : nat :=
    match o with NewVM h _ => h | Execute h _ _ _ => h | DeleteVM h => h end.

  Inductive obs := ONone | ORefused | OResult (r : result) (peak : Z) (sp_before sp_after : Z).

  Definition api_step (p : pool) (o : op) : pool * obs :=
    match o with
    | NewVM h ss => match p h with
                    | Some _ => (p, ORefused)
                    | None => (pool_set p h (Some (vm_new ss)), ONone)
                    end
    | DeleteVM h => match p h with
                    | Some _ => (pool_set p h None, ONone)
                    | None => (p, ORefused)
                    end
    | Execute h m e a => match p h with
                         | None => (p, ORefused)
                         | Some v => let '(r, pk, v') := execute v m e a in
                                     (pool_set p h (Some v'), OResult r pk (sp v) (sp v'))
                         end
    end.

  Definition obs_died (o : obs) : bool :=
    match o with OResult RDied _ _ _ => true | _ => false end.

  (* a history of API calls; nothing happens after the process died *)
  Fixpoint run_history (p : pool) (os : list op) : pool * list obs :=
    match os with
    | [] => (p, [])
    | o :: os' =>
        let '(p', ob) := api_step p o in
        if obs_died ob then (p', [ob])
        else let '(p'', obs') := run_history p' os' in (p'', ob :: obs')
    end.
End Api.

Arguments Halted {Value Exc} _.
Arguments Unhandled {Value Exc} _.
Arguments Aborted {Value Exc} _.
Arguments InitOk {G} _.
Arguments InitFailed {G} _.
Arguments RHalt {Value Exc} _.
Arguments RUnhandled {Value Exc} _.
Arguments RAborted {Value Exc}.
Arguments RInitFailed {Value Exc}.
Arguments RDied {Value Exc}.
Arguments mkvm {G} _ _ _ _.
Arguments initialized {G} _.
Arguments sp {G} _.
Arguments globals {G} _.
Arguments stack_size {G} _.
Arguments vm_new {G} _ _.
Arguments over {G} _ _ _.
Arguments primed {Module G} _ _ _ _.
Arguments base {Module} _ _.
Arguments NewVM {Module Entry Args} _ _.
Arguments Execute {Module Entry Args} _ _ _ _.
Arguments DeleteVM {Module Entry Args} _.
Arguments ONone {Value Exc}.
Arguments ORefused {Value Exc}.
Arguments OResult {Value Exc} _ _ _ _.
Arguments pool_empty {G}.

(* ---- a concrete instance used for the refutation witnesses and the Examples ----------------
   One module with 32 global slots (30 stdlib closures + `var counter` + `main`: the numbers measured
   on the probe program of checks/c15.py — corpus/C15/probe.nev — with the pinned tree: sp = 31 when
   code_entry is first reached, peak 39 in the first call), an entry that halts and needs 8 slots
   above the starting sp, one that ends in an unhandled exception, one in a failed assert. *)
Inductive toy_entry := TMain | TThrow | TAssert.

Definition toy_gdepth (_ : unit) : Z := 32.
Definition toy_init (_ : unit) : init_outcome nat * Z := (InitOk 0%nat, 38).
Definition toy_exec (_ : unit) (e : toy_entry) (_ : unit) (g : nat) : outcome Z unit * nat * Z :=
  match e with
  | TMain => (Halted (Z.of_nat g), S g, 8)
  | TThrow => (Unhandled tt, S g, 9)
  | TAssert => (Aborted 13, S g, 13)
  end.

Definition toy_execute (pol : policy) := execute unit toy_entry unit nat Z unit toy_gdepth toy_init toy_exec 0%nat pol.
Definition toy_run (pol : policy) (ss : Z) (cs : list (toy_entry * unit)) :=
  run_calls unit toy_entry unit nat Z unit toy_gdepth toy_init toy_exec 0%nat pol (vm_new 0%nat ss) tt cs.
Definition toy_states (pol : policy) (ss : Z) (cs : list (toy_entry * unit)) :=
  states unit toy_entry unit nat Z unit toy_gdepth toy_init toy_exec 0%nat pol (vm_new 0%nat ss) tt cs.

(* index (1-based) of the call that kills the process, if any *)
Definition death_call {V E} (rs : list (result V E * Z)) : option nat :=
  if died V E rs then Some (length rs) else None.
