(* Extraction of the stage-4 compiler model (Src/Compile4.v: Compile3.v + nested functions and closures)
   and of the value-level VM with typed heap cells and gp (VM/ValueVM4.v) for the tie
   harness/ocaml/compile4 + checks/parts/compiletie.py level 4 (C02, compile correctness).
   ExtrOcamlBasic only: nat, N, Z, positive stay extracted datatypes.
   Model sources: NV.Src.Syntax NV.Src.Eval NV.Src.Compile4 NV.VM.ValueVM4 NV.Gen.Opcodes NV.Verifier.Effect *)
From Coq Require Import ExtrOcamlBasic.
From NV Require Import Gen.Opcodes Verifier.Effect Src.Syntax Src.Eval Src.Compile4 VM.ValueVM4.

Extraction "compilemodel.ml"
  fd_name fd_params fd_ret fd_body fd_catches fd_catch_all
  N_of_opcode opcode_of_N
  wrap32 run_program int_shaped
  compile_program exc_table code_entry main_addr prog_in_F prog_in_P run_vm run_vm_peak.
