/* bidrive — calls back/libvm.c libvm_execute_build_in directly with the floating-point status flags
 * PRESET to every subset of {divbyzero, invalid, overflow, underflow, inexact} (what earlier float
 * arithmetic of the VM may have left behind), for every math built-in on a list of argument classes
 * and a few non-math built-ins.  One line per call on stdout:
 *
 *     ROW <builtin> <arg> <before> <own> <observed> <value_ok>
 *
 *   before    mask of the flags raised before the call (bit 0 div, 1 invalid, 2 overflow, 3 underflow,
 *             4 inexact)
 *   own       mask of the flags the operation itself raises on that argument: for the math built-ins
 *             measured by calling the C library function directly from a clean status, for the others
 *             by running the built-in from a clean status
 *   observed  0 = the value was delivered (machine keeps running), else the except_no raised
 *   value_ok  1 when the delivered value has the bit pattern the C library function returns (math), or
 *             the call left one value on the stack (others); - when an exception was raised
 *
 * The model (coq/Exc/BuiltinFlags.v run_builtin) predicts `observed` from (before, own); the check
 * compiles the rows into a Coq term and has coqc evaluate the comparison.
 */
#define _GNU_SOURCE
#include <stdio.h>
#include <stdlib.h>
#include <string.h>
#include <math.h>
#include <fenv.h>
#include "nev.h"
#include "vm.h"
#include "gc.h"
#include "bytecode.h"
#include "libmath.h"
#include "libvm.h"

static int mask_of(int fe)
{
    return ((fe & FE_DIVBYZERO) ? 1 : 0) | ((fe & FE_INVALID) ? 2 : 0) | ((fe & FE_OVERFLOW) ? 4 : 0)
         | ((fe & FE_UNDERFLOW) ? 8 : 0) | ((fe & FE_INEXACT) ? 16 : 0);
}

static int fe_of(int mask)
{
    return ((mask & 1) ? FE_DIVBYZERO : 0) | ((mask & 2) ? FE_INVALID : 0) | ((mask & 4) ? FE_OVERFLOW : 0)
         | ((mask & 8) ? FE_UNDERFLOW : 0) | ((mask & 16) ? FE_INEXACT : 0);
}

typedef struct { const char * name; unsigned int bits; } farg;
typedef struct { const char * name; unsigned int xb, yb; } parg;

static float f_of(unsigned int b) { float f; memcpy(&f, &b, 4); return f; }
static unsigned int b_of(float f) { unsigned int b; memcpy(&b, &f, 4); return b; }

static farg fargs[] = {
    { "zero", 0x00000000u }, { "one", 0x3f800000u }, { "two", 0x40000000u }, { "four", 0x40800000u },
    { "ten", 0x41200000u }, { "minus-one", 0xbf800000u }, { "inf", 0x7f800000u }, { "minus-inf", 0xff800000u },
    { "nan", 0x7fc00000u }, { "denormal", 0x000116c2u }, { "thousand", 0x447a0000u }, { "minus-thousand", 0xc47a0000u },
    { "minus-hundred", 0xc2c80000u }, { "big", 0x7149f2cau }, { "half-pi", 0x3fc90fdbu },
};
static parg pargs[] = {
    { "2^3", 0x40000000u, 0x40400000u }, { "2^0.5", 0x40000000u, 0x3f000000u }, { "0^-1", 0x00000000u, 0xbf800000u },
    { "-1^0.5", 0xbf800000u, 0x3f000000u }, { "10^100", 0x41200000u, 0x42c80000u }, { "10^-100", 0x41200000u, 0xc2c80000u },
    { "inf^1", 0x7f800000u, 0x3f800000u }, { "nan^0", 0x7fc00000u, 0x00000000u }, { "nan^1", 0x7fc00000u, 0x3f800000u },
    { "0^0", 0x00000000u, 0x00000000u },
};

static vm * machine;

static float libm1(unsigned int id, volatile float x)
{
    switch (id)
    {
    case LIB_MATH_SIN: return sinf(x);
    case LIB_MATH_COS: return cosf(x);
    case LIB_MATH_TAN: return tanf(x);
    case LIB_MATH_EXP: return expf(x);
    case LIB_MATH_LOG: return logf(x);
    case LIB_MATH_SQRT: return sqrtf(x);
    }
    return 0;
}

static void reset_machine(void)
{
    machine->sp = -1;
    machine->running = VM_RUNNING;
    machine->exception = EXCEPT_NO_UNKNOWN;
}

static void push(mem_ptr addr)
{
    gc_stack e = { 0 };
    e.type = GC_MEM_ADDR;
    e.addr = addr;
    machine->sp++;
    machine->stack[machine->sp] = e;
}

static void report(const char * bname, const char * aname, int before, int own, int have_val, unsigned int want_bits)
{
    int observed = (machine->running == VM_EXCEPTION) ? (int)machine->exception : (machine->running == VM_RUNNING ? 0 : -1);
    const char * vok = "-";
    if (observed == 0)
    {
        vok = "1";
        if (machine->sp != 0) vok = "0";
        else if (have_val)
        {
            float got = gc_get_float(machine->collector, machine->stack[machine->sp].addr);
            if (b_of(got) != want_bits && !(got != got && f_of(want_bits) != f_of(want_bits))) vok = "0";
        }
    }
    printf("ROW %s %s %d %d %d %s\n", bname, aname, before, own, observed, vok);
}

int main(void)
{
    unsigned int ids[] = { LIB_MATH_SIN, LIB_MATH_COS, LIB_MATH_TAN, LIB_MATH_EXP, LIB_MATH_LOG, LIB_MATH_SQRT };
    unsigned int i, a;
    int before;
    bytecode code;

    memset(&code, 0, sizeof(code));
    code.type = BYTECODE_BUILD_IN;
    machine = vm_new(1 << 20, 1 << 10);
    /* the diagnostics of the built-ins ("an error occurred in build in function ...") go to stderr */
    freopen("/dev/null", "w", stderr);

    for (i = 0; i < sizeof(ids) / sizeof(ids[0]); i++)
    {
        for (a = 0; a < sizeof(fargs) / sizeof(fargs[0]); a++)
        {
            volatile float x = f_of(fargs[a].bits);
            float want;
            int own;
            feclearexcept(FE_ALL_EXCEPT);
            want = libm1(ids[i], x);
            own = mask_of(fetestexcept(FE_ALL_EXCEPT));
            for (before = 0; before < 32; before++)
            {
                mem_ptr p;
                reset_machine();
                p = gc_alloc_float(machine->collector, x);
                push(p);
                code.build_in.id = ids[i];
                feclearexcept(FE_ALL_EXCEPT);
                feraiseexcept(fe_of(before));
                libvm_execute_build_in(machine, &code);
                report(libmath_func_to_str(ids[i]), fargs[a].name, before, own, 1, b_of(want));
            }
        }
    }
    for (a = 0; a < sizeof(pargs) / sizeof(pargs[0]); a++)
    {
        volatile float x = f_of(pargs[a].xb), y = f_of(pargs[a].yb);
        float want;
        int own;
        feclearexcept(FE_ALL_EXCEPT);
        want = powf(x, y);
        own = mask_of(fetestexcept(FE_ALL_EXCEPT));
        for (before = 0; before < 32; before++)
        {
            reset_machine();
            push(gc_alloc_float(machine->collector, y));
            push(gc_alloc_float(machine->collector, x));
            code.build_in.id = LIB_MATH_POW;
            feclearexcept(FE_ALL_EXCEPT);
            feraiseexcept(fe_of(before));
            libvm_execute_build_in(machine, &code);
            report("pow", pargs[a].name, before, own, 1, b_of(want));
        }
    }
    /* built-ins that are not math functions: own flags = what a run from a clean status leaves */
    {
        struct { unsigned int id; const char * arg; int kind; } others[] = {
            { LIB_MATH_STR, "int", 0 }, { LIB_MATH_CHR, "int", 0 }, { LIB_MATH_ORD, "char", 1 },
            { LIB_MATH_STRF, "float-1.5", 2 }, { LIB_MATH_STRF, "float-inf", 3 }, { LIB_MATH_STRF, "float-tenth", 4 },
            { LIB_MATH_ASSERTF, "zero-delta", 5 },
        };
        unsigned int o;
        for (o = 0; o < sizeof(others) / sizeof(others[0]); o++)
        {
            int own = 0;
            for (before = -1; before < 32; before++)
            {
                reset_machine();
                switch (others[o].kind)
                {
                case 0: push(gc_alloc_int(machine->collector, 65)); break;
                case 1: push(gc_alloc_char(machine->collector, 'a')); break;
                case 2: push(gc_alloc_float(machine->collector, 1.5f)); break;
                case 3: push(gc_alloc_float(machine->collector, f_of(0x7f800000u))); break;
                case 4: push(gc_alloc_float(machine->collector, 0.1f)); break;
                case 5: push(gc_alloc_float(machine->collector, 0.5f)); push(gc_alloc_float(machine->collector, 0.0f)); break;
                }
                code.build_in.id = others[o].id;
                feclearexcept(FE_ALL_EXCEPT);
                if (before >= 0) feraiseexcept(fe_of(before));
                libvm_execute_build_in(machine, &code);
                if (before < 0)
                {
                    own = mask_of(fetestexcept(FE_ALL_EXCEPT));
                }
                else
                {
                    report(libmath_func_to_str(others[o].id), others[o].arg, before, own, 0, 0);
                }
            }
        }
    }
    feclearexcept(FE_ALL_EXCEPT);
    printf("DONE\n");
    fflush(stdout);
    return 0;
}
