(* Abstract syntax of the modelled core of Never (DESIGN.md Appendix B).  Names are numbers;
   the pretty-printer of the harness turns `x` into an identifier.  Types are carried for the
   pretty-printer and the model typechecker only; the evaluator ignores them. *)
From Coq Require Import ZArith List.
Import ListNotations.

Definition ident := N.

Inductive ty :=
| TInt | TBool
| TFun (args : list ty) (ret : ty)
| TArr (elem : ty)                 (* one-dimensional arrays *)
| TRec (r : ident).

Inductive binop :=
| Add | Sub | Mul | Div | Mod
| Lt | Le | Gt | Ge | Eq | Ne
| And | Or                          (* short-circuit, on bool *)
| BAnd | BOr | BXor | Shl | Shr.    (* &&& ||| ^^^ <<< >>> on int *)

(* exception numbers of include/vm.h (except_no) *)
Inductive exn := ExDivision | ExArrSize | ExIndexOob | ExInvalid | ExOverflow | ExUnderflow
               | ExInexact | ExNil | ExFfi.

Inductive expr :=
| EInt (z : Z)
| EBool (b : bool)
| EVar (x : ident)
| ENeg (e : expr)
| ENot (e : expr)                   (* ! on bool *)
| EBNot (e : expr)                  (* ~~~ on int *)
| EBin (op : binop) (a b : expr)
| ECond (c a b : expr)              (* c ? a : b   and   if (c) { a } else { b } *)
| EIf (c a : expr)                  (* if (c) { a }  without else: value 0 *)
| EAssign (lhs rhs : expr)
| ECall (f : expr) (args : list expr)
| EBlock (items : list item)
| EWhile (c body : expr)
| EDoWhile (body c : expr)
| EFor (init cond incr body : expr)
| EForInRange (x : ident) (a b : expr) (body : expr)   (* for (x in [a .. b]) body *)
| EForInArr (x : ident) (arr : expr) (body : expr)     (* for (x in arr) body, arr a 1-dim array *)
| ELambda (fd : fdef)               (* let func (...) -> T { ... } *)
| EArrLit (es : list expr) (t : ty)
| EIndex (a i : expr)
| ERecNew (r : ident) (args : list expr)
| ERecNil (r : ident)               (* nil used at record type r *)
| EField (e : expr) (r : ident) (fld : nat)   (* e.fld ; fld = position in record r *)
| EPrint (e : expr)                 (* print(e) on int: prints the number and a newline, yields it *)
with item :=
| ILet (x : ident) (e : expr)
| IVar (x : ident) (e : expr)
| IFunc (fd : fdef)
| IExpr (e : expr)
with fdef :=
| FDef (name : ident)
       (params : list (ident * bool * ty))     (* name, declared `var`, type *)
       (ret : ty)
       (body : list item)
       (catches : list (exn * list item))
       (catch_all : option (list item)).

Definition fd_name (f : fdef) := match f with FDef n _ _ _ _ _ => n end.
Definition fd_params (f : fdef) := match f with FDef _ p _ _ _ _ => p end.
Definition fd_ret (f : fdef) := match f with FDef _ _ r _ _ _ => r end.
Definition fd_body (f : fdef) := match f with FDef _ _ _ b _ _ => b end.
Definition fd_catches (f : fdef) := match f with FDef _ _ _ _ c _ => c end.
Definition fd_catch_all (f : fdef) := match f with FDef _ _ _ _ _ c => c end.

(* record declarations: field types by position *)
Definition recdecl := (ident * list ty)%type.

Record program := {
  p_recs : list recdecl;
  p_funcs : list fdef;        (* top-level functions, mutually visible *)
  p_main : ident              (* entry function *)
}.
