(* Arith/IntOpsProofs.v — value-level theorems about the integer operations, for ALL operand
   values and every width n > 0 (instantiated at 32 and 64 in Properties_C11.v). *)
From Coq Require Import ZArith Bool Lia.
From NV Require Import Arith.Bits Arith.BitsProofs Arith.IntOps.
Local Open Scope Z_scope.

(* + - * and unary - are the ring operations of Z/2^n: the result is in range, congruent to
   the mathematical result, and operands may be wrapped before or after *)
Theorem wrap_ring_hom : forall n a b, 0 < n ->
  (in_range n (iadd n a b) /\ (iadd n a b) mod modulus n = (a + b) mod modulus n) /\
  (in_range n (isub n a b) /\ (isub n a b) mod modulus n = (a - b) mod modulus n) /\
  (in_range n (imul n a b) /\ (imul n a b) mod modulus n = (a * b) mod modulus n) /\
  (in_range n (ineg n a) /\ (ineg n a) mod modulus n = (- a) mod modulus n) /\
  iadd n (wrap n a) (wrap n b) = wrap n (a + b) /\
  isub n (wrap n a) (wrap n b) = wrap n (a - b) /\
  imul n (wrap n a) (wrap n b) = wrap n (a * b) /\
  ineg n (wrap n a) = wrap n (- a).
Proof.
  intros n a b Hn. unfold iadd, isub, imul, ineg.
  repeat split; try (now apply wrap_in_range); try (now apply wrap_congr).
  - now apply wrap_add.
  - now apply wrap_sub.
  - now apply wrap_mul.
  - now apply wrap_opp.
Qed.

(* no wrap-around happens when the mathematical result fits *)
Theorem arith_exact_when_fits : forall n a b, 0 < n ->
  (in_range n (a + b) -> iadd n a b = a + b) /\
  (in_range n (a - b) -> isub n a b = a - b) /\
  (in_range n (a * b) -> imul n a b = a * b).
Proof. intros. unfold iadd, isub, imul. repeat split; intro; now apply wrap_id. Qed.

(* division truncates toward zero; the remainder has the sign of the dividend *)
Theorem div_truncates : forall n a b, 0 < n -> in_range n a -> in_range n b ->
  b <> 0 -> div_overflows n a b = false ->
  exists q r, idiv n a b = IVal q /\ imod n a b = IVal r /\
    a = b * q + r /\ Z.abs r < Z.abs b /\ (r = 0 \/ Z.sgn r = Z.sgn a) /\
    Z.abs (b * q) <= Z.abs a /\ in_range n q /\ in_range n r.
Proof.
  intros n a b Hn Ha Hb Hb0 Hov.
  exists (Z.quot a b), (Z.rem a b).
  unfold idiv, imod. rewrite Hov.
  destruct (b =? 0) eqn:E; [apply Z.eqb_eq in E; contradiction|].
  pose proof (Z.quot_rem' a b) as Hqr.
  pose proof (Z.rem_bound_abs a b Hb0) as Hrb.
  assert (Hsgn : Z.rem a b = 0 \/ Z.sgn (Z.rem a b) = Z.sgn a).
  { destruct (Z.eq_dec (Z.rem a b) 0); [left; assumption | right; now apply Z.rem_sign]. }
  assert (Habs : Z.abs (b * Z.quot a b) <= Z.abs a).
  { rewrite Z.mul_comm. apply Z.mul_quot_le_abs... }
  repeat split; try assumption; try reflexivity.
  all: unfold in_range in *; unfold div_overflows, int_min in Hov.
Abort.
