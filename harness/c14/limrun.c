/* limrun — run one Never program under many (heap size, stack size) pairs (property C14).
 *
 *   limrun [--entry NAME] [--arg A]... [--stdin FILE] [--timeout SEC] [--max-steps N]
 *          [--dump FILE] [--trace FILE] [--redzone N] PROGRAM.nev MEM:STACK [MEM:STACK ...]
 *
 * The program is compiled once with the tree's compiler (libnev.a built from /repo's current
 * tree, ASan+UBSan, -DNEVER_VERIF).  Every MEM:STACK pair is run in a forked child:
 * vm_new(MEM, STACK); nev_execute.  stdout and stderr of the child are captured separately.
 * The per-instruction hook H1 counts dispatched instructions and remembers the last one, in
 * memory shared with the parent, so the numbers survive exit(1) and sanitizer aborts.
 *
 *   --dump FILE    module dump: CODE <n> ENTRY <e>, I <addr> <op> <w0> <w1> <w2> <w3>, T functab
 *   --trace FILE   for the FIRST pair only: one line "t <ip> <sp>" per dispatched instruction
 *                  (state before it executes)
 *   --redzone N    write detector on both sides of the configured stack: after vm_new the stack
 *                  array is replaced by one of N + STACK + N slots, machine->stack pointing at slot
 *                  N of it (machine->stack_size untouched), all bytes 0xA5.  At exit (normal end,
 *                  exit(1) of a reported limit) the guard slots are compared with the pattern:
 *                  rz=<front guard slots changed>,<back guard slots changed>,<lowest stack index
 *                  >= STACK that changed | -1>.  A store further away than N slots still meets the
 *                  sanitizer's own red zone.  Without the option: rz=- and the array is the exact
 *                  malloc(STACK * sizeof(gc_stack)) of vm_new, watched by ASan.
 *
 * One line per pair on stdout:
 *   R mem=<M> stack=<S> status=<exit N|signal N|timeout|budget> steps=<n> last=<ip>,<sp>,<op>
 *     peak=<max sp seen before an instruction> ret=<nev_execute ret|-> result=<type>:<value>|-
 *     nilcell=<0|1: cell 0 of the heap holds an object at exit>
 *     heap=<free list head>,<cells 1.. holding an object>,<mem_size>   (at exit)
 *     rz=<front>,<back>,<first>|-   (see --redzone)
 *     extent=<bytes allocated>/<bytes configured> for machine->stack, collector->mem, wb_list[0], wb_list[1]
 *            right after vm_new (stack_size * sizeof(gc_stack), mem_size * sizeof(gc_mem), mem_size * sizeof(mem_ptr))
 *     out=<hex stdout> err=<hex stderr>
 * First line: COMPILE <ret>; after a failed prepare: PREPARE <ret>.
 */
#define _GNU_SOURCE
#include <stdio.h>
#include <stdlib.h>
#include <string.h>
#include <unistd.h>
#include <signal.h>
#include <fcntl.h>
#include <sys/mman.h>
#include <sys/wait.h>
#include <sys/types.h>
#include "nev.h"
#include "module.h"
#include "bytecode.h"
#include "functab.h"
#include "gc.h"
#include "vm.h"

/* exact size of a malloc'ed block as recorded by the sanitizer run-time (ASan builds) */
#if defined(__SANITIZE_ADDRESS__)
extern size_t __sanitizer_get_allocated_size(const volatile void * p);   /* libasan */
#define HAVE_ALLOC_SIZE 1
#else
#define HAVE_ALLOC_SIZE 0
#endif

#ifdef NEVER_VERIF
extern void (*nev_verif_step_hook)(vm * machine, bytecode * code);
#endif

typedef struct
{
    volatile unsigned long steps;
    volatile int last_ip, last_sp, last_op, peak_sp;
    volatile int ret, have_ret, result_type, budget, nilcell;
    volatile unsigned heap_free, heap_used, heap_size;
    volatile long ext_have, ext_stack, ext_mem, ext_wb0, ext_wb1;
    volatile long long result_bits;
    volatile int rz_have, rz_front, rz_back, rz_first;
} shared;

static shared * sh;
static unsigned long max_steps = 5000000;
static FILE * tracef = NULL;
static vm * g_machine = NULL;
static int redzone = 0;
static gc_stack * rz_base = NULL, * rz_orig = NULL;
static unsigned rz_stack = 0;

static int rz_dirty(const gc_stack * slot)
{
    const unsigned char * b = (const unsigned char *)slot;
    for (size_t k = 0; k < sizeof(gc_stack); k++) if (b[k] != 0xA5) return 1;
    return 0;
}

static void rz_audit(void)
{
    if (!rz_base) return;
    int front = 0, back = 0, first = -1;
    for (int k = 0; k < redzone; k++) if (rz_dirty(rz_base + k)) front++;
    for (int k = 0; k < redzone; k++)
        if (rz_dirty(rz_base + redzone + rz_stack + k)) { back++; if (first < 0) first = (int)rz_stack + k; }
    sh->rz_have = 1; sh->rz_front = front; sh->rz_back = back; sh->rz_first = first;
}

static void step_hook(vm * m, bytecode * bc)
{
    sh->last_ip = (int)m->ip; sh->last_sp = m->sp; sh->last_op = (int)bc->type;
    if (m->sp > sh->peak_sp) sh->peak_sp = m->sp;
    if (tracef) fprintf(tracef, "t %u %d\n", m->ip, m->sp);
    if (++sh->steps > max_steps)
    {
        sh->budget = 1;
        if (tracef) fflush(tracef);
        _exit(0);
    }
}

static void audit(void)
{
    if (tracef) fflush(tracef);
    rz_audit();
    if (g_machine && g_machine->collector && g_machine->collector->mem && g_machine->collector->mem_size > 0)
    {
        gc * c = g_machine->collector;
        unsigned used = 0;
        sh->nilcell = c->mem[0].object_value != NULL;
        for (unsigned a = 1; a < c->mem_size; a++) if (c->mem[a].object_value != NULL) used++;
        sh->heap_free = c->free; sh->heap_used = used; sh->heap_size = c->mem_size;
    }
}

static void hexfile(const char * path, size_t limit)
{
    FILE * f = fopen(path, "rb");
    unsigned char b[4096]; size_t k, total = 0;
    if (!f) return;
    while ((k = fread(b, 1, sizeof b, f)) > 0 && total < limit)
    {
        for (size_t j = 0; j < k && total < limit; j++, total++) printf("%02x", b[j]);
    }
    fclose(f);
}

int main(int argc, char ** argv)
{
    const char * file = NULL, * entry = "main", * dump = NULL, * trace = NULL, * stdin_file = "/dev/null";
    char * args[64]; int nargs = 0; int timeout = 20; int i;
    const char * pairs[4096]; int npairs = 0;
    for (i = 1; i < argc; i++)
    {
        if (!strcmp(argv[i], "--entry") && i + 1 < argc) entry = argv[++i];
        else if (!strcmp(argv[i], "--arg") && i + 1 < argc) { if (nargs < 63) args[nargs++] = argv[++i]; }
        else if (!strcmp(argv[i], "--stdin") && i + 1 < argc) stdin_file = argv[++i];
        else if (!strcmp(argv[i], "--timeout") && i + 1 < argc) timeout = atoi(argv[++i]);
        else if (!strcmp(argv[i], "--max-steps") && i + 1 < argc) max_steps = strtoul(argv[++i], NULL, 10);
        else if (!strcmp(argv[i], "--dump") && i + 1 < argc) dump = argv[++i];
        else if (!strcmp(argv[i], "--trace") && i + 1 < argc) trace = argv[++i];
        else if (!strcmp(argv[i], "--redzone") && i + 1 < argc) redzone = atoi(argv[++i]);
        else if (!file) file = argv[i];
        else if (npairs < 4096) pairs[npairs++] = argv[i];
    }
    args[nargs] = NULL;
    if (!file) { fprintf(stderr, "usage: limrun [options] PROGRAM.nev MEM:STACK ...\n"); return 2; }
    setvbuf(stdout, NULL, _IOLBF, 0);

    program * prog = program_new();
    int ret = nev_compile_file(file, prog);
    printf("COMPILE %d\n", ret);
    if (ret != 0) { program_delete(prog); return 0; }

    if (dump)
    {
        FILE * d = fopen(dump, "w");
        module * m = prog->module_value;
        if (!d) { perror(dump); return 2; }
        fprintf(d, "COMPILE 0\nCODE %u ENTRY %u\n", m->code_size, m->code_entry);
        for (unsigned a = 0; a < m->code_size; a++)
        {
            bytecode * bc = m->code_arr + a;
            int w[4] = { 0, 0, 0, 0 };
            size_t off = (size_t)((char *)&bc->int_t - (char *)bc);
            size_t n = sizeof(bytecode) - off; if (n > 16) n = 16;
            memcpy(w, (char *)bc + off, n);
            fprintf(d, "I %u %d %d %d %d %d\n", bc->addr, (int)bc->type, w[0], w[1], w[2], w[3]);
        }
        functab * ft = m->functab_value;
        for (unsigned e = 0; e < ft->size; e++)
            if (ft->entries[e].type != 0)
                fprintf(d, "T %u %d %u %s\n", ft->entries[e].func_addr, ft->entries[e].entry_type,
                        ft->entries[e].params_count, ft->entries[e].id ? ft->entries[e].id : "?");
        fclose(d);
    }

    ret = nev_prepare_argc_argv(prog, entry, nargs, args);
    if (ret != 0) { printf("PREPARE %d\n", ret); program_delete(prog); return 0; }

    sh = mmap(NULL, sizeof(shared), PROT_READ | PROT_WRITE, MAP_SHARED | MAP_ANONYMOUS, -1, 0);
    if (sh == MAP_FAILED) { perror("mmap"); return 2; }

    for (i = 0; i < npairs; i++)
    {
        unsigned mem = 0, stack = 0;
        if (sscanf(pairs[i], "%u:%u", &mem, &stack) != 2) { printf("R bad-pair %s\n", pairs[i]); continue; }
        char fo[] = "/var/tmp/limrun.o.XXXXXX", fe[] = "/var/tmp/limrun.e.XXXXXX";
        int ofd = mkstemp(fo), efd = mkstemp(fe);
        if (ofd < 0 || efd < 0) { perror("mkstemp"); return 2; }
        memset((void *)sh, 0, sizeof(shared));
        sh->peak_sp = -1; sh->last_ip = -1; sh->last_sp = -1; sh->last_op = -1;
        fflush(stdout);
        pid_t pid = fork();
        if (pid == 0)
        {
            int ifd = open(stdin_file, O_RDONLY);
            if (ifd >= 0) { dup2(ifd, 0); close(ifd); }
            dup2(ofd, 1); dup2(efd, 2); close(ofd); close(efd);
            setvbuf(stdout, NULL, _IOFBF, 1 << 16);
            if (trace && i == 0) tracef = fopen(trace, "w");
            alarm(timeout);
            atexit(audit);
#ifdef NEVER_VERIF
            nev_verif_step_hook = step_hook;
#endif
            object result = { 0 };
            vm * machine = vm_new(mem, stack);
            g_machine = machine;
            /* the arrays vm_new really allocated: the configured stack has stack_size slots, the cell
               table and both allocation lists have mem_size entries */
#if HAVE_ALLOC_SIZE
            sh->ext_have = 1;
            sh->ext_stack = machine->stack ? (long)__sanitizer_get_allocated_size(machine->stack) : -1;
            sh->ext_mem = machine->collector->mem ? (long)__sanitizer_get_allocated_size(machine->collector->mem) : -1;
            sh->ext_wb0 = machine->collector->wb_list[0] ? (long)__sanitizer_get_allocated_size(machine->collector->wb_list[0]) : -1;
            sh->ext_wb1 = machine->collector->wb_list[1] ? (long)__sanitizer_get_allocated_size(machine->collector->wb_list[1]) : -1;
#endif
            if (redzone > 0)
            {
                size_t slots = (size_t)redzone * 2 + stack;
                rz_base = (gc_stack *)malloc(slots * sizeof(gc_stack));
                if (!rz_base) _exit(3);
                memset(rz_base, 0xA5, slots * sizeof(gc_stack));
                rz_stack = stack;
                rz_orig = machine->stack;
                machine->stack = rz_base + redzone;
            }
            int r = nev_execute(prog, machine, &result);
            fflush(stdout);
            sh->ret = r; sh->have_ret = 1;
            if (r == 0)
            {
                sh->result_type = (int)result.type;
                switch (result.type)
                {
                case OBJECT_INT: sh->result_bits = result.int_value; break;
                case OBJECT_LONG: sh->result_bits = result.long_value; break;
                case OBJECT_FLOAT: { unsigned b; memcpy(&b, &result.float_value, 4); sh->result_bits = b; break; }
                case OBJECT_DOUBLE: { long long b; memcpy(&b, &result.double_value, 8); sh->result_bits = b; break; }
                case OBJECT_CHAR: sh->result_bits = result.char_value; break;
                default: sh->result_bits = 0; break;
                }
            }
            audit();
            g_machine = NULL;
            if (rz_base) { machine->stack = rz_orig; free(rz_base); rz_base = NULL; }
            vm_delete(machine);
            if (tracef) fclose(tracef);
            tracef = NULL;
            fflush(stdout);
            _exit(0);
        }
        close(ofd); close(efd);
        int st = 0;
        waitpid(pid, &st, 0);
        printf("R mem=%u stack=%u status=", mem, stack);
        if (sh->budget) printf("budget");
        else if (WIFEXITED(st)) printf("exit %d", WEXITSTATUS(st));
        else if (WIFSIGNALED(st) && WTERMSIG(st) == SIGALRM) printf("timeout");
        else if (WIFSIGNALED(st)) printf("signal %d", WTERMSIG(st));
        else printf("unknown");
        printf(" steps=%lu last=%d,%d,%d peak=%d", sh->steps, sh->last_ip, sh->last_sp, sh->last_op, sh->peak_sp);
        if (sh->have_ret) printf(" ret=%d", sh->ret); else printf(" ret=-");
        if (sh->have_ret && sh->ret == 0) printf(" result=%d:%lld", sh->result_type, sh->result_bits); else printf(" result=-");
        printf(" nilcell=%d heap=%u,%u,%u", sh->nilcell, sh->heap_free, sh->heap_used, sh->heap_size);
        if (sh->ext_have)
            printf(" extent=%ld/%zu,%ld/%zu,%ld/%zu,%ld/%zu", sh->ext_stack, (size_t)stack * sizeof(gc_stack),
                   sh->ext_mem, (size_t)mem * sizeof(gc_mem), sh->ext_wb0, (size_t)mem * sizeof(mem_ptr),
                   sh->ext_wb1, (size_t)mem * sizeof(mem_ptr));
        else printf(" extent=-");
        if (sh->rz_have) printf(" rz=%d,%d,%d", sh->rz_front, sh->rz_back, sh->rz_first); else printf(" rz=-");
        printf(" out=");
        hexfile(fo, 1 << 16);
        printf(" err=");
        hexfile(fe, 1 << 14);
        printf("\n");
        unlink(fo); unlink(fe);
    }
    program_delete(prog);
    return 0;
}
