(* C03 — faults reach the right catch clause.

   "When an operation fails at run time its result is never used: control passes to the first
    matching catch clause of the innermost active function that has one, searching outward
    through callers, with that function's parameters intact and its locals discarded, and the
    clause's value becomes that function's result.  If no clause matches anywhere, the run
    stops with an 'unhandled <name> exception' report and a non-zero status."

   Only statements here; every proof is `exact <lemma>` into
     Exc/ExcTabProofs.v, Verifier/UnwindTab.v   (table level: the C binary search)
     Verifier/Unwind.v                           (bytecode level: every verified module, every
                                                  reachable state of the shape machine)
     Src/EvalCatch.v                             (source level: the reference evaluator, all programs)
   The tie of the three models to /repo is checks/c03.py. *)
From Coq Require Import ZArith List Arith Bool Sorted.
From NV Require Import Exc.ExcTab Exc.ExcTabProofs.
From NV Require Import Gen.Opcodes Verifier.Shape Verifier.Effect Verifier.Verify Verifier.VerifyInv
                       Verifier.VerifySound Verifier.Unwind Verifier.UnwindTab Verifier.UnwindExample.
From NV Require Import Src.Syntax Src.Eval Src.EvalLemmas Src.EvalCatch.
Import ListNotations.

(* ================================================================== table level *)

(* back/exctab.c exctab_search: on every sentinel-terminated strictly sorted table the binary
   search returns the unique block containing ip; NULL only below the first block *)
Theorem search_spec : forall tab n ip,
  (1 <= n)%Z -> sorted tab n -> blk tab n = UINT_MAX ->
  ((blk tab 0 <= ip < UINT_MAX)%Z ->
     exists i, exctab_search (Some tab) n ip = Found i /\ (0 <= i < n)%Z /\
               (blk tab i <= ip < blk tab (i + 1))%Z /\
               forall j, (0 <= j < n)%Z -> (blk tab j <= ip < blk tab (j + 1))%Z -> j = i) /\
  ((ip < blk tab 0)%Z -> exctab_search (Some tab) n ip = NotFound) /\
  (exctab_search (Some tab) n ip = NotFound -> (ip < blk tab 0)%Z \/ (UINT_MAX <= ip)%Z) /\
  (forall i, exctab_search (Some tab) n ip = Found i ->
             (0 <= i < n)%Z /\ (blk tab i <= ip < blk tab (i + 1))%Z) /\
  exctab_search (Some tab) n ip <> OutOfFuel.
Proof. exact ExcTabProofs.search_spec. Qed.
Print Assumptions search_spec.

(* the lookup the verifier and the shape machine reason with (Verify.handler, a linear scan of
   the dumped table) returns what exception_tab_search returns on the table built by the
   emitter's exception_tab_insert calls: for every strictly sorted table and every address at or
   after the first block *)
Theorem handler_is_search : forall exct,
  sorted_blocks exct = true ->
  (forall e, In e exct -> (Z.of_nat (fst e) < UINT_MAX)%Z) ->
  exct <> [] ->
  forall a,
  fst (nth 0 exct (0, 0)) <= a -> (Z.of_nat a < UINT_MAX)%Z ->
  exists h, handler exct a = Some h /\
            exception_tab_search (exctab_of_list (map zent exct)) (Z.of_nat a) = Some (Z.of_nat h).
Proof. exact UnwindTab.handler_is_search. Qed.
Print Assumptions handler_is_search.

(* ================================================================== bytecode level *)

(* A fault -- at any certified address of function `cur s`, at any call depth, with any number
   of frames under construction (F s >= P s arbitrary), whatever number of operands
   (0..pops) the C handler popped before raising -- moves control to the handler of that
   address, which is a handler entry (CExc) of the SAME function and lies AFTER the faulting
   address; pp, fp and the running function are unchanged and the stack is only cut above the
   operands: everything below them, including every partially built frame, stays. *)
Theorem fault_lands_in_own_handler :
  forall prog exct metas entry certs,
    check_all prog exct metas entry certs = true ->
    forall s ip' len' pops s',
      reachable prog exct metas entry s ->
      fault_pops prog metas s ip' len' = Some pops ->
      step (code prog) (handler exct) (np metas) (is_entry metas) entry s ip' len' = Next s' ->
      exists h,
        handler exct (ip s) = Some h /\ ip s <= h /\
        (forall f d os, cert certs (ip s) = CNorm f d os -> ip s < h) /\
        ip s' = h /\ cert certs h = CExc (cur s) /\
        cur s' = cur s /\ P s' = P s /\ F s' = F s /\
        length (stk s) - pops <= len' /\ len' <= length (stk s) /\ F s <= len' /\
        stk s' = firstn len' (stk s).
Proof. exact Unwind.fault_lands_in_own_handler. Qed.
Print Assumptions fault_lands_in_own_handler.

(* statically: every certified address at which a fault can be raised has a handler, in the
   same function, strictly after it *)
Theorem handler_link_increases :
  forall prog exct metas entry certs,
    check_all prog exct metas entry certs = true ->
    forall a f d os i,
      cert certs a = CNorm f d os -> code prog a = Some i -> can_fault i = true ->
      exists h, handler exct a = Some h /\ a < h /\ cert certs h = CExc f.
Proof. exact Unwind.handler_link_increases. Qed.
Print Assumptions handler_link_increases.

(* from every handler entry x of f the clauses are tried along a FINITE path of strictly
   increasing addresses (l = the CLEAR_STACK addresses of the clauses, in address = source
   order, each `CLEAR_STACK nparams f` whose own handler is a later entry of f) that ends at
   f's RETHROW, or -- only for the top-level code f = 0 -- at UNHANDLED_EXCEPTION *)
Theorem handler_chain_finite :
  forall prog exct metas entry certs,
    check_all prog exct metas entry certs = true ->
    forall x f,
      cert certs x = CExc f ->
      exists l z, hpath prog exct metas certs f x l z /\ x <= z /\ z < length prog /\
                  chain_end prog metas f z /\
                  StronglySorted lt l /\ Forall (fun c => x <= c /\ c < z) l /\
                  length l <= length prog - x.
Proof. exact Unwind.handler_chain_finite. Qed.
Print Assumptions handler_chain_finite.

(* CLEAR_STACK at a handler entry, from any reachable state (any depth above the parameters, any
   number of open frames): fp = pp, sp = pp + nparams, every slot up to and including the
   parameters is untouched (and the parameter slots are value slots): parameters intact, locals
   and frames under construction discarded *)
Theorem clear_stack_restores_frame :
  forall prog exct metas entry certs,
    check_all prog exct metas entry certs = true ->
    forall s ip' len' n s',
      reachable prog exct metas entry s ->
      code prog (ip s) = Some (AClear n) ->
      step (code prog) (handler exct) (np metas) (is_entry metas) entry s ip' len' = Next s' ->
      cert certs (ip s) = CExc (cur s) /\ n = np metas (cur s) /\ is_ffi metas (cur s) = false /\
      ip s' = S (ip s) /\ cur s' = cur s /\ P s' = P s /\ F s' = P s /\
      P s + np metas (cur s) <= length (stk s) /\
      stk s' = firstn (P s + np metas (cur s)) (stk s) /\
      length (stk s') = P s + np metas (cur s) /\
      (forall i, i < P s + np metas (cur s) -> nth_error (stk s') i = nth_error (stk s) i) /\
      (forall i, P s <= i -> i < P s + np metas (cur s) -> nth_error (stk s') i = Some SVal) /\
      cert_at certs (S (ip s)) (cur s) 0 [].
Proof. exact Unwind.clear_stack_restores_frame. Qed.
Print Assumptions clear_stack_restores_frame.

(* RETHROW with a frame under construction pops exactly that frame (the header below F was
   written by a MARK of the running function; it is replaced by one value slot; everything
   below it stays) and lands in a handler entry of the SAME function -- the handler of the CALL
   the frame was built for, which lies after that CALL; P is unchanged, F is the enclosing open
   frame's (or P) *)
Theorem rethrow_pops_partial_frame :
  forall prog exct metas entry certs,
    check_all prog exct metas entry certs = true ->
    forall s ip' len' s',
      reachable prog exct metas entry s ->
      code prog (ip s) = Some ARethrow -> F s <> P s ->
      step (code prog) (handler exct) (np metas) (is_entry metas) entry s ip' len' = Next s' ->
      exists Fprev r h,
        5 <= F s /\ hdr (stk s) (F s - 5) (P s) Fprev r (cur s) /\
        P s + base metas (cur s) <= F s - 5 /\ P s <= Fprev /\ Fprev <= F s - 5 /\
        1 <= r /\ handler exct (r - 1) = Some h /\ r - 1 < h /\ cert certs h = CExc (cur s) /\
        ip s' = h /\ cur s' = cur s /\ P s' = P s /\ F s' = Fprev /\
        stk s' = firstn (F s - 5) (stk s) ++ [SVal].
Proof. exact Unwind.rethrow_pops_partial_frame. Qed.
Print Assumptions rethrow_pops_partial_frame.

(* RETHROW with no frame under construction leaves the running function through its own header:
   P, F and the running function are restored from it (the caller's frame lies strictly below),
   and control lands in a handler entry of the CALLER -- the handler of the CALL instruction.
   So an exception no clause of f took is offered to each active function outward, one function
   per RETHROW. *)
Theorem rethrow_returns_to_caller :
  forall prog exct metas entry certs,
    check_all prog exct metas entry certs = true ->
    forall s ip' len' s',
      reachable prog exct metas entry s ->
      code prog (ip s) = Some ARethrow -> F s = P s ->
      step (code prog) (handler exct) (np metas) (is_entry metas) entry s ip' len' = Next s' ->
      exists p0 f0 r c h dr osr,
        5 <= P s /\ hdr (stk s) (P s - 5) p0 f0 r c /\
        p0 <= f0 /\ f0 <= P s - 5 /\
        1 <= r /\ cert certs r = CNorm c dr osr /\
        handler exct (r - 1) = Some h /\ r - 1 < h /\ cert certs h = CExc c /\
        ip s' = h /\ cur s' = c /\ P s' = p0 /\ F s' = f0 /\
        stk s' = firstn (P s - 5) (stk s) ++ [SVal].
Proof. exact Unwind.rethrow_returns_to_caller. Qed.
Print Assumptions rethrow_returns_to_caller.

(* no reachable step crashes; in particular (Crash NoHandler) no fault is ever raised at, and no
   exception ever rethrown to, an address that lies in no block of the exception table -- top-level
   initialiser code included: the VM never gets NULL from exception_tab_search *)
Theorem every_fault_has_a_handler :
  forall prog exct metas entry certs,
    check_all prog exct metas entry certs = true ->
    forall s ip' len' c,
      reachable prog exct metas entry s ->
      step (code prog) (handler exct) (np metas) (is_entry metas) entry s ip' len' <> Crash c.
Proof. exact Unwind.every_fault_has_a_handler. Qed.
Print Assumptions every_fault_has_a_handler.

(* UNHANDLED_EXCEPTION is certified only for the top-level code (function 0) ... *)
Theorem unhandled_only_at_top_level :
  forall prog exct metas entry certs,
    check_all prog exct metas entry certs = true ->
    forall a,
      code prog a = Some AUnhandled ->
      match cert certs a with
      | CNorm f _ _ => f = 0
      | CExc f => f = 0
      | CNone => True
      end.
Proof. exact Unwind.unhandled_only_at_top_level. Qed.
Print Assumptions unhandled_only_at_top_level.

(* ... and is reached only when every function frame has been left (pp = -1, i.e. P = 0); the
   machine stops there *)
Theorem unhandled_reached_only_at_top :
  forall prog exct metas entry certs,
    check_all prog exct metas entry certs = true ->
    forall s ip' len',
      reachable prog exct metas entry s ->
      code prog (ip s) = Some AUnhandled ->
      cur s = 0 /\ P s = 0 /\
      step (code prog) (handler exct) (np metas) (is_entry metas) entry s ip' len' = Stop.
Proof. exact Unwind.unhandled_reached_only_at_top. Qed.
Print Assumptions unhandled_reached_only_at_top.

(* ================================================================== source level *)

(* the result of a faulting operation is never used: the enclosing form raises the same
   exception in exactly the state the fault left -- nothing further is evaluated *)
Theorem fault_result_unused_binop_left : forall genv op k e st a b ex st1,
  eval genv k e st a = (RExc ex, st1) ->
  eval genv (S k) e st (EBin op a b) = (RExc ex, st1).
Proof. exact EvalCatch.fault_result_unused_binop_left. Qed.
Print Assumptions fault_result_unused_binop_left.

Theorem fault_result_unused_binop_right : forall genv op k e st a b c1 st1 ex st2,
  op <> And -> op <> Or ->
  eval genv k e st a = (ROk c1, st1) -> eval genv k e st1 b = (RExc ex, st2) ->
  eval genv (S k) e st (EBin op a b) = (RExc ex, st2).
Proof. exact EvalCatch.fault_result_unused_binop_right. Qed.
Print Assumptions fault_result_unused_binop_right.

(* arguments are evaluated right to left; the k-th one raises: the earlier ones, the function
   expression and the callee are never evaluated *)
Theorem fault_result_unused_call_arg : forall genv k e st f pre a post cs r0 st1 ex st2,
  eval_args genv k e post st = ((Some cs, r0), st1) ->
  eval genv k e st1 a = (RExc ex, st2) ->
  eval genv (S k) e st (ECall f (pre ++ a :: post)) = (RExc ex, st2).
Proof. exact EvalCatch.fault_result_unused_call_arg. Qed.
Print Assumptions fault_result_unused_call_arg.

Theorem fault_result_unused_call_fun : forall genv k e st f args cs r0 st1 ex st2,
  eval_args genv k e args st = ((Some cs, r0), st1) ->
  eval genv k e st1 f = (RExc ex, st2) ->
  eval genv (S k) e st (ECall f args) = (RExc ex, st2).
Proof. exact EvalCatch.fault_result_unused_call_fun. Qed.
Print Assumptions fault_result_unused_call_fun.

Theorem fault_result_unused_arrlit : forall genv k e st t pre a post cs r0 st1 ex st2,
  eval_args genv k e post st = ((Some cs, r0), st1) ->
  eval genv k e st1 a = (RExc ex, st2) ->
  eval genv (S k) e st (EArrLit (pre ++ a :: post) t) = (RExc ex, st2).
Proof. exact EvalCatch.fault_result_unused_arrlit. Qed.
Print Assumptions fault_result_unused_arrlit.

Theorem fault_result_unused_recnew : forall genv k e st rn pre a post cs r0 st1 ex st2,
  eval_args genv k e post st = ((Some cs, r0), st1) ->
  eval genv k e st1 a = (RExc ex, st2) ->
  eval genv (S k) e st (ERecNew rn (pre ++ a :: post)) = (RExc ex, st2).
Proof. exact EvalCatch.fault_result_unused_recnew. Qed.
Print Assumptions fault_result_unused_recnew.

Theorem fault_result_unused_assign_lhs : forall genv k e st lhs rhs ex st1,
  eval genv k e st lhs = (RExc ex, st1) ->
  eval genv (S k) e st (EAssign lhs rhs) = (RExc ex, st1).
Proof. exact EvalCatch.fault_result_unused_assign_lhs. Qed.
Print Assumptions fault_result_unused_assign_lhs.

Theorem fault_result_unused_assign_rhs : forall genv k e st lhs rhs cl st1 ex st2,
  eval genv k e st lhs = (ROk cl, st1) -> eval genv k e st1 rhs = (RExc ex, st2) ->
  eval genv (S k) e st (EAssign lhs rhs) = (RExc ex, st2).
Proof. exact EvalCatch.fault_result_unused_assign_rhs. Qed.
Print Assumptions fault_result_unused_assign_rhs.

Theorem fault_result_unused_index_arr : forall genv k e st a i ex st1,
  eval genv k e st a = (RExc ex, st1) ->
  eval genv (S k) e st (EIndex a i) = (RExc ex, st1).
Proof. exact EvalCatch.fault_result_unused_index_arr. Qed.
Print Assumptions fault_result_unused_index_arr.

Theorem fault_result_unused_index_idx : forall genv k e st a i ca st1 ex st2,
  eval genv k e st a = (ROk ca, st1) -> eval genv k e st1 i = (RExc ex, st2) ->
  eval genv (S k) e st (EIndex a i) = (RExc ex, st2).
Proof. exact EvalCatch.fault_result_unused_index_idx. Qed.
Print Assumptions fault_result_unused_index_idx.

(* a call whose body raises ex and whose clause list is pre ++ (ex, h) :: post with no clause of
   pre for ex: the call's result is that of h, evaluated in `parameters ++ closure environment`
   (faulting_call: the parameters are the cells the arguments evaluated to; no local of the
   body is in scope) in the state the fault left (st3); an exception raised by h is offered to
   the later clauses `post` only *)
Theorem first_matching_clause : forall genv k e st f args fd fenv ex st3 pre h post k',
  faulting_call genv k e st f args fd fenv ex st3 ->
  fd_catches fd = pre ++ (ex, h) :: post -> no_match ex pre ->
  k = length pre + S k' ->
  eval genv (S k) e st (ECall f args) =
  match eval_items genv k' fenv st3 h None with
  | (RExc ex2, st4) => handlers genv k' fenv st4 ex2 post (fd_catch_all fd)
  | r => r
  end.
Proof. exact EvalCatch.first_matching_clause. Qed.
Print Assumptions first_matching_clause.

Theorem clause_value_is_call_result : forall genv k e st f args fd fenv ex st3 pre h post k' c st4,
  faulting_call genv k e st f args fd fenv ex st3 ->
  fd_catches fd = pre ++ (ex, h) :: post -> no_match ex pre ->
  k = length pre + S k' ->
  eval_items genv k' fenv st3 h None = (ROk c, st4) ->
  eval genv (S k) e st (ECall f args) = (ROk c, st4).
Proof. exact EvalCatch.clause_value_is_call_result. Qed.
Print Assumptions clause_value_is_call_result.

(* what faulting_call assumes is just: arguments, function value, arity, body *)
Theorem faulting_call_intro : forall genv k e st f args fd ex st3 cs r0 st1 cf st2 cenv penv,
  eval_args genv k e args st = ((Some cs, r0), st1) ->
  eval genv k e st1 f = (ROk cf, st2) ->
  get_cell st2 cf = Some (CFun fd cenv) ->
  bind_params (fd_params fd) cs = Some penv ->
  eval_items genv k (penv ++ cenv) st2 (fd_body fd) None = (RExc ex, st3) ->
  faulting_call genv k e st f args fd (penv ++ cenv) ex st3.
Proof. exact EvalCatch.faulting_call_intro. Qed.
Print Assumptions faulting_call_intro.

(* no clause for ex and no catch-all: the call raises ex to its caller, in the state the fault
   left -- the search continues outward, one function at a time *)
Theorem no_clause_propagates : forall genv k e st f args fd fenv ex st3 k',
  faulting_call genv k e st f args fd fenv ex st3 ->
  no_match ex (fd_catches fd) -> fd_catch_all fd = None ->
  k = length (fd_catches fd) + S k' ->
  eval genv (S k) e st (ECall f args) = (RExc ex, st3).
Proof. exact EvalCatch.no_clause_propagates. Qed.
Print Assumptions no_clause_propagates.

Theorem clause_exception_goes_to_later_clauses : forall genv pre h post k e st ex call ex2 st1,
  no_match ex pre ->
  eval_items genv k e st h None = (RExc ex2, st1) ->
  handlers genv (length pre + S k) e st ex (pre ++ (ex, h) :: post) call =
  handlers genv k e st1 ex2 post call.
Proof. exact EvalCatch.clause_exception_goes_to_later_clauses. Qed.
Print Assumptions clause_exception_goes_to_later_clauses.

Theorem catch_all_takes_the_rest : forall genv cl body k e st ex,
  no_match ex cl ->
  handlers genv (length cl + S k) e st ex cl (Some body) = eval_items genv k e st body None.
Proof. exact EvalCatch.catch_all_takes_the_rest. Qed.
Print Assumptions catch_all_takes_the_rest.

(* the run is reported `unhandled ex` exactly when the entry function's evaluation (its body,
   then its own clauses) ends in RExc ex *)
Theorem unhandled_at_top : forall fuel p args ex printed,
  run_program fuel p args = OUnhandled ex printed <->
  exists st2, main_result fuel p args = Some (RExc ex, st2) /\ printed = rev (out st2).
Proof. exact EvalCatch.unhandled_at_top. Qed.
Print Assumptions unhandled_at_top.

(* ================================================================== the hypotheses are satisfiable *)

(* a module in the emitter's layout that the checker accepts, a reachable state in which a
   fault is raised with a call frame under construction, its delivery, both kinds of RETHROW,
   the unhandled stub at top level, and a clause entered through CLEAR_STACK with its parameter *)
Example ex_checked : check_all ex_prog ex_exct ex_metas ex_entry ex_certs = true.
Proof. exact UnwindExample.ex_checked. Qed.

Example ex_fault_with_open_frame :
  reachable ex_prog ex_exct ex_metas ex_entry stA /\ F stA <> P stA /\
  fault_pops ex_prog ex_metas stA 20 12 = Some 2 /\
  step (code ex_prog) (handler ex_exct) (np ex_metas) (is_entry ex_metas) ex_entry stA 20 12 =
    Next {| ip := 20; stk := stk stA; P := 5; F := 10; cur := 10 |}.
Proof.
  split; [exists obsA; exact ex_reach_A|]. split; [discriminate|]. exact ex_fault_A.
Qed.

Example ex_rethrow_partial_frame :
  reachable ex_prog ex_exct ex_metas ex_entry stA2 /\
  code ex_prog (ip stA2) = Some ARethrow /\ F stA2 <> P stA2.
Proof.
  split; [eexists; exact ex_reach_A2|]. split; [apply ex_rethrow_partial|apply ex_rethrow_partial].
Qed.

Example ex_rethrow_to_caller :
  reachable ex_prog ex_exct ex_metas ex_entry stA3 /\
  code ex_prog (ip stA3) = Some ARethrow /\ F stA3 = P stA3.
Proof.
  split; [eexists; exact ex_reach_A3|]. split; [apply ex_rethrow_caller|apply ex_rethrow_caller].
Qed.

Example ex_clear_stack :
  reachable ex_prog ex_exct ex_metas ex_entry stB /\ code ex_prog (ip stB) = Some (AClear 1).
Proof. split; [exists obsB; exact ex_reach_B|apply ex_clear]. Qed.

Example ex_clause_chain : hpath ex_prog ex_exct ex_metas ex_certs 22 27 [28] 32.
Proof. exact UnwindExample.ex_chain. Qed.

(* source level: g's parameter is assigned before the fault; the clause sees the new value and
   its value is the program's result; without the clause the run is unhandled *)
Definition ex_g (catches : list (exn * list item)) : fdef :=
  FDef 2%N [(5%N, true, TInt)] TInt
       [IExpr (EAssign (EVar 5%N) (EInt 7)); IExpr (EBin Div (EInt 1) (EInt 0))]
       catches None.
Definition ex_main : fdef := FDef 1%N [] TInt [IExpr (ECall (EVar 2%N) [EInt 3])] [] None.
Definition ex_src (catches : list (exn * list item)) : program :=
  {| p_recs := []; p_funcs := [ex_main; ex_g catches]; p_main := 1%N |}.

Example ex_src_caught :
  run_program 20 (ex_src [(ExIndexOob, [IExpr (EInt 1)]); (ExDivision, [IExpr (EVar 5%N)])]) [] =
  OResult (CInt 7) [].
Proof. vm_compute. reflexivity. Qed.

Example ex_src_unhandled :
  run_program 20 (ex_src [(ExIndexOob, [IExpr (EInt 1)])]) [] = OUnhandled ExDivision [].
Proof. vm_compute. reflexivity. Qed.

(* a table that leaves the top-level code uncovered is rejected by the checker, and the shape machine
   crashes (NoHandler) when a fault is raised there *)
Example ex_uncovered_toplevel :
  check_all ex_prog ex_exct_bad ex_metas ex_entry ex_certs = false /\
  run (code ex_prog) (handler ex_exct_bad) (np ex_metas) (is_entry ex_metas) ex_entry init
      [(1, 0); (2, 5); (3, 5); (4, 6); (5, 6); (99, 5)] = Crash NoHandler.
Proof. split; [exact ex_bad_rejected|exact ex_bad_no_handler]. Qed.
