From Coq Require Import ExtrOcamlBasic.
From NV Require Import Gen.Opcodes Verifier.Effect VM.StackBound.
Extraction "stackboundmodel.ml" opcode_of_N exec_writes net demand no_underflow plan shape_at shape_of
  shape_delta_ok step_consistent run_plans trace_demand irregular_of pinned checked.
