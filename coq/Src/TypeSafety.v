(* Type safety of the reference evaluator of the Never core (Src/Eval.v) with respect to the
   declarative judgment of the model typechecker (Src/TypecheckSpec.v):

     eval_type_safe      a well-typed, ready expression / item list / handler list never
                         evaluates to RStuck; the final state is typed by an extension of the
                         store typing; a result cell has the expected type
     core_type_safety    WellTyped p -> eval_ready p = true -> main_fits p args = true ->
                         run_program fuel p args <> OStuck, and a result has main's return type

   Side conditions (eval_ready, see TypeSafetyBase.v): (S1) no let/var initialiser is the literal
   nil (or a block ending in it); (S2) no operand of == / != is the literal nil; (S3) no function
   item directly follows another function item.  Each one excludes programs the model typechecker
   accepts and the evaluator gets stuck on (Examples at the end of the file).  No axioms. *)
From Coq Require Import ZArith NArith List Bool Lia Arith.
From NV Require Import Src.Syntax Src.Eval Src.EvalLemmas Src.EvalProps Src.Types Src.Typecheck
  Src.TypecheckSpec Src.TypeSafetyBase.
Import ListNotations.

Ltac split_and :=
  repeat match goal with
         | H : _ && _ = true |- _ => apply andb_true_iff in H; destruct H
         end.

Section Safety.
Variable R : list recdecl.
Variable genv : Eval.env.

Notation st_ok := (st_ok R genv).
Notation env_ok := (env_ok genv).
Notation val_ok := (val_ok R genv).

(* the outcome of a safe evaluation from a state typed by S, expecting a cell of type t' *)
Definition good (S : styping) (st : state) (t' : cty) (P : Prop) (r : Eval.res) (st' : state) : Prop :=
  r <> RStuck /\
  exists S', ext S st S' st' /\ st_ok S' st' /\
             forall c, r = ROk c -> nth_error S' c = Some t' /\ P.

Lemma good_trans : forall S st S1 st1 t' P r st',
  ext S st S1 st1 -> good S1 st1 t' P r st' -> good S st t' P r st'.
Proof.
  intros S st S1 st1 t' P r st' X [N [S' [X' [Hs Hc]]]]. split; auto.
  exists S'. split; [eapply ext_trans; eauto|]. auto.
Qed.

Lemma good_weaken : forall S st t' (P Q : Prop) r st',
  good S st t' P r st' -> (P -> Q) -> good S st t' Q r st'.
Proof.
  intros S st t' P Q r st' [N [S' [X' [Hs Hc]]]] PQ. split; auto.
  exists S'. repeat split; auto; destruct (Hc c H); auto.
Qed.

Lemma good_pass : forall S st t1 (P : Prop) r st' t' (Q : Prop),
  good S st t1 P r st' -> (forall c, r <> ROk c) -> good S st t' Q r st'.
Proof.
  intros S st t1 P r st' t' Q [N [S' [X' [Hs Hc]]]] H. split; auto.
  exists S'. repeat split; auto; exfalso; eapply H; eauto.
Qed.

Lemma good_here : forall S st t' (P : Prop) r,
  st_ok S st -> r <> RStuck -> (forall c, r = ROk c -> nth_error S c = Some t' /\ P) ->
  good S st t' P r st.
Proof.
  intros. split; auto. exists S. split; [apply ext_refl|]. auto.
Qed.

Lemma good_step : forall S st t' (P : Prop) r S' st',
  st_ok S' st' -> ext S st S' st' -> r <> RStuck ->
  (forall c, r = ROk c -> nth_error S' c = Some t' /\ P) ->
  good S st t' P r st'.
Proof. intros. split; auto. exists S'. auto. Qed.

Lemma good_fresh : forall S st v t (P : Prop) r st',
  st_ok S st -> val_ok S st v t -> P -> fresh st v = (r, st') -> good S st t P r st'.
Proof.
  intros S st v t P r st' Hs V HP F.
  destruct (fresh_ok R genv _ _ _ _ _ _ Hs V F) as [c [-> [Hs' [X Hc]]]].
  eapply good_step; eauto; [discriminate|]. intros c' E. inversion E; subst. auto.
Qed.

(* ---- binary operators ------------------------------------------------------------------------ *)

Lemma dflt_nonnil : forall t, t <> Types.CNil -> dflt t = t.
Proof. destruct t; simpl; congruence. Qed.

Lemma binop_safe : forall S st op c1 c2 ta tb t r st',
  st_ok S st -> nth_error S c1 = Some (dflt ta) -> nth_error S c2 = Some (dflt tb) ->
  binop_type op ta tb = Some t -> op <> And -> op <> Or ->
  (eq_op op = true -> ta <> Types.CNil /\ tb <> Types.CNil) ->
  binop_result op c1 c2 st = (r, st') ->
  good S st t True r st'.
Proof.
  intros S st op c1 c2 ta tb t r st' Hs H1 H2 Hbt NA NO Hq Hev.
  assert (Hcases : (ta = Types.CInt /\ tb = Types.CInt) \/
                   (eq_op op = true /\ ta = Types.CBool /\ tb = Types.CBool /\ t = Types.CBool)).
  { destruct op; simpl in Hbt; try congruence;
      try (destruct (is_int ta) eqn:Ea; [|discriminate]; destruct (is_int tb) eqn:Eb; [|discriminate];
           apply is_int_eq in Ea; apply is_int_eq in Eb; auto).
    all: destruct (Hq eq_refl) as [Na Nb];
      destruct ta, tb; simpl in Hbt; try discriminate; try congruence; inversion Hbt; auto. }
  destruct Hcases as [[-> ->]|[Eo [-> [-> ->]]]]; simpl in H1, H2.
  - destruct (cell_int _ _ _ _ _ Hs H1) as [z1 E1]. destruct (cell_int _ _ _ _ _ Hs H2) as [z2 E2].
    unfold binop_result in Hev. rewrite E1, E2 in Hev.
    destruct (int_binop op z1 z2) as [v|] eqn:Ei.
    + eapply good_fresh; eauto.
      destruct op; simpl in Hbt, Ei; try congruence; inversion Hbt; subst;
        try (inversion Ei; subst; constructor);
        destruct (Z.eqb z2 0); inversion Ei; subst; constructor.
    + inversion Hev; subst. apply good_here; auto; [discriminate|]. intros; discriminate.
  - destruct (cell_get _ _ _ _ _ _ Hs H1) as [v1 [G1 V1]]. destruct (cell_get _ _ _ _ _ _ Hs H2) as [v2 [G2 V2]].
    apply val_bool in V1. apply val_bool in V2. destruct V1 as [b1 ->]. destruct V2 as [b2 ->].
    unfold binop_result, get_int, get_bool in Hev. rewrite G1, G2 in Hev.
    destruct op; simpl in Eo; try discriminate; eapply good_fresh; eauto; constructor.
Qed.
