#!/usr/bin/env python3
"""Regenerate the per-property status table of DESIGN.md §0 from MANIFEST.json, the evidence
files and known_findings.jsonl."""
import json
import os

VERIF = os.path.dirname(os.path.dirname(os.path.abspath(__file__)))


def main():
    man = json.load(open(os.path.join(VERIF, "MANIFEST.json")))
    kf = [json.loads(l) for l in open(os.path.join(VERIF, "known_findings.jsonl")) if l.strip()]
    rows = ["| id | theorems (Properties_<id>.v) | discharged | partial / refuted | correspondence run (quick) | findings (fixed / known) |",
            "|---|---|---|---|---|---|"]
    for c in man["checks"]:
        pid = c["property_id"]
        ev = {}
        p = os.path.join(VERIF, "evidence", pid + ".json")
        if os.path.exists(p):
            ev = json.load(open(p))
        cov = ev.get("coverage", {})
        ths = [t["name"] for t in cov.get("theorems", [])]
        pr = cov.get("partial_theorems", []) + cov.get("refuted_theorems", [])
        fixed = len([k for k in kf if k["property"] == pid and k.get("status") == "fixed"])
        known = len([k for k in kf if k["property"] == pid and k.get("status", "known") == "known"])
        names = ", ".join("`%s`" % t for t in ths[:6]) + (" … (+%d)" % (len(ths) - 6) if len(ths) > 6 else "")
        rows.append("| %s | %s | %s/%s | %s | %s evaluations, %s distinct non-trivial, %.0f s (%s) | %d / %d |" % (
            pid, names, cov.get("discharged", "?"), cov.get("obligations", "?"),
            ", ".join("`%s`" % x for x in pr[:4]) + (" …" if len(pr) > 4 else "") if pr else "—",
            cov.get("evaluations", "?"), cov.get("distinct_nontrivial", "?"), ev.get("wall_s", 0), ev.get("tier", "?"), fixed, known))
    for n in man.get("not_applicable", []):
        rows.append("| %s | — not claimed: %s | | | | |" % (n["property_id"], n["reason"]))
    text = "\n".join(rows)
    p = os.path.join(VERIF, "DESIGN.md")
    s = open(p).read()
    b, e = "<!-- ASBUILT-TABLE-BEGIN -->", "<!-- ASBUILT-TABLE-END -->"
    if b in s:
        s = s[:s.index(b) + len(b)] + "\n" + text + "\n" + s[s.index(e):]
        open(p, "w").write(s)
    print(text)


if __name__ == "__main__":
    main()
