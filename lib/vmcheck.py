"""Shared helpers for the bytecode-level checks (C07, C13, C14, C03): dump + trace a program
with harness/vm/bcdump.c built against /repo's current tree, run the extracted verifier and the
shape-machine lock-step (build/ocaml/verifier/run) on it."""
import glob
import atexit
import hashlib
import os
import re
import shutil
import subprocess
import tempfile
from concurrent.futures import ThreadPoolExecutor

from lib import common

SAMPLE_DIR = os.path.join(common.REPO, "sample")
ENV = dict(os.environ, NEVER_PATH="%s/lib:%s" % (SAMPLE_DIR, SAMPLE_DIR),
           ASAN_OPTIONS="detect_leaks=0:abort_on_error=0")


def corpus_programs():
    """(id, path, cwd) of every program of the fixed corpus: /repo samples + /verif/corpus/programs."""
    out = []
    for f in sorted(glob.glob(os.path.join(SAMPLE_DIR, "*.nev"))):
        out.append((os.path.basename(f), f, SAMPLE_DIR))
    for f in sorted(glob.glob(os.path.join(common.VERIF, "corpus", "programs", "*.nev"))):
        out.append(("corpus/" + os.path.basename(f), f, os.path.dirname(f)))
    return out


def generated_programs(outdir, seed, n_per_profile, profiles=None):
    """Programs from the E5 generator (build/ocaml/eval/run gen): (id, path, cwd) of the original
    spelling of each case, written as separate files under outdir."""
    ok, log = common.ocaml_build("eval")
    run = os.path.join(common.BUILD, "ocaml", "eval", "run")
    if not ok or not os.path.exists(run):
        return []
    if profiles is None:
        rc, so, se = common.sh([run, "profiles"], timeout=60)
        profiles = [p for p in so.split() if p] or ["mix"]
    res = []
    for i, prof in enumerate(profiles):
        d = os.path.join(outdir, "gen_" + prof)
        os.makedirs(d, exist_ok=True)
        rc, so, se = common.sh([run, "gen", str(seed * 131 + i), str(n_per_profile), d, prof], timeout=600)
        for f in glob.glob(os.path.join(d, "batch_*.txt")):
            cur, buf = None, []

            def flush():
                if cur and cur.endswith(".o"):
                    path = os.path.join(d, cur.replace("/", "_") + ".nev")
                    with open(path, "w") as o:
                        o.write("".join(buf))
                    res.append(("gen/" + cur, path, d))
            for line in open(f, errors="replace"):
                if line.startswith("@@@ "):
                    flush()
                    cur, buf = line.split()[1], []
                else:
                    buf.append(line)
            flush()
    return res


class VmTools:
    def __init__(self, variant="plain"):
        self.lib = common.repobuild(variant)
        self.bcdump = common.cc_driver("bcdump", ["vm/bcdump.c"], self.lib)
        ok, log = common.ocaml_build("verifier")
        if not ok:
            raise common.BuildError("ocaml build failed:\n" + log[-3000:])
        self.vrun = os.path.join(common.BUILD, "ocaml", "verifier", "run")
        self.tmp = tempfile.mkdtemp(prefix="nvvm.", dir="/var/tmp")
        atexit.register(self.close)      # also when a check ends through an exception or returns early

    def close(self):
        shutil.rmtree(self.tmp, ignore_errors=True)

    def dump(self, pid, path, cwd, trace=True, max_steps=100000, extra=(), timeout=60, stdin=None):
        out = os.path.join(self.tmp, re.sub(r"[^A-Za-z0-9_.-]", "_", pid) + "." + hashlib.md5(
            (" ".join(extra)).encode()).hexdigest()[:6] + ".dump")
        cmd = [self.bcdump] + (["--trace", "--max-steps", str(max_steps)] if trace else []) + list(extra) + [path]
        try:
            with open(out, "w") as o:
                p = subprocess.run(cmd, stdout=o, stderr=subprocess.PIPE, stdin=subprocess.DEVNULL,
                                   timeout=timeout, env=getattr(self, "env", None) or ENV, cwd=cwd)
            return out, p.returncode, p.stderr.decode(errors="replace")[-2000:]
        except subprocess.TimeoutExpired:
            return out, -9, "timeout"

    def verify(self, dumpfile, max_steps=30000, entry="main", timeout=300):
        try:
            p = subprocess.run([self.vrun, dumpfile, "--max-steps", str(max_steps), "--entry", entry],
                               stdout=subprocess.PIPE, stderr=subprocess.PIPE, timeout=timeout)
        except subprocess.TimeoutExpired:
            return {"module": "timeout", "verify": "timeout", "lockstep": "timeout", "witness": "", "maxdepth": {}}
        res = {"module": "", "verify": "", "refs": "", "lockstep": "", "witness": "", "maxdepth": {}, "stderr": p.stderr.decode(errors="replace")[-500:]}
        for l in p.stdout.decode(errors="replace").splitlines():
            if l.startswith("MODULE"):
                res["module"] = l
            elif l.startswith("VERIFY"):
                res["verify"] = l
            elif l.startswith("LOCKSTEP"):
                res["lockstep"] = l
            elif l.startswith("WITNESS"):
                res["witness"] = l
            elif l.startswith("REFS"):
                res["refs"] = l
            elif l.startswith("MAXDEPTH"):
                m = re.match(r"MAXDEPTH f=(\d+) d=(\d+)", l)
                if m:
                    res["maxdepth"][int(m.group(1))] = int(m.group(2))
        return res


def read_dump(path):
    """Parse a bcdump file into a dict (code, exct, funcs, trace, end, out ...)."""
    d = {"compile": None, "code": [], "exct": [], "funcs": [], "functab": [], "trace": [], "end": None,
         "out": "", "final": None, "entry": None, "gcs": 0, "prepare": None}
    with open(path, errors="replace") as f:
        for l in f:
            p = l.split()
            if not p:
                continue
            k = p[0]
            if k == "t":
                try:
                    t = tuple(int(x) for x in p[1:8])
                except ValueError:
                    continue          # truncated line of a run that died
                if len(t) == 7:
                    d["trace"].append(t)
            elif k == "I" and len(p) >= 6:
                d["code"].append((int(p[2]), int(p[3]), int(p[4]), int(p[5])))
            elif k == "X":
                d["exct"].append((int(p[1]), int(p[2])))
            elif k == "F":
                d["funcs"].append((int(p[1]), int(p[2]), int(p[3]), int(p[4]), " ".join(p[5:])))
            elif k == "T":
                d["functab"].append((int(p[1]), int(p[2]), int(p[3]), " ".join(p[4:])))
            elif k == "COMPILE":
                d["compile"] = int(p[1])
            elif k == "CODE":
                d["entry"] = int(p[3])
            elif k == "PREPARE":
                d["prepare"] = int(p[1])
            elif k == "OUT":
                d["out"] = p[1] if len(p) > 1 else ""
            elif k == "END":
                d["end"] = l.strip()
            elif k == "FINAL":
                d["final"] = l.strip()
            elif k == "g":
                d["gcs"] += 1
    return d


def opcode_names():
    h = open(os.path.join(common.REPO, "back", "bytecode.h")).read()
    m = re.search(r"typedef\s+enum\s+bytecode_type\s*\{(.*?)\}", h, re.S)
    return [x.strip() for x in re.sub(r"/\*.*?\*/", "", m.group(1), flags=re.S).split(",") if x.strip()]


def pmap(fn, items, workers=16):
    with ThreadPoolExecutor(workers) as ex:
        return list(ex.map(fn, items))
