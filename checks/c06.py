"""C06 — ill-typed programs are rejected, with a diagnostic at the offending line.

Proof side (ctx.proofs()): coq/Properties/Properties_C06.v — model typechecker Src/Typecheck.v
(mirrors front/typecheck.c for the core AST of Src/Syntax.v: scopes, constness TEMP/CONST/VAR,
argument count/kinds/const->var, operators, bool conditions, result kind; Src/TypecheckMatch.v:
match exhaustiveness by enumerator marking, exception-name table, attribute names), the declarative
judgment of Src/TypecheckSpec.v with `typecheck_sound`, and the `*_rejected` theorems of
Src/Mutations.v (every single-fault mutant of an accepted program is rejected with the rule of
the operator, at every nesting depth).

Tie / search (DESIGN.md §4.2, §5 C06):
  build/ocaml/tc/run (extracted model + generator + pretty-printer + mutator, harness/ocaml/tc)
  emits generated well-typed programs P (the model says OK), their single-fault mutants (AST
  level: every operator of harness/ocaml/tc/tmut.ml at every site, sampled per (operator, nesting
  context); text level: unknown exception name) and enum/match templates with random enumerator
  counts in six nesting contexts (mutant: one enumerator's guard / the else guard removed).
  Everything is compiled by the tree's real compiler (harness/common/nevrun.c, compile-only,
  ASan/UBSan build, 16 processes).  Property oracle (independent of what the model computes for a
  mutant beyond "it is a fault"):
      P                     must be COMPILED
      every mutant          must be COMPILE_ERROR with >= 1 `<stdin>:<line>: error:` diagnostic whose
                            line lies on the lines of the mutated node (first..last line of the
                            smallest changed expression/item as printed; one line in > 98% of the
                            cases, the tolerance is needed for multi-line nodes: the compiler
                            attributes e.g. a bad array element to the element's own line)
   real compiler accepts a mutant            -> ctx.violation("accepted:<operator>")
   rejected, but no diagnostic on the site   -> ctx.violation("wrong-line:<operator>")
   model OK, compiler rejects P              -> ctx.correspondence_broken
   diagnostic kind differs from model's rule -> ctx.correspondence_broken
  Text-level families (constructs outside the core AST; python oracle, independent of the compiler):
   (a) state across constructs: 2-4 `match`es over the same enum(s) in one compilation unit (separate
       functions, nested function, in sequence in one body, match inside an arm), each exhaustive /
       with else / omitting one enumerator (every choice incl. first- and last-declared).  The
       verdict per match is independent of the others: the set of `does not cover E::x` diagnostics
       must be exactly {(line of the match, omitted enumerator)}; the model's match_check judges
       every match as well (build/ocaml/tc/run mcheck).
   (b) scope of pattern binders: `match` record arms, `if let` with record / item guards, with and
       without braces, `else if let` chains; one use of a pattern-bound name per program at: its own
       arm / then-branch (also inside a closure there), another arm, the else-branch, a closure in the
       else-branch, the then/else-branch of a chained `else if let`, after the construct.  Without an
       outer binding every use outside the arm must be `cannot find identifier`; with an outer
       binding of ANOTHER type (bool) the use must resolve to the outer one outside the arm and to
       the binder inside (use sites `x + 1` and `x && true`: a wrong resolution is a type error or
       a missing one).  The grid is enumerated completely.
   (c) qualifier/type mismatch at every type position: random function-bearing types up to depth 3
       (functions taking / returning functions, arrays and tuples of functions); expected and given
       type differ in exactly one place (var qualifier, parameter kind, result kind, arity +-1) at
       every function node of the type; the given value is passed as argument, assigned, returned,
       put into an array literal, used as the other branch of ?: -- all must be rejected at that
       line; the identical type must be accepted.
   (d) offence kind x syntactic context x sink (gen_context_family): 16 one-line offences covering every
       offence kind the property names (assignment to a `let` / to a non-var parameter, argument count
       more/less, argument kind, const passed to a var parameter, undefined name, undefined attribute,
       operator arithmetic/comparison, non-bool condition of ?: / if / while, result kind, match omitting
       an enumerator, unknown exception name), each with a well-typed twin, planted into the int-typed
       hole of each of 48 context expressions (list comprehension element / generator source / filter /
       second generator, array literal and dims, record constructor argument, match arm / else arm /
       scrutinee, if-let branches and scrutinee, for-in body / bound / array, 3-part for body / cond /
       step, while and do body / cond, lambda body / catch clause / catch-all, nested function body /
       catch, range bounds, slice bound, string concatenation operands, call arguments, built-in
       argument, index, ?: and if branches and conditions, tuple element, block statement / let, unary /
       binary operand, pipe, assignment right side), 1-3 contexts deep (inner values projected to int by
       index / attribute / call / length), the value of the outermost expression bound by let / var /
       discarded / returned / passed / assigned, the statement inside a function / nested function /
       lambda / catch clause, offence optionally on a line of its own.  Complete grid offence x context
       x sink in the quick tier; the (offence x context x sink) distribution is in the evidence
       (coverage.context_family).  Oracle: COMPILE_ERROR and the offence's diagnostic on the lines of the
       statement; every program without offence must compile.
  Corpus: /verif/corpus/C06/*.nev (first line `# expect: accept` | `# expect: reject line=<n>
  key=<key>`), and the negative samples of <repo>/sample (`*.nev.err` with an `error:` line): each
  must be rejected at the first recorded line.
"""
LEVEL = "proof"

import collections
import json
import multiprocessing.pool
import os
import random
import re
import subprocess
import time

from lib import common

RUN = os.path.join(common.BUILD, "ocaml", "tc", "run")
CORPUS = os.path.join(common.VERIF, "corpus", "C06")
NPROC = 16
ASAN_ENV = "detect_leaks=0:abort_on_error=0:exitcode=99:allocator_may_return_null=1"
ERR_RE = re.compile(r"^<stdin>:(\d+): error: (.*)$")

RULES = ["RAssignConst", "RAssignType", "RVarInitConst", "RArgs", "RNotCallable", "RUndefined", "RAttr",
         "ROperator", "RCond", "RBranches", "RReturn", "RRecordArgs", "RArray", "RIndex", "RRedefined",
         "RSeq", "RUnknownType", "RMatch", "RException", "RForIn"]

# diagnostic text -> rule (front/typecheck.c, front/tcmatch.c, front/tcheckarr.c)
CLASSES = [
    (2, re.compile(r"^cannot assign \S+ .* to var")),
    (1, re.compile(r"^cannot assign different types")),
    (0, re.compile(r"^cannot assign to ")),
    (3, re.compile(r"^function call type mismatch")),
    (4, re.compile(r"^cannot execute function on type")),
    (5, re.compile(r"^cannot find identifier")),
    (6, re.compile(r"^cannot find attribute|^cannot get record attribute")),
    (7, re.compile(r"^cannot exec arithmetic|^cannot exec mod|^cannot compare types|^cannot ne type|"
                   r"^cannot bin not|^cannot negate|^cannot binary")),
    (8, re.compile(r"^cannot execute conditional operator on|^while loop condition|^for loop condition")),
    (9, re.compile(r"^types on conditional expression do not match")),
    (10, re.compile(r"^incorrect return type")),
    (11, re.compile(r"^record create type mismatch")),
    (12, re.compile(r"^array is not well formed|^incorrect types in array")),
    (13, re.compile(r"^cannot deref|^incorrect types .* passed to deref|^incorrect number of dim")),
    (14, re.compile(r"already defined at line")),
    (15, re.compile(r"^last item in sequence|^no type in sequence")),
    (16, re.compile(r"^cannot find record or enum")),
    (17, re.compile(r"^match expression does not cover")),
    (18, re.compile(r"^unknown exception")),
    (19, re.compile(r"^for in loop expression|^expected range (from|to) of type int")),
]
# param_expr_cmp prints these before the caller names the offence
PRELUDE = re.compile(r"^expected param |^passing \S+ expression to variable param")


def classify(msgs):
    """set of rule ids named by a list of diagnostic texts"""
    out = set()
    for m in msgs:
        if PRELUDE.search(m):
            continue
        for rid, rx in CLASSES:
            if rx.search(m):
                out.add(rid)
                break
    return out


def drv_env():
    env = dict(os.environ)
    env["ASAN_OPTIONS"] = ASAN_ENV
    env["UBSAN_OPTIONS"] = "print_stacktrace=0:halt_on_error=0"
    env["NEVER_PATH"] = os.path.join(common.REPO, "sample", "lib")
    return env


def run_batch(args):
    drv, path = args
    try:
        p = subprocess.run([drv, "--timeout", "20", "--batch", path], stdout=subprocess.PIPE,
                           stderr=subprocess.STDOUT, env=drv_env(), timeout=1500)
        return p.stdout.decode(errors="replace")
    except subprocess.TimeoutExpired:
        return ""


def parse_out(text, res):
    cur = None
    for line in text.splitlines():
        if line.startswith("@@BEGIN "):
            cur = line.split()[1]
            res[cur] = {"kind": None, "errs": [], "san": False, "end": ""}
        elif cur is None:
            continue
        elif line.startswith("@@OUTCOME "):
            res[cur]["kind"] = line.split()[2]
        elif line.startswith("@@END "):
            res[cur]["end"] = line.split("status=")[-1]
            cur = None
        else:
            m = ERR_RE.match(line)
            if m and not m.group(2).startswith("====="):
                res[cur]["errs"].append((int(m.group(1)), m.group(2)))
            if "AddressSanitizer" in line or "runtime error:" in line or "LeakSanitizer" in line:
                res[cur]["san"] = True


def compile_all(ctx, drv, cases, tag):
    """cases: list of dict with id, src -> dict id -> result"""
    nb = max(1, min(NPROC * 4, len(cases) // 40 + 1))
    paths = []
    for b in range(nb):
        path = os.path.join(ctx.outdir, "batch_%s_%d.txt" % (tag, b))
        with open(path, "w") as f:
            for c in cases[b::nb]:
                f.write("@@@ %s compile-only\n%s\n" % (c["id"], c["src"]))
        paths.append(path)
    res = {}
    with multiprocessing.pool.ThreadPool(NPROC) as pool:
        for out in pool.imap_unordered(run_batch, [(drv, p) for p in paths]):
            parse_out(out, res)
    for p in paths:
        os.remove(p)
    return res


def judge(ctx, c, r, stats, faults):
    """c: case (kind, op, ctx, model, l0, l1, src); r: compiler result.  Returns a short verdict."""
    op, where = c["op"], c["ctx"]
    if r is None or r["kind"] is None or r["san"]:
        faults.append({"id": c["id"], "op": op, "end": (r or {}).get("end"), "sanitizer": bool(r and r["san"])})
        return "compiler-fault"
    if c["model"] == "OK":
        if r["kind"] == "COMPILED":
            return "accepted-ok"
        ctx.correspondence_broken("model-accepts-compiler-rejects",
                                  {"id": c["id"], "errors": r["errs"][:4], "src": c["src"]})
        return "base-rejected"
    rule = int(c["model"][1:])
    if r["kind"] != "COMPILE_ERROR":
        ctx.violation("accepted:%s" % op,
                      "ill-typed program accepted by the compiler: operator %s (%s), context %s" % (op, RULES[rule], where),
                      {"case": c["id"], "operator": op, "context": where, "expected": "COMPILE_ERROR naming %s at line %d" % (RULES[rule], c["l0"]),
                       "observed": r["kind"], "source": c["src"]})
        return "ACCEPTED"
    on_site = [m for (ln, m) in r["errs"] if c["l0"] <= ln <= c["l1"]]
    if r["errs"] and r["errs"][0][0] == 0 and rule in classify([m for (_, m) in r["errs"][:3]]):
        # the diagnostic that names the offence carries line 0 (what lands on the site lines are
        # follow-up diagnostics about the resulting error type)
        on_site = []
    if not on_site:
        lines = sorted({ln for (ln, _) in r["errs"]})
        key = ("wrong-line:line0:%s" % RULES[rule]) if lines[:1] == [0] else ("wrong-line:%s" % op.split(":")[0])
        ctx.violation(key, "diagnostic not reported at the offending line: operator %s, context %s" % (op, where),
                      {"case": c["id"], "operator": op, "context": where, "expected_lines": [c["l0"], c["l1"]],
                       "observed": r["errs"][:5], "source": c["src"]})
        return "WRONG-LINE"
    first_line = r["errs"][0][0]
    stats["line_first_exact" if first_line == c["l0"] else
          ("line_first_within" if c["l0"] <= first_line <= c["l1"] else "line_later_diag")] += 1
    kinds = classify(on_site)
    if rule not in kinds:
        # param_expr_cmp prints its own text ("expected param ... but got ... instead") on the line of
        # the offending expression; the caller's diagnostic that names the rule follows it and may
        # carry the line of the enclosing function / catch clause ("incorrect return type in ...")
        idx = next(i for i, (ln, _) in enumerate(r["errs"]) if c["l0"] <= ln <= c["l1"])
        for (_, m) in r["errs"][idx:]:
            if not PRELUDE.search(m):
                kinds |= classify([m])
                break
    if rule not in kinds:
        ctx.correspondence_broken("diagnostic-kind-differs-from-model-rule",
                                  {"id": c["id"], "operator": op, "model": RULES[rule], "diagnostics": on_site[:4], "src": c["src"]})
        return "kind-differs"
    return "rejected-ok"



# ==========================================================================================
# text-level families (a) (b) (c): python builds the programs and knows the verdict
# ==========================================================================================
class Src:
    """source text builder that knows the line of what it emits"""
    def __init__(self):
        self.lines = []

    def add(self, text):
        for l in text.split("\n"):
            self.lines.append(l)
        return len(self.lines)          # line number of the last line added

    def next_line(self):
        return len(self.lines) + 1

    def text(self):
        return "\n".join(self.lines) + "\n"


def tcase(cid, group, kind, op, where, expect, src, line=0, msg=None, extra=None):
    c = {"id": cid, "group": group, "kind": kind, "op": op, "ctx": where, "expect": expect,
         "l0": line, "l1": line, "msg": msg, "src": src, "text": True}
    if extra:
        c.update(extra)
    return c


# ---- (a) several matches over the same enums ------------------------------------------------
def match_lines(rng, enum, n, arms, scrut, ind, val=None):
    """arms: list of enumerator numbers and/or 'else'"""
    out = [ind + "match " + scrut, ind + "{"]
    for a in arms:
        if a == "else":
            out.append("%s    else -> 99;" % ind)
        else:
            out.append("%s    %s::e%d -> %d;" % (ind, enum, a, 10 + a))
    out.append(ind + "}")
    return out


def gen_multimatch(rng, ngroups):
    """-> list of cases; each case carries `expect_cover`: [(line, 'E::e2'), ...] (exact set)"""
    cases = []
    for g in range(ngroups):
        group = "mm%d" % g
        enums = [("E", rng.randint(1, 6))] + ([("F", rng.randint(2, 5))] if rng.random() < 0.4 else [])
        nm = rng.randint(2, 4)
        layout = rng.choice(["functions", "sequence", "nested-func", "in-arm", "mixed"])
        # the matches of the base program: each exhaustive (full, or subset + else)
        base = []
        for j in range(nm):
            en, n = enums[0] if (j < 2 or rng.random() < 0.6) else rng.choice(enums)
            ks = list(range(n))
            rng.shuffle(ks)
            if rng.random() < 0.3:
                arms = ks[:rng.randint(0, n - 1)] + ["else"]
            else:
                arms = ks
            base.append((en, n, arms))

        def build(matches):
            """-> (text, [line of match j])"""
            s = Src()
            for en, n in enums:
                s.add("enum %s { %s }" % (en, ", ".join("e%d" % k for k in range(n))))
            mline = [0] * len(matches)
            lay = layout if layout != "mixed" else None

            def put(j, scrut, ind, prefix="", suffix=""):
                en, n, arms = matches[j]
                ls = match_lines(rng, en, n, arms, scrut, ind)
                if prefix:
                    ls[0] = ind + prefix + ls[0].strip()
                ls[-1] = ls[-1] + suffix
                mline[j] = s.next_line()
                s.add("\n".join(ls))

            def param(j):
                return "x%d : %s" % (j, matches[j][0])

            if lay == "functions" or (lay is None and len(matches) == 2):
                for j in range(len(matches)):
                    s.add("func m%d(%s) -> int\n{" % (j, param(j)))
                    put(j, "x%d" % j, "    ")
                    s.add("}")
            elif lay == "sequence":
                s.add("func m0(%s) -> int\n{" % ", ".join(param(j) for j in range(len(matches))))
                for j in range(len(matches)):
                    put(j, "x%d" % j, "    ", prefix="let r%d = " % j, suffix=";")
                s.add("    " + " + ".join("r%d" % j for j in range(len(matches))))
                s.add("}")
            elif lay == "nested-func":
                s.add("func m0(%s) -> int\n{" % ", ".join(param(j) for j in range(len(matches))))
                for j in range(1, len(matches)):
                    s.add("    func in%d(y : %s) -> int\n    {" % (j, matches[j][0]))
                    put(j, "y", "        ")
                    s.add("    };")
                s.add("    " + " + ".join("in%d(x%d)" % (j, j) for j in range(1, len(matches))) + " +")
                put(0, "x0", "    ")
                s.add("}")
            elif lay == "in-arm":
                # match 1.. inside the first arm of match 0 (block arm), written by hand
                s.add("func m0(%s) -> int\n{" % ", ".join(param(j) for j in range(len(matches))))
                en0, n0, arms0 = matches[0]
                mline[0] = s.add("    match x0")
                s.add("    {")
                first = True
                for a in arms0:
                    head = "        else" if a == "else" else "        %s::e%d" % (en0, a)
                    if first:
                        first = False
                        s.add(head + " ->")
                        s.add("        {")
                        for j in range(1, len(matches)):
                            put(j, "x%d" % j, "            ", prefix="let r%d = " % j, suffix=";")
                        s.add("            " + " + ".join("r%d" % j for j in range(1, len(matches))))
                        s.add("        };")
                    else:
                        s.add(head + " -> 7;")
                s.add("    }")
                s.add("}")
            else:   # mixed: first in its own function, the rest in sequence in another
                s.add("func m0(%s) -> int\n{" % param(0))
                put(0, "x0", "    ")
                s.add("}")
                s.add("func m1(%s) -> int\n{" % ", ".join(param(j) for j in range(1, len(matches))))
                for j in range(1, len(matches)):
                    put(j, "x%d" % j, "    ", prefix="let r%d = " % j, suffix=";")
                s.add("    " + " + ".join("r%d" % j for j in range(1, len(matches))))
                s.add("}")
            s.add("func main() -> int\n{\n    0\n}")
            return s.text(), mline

        def emit(tag, kind, op, matches):
            text, mline = build(matches)
            cover = []
            for j, (en, n, arms) in enumerate(matches):
                if "else" not in arms:
                    for k in range(n):
                        if k not in arms:
                            cover.append([mline[j], "%s::e%d" % (en, k)])
            cases.append(tcase("%s.%s" % (group, tag), group, kind, op, layout,
                               "reject" if cover else "accept", text,
                               extra={"expect_cover": cover,
                                      "matches": [[n] + arms for (_, n, arms) in matches]}))

        if all(len([a for a in arms if a != "else"]) + ("else" in arms) > 0 for (_, _, arms) in base):
            emit("base", "base", "-", base)
        cnt = 0
        for j, (en, n, arms) in enumerate(base):
            if "else" in arms:
                if len(arms) - 1 < n and len(arms) > 1:
                    cnt += 1
                    emit("m%d" % cnt, "mutant", "MatchDropElse:multi", base[:j] + [(en, n, [a for a in arms if a != "else"])] + base[j + 1:])
                continue
            if n == 1:
                continue
            ks = sorted({0, n - 1} | ({rng.randrange(n)} if n > 2 else set())) if n > 4 else list(range(n))
            for k in ks:
                cnt += 1
                pos = "first" if k == 0 else ("last" if k == n - 1 else "middle")
                emit("m%d" % cnt, "mutant", "MatchOmitEnumerator:multi:" + pos,
                     base[:j] + [(en, n, [a for a in arms if a != k])] + base[j + 1:])
        # one double fault: two different matches each omit their last-declared enumerator
        el = [j for j, (en, n, arms) in enumerate(base) if "else" not in arms and n > 1]
        if len(el) >= 2:
            a, b = el[0], el[-1]
            mm = list(base)
            for j in (a, b):
                en, n, arms = mm[j]
                mm[j] = (en, n, [x for x in arms if x != n - 1])
            cnt += 1
            emit("m%d" % cnt, "mutant", "MatchOmitEnumerator:multi:two-matches", mm)
    return cases


# ---- (b) scope of pattern binders ---------------------------------------------------------------
USES = {"plus": "x + 1", "and": "((x && true) ? 1 : 0)"}


def gen_binders():
    """complete grid: construct x site x outer binding x use form"""
    cases = []
    enum = "enum R { A { x : int; }, B { y : int; z : int; }, C }"

    def wrap(site_expr, closure):
        return ("let func () -> int { %s }()" % site_expr) if closure else site_expr

    # every construct is a list of lines with placeholders {own} {other} {else} {chain_then} {chain_else};
    # absent sites get the filler "0"
    constructs = {
        "match-record-arm": (["    let r = match e", "    {", "        R::A(x) -> {own};", "        R::B(y, z) -> {other};",
                              "        R::C -> {else};", "    };"], ["own", "other", "else", "after"]),
        "match-record-arm-else": (["    let r = match e", "    {", "        R::A(x) -> {own};", "        else -> {else};", "    };"],
                                  ["own", "else", "after"]),
        "iflet-record-braces": (["    let r = if let (R::A(x) = e)", "    {", "        {own}", "    }", "    else", "    {",
                                 "        {else}", "    };"], ["own", "else", "after"]),
        "iflet-record-nobraces": (["    let r = if let (R::A(x) = e)", "        {own}", "    else", "        {else};"],
                                  ["own", "else", "after"]),
        "iflet-record-noelse": (["    let r = if let (R::A(x) = e)", "    {", "        {own}", "    };"], ["own", "after"]),
        "iflet-chain-record-first": (["    let r = if let (R::A(x) = e)", "    {", "        {own}", "    }",
                                      "    else if let (R::B(y, z) = e)", "    {", "        {chain_then}", "    }", "    else", "    {",
                                      "        {chain_else}", "    };"], ["own", "chain_then", "chain_else", "after"]),
        "iflet-chain-item-first": (["    let r = if let (R::C = e)", "    {", "        {other}", "    }",
                                    "    else if let (R::A(x) = e)", "    {", "        {own}", "    }", "    else", "    {",
                                    "        {chain_else}", "    };"], ["other", "own", "chain_else", "after"]),
    }
    n = 0
    for cname, (tmpl, sites) in sorted(constructs.items()):
        for site in sites:
            for closure in (False, True):
                for outer in (False, True):
                    for uname, use in sorted(USES.items()):
                        if not outer and uname == "and" and site != "own":
                            continue          # undefined either way, one use form is enough
                        n += 1
                        s = Src()
                        s.add(enum)
                        s.add("func f(e : R) -> int\n{")
                        if outer:
                            s.add("    let x = true;")
                        site_line = 0
                        for l in tmpl:
                            m = re.search(r"\{(own|other|else|chain_then|chain_else)\}", l)
                            if m:
                                if m.group(1) == site:
                                    site_line = s.next_line()
                                    s.add(l.replace(m.group(0), wrap(use, closure)))
                                else:
                                    s.add(l.replace(m.group(0), "0"))
                            else:
                                s.add(l)
                        if site == "after":
                            site_line = s.next_line()
                            s.add("    r + " + wrap(use, closure))
                        else:
                            s.add("    r")
                        s.add("}")
                        s.add("func main() -> int\n{\n    f(R::C)\n}")
                        inside = (site == "own")
                        sees_int = inside                      # the binder (int)
                        sees_bool = (not inside) and outer     # the outer let (bool)
                        if sees_int:
                            expect, msg = ("accept", None) if uname == "plus" else ("reject", r"^cannot compare types")
                        elif sees_bool:
                            expect, msg = ("accept", None) if uname == "and" else ("reject", r"^cannot exec arithmetic")
                        else:
                            expect, msg = "reject", r"^cannot find identifier x"
                        where = "%s/%s%s%s" % (cname, site, "+closure" if closure else "", "+outer" if outer else "")
                        op = ("BinderScope:" + ("in-arm" if inside else "outside-arm") + (":outer" if outer else ""))
                        cases.append(tcase("bs%d" % n, "bs-" + cname, "base" if expect == "accept" else "mutant", op, where,
                                           expect, s.text(), line=site_line, msg=msg))
    return cases


# ---- (c) one-place type differences -----------------------------------------------------------------
def gen_type(rng, depth, need_fun=True):
    """types: ('int',) ('bool',) ('fun', [(var, T)..], T) ('arr', T) ('tup', [T, T])"""
    if depth <= 0:
        return (rng.choice(["int", "bool"]),)
    kind = rng.choice(["fun", "fun", "fun", "arr", "tup"]) if need_fun else rng.choice(["base", "base", "fun", "arr", "tup"])
    if kind == "base":
        return (rng.choice(["int", "bool"]),)
    if kind == "fun":
        np_ = rng.choice([0, 1, 1, 2])
        ps = [(rng.random() < 0.3, gen_type(rng, depth - 1, need_fun=(rng.random() < 0.5))) for _ in range(np_)]
        return ("fun", ps, gen_type(rng, depth - 1, need_fun=(rng.random() < 0.4)))
    if kind == "arr":
        return ("arr", gen_type(rng, depth - 1, need_fun=need_fun))
    return ("tup", [(rng.choice(["int", "bool"]),), gen_type(rng, depth - 1, need_fun=need_fun)])


def has_fun(t):
    return t[0] == "fun" or (t[0] == "arr" and has_fun(t[1])) or (t[0] == "tup" and any(has_fun(x) for x in t[1]))


class Names:
    def __init__(self):
        self.n = 0

    def fresh(self, p):
        self.n += 1
        return "%s%d" % (p, self.n)


def ty_str(t, nm):
    if t[0] in ("int", "bool"):
        return t[0]
    if t[0] == "fun":
        return "(" + ", ".join(("var " if v else "") + ty_str(p, nm) for v, p in t[1]) + ") -> " + ty_str(t[2], nm)
    if t[0] == "arr":
        return "[%s] : %s" % (nm.fresh("D"), ty_str(t[1], nm))
    return "(" + ", ".join(ty_str(x, nm) for x in t[1]) + ")"


def param_str(name, t, nm, var=False):
    pre = "var " if var else ""
    if t[0] == "fun":
        return pre + name + "(" + ", ".join(("var " if v else "") + ty_str(p, nm) for v, p in t[1]) + ") -> " + ty_str(t[2], nm)
    if t[0] == "arr":
        return pre + "%s[%s] : %s" % (name, nm.fresh("D"), ty_str(t[1], nm))
    return pre + name + " : " + ty_str(t, nm)


def value_str(t, nm):
    """a closed one-line expression of type t"""
    if t[0] == "int":
        return "0"
    if t[0] == "bool":
        return "true"
    if t[0] == "fun":
        ps = ", ".join(param_str(nm.fresh("q"), p, nm, var=v) for v, p in t[1])
        return "let func (%s) -> %s { %s }" % (ps, ty_str(t[2], nm), value_str(t[2], nm))
    if t[0] == "arr":
        return "[ %s ] : %s" % (value_str(t[1], nm), ty_str(t[1], nm))
    return "(%s) : %s" % (", ".join(value_str(x, nm) for x in t[1]), ty_str(t, nm))


def flip(t):
    return ("bool",) if t[0] == "int" else ("int",)


def one_place_variants(t, path=""):
    """-> [(kind, path, t')] : t' differs from t in exactly one place inside a function type"""
    out = []
    if t[0] == "fun":
        here = path + "fun"
        ps, r = t[1], t[2]
        for i, (v, p) in enumerate(ps):
            out.append(("varflag", here, ("fun", ps[:i] + [(not v, p)] + ps[i + 1:], r)))
            if p[0] in ("int", "bool"):
                out.append(("paramkind", here, ("fun", ps[:i] + [(v, flip(p))] + ps[i + 1:], r)))
            for k, pa, p2 in one_place_variants(p, here + ".param>"):
                out.append((k, pa, ("fun", ps[:i] + [(v, p2)] + ps[i + 1:], r)))
        if r[0] in ("int", "bool"):
            out.append(("retkind", here, ("fun", ps, flip(r))))
        for k, pa, r2 in one_place_variants(r, here + ".ret>"):
            out.append((k, pa, ("fun", ps, r2)))
        out.append(("arity+1", here, ("fun", ps + [(False, ("int",))], r)))
        if ps:
            out.append(("arity-1", here, ("fun", ps[:-1], r)))
    elif t[0] == "arr":
        for k, pa, e2 in one_place_variants(t[1], path + "arr>"):
            out.append((k, pa, ("arr", e2)))
    elif t[0] == "tup":
        for i, x in enumerate(t[1]):
            for k, pa, x2 in one_place_variants(x, path + "tup>"):
                out.append((k, pa, ("tup", t[1][:i] + [x2] + t[1][i + 1:])))
    return out


POSITIONS = ["arg", "assign", "return", "array-elem", "cond-branch"]


def type_program(texp, tgiv, pos):
    """-> (source, line of the offending expression, diagnostic regex)"""
    nm = Names()
    s = Src()
    if pos == "arg":
        s.add("func sink(%s) -> int\n{\n    0\n}" % param_str("p", texp, nm))
        s.add("func main() -> int\n{")
        line = s.add("    sink(%s);" % value_str(tgiv, nm))
        s.add("    0\n}")
        return s.text(), line, r"^function call type mismatch"
    if pos == "assign":
        s.add("func main() -> int\n{")
        s.add("    var v = %s;" % value_str(texp, nm))
        line = s.add("    v = %s;" % value_str(tgiv, nm))
        s.add("    0\n}")
        return s.text(), line, r"^cannot assign different types"
    if pos == "return":
        line0 = s.add("func mk() -> %s" % ty_str(texp, nm))
        s.add("{")
        line = s.add("    %s" % value_str(tgiv, nm))
        s.add("}")
        s.add("func main() -> int\n{\n    0\n}")
        return s.text(), (line0, line), r"^incorrect return type"
    if pos == "array-elem":
        s.add("func main() -> int\n{")
        line = s.add("    let a = [ %s, %s ] : %s;" % (value_str(texp, nm), value_str(tgiv, nm), ty_str(texp, nm)))
        s.add("    0\n}")
        return s.text(), line, r"^array is not well formed|^incorrect types in array"
    s.add("func main() -> int\n{")
    s.add("    let c = 1 < 2;")
    line = s.add("    let a = c ? %s : %s;" % (value_str(texp, nm), value_str(tgiv, nm)))
    s.add("    0\n}")
    return s.text(), line, r"^types on conditional expression do not match|are different"


def gen_functypes(rng, ntypes, cap):
    cases = []
    seen = set()
    g = 0
    tries = 0
    while g < ntypes and tries < ntypes * 20:
        tries += 1
        t = gen_type(rng, rng.choice([1, 2, 2, 3, 3]))
        if not has_fun(t) or repr(t) in seen:
            continue
        seen.add(repr(t))
        g += 1
        group = "ft%d" % g
        vs = one_place_variants(t)
        rng.shuffle(vs)
        # keep every (kind, path) class once, then fill up to cap
        chosen, classes = [], set()
        for v in vs:
            if (v[0], v[1]) not in classes:
                classes.add((v[0], v[1]))
                chosen.append(v)
        chosen = chosen[:cap]
        for pos in POSITIONS:
            if pos == "cond-branch" and t[0] == "tup":
                continue     # expr_comb_cmp_and_set has no member-wise rule for tuples: not a function-type rule
            src, line, msg = type_program(t, t, pos)
            cases.append(tcase("%s.%s.base" % (group, pos), group, "base", "-", pos, "accept", src))
            for i, (kind, path, t2) in enumerate(chosen):
                src, line, msg = type_program(t, t2, pos)
                l0, l1 = line if isinstance(line, tuple) else (line, line)
                c = tcase("%s.%s.m%d" % (group, pos, i), group, "mutant", "TypeMismatch:%s@%s" % (kind, path), pos,
                          "reject", src, line=l0, msg=msg)
                c["l1"] = l1
                cases.append(c)
    return cases


def judge_text(ctx, c, r, faults, model=None):
    op, where = c["op"], c["ctx"]
    if r is None or r["kind"] is None or r["san"]:
        faults.append({"id": c["id"], "op": op, "end": (r or {}).get("end"), "sanitizer": bool(r and r["san"])})
        return "compiler-fault"
    if "expect_cover" in c:
        got = sorted([ln, m.split()[-2]] for (ln, m) in r["errs"] if m.startswith("match expression does not cover"))
        want = sorted(c["expect_cover"])
        if model is not None:
            mwant = "reject" if any(v != "OK" for v in model) else "accept"
            if mwant != c["expect"]:
                ctx.correspondence_broken("match-model-differs-from-oracle", {"id": c["id"], "model": model, "oracle": want})
        missing = [w for w in want if w not in got]
        if missing:
            ctx.violation("accepted:%s" % op,
                          "a match omitting an enumerator without else is not diagnosed (%s, layout %s)" % (op, where),
                          {"case": c["id"], "operator": op, "context": where, "expected_diagnostics": want,
                           "observed": r["errs"][:6], "outcome": r["kind"], "source": c["src"]})
            return "ACCEPTED"
        extra = [g for g in got if g not in want]
        if extra or (not want and r["kind"] != "COMPILED"):
            ctx.correspondence_broken("exhaustive-match-rejected", {"id": c["id"], "errors": r["errs"][:4], "src": c["src"]})
            return "base-rejected"
        return "rejected-ok" if want else "accepted-ok"
    if c["expect"] == "accept":
        if r["kind"] == "COMPILED":
            return "accepted-ok"
        ctx.correspondence_broken("text-positive-rejected", {"id": c["id"], "op": op, "context": where,
                                                             "errors": r["errs"][:4], "src": c["src"]})
        return "base-rejected"
    if r["kind"] != "COMPILE_ERROR":
        if op.startswith("TypeMismatch"):
            # stable class: kind of difference, what the differing function type is nested in, position
            kind, path = op[len("TypeMismatch:"):].split("@")
            comps = path.split(">")
            key = "accepted:TypeMismatch:%s:in-%s:%s" % (kind, comps[-2] if len(comps) > 1 else "top", where)
        else:
            key = "accepted:%s" % op
        ctx.violation(key,
                      "ill-typed program accepted by the compiler: %s at %s" % (op, where),
                      {"case": c["id"], "operator": op, "context": where,
                       "expected": "COMPILE_ERROR /%s/ at line %d" % (c["msg"], c["l1"]), "observed": r["kind"],
                       "source": c["src"]})
        return "ACCEPTED"
    rx = re.compile(c["msg"])
    if not any(c["l0"] <= ln <= c["l1"] and rx.search(m) for (ln, m) in r["errs"]):
        if any(c["l0"] <= ln <= c["l1"] for (ln, _) in r["errs"]):
            ctx.correspondence_broken("text-diagnostic-kind-differs", {"id": c["id"], "op": op, "context": where,
                                                                       "expected": c["msg"], "errors": r["errs"][:4], "src": c["src"]})
            return "kind-differs"
        ctx.violation("wrong-line:%s" % op.split("@")[0],
                      "diagnostic not reported at the offending line: %s at %s" % (op, where),
                      {"case": c["id"], "operator": op, "context": where, "expected_lines": [c["l0"], c["l1"]],
                       "observed": r["errs"][:5], "source": c["src"]})
        return "WRONG-LINE"
    return "rejected-ok"


def run_text_families(ctx, drv, quick):
    rng = random.Random((ctx.seed << 8) ^ 0xC06)
    mm = gen_multimatch(rng, 120 if quick else 500)
    bs = gen_binders()
    ft = gen_functypes(rng, 160 if quick else 700, 12 if quick else 16)
    cases = mm + bs + ft
    # the model judges every match of family (a)
    qpath = os.path.join(ctx.outdir, "mcheck.txt")
    with open(qpath, "w") as f:
        for c in mm:
            for m in c["matches"]:
                f.write(" ".join(str(x) for x in m) + "\n")
    rc, so, se = common.sh([RUN, "mcheck", qpath], timeout=300)
    os.remove(qpath)
    verd = so.split()
    k = 0
    models = {}
    for c in mm:
        models[c["id"]] = verd[k:k + len(c["matches"])]
        k += len(c["matches"])
    if rc != 0 or k != len(verd):
        ctx.correspondence_broken("mcheck-driver", {"rc": rc, "stderr": se[-500:]})
    res = compile_all(ctx, drv, cases, "text")
    faults = []
    verdicts = collections.Counter()
    per = collections.Counter()
    distinct = set()
    for c in cases:
        v = judge_text(ctx, c, res.get(c["id"]), faults, models.get(c["id"]))
        verdicts[v] += 1
        fam = "a:multi-match" if c["id"].startswith("mm") else ("b:binder-scope" if c["id"].startswith("bs") else "c:type-position")
        per["%s | %s | %s" % (fam, c["op"].split("@")[0], c["ctx"].split("/")[0])] += 1
        if c["kind"] == "mutant":
            distinct.add((c["op"], c["ctx"], c["group"]))
    ctx.count(evaluations=sum(verdicts.values()), nontrivial=len(distinct))
    ctx.coverage["text_families"] = {"verdicts": dict(verdicts), "cases": {"multi_match": len(mm), "binder_scope": len(bs), "type_position": len(ft)},
                                     "per_family_operator_position": dict(sorted(per.items())),
                                     "binder_scope_grid_exhaustive": True, "compiler_faults": faults[:3]}
    for c in (mm[1:2] + bs[5:6] + [x for x in ft if x["kind"] == "mutant"][:1]):
        ctx.sample({"family_case": c["id"], "operator": c["op"], "context": c["ctx"], "expect": c["expect"],
                    "compiler": (res.get(c["id"]) or {}).get("errs", [])[:2], "source": c["src"][-500:]}, limit=9)


# ---- (d) every offence kind x every syntactic context x every sink ----------------------------------
# An offence is a one-line int-valued expression that breaks exactly one static rule (with a well-typed
# twin that differs from it in the one offending token); a context is a one-line expression with an
# int-typed hole; a sink is where the value of the context expression goes.  Nothing here is computed
# by the compiler under test: the verdict (reject, diagnostic of the offence's rule on the lines of the
# statement) follows from the construction.
CF_PRE = """record R { x : int; }
enum E { a, b, c }
func f1(a : int) -> int { a + 1 }
func f2(a : int, c : int) -> int { a + c }
func fv(var a : int) -> int { a = a + 1; a }
func i2e(i : int) -> E { E::a }
func s_int(z : int) -> int { 0 }
func s_arr(z[D] : int) -> int { 0 }
func s_rec(z : R) -> int { 0 }
func s_str(z : string) -> int { 0 }
func s_fun(z(int) -> int) -> int { 0 }
func s_rng([f .. t] : range) -> int { 0 }
func s_tup(z : (int, int)) -> int { 0 }
func s_slc(z[f .. t] : int) -> int { 0 }"""
CF_LOCALS = 'let k = 1; var v = 2; let b = true; let r = R(3); let e = E::a; let a = [ 1, 2, 3 ] : int;'

# type of a context expression -> (type text, default value, projection of an expression of that type to int)
CF_TYPES = {
    "int": ("int", "0", "({C})"),
    "slc": ("[..] : int", "([ 7, 8 ] : int)[0 .. 1]", "({C})[0]"),
    "arr": ("[_] : int", "[ 7 ] : int", "({C})[0]"),
    "rec": ("R", "R(0)", "({C}).x"),
    "str": ("string", '"d"', "length({C})"),
    "fun": ("(int) -> int", "f1", "({C})(1)"),
    "rng": ("[..] : range", "[ 0 .. 1 ]", "s_rng({C})"),
    "tup": ("(int, int)", "(0, 0) : (int, int)", "({C})[0]"),
}

# (offence, ill-typed expression, well-typed twin, diagnostic that names the offence)
CF_OFFENCES = [
    ("AssignToLet", "(k = k + 1)", "(v = v + 1)", r"^cannot assign to "),
    ("AssignToParam", "(p = p + 1)", "(pv = pv + 1)", r"^cannot assign to "),
    ("ArgCount:more", "f1(1, 2)", "f1(1)", r"^function call type mismatch"),
    ("ArgCount:less", "f2(1)", "f2(1, 2)", r"^function call type mismatch"),
    ("ArgKind", "f1(b)", "f1(k)", r"^function call type mismatch"),
    ("ArgConstToVar", "fv(k)", "fv(v)", r"^function call type mismatch"),
    ("UndefinedName", "(zz + 1)", "(k + 1)", r"^cannot find identifier zz"),
    ("UndefinedAttr", "r.nope", "r.x", r"^cannot find attribute|^cannot get record attribute"),
    ("Operator:arith", "(k + b)", "(k + v)", r"^cannot exec arithmetic"),
    ("Operator:compare", "((k < b) ? 1 : 0)", "((k < v) ? 1 : 0)", r"^cannot compare types"),
    ("CondNotBool:?:", "(k ? 1 : 2)", "(b ? 1 : 2)", r"^cannot execute conditional operator on"),
    ("CondNotBool:if", "(if (k) { 1 } else { 2 })", "(if (b) { 1 } else { 2 })", r"^cannot execute conditional operator on"),
    ("CondNotBool:while", "(while (k) { 0 })", "(while (b) { 0 })", r"^while loop condition"),
    ("ReturnKind", "(let func () -> int { b }())", "(let func () -> int { k }())", r"^incorrect return type"),
    ("MatchOmit", "(match e { E::a -> 1; E::b -> 2; })", "(match e { E::a -> 1; E::b -> 2; E::c -> 3; })",
     r"^match expression does not cover"),
    ("UnknownException", "((let func () -> int { 1 } catch (no_such_exception) { 0 })())",
     "((let func () -> int { 1 } catch (division_by_zero) { 0 })())", r"^unknown exception"),
]
CF_GOOD = "(v + 1)"

# (context, expression with an int-typed hole, type of the expression)
CF_CONTEXTS = [
    ("listcomp-elem", "[ {X} + x | x in a ] : int", "arr"),
    ("listcomp-source", "[ x | x in [ {X}, 2 ] : int ] : int", "arr"),
    ("listcomp-filter", "[ x | x in a; x > {X} ] : int", "arr"),
    ("listcomp-2nd-generator", "[ x + y | x in a; y in [ {X} ] : int ] : int", "arr"),
    ("array-literal", "[ 1, {X}, 3 ] : int", "arr"),
    ("array-dims", "{[ {X} ]} : int", "arr"),
    ("record-arg", "R({X})", "rec"),
    ("match-arm", "match e { E::a -> {X}; E::b -> 2; E::c -> 3; }", "int"),
    ("match-else-arm", "match e { E::a -> 1; else -> {X}; }", "int"),
    ("match-scrutinee", "match i2e({X}) { E::a -> 1; else -> 2; }", "int"),
    ("iflet-then", "if let (E::a = e) { {X} } else { 0 }", "int"),
    ("iflet-else", "if let (E::a = e) { 0 } else { {X} }", "int"),
    ("iflet-scrutinee", "if let (E::a = i2e({X})) { 1 } else { 0 }", "int"),
    ("for-in-body", "for (i in [ 0 .. 2 ]) { {X} }", "int"),
    ("for-in-bound", "for (i in [ 0 .. {X} ]) { 0 }", "int"),
    ("for-in-array", "for (i in [ {X} ] : int) { 0 }", "int"),
    ("for3-body", "for (v = 0; v < 2; v = v + 1) { {X} }", "int"),
    ("for3-cond", "for (v = 0; v < {X}; v = v + 1) { 0 }", "int"),
    ("for3-step", "for (v = 0; v < 2; v = v + {X}) { 0 }", "int"),
    ("while-body", "while (false) { {X} }", "int"),
    ("while-cond", "while ({X} < 0) { 0 }", "int"),
    ("do-body", "do { {X} } while (false)", "int"),
    ("do-cond", "do { 0 } while ({X} < 0)", "int"),
    ("lambda-body", "let func (q : int) -> int { {X} }", "fun"),
    ("lambda-catch", "let func (q : int) -> int { q } catch (division_by_zero) { {X} }", "fun"),
    ("lambda-catch-all", "let func (q : int) -> int { q } catch { {X} }", "fun"),
    ("nested-func-body", "{ func g(q : int) -> int { {X} }; g(1) }", "int"),
    ("nested-func-catch", "{ func g(q : int) -> int { q } catch (nil_pointer) { {X} }; g(1) }", "int"),
    ("range-lo", "[ {X} .. 9 ]", "rng"),
    ("range-hi", "[ 0 .. {X} ]", "rng"),
    ("slice-bound", "a[0 .. {X}]", "slc"),
    ("string-concat-left", '{X} + "s"', "str"),
    ("string-concat-right", '"s" + {X}', "str"),
    ("call-arg", "f1({X})", "int"),
    ("call-arg-2nd", "f2(1, {X})", "int"),
    ("builtin-arg", "print({X})", "int"),
    ("index", "a[{X}]", "int"),
    ("cond-branch", "(b ? {X} : 0)", "int"),
    ("cond-cond", "({X} > 0 ? 1 : 0)", "int"),
    ("if-then", "if (b) { {X} } else { 0 }", "int"),
    ("if-cond", "if ({X} > 0) { 1 } else { 0 }", "int"),
    ("tuple-elem", "({X}, 1) : (int, int)", "tup"),
    ("block-stmt", "{ {X}; 0 }", "int"),
    ("block-let", "{ let t = {X}; t }", "int"),
    ("neg", "-{X}", "int"),
    ("arith-operand", "1 + {X}", "int"),
    ("pipe", "{X} |> f1()", "int"),
    ("assign-rhs", "(v = {X})", "int"),
]
CF_SINKS = ["let", "var", "discard", "return", "pass", "assign"]
CF_HOSTS = ["func", "nested", "lambda", "catch"]
# `var w = <const expression>` is itself an offence: the var sink does not apply to contexts whose value is
# const (call results, while/do, an element of a `let` array, a block ending in a `let` name, an assignment:
# measured on the unchanged tree; a context missing here shows up as a rejected well-typed program)
CF_CONST_RESULT = {"call-arg", "call-arg-2nd", "pipe", "while-body", "while-cond", "do-body", "do-cond", "index",
                   "block-let", "nested-func-body", "nested-func-catch", "assign-rhs"}


def cf_program(ctxs, xexpr, sink, host, split=False):
    """ctxs: outermost first.  -> (source, first line, last line of the statement holding the offence)"""
    inner = "\n            %s\n        " % xexpr if split else xexpr
    ty = "int"
    for i, (_n, tmpl, t) in enumerate(reversed(ctxs)):
        if i > 0:
            inner = CF_TYPES[ty][2].replace("{C}", inner)
        inner = tmpl.replace("{X}", inner)
        ty = t
    tytext, dflt, _proj = CF_TYPES[ty]
    body = [CF_LOCALS]
    if sink == "let":
        body += ["let w = %s;" % inner, dflt]
    elif sink == "var":
        body += ["var w = %s;" % inner, dflt]
    elif sink == "discard":
        body += ["%s;" % inner, dflt]
    elif sink == "return":
        body += [inner]
    elif sink == "pass":
        body += ["s_%s(%s);" % (ty, inner), dflt]
    else:
        body += ["var w = %s;" % dflt, "w = %s;" % inner, dflt]
    site = 1 if sink != "assign" else 2
    s = Src()
    s.add(CF_PRE)
    params = "p : int, var pv : int"

    def put_body(ind):
        l0 = l1 = 0
        for i, st in enumerate(body):
            if i == site:
                l0 = s.next_line()
            l = s.add("\n".join(ind + x for x in st.split("\n")))
            if i == site:
                l1 = l
        return l0, l1

    if host == "func":
        s.add("func host(%s) -> %s\n{" % (params, tytext))
        l0, l1 = put_body("    ")
        s.add("}")
        s.add("func main() -> int\n{\n    0\n}")
    elif host == "nested":
        s.add("func main() -> int\n{")
        s.add("    func host(%s) -> %s\n    {" % (params, tytext))
        l0, l1 = put_body("        ")
        s.add("    };\n    0\n}")
    elif host == "lambda":
        s.add("func main() -> int\n{")
        s.add("    let host = let func (%s) -> %s\n    {" % (params, tytext))
        l0, l1 = put_body("        ")
        s.add("    };\n    0\n}")
    else:
        s.add("func host(%s) -> %s\n{\n    %s\n}\ncatch (wrong_array_size)\n{" % (params, tytext, dflt))
        l0, l1 = put_body("    ")
        s.add("}")
        s.add("func main() -> int\n{\n    0\n}")
    return s.text(), l0, l1


def gen_context_family(rng, quick):
    cases = []
    n = [0]

    def add(kind, off, ctxs, sink, host, split=False):
        name, bad, good, rx = off if off else ("-", CF_GOOD, CF_GOOD, None)
        x = bad if kind == "mutant" else good
        src, l0, l1 = cf_program(ctxs, x, sink, host, split)
        n[0] += 1
        where = ">".join(c[0] for c in ctxs)
        c = tcase("cf%d" % n[0], "cf", kind, name, "%s|%s|%s%s" % (where, sink, host, "|split" if split else ""),
                  "reject" if kind == "mutant" else "accept", src, line=l0, msg=rx,
                  extra={"cf": (name.split(":")[0], ctxs[0][0], sink, host, len(ctxs))})
        c["l1"] = l1
        cases.append(c)

    def sinks_for(ctxs):
        return [s for s in CF_SINKS if not (s == "var" and ctxs[0][0] in CF_CONST_RESULT)]

    # 1. the complete grid offence x context x sink in a plain function; one cell in eight also with the
    #    offending expression on a line of its own
    for c in CF_CONTEXTS:
        for sink in sinks_for([c]):
            add("base", None, [c], sink, "func")
            for off in CF_OFFENCES:
                add("mutant", off, [c], sink, "func", split=(rng.random() < 0.125))
    # 2. well-typed twin of every offence in every context (the offence, not its shape, is what is rejected)
    for c in CF_CONTEXTS:
        for off in CF_OFFENCES:
            add("base", off, [c], rng.choice(sinks_for([c])), "func")
    # 3. other hosts (nested function, lambda, catch clause): every context x sink, offences rotated / all
    for host in CF_HOSTS[1:]:
        for c in CF_CONTEXTS:
            for sink in sinks_for([c]):
                add("base", None, [c], sink, host)
                offs = [rng.choice(CF_OFFENCES)] if quick else CF_OFFENCES
                for off in offs:
                    add("mutant", off, [c], sink, host, split=(rng.random() < 0.125))
    # 4. two contexts deep: every ordered pair (outer, inner); the inner value is projected to int
    for co in CF_CONTEXTS:
        for ci in CF_CONTEXTS:
            ss = sinks_for([co, ci])
            sel = [rng.choice(ss)] if quick else ss
            for sink in sel:
                host = rng.choice(CF_HOSTS)
                add("base", None, [co, ci], sink, host)
                add("mutant", rng.choice(CF_OFFENCES), [co, ci], sink, host)
    # 5. three deep, random
    for _ in range(300 if quick else 3000):
        cs = [rng.choice(CF_CONTEXTS) for _ in range(3)]
        sink = rng.choice(sinks_for(cs))
        host = rng.choice(CF_HOSTS)
        add("base", None, cs, sink, host)
        add("mutant", rng.choice(CF_OFFENCES), cs, sink, host)
    return cases


def run_context_family(ctx, drv, quick):
    rng = random.Random((ctx.seed << 10) ^ 0xC06D)
    cases = gen_context_family(rng, quick)
    res = compile_all(ctx, drv, cases, "cf")
    verdicts = collections.Counter()
    faults = []
    cells = collections.Counter()          # (offence, outermost context, sink) of judged mutants
    t_os, t_cs, t_oc, t_host, t_depth = (collections.Counter() for _ in range(5))
    accepted = collections.Counter()
    reported = 0
    for c in cases:
        r = res.get(c["id"])
        off, cname, sink, host, depth = c["cf"]
        if r is None or r["kind"] is None or r["san"]:
            faults.append({"id": c["id"], "op": c["op"], "context": c["ctx"], "end": (r or {}).get("end"),
                           "sanitizer": bool(r and r["san"])})
            verdicts["compiler-fault"] += 1
            continue
        if c["kind"] == "base":
            if r["kind"] == "COMPILED":
                verdicts["accepted-ok"] += 1
            else:
                verdicts["base-rejected"] += 1
                ctx.correspondence_broken("context-family-positive-rejected",
                                          {"id": c["id"], "op": c["op"], "context": c["ctx"], "errors": r["errs"][:4], "src": c["src"]})
            continue
        cells[(off, cname, sink)] += 1
        t_os["%s | %s" % (off, sink)] += 1
        t_cs["%s | %s" % (cname, sink)] += 1
        t_oc["%s | %s" % (off, cname)] += 1
        t_host[host] += 1
        t_depth[depth] += 1
        rx = re.compile(c["msg"])
        if r["kind"] != "COMPILE_ERROR":
            verdicts["ACCEPTED"] += 1
            accepted["%s | %s" % (cname, sink)] += 1
            if reported < 6:
                before = len(ctx.violations)
                ctx.violation("accepted:%s:in-%s:sink-%s" % (off, cname, sink),
                              "ill-typed program accepted by the compiler: offence %s inside %s, value of the enclosing "
                              "expression goes to: %s" % (c["op"], c["ctx"].split("|")[0], sink),
                              {"case": c["id"], "operator": c["op"], "context": c["ctx"],
                               "expected": "COMPILE_ERROR /%s/ on lines %d..%d" % (c["msg"], c["l0"], c["l1"]),
                               "observed": {"outcome": r["kind"], "diagnostics": r["errs"][:5]}, "source": c["src"]})
                reported += len(ctx.violations) - before
            continue
        on_site = [m for (ln, m) in r["errs"] if c["l0"] <= ln <= c["l1"]]
        if not on_site:
            verdicts["WRONG-LINE"] += 1
            if reported < 6:
                before = len(ctx.violations)
                ctx.violation("wrong-line:%s:in-%s" % (off, cname),
                              "diagnostic not reported at the offending line: offence %s inside %s" % (c["op"], c["ctx"]),
                              {"case": c["id"], "operator": c["op"], "context": c["ctx"], "expected_lines": [c["l0"], c["l1"]],
                               "observed": r["errs"][:5], "source": c["src"]})
                reported += len(ctx.violations) - before
            continue
        if not any(rx.search(m) for m in on_site):
            verdicts["kind-differs"] += 1
            ctx.correspondence_broken("context-family-diagnostic-kind-differs",
                                      {"id": c["id"], "op": c["op"], "context": c["ctx"], "expected": c["msg"],
                                       "errors": r["errs"][:4], "src": c["src"]})
            continue
        verdicts["rejected-ok"] += 1
    ctx.count(evaluations=sum(verdicts.values()), nontrivial=len(cells))
    grid = len({o[0].split(":")[0] for o in CF_OFFENCES}) * sum(len([s for s in CF_SINKS if not (s == "var" and c[0] in CF_CONST_RESULT)])
                                                               for c in CF_CONTEXTS)
    ctx.coverage["context_family"] = {
        "rule": "one-line offence (16 forms of the 12 offence kinds of the property, each with a well-typed twin) planted in the "
                "int-typed hole of a context expression (%d contexts), 1-3 contexts deep, the value of the outermost expression "
                "bound by let / var / discarded / returned / passed / assigned, inside a function / nested function / lambda / "
                "catch clause; every mutant must be COMPILE_ERROR with the offence's diagnostic on the statement's lines, every "
                "twin and every context x sink x host without offence must compile" % len(CF_CONTEXTS),
        "verdicts": dict(verdicts),
        "cells_offence_kind_x_context_x_sink": {"possible": grid, "covered": len(cells),
                                                "min_cases_per_cell": min(cells.values()) if cells else 0,
                                                "max_cases_per_cell": max(cells.values()) if cells else 0},
        "offence_x_sink": dict(sorted(t_os.items())),
        "context_x_sink": dict(sorted(t_cs.items())),
        "offence_x_context": dict(sorted(t_oc.items())),
        "mutants_per_host": dict(t_host), "mutants_per_depth": {str(k): v for k, v in sorted(t_depth.items())},
        "accepted_cells_context_x_sink": dict(sorted(accepted.items())),
        "compiler_faults": faults[:3], "compiler_fault_count": len(faults),
    }
    for c in [x for x in cases if x["kind"] == "mutant"][5:400:131]:
        ctx.sample({"family_case": c["id"], "offence": c["op"], "context|sink|host": c["ctx"],
                    "site_lines": [c["l0"], c["l1"]], "compiler": (res.get(c["id"]) or {}).get("errs", [])[:2],
                    "statement": "\n".join(c["src"].split("\n")[c["l0"] - 1:c["l1"]])}, limit=12)


def run_corpus(ctx, drv):
    cases = []
    meta = {}
    if os.path.isdir(CORPUS):
        for fn in sorted(os.listdir(CORPUS)):
            if not fn.endswith(".nev"):
                continue
            src = open(os.path.join(CORPUS, fn)).read()
            m = re.match(r"# expect: (accept|reject)(?: line=(\d+))?(?: key=(\S+))?", src)
            if not m:
                continue
            cid = "corpus." + fn[:-4]
            cases.append({"id": cid, "src": src})
            meta[cid] = (m.group(1), int(m.group(2) or 0), m.group(3) or ("corpus:" + fn[:-4]))
    sdir = os.path.join(common.REPO, "sample")
    for fn in sorted(os.listdir(sdir)):
        if fn.endswith(".nev.err"):
            exp = open(os.path.join(sdir, fn)).read()
            m = re.search(r":(\d+): error:", exp)
            nev = os.path.join(sdir, fn[:-4])
            if m and os.path.exists(nev):
                cid = "sample." + fn[:-8]
                cases.append({"id": cid, "src": open(nev).read()})
                meta[cid] = ("reject", int(m.group(1)), "sample:" + fn[:-8])
    res = compile_all(ctx, drv, cases, "corpus")
    n = 0
    for c in cases:
        exp, line, key = meta[c["id"]]
        r = res.get(c["id"])
        if r is None or r["kind"] is None or r["san"]:
            ctx.notes.setdefault("corpus_compiler_faults", []).append(c["id"])
            continue
        n += 1
        if exp == "accept":
            if r["kind"] != "COMPILED":
                ctx.correspondence_broken("corpus-positive-rejected", {"id": c["id"], "errors": r["errs"][:3]})
        else:
            if r["kind"] != "COMPILE_ERROR":
                ctx.violation(key, "ill-typed corpus program accepted by the compiler (%s)" % c["id"],
                              {"case": c["id"], "expected": "COMPILE_ERROR at line %d" % line, "observed": r["kind"],
                               "source": c["src"]})
            elif line and not any(ln == line for (ln, _) in r["errs"]):
                ctx.violation(key if key.startswith("wrong-line:") else "wrong-line:" + key,
                              "diagnostic not at the offending line (%s)" % c["id"],
                              {"case": c["id"], "expected_line": line, "observed": r["errs"][:5], "source": c["src"]})
    return n, len(cases)


def run(ctx):
    ctx.proofs()
    lib = common.repobuild("asan")
    ok, log = common.ocaml_build()
    if not ok and not os.path.exists(RUN):
        raise common.BuildError("ocaml build failed:\n" + log[-3000:])
    if not ok:
        ctx.notes["ocaml_build_warning"] = log[-600:]
    drv = common.cc_driver("nevrun", ["common/nevrun.c"], lib)

    t0 = time.time()
    ncorp, ncorp_all = run_corpus(ctx, drv)
    ctx.notes["corpus_cases"] = ncorp_all
    ctx.count(evaluations=ncorp, nontrivial=ncorp)

    quick = ctx.tier == "quick"
    run_text_families(ctx, drv, quick)
    ctx.notes["text_families_s"] = round(time.time() - t0, 1)
    run_context_family(ctx, drv, quick)
    ctx.notes["context_family_s"] = round(time.time() - t0, 1)
    nprog, kcap, nmatch = (320, 2, 120) if quick else (1600, 3, 500)
    cases_path = os.path.join(ctx.outdir, "cases.jsonl")
    rc, so, se = common.sh([RUN, "gen", str(ctx.seed), str(nprog), str(kcap), str(nmatch), cases_path], timeout=900)
    if rc != 0:
        raise common.BuildError("tc generator failed: " + se[-2000:])
    cases = [json.loads(l) for l in open(cases_path)]
    os.remove(cases_path)
    ctx.notes["generate_s"] = round(time.time() - t0, 1)

    res = compile_all(ctx, drv, cases, "gen")
    stats = collections.Counter()
    per_op = collections.Counter()
    per_ctx = collections.Counter()
    table = collections.Counter()
    verdicts = collections.Counter()
    faults = []
    distinct = set()
    gen_bad = 0
    for c in cases:
        if c["kind"] == "base" and c["model"] != "OK":
            gen_bad += 1          # the generator produced something the model rejects: not a case
            continue
        v = judge(ctx, c, res.get(c["id"]), stats, faults)
        verdicts[v] += 1
        if c["model"] != "OK" and v in ("rejected-ok", "ACCEPTED", "WRONG-LINE", "kind-differs"):
            per_op[c["op"]] += 1
            per_ctx[c["ctx"]] += 1
            table["%s | %s" % (c["op"], c["ctx"])] += 1
            distinct.add((c["op"], c["ctx"], c["model"], c["group"]))
        if v == "rejected-ok" and c["op"] in ("AssignToParam", "WrongArgKind:func-ret", "MatchOmitEnumerator", "UnknownException"):
            ctx.sample({"operator": c["op"], "context": c["ctx"], "model": RULES[int(c["model"][1:])],
                        "site_lines": [c["l0"], c["l1"]], "compiler": res[c["id"]]["errs"][:2],
                        "source_tail": c["src"][-400:]}, limit=5)
    if gen_bad:
        ctx.correspondence_broken("generator-produced-model-rejected-program", {"count": gen_bad})
    ctx.count(evaluations=sum(verdicts.values()), nontrivial=len(distinct))
    ctx.coverage["rule"] = ("one case = one compilation by the tree's compiler of a generated well-typed program or of one "
                            "single-fault mutant of it; non-trivial = distinct (operator, nesting context, model rule, program) "
                            "mutants that reached a verdict")
    ctx.coverage["exhaustive"] = False
    ctx.coverage["verdicts"] = dict(verdicts)
    ctx.coverage["mutants_per_operator"] = dict(sorted(per_op.items()))
    ctx.coverage["mutants_per_context"] = dict(sorted(per_ctx.items()))
    ctx.coverage["operator_x_context"] = dict(sorted(table.items()))
    ctx.coverage["line_attribution"] = dict(stats)
    ctx.coverage["programs"] = verdicts["accepted-ok"]
    ctx.coverage["generator"] = {"programs": nprog, "cap_per_operator_and_context": kcap, "match_templates": nmatch,
                                 "seed": ctx.seed}
    ctx.coverage["skipped"] = {"compiler_fault_or_sanitizer_report (not a C06 matter, see C05)": len(faults),
                               "examples": faults[:3]}
    if faults:
        # keep one reproducer for whoever owns C05
        f0 = faults[0]
        src = next(c["src"] for c in cases if c["id"] == f0["id"])
        with open(os.path.join(ctx.outdir, "compiler_fault_example.nev"), "w") as f:
            f.write(src)
    ctx.notes["compile_s"] = round(time.time() - t0, 1)
