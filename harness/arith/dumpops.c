/* dumpops — compile Never programs with the tree's compiler and print the instructions of
 * function `main`'s body, using the tree's own bytecode printer for the instruction names.
 *
 *   dumpops --batch FILE
 *
 * FILE has the same layout as for nevrun: programs separated by header lines `@@@ <id>`.
 * Every program is compiled in a forked child (a compiler that dies from SIGFPE/assert stays
 * attributable).  Output per program:
 *     @@BEGIN <id>
 *     ...compiler diagnostics...
 *     @@CODE <id>
 *     K int <decimal>            constant instructions are printed by this driver so that
 *     K long <decimal>           floating constants are bit-exact (the tree's printer uses %f)
 *     K float 0x<8 hex>
 *     K double 0x<16 hex>
 *     K char <code>
 *     I <name as printed by bytecode_op[type].print, address stripped>
 *     @@OUTCOME <id> DUMPED <n instructions> | COMPILE_ERROR <ret> | NO_MAIN
 *     @@END <id> status=<exit code | signal N | timeout>
 * The body is main's FUNC_DEF (exclusive) up to the first RET (exclusive).
 */
#define _GNU_SOURCE
#include <stdio.h>
#include <stdlib.h>
#include <string.h>
#include <unistd.h>
#include <signal.h>
#include <sys/wait.h>
#include <sys/types.h>
#include "nev.h"
#include "bytecode.h"
#include "module.h"
#include "functab.h"

static void print_instr(bytecode * bc)
{
    switch (bc->type)
    {
    case BYTECODE_INT: printf("K int %d\n", bc->int_t.value); return;
    case BYTECODE_LONG: printf("K long %lld\n", bc->long_t.value); return;
    case BYTECODE_FLOAT: { unsigned int b; memcpy(&b, &bc->float_t.value, 4);
        printf("K float 0x%08x\n", b); return; }
    case BYTECODE_DOUBLE: { unsigned long long b; memcpy(&b, &bc->double_t.value, 8);
        printf("K double 0x%016llx\n", b); return; }
    case BYTECODE_CHAR: printf("K char %d\n", (int)bc->char_t.value); return;
    default: break;
    }
    /* the tree's printer writes "<addr>: <name> <operands>\n" to stdout: capture through a pipe */
    fflush(stdout);
    int fds[2];
    if (pipe(fds) != 0) { printf("I ?pipe\n"); return; }
    int saved = dup(1);
    dup2(fds[1], 1);
    bytecode_op[bc->type].print(bc);
    fflush(stdout);
    dup2(saved, 1);
    close(saved); close(fds[1]);
    char buf[512]; ssize_t n = read(fds[0], buf, sizeof buf - 1);
    close(fds[0]);
    if (n < 0) n = 0;
    buf[n] = 0;
    char * p = strchr(buf, ':');
    p = p ? p + 1 : buf;
    while (*p == ' ') p++;
    char * e = strchr(p, '\n'); if (e) *e = 0;
    printf("I %s\n", p);
}

static void dump_one(const char * id, const char * src)
{
    program * prog = program_new();
    int ret = nev_compile_str(src, prog);
    if (ret != 0)
    {
        printf("@@OUTCOME %s COMPILE_ERROR %d\n", id, ret);
        program_delete(prog);
        return;
    }
    functab_entry * entry = functab_lookup(prog->module_value->functab_value, "main");
    if (entry == NULL)
    {
        printf("@@OUTCOME %s NO_MAIN 0\n", id);
        program_delete(prog);
        return;
    }
    module * m = prog->module_value;
    unsigned int i = entry->func_addr, n = 0;
    printf("@@CODE %s\n", id);
    if (i < m->code_size && m->code_arr[i].type == BYTECODE_FUNC_DEF) i++;
    for (; i < m->code_size && m->code_arr[i].type != BYTECODE_RET; i++, n++)
    {
        print_instr(&m->code_arr[i]);
    }
    printf("@@OUTCOME %s DUMPED %u\n", id, n);
    program_delete(prog);
}

int main(int argc, char ** argv)
{
    const char * batch = NULL;
    int timeout = 10, i;
    for (i = 1; i < argc; i++)
    {
        if (!strcmp(argv[i], "--batch") && i + 1 < argc) batch = argv[++i];
        else if (!strcmp(argv[i], "--timeout") && i + 1 < argc) timeout = atoi(argv[++i]);
    }
    if (!batch) { fprintf(stderr, "usage: dumpops [--timeout T] --batch FILE\n"); return 2; }
    FILE * f = fopen(batch, "rb");
    if (!f) { perror(batch); return 2; }
    fseek(f, 0, SEEK_END); long n = ftell(f); fseek(f, 0, SEEK_SET);
    char * buf = malloc(n + 1);
    if (fread(buf, 1, n, f) != (size_t)n) { perror("read"); return 2; }
    buf[n] = 0; fclose(f);
    setvbuf(stdout, NULL, _IOLBF, 0);

    char * p = buf;
    while (p && *p)
    {
        if (strncmp(p, "@@@ ", 4) != 0) { char * q = strstr(p, "\n@@@ "); if (!q) break; p = q + 1; continue; }
        char * eol = strchr(p, '\n');
        if (!eol) break;
        *eol = 0;
        char id[256] = "?";
        sscanf(p + 4, "%255s", id);
        char * src = eol + 1;
        char * next = strstr(src, "\n@@@ ");
        if (!strncmp(src, "@@@ ", 4)) { next = src - 1; }
        char * srcend = next ? next + 1 : buf + n;
        char saved = *srcend; *srcend = 0;

        printf("@@BEGIN %s\n", id);
        fflush(stdout);
        pid_t pid = fork();
        if (pid == 0)
        {
            dup2(1, 2);
            setvbuf(stdout, NULL, _IONBF, 0);
            alarm(timeout);
            dump_one(id, src);
            fflush(stdout);
            _exit(0);
        }
        int st = 0;
        waitpid(pid, &st, 0);
        if (WIFEXITED(st)) printf("\n@@END %s status=%d\n", id, WEXITSTATUS(st));
        else if (WIFSIGNALED(st) && WTERMSIG(st) == SIGALRM) printf("\n@@END %s status=timeout\n", id);
        else if (WIFSIGNALED(st)) printf("\n@@END %s status=signal %d\n", id, WTERMSIG(st));
        else printf("\n@@END %s status=unknown\n", id);
        fflush(stdout);
        *srcend = saved;
        p = next ? next + 1 : NULL;
    }
    free(buf);
    return 0;
}
