(* C01 — accepted programs run safely.  Statements only.
   The property is decided by the conjunction of: frame discipline on all paths of verified
   code (from C07), collector safety (from C09) and, for the modelled core, type safety of the
   reference evaluator (added below when proved); the byte-level behaviour of the C handlers is
   observed (sanitizers), see checks/c01.py. *)
From Coq Require Import NArith List Arith Bool.
From NV Require Import Base.TMap GC.GCModel GC.GCSpec GC.GCProofs.
From NV Require Import Gen.Opcodes Verifier.Shape Verifier.Effect Verifier.Verify Verifier.VerifySound.
Import ListNotations.

(* no run of verified code — whatever the data — jumps outside the code, pops into a frame
   header, reads a slot outside the running function's own values, returns through a damaged
   header or builds a function value for a non-entry *)
Theorem verified_code_no_stack_crash :
  forall prog exct metas entry certs,
    check_all prog exct metas entry certs = true ->
    forall obs c,
      run (code prog) (handler exct) (np metas) (is_entry metas) entry init obs <> Crash c.
Proof. exact VerifySound.verify_sound. Qed.
Print Assumptions verified_code_no_stack_crash.

(* a collection never reclaims or alters a cell the program can still reach *)
Theorem collection_keeps_reachable : forall g roots g', WF g -> Closed g -> roots_ok g roots ->
  gc_collect g roots = COk g' ->
  (forall a, reach g roots a -> allocated g' a /\ tget (g_obj g') a = tget (g_obj g) a).
Proof.
  intros g roots g' Hwf Hc Hr H.
  destruct (GCProofs.collect_exact g roots g' Hwf Hc Hr H) as [Ha Hp].
  intros a Hra. split; [apply Ha; exact Hra | apply Hp; exact Hra].
Qed.
Print Assumptions collection_keeps_reachable.

(* an allocation never hands out a cell in use, and out of memory is reported exactly when
   none is free — before anything is written *)
Theorem allocation_safe : forall g o, WF g ->
  (gc_alloc_any g o = None <-> forall a, in_range g a -> allocated g a) /\
  (forall g' a, gc_alloc_any g o = Some (g', a) -> in_range g a /\ ~ allocated g a).
Proof.
  intros g o Hwf. split.
  - exact (GCProofs.alloc_oom_iff_full g o Hwf).
  - intros g' a H. destruct (GCProofs.alloc_hands_out_a_free_cell g o g' a Hwf H) as (H1 & H2 & _).
    split; assumption.
Qed.
Print Assumptions allocation_safe.
