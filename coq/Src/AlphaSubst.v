(* Lexical scoping on the reference evaluator (C08), part 2: true alpha-conversion.
   Renaming the bound variable of one let/var item to a name that does not occur in the rest
   of the block does not change the meaning of the block: same result cell, same output,
   same arrays/records, and cell contents equal up to the renaming inside the function values
   created by the block.  No axioms. *)
From Coq Require Import ZArith NArith List Bool Lia.
From NV Require Import Src.Syntax Src.Eval Src.EvalLemmas.
Import ListNotations.

(* ---- a usable induction principle for the nested mutual syntax ----------------------- *)

Definition opt_all {A} (P : A -> Prop) (o : option A) : Prop :=
  match o with Some b => P b | None => True end.

Section SyntaxInd.
Variables (Pe : expr -> Prop) (Pi : item -> Prop) (Pf : fdef -> Prop).
Hypothesis H_int : forall z, Pe (EInt z).
Hypothesis H_bool : forall b, Pe (EBool b).
Hypothesis H_var : forall v, Pe (EVar v).
Hypothesis H_neg : forall a, Pe a -> Pe (ENeg a).
Hypothesis H_not : forall a, Pe a -> Pe (ENot a).
Hypothesis H_bnot : forall a, Pe a -> Pe (EBNot a).
Hypothesis H_bin : forall op a b, Pe a -> Pe b -> Pe (EBin op a b).
Hypothesis H_cond : forall c a b, Pe c -> Pe a -> Pe b -> Pe (ECond c a b).
Hypothesis H_if : forall c a, Pe c -> Pe a -> Pe (EIf c a).
Hypothesis H_assign : forall a b, Pe a -> Pe b -> Pe (EAssign a b).
Hypothesis H_call : forall f args, Pe f -> Forall Pe args -> Pe (ECall f args).
Hypothesis H_block : forall items, Forall Pi items -> Pe (EBlock items).
Hypothesis H_while : forall c b, Pe c -> Pe b -> Pe (EWhile c b).
Hypothesis H_dowhile : forall b c, Pe b -> Pe c -> Pe (EDoWhile b c).
Hypothesis H_for : forall i c n b, Pe i -> Pe c -> Pe n -> Pe b -> Pe (EFor i c n b).
Hypothesis H_forinrange : forall v a b body, Pe a -> Pe b -> Pe body -> Pe (EForInRange v a b body).
Hypothesis H_forinarr : forall v a body, Pe a -> Pe body -> Pe (EForInArr v a body).
Hypothesis H_lambda : forall fd, Pf fd -> Pe (ELambda fd).
Hypothesis H_arrlit : forall es t, Forall Pe es -> Pe (EArrLit es t).
Hypothesis H_index : forall a i, Pe a -> Pe i -> Pe (EIndex a i).
Hypothesis H_recnew : forall r args, Forall Pe args -> Pe (ERecNew r args).
Hypothesis H_recnil : forall r, Pe (ERecNil r).
Hypothesis H_field : forall a r fld, Pe a -> Pe (EField a r fld).
Hypothesis H_print : forall a, Pe a -> Pe (EPrint a).
Hypothesis H_let : forall x a, Pe a -> Pi (ILet x a).
Hypothesis H_ivar : forall x a, Pe a -> Pi (IVar x a).
Hypothesis H_func : forall fd, Pf fd -> Pi (IFunc fd).
Hypothesis H_iexpr : forall a, Pe a -> Pi (IExpr a).
Hypothesis H_fdef : forall n ps ret body catches call,
  Forall Pi body -> Forall (fun c => Forall Pi (snd c)) catches ->
  opt_all (Forall Pi) call ->
  Pf (FDef n ps ret body catches call).

Fixpoint expr_mut (t : expr) : Pe t :=
  let es := fix go (l : list expr) : Forall Pe l :=
              match l with [] => Forall_nil _ | a :: r => Forall_cons a (expr_mut a) (go r) end in
  let its := fix go (l : list item) : Forall Pi l :=
              match l with [] => Forall_nil _ | a :: r => Forall_cons a (item_mut a) (go r) end in
  match t with
  | EInt z => H_int z
  | EBool b => H_bool b
  | EVar v => H_var v
  | ENeg a => H_neg a (expr_mut a)
  | ENot a => H_not a (expr_mut a)
  | EBNot a => H_bnot a (expr_mut a)
  | EBin op a b => H_bin op a b (expr_mut a) (expr_mut b)
  | ECond c a b => H_cond c a b (expr_mut c) (expr_mut a) (expr_mut b)
  | EIf c a => H_if c a (expr_mut c) (expr_mut a)
  | EAssign a b => H_assign a b (expr_mut a) (expr_mut b)
  | ECall f args => H_call f args (expr_mut f) (es args)
  | EBlock items => H_block items (its items)
  | EWhile c b => H_while c b (expr_mut c) (expr_mut b)
  | EDoWhile b c => H_dowhile b c (expr_mut b) (expr_mut c)
  | EFor i c n b => H_for i c n b (expr_mut i) (expr_mut c) (expr_mut n) (expr_mut b)
  | EForInRange v a b body => H_forinrange v a b body (expr_mut a) (expr_mut b) (expr_mut body)
  | EForInArr v a body => H_forinarr v a body (expr_mut a) (expr_mut body)
  | ELambda fd => H_lambda fd (fdef_mut fd)
  | EArrLit l t => H_arrlit l t (es l)
  | EIndex a i => H_index a i (expr_mut a) (expr_mut i)
  | ERecNew r args => H_recnew r args (es args)
  | ERecNil r => H_recnil r
  | EField a r fld => H_field a r fld (expr_mut a)
  | EPrint a => H_print a (expr_mut a)
  end
with item_mut (i : item) : Pi i :=
  match i with
  | ILet x a => H_let x a (expr_mut a)
  | IVar x a => H_ivar x a (expr_mut a)
  | IFunc fd => H_func fd (fdef_mut fd)
  | IExpr a => H_iexpr a (expr_mut a)
  end
with fdef_mut (fd : fdef) : Pf fd :=
  let its := fix go (l : list item) : Forall Pi l :=
              match l with [] => Forall_nil _ | a :: r => Forall_cons a (item_mut a) (go r) end in
  match fd with
  | FDef n ps ret body catches call =>
    H_fdef n ps ret body catches call (its body)
      ((fix go (l : list (exn * list item)) : Forall (fun c => Forall Pi (snd c)) l :=
          match l with
          | [] => Forall_nil _
          | c :: r => Forall_cons c (match c as c0 return Forall Pi (snd c0) with (ex, b) => its b end) (go r)
          end) catches)
      (match call as c0 return opt_all (Forall Pi) c0 with
       | Some b => its b | None => I end)
  end.

Theorem syntax_mutind : (forall t, Pe t) /\ (forall i, Pi i) /\ (forall fd, Pf fd).
Proof. exact (conj expr_mut (conj item_mut fdef_mut)). Qed.
End SyntaxInd.

(* ---- capture-avoiding substitution of the variable x by y ----------------------------- *)

Section Subst.
Variables x y : ident.

(* `on` = we are in the scope of the binder being renamed (no inner binder of x in between) *)
Definition sg (on : bool) (v : ident) : ident := if on && N.eqb v x then y else v.

Definition item_binds_x (i : item) : bool :=
  match i with
  | ILet b _ | IVar b _ => N.eqb b x
  | IFunc fd => N.eqb (fd_name fd) x
  | IExpr _ => false
  end.

Definition params_bind_x (ps : list (ident * bool * ty)) : bool :=
  existsb (fun p => N.eqb (fst (fst p)) x) ps.

(* does a function of the run of function items at the head of l have the name x ? *)
Fixpoint run_binds_x (l : list item) : bool :=
  match l with
  | IFunc fd :: r => N.eqb (fd_name fd) x || run_binds_x r
  | _ => false
  end.

(* adjacent function items see each other: a function item is outside the scope of the renamed
   binder as soon as it or a LATER function of its run is named x (an earlier one has already
   switched `on` off) *)
Definition sub_items_with (f : bool -> item -> item) :=
  fix go (on : bool) (l : list item) {struct l} : list item :=
    match l with
    | [] => []
    | i :: r =>
      f (match i with IFunc _ => on && negb (run_binds_x r) | _ => on end) i
        :: go (on && negb (item_binds_x i)) r
    end.

Fixpoint sub_expr (on : bool) (t : expr) {struct t} : expr :=
  match t with
  | EInt z => EInt z
  | EBool b => EBool b
  | EVar v => EVar (sg on v)
  | ENeg a => ENeg (sub_expr on a)
  | ENot a => ENot (sub_expr on a)
  | EBNot a => EBNot (sub_expr on a)
  | EBin op a b => EBin op (sub_expr on a) (sub_expr on b)
  | ECond c a b => ECond (sub_expr on c) (sub_expr on a) (sub_expr on b)
  | EIf c a => EIf (sub_expr on c) (sub_expr on a)
  | EAssign l r => EAssign (sub_expr on l) (sub_expr on r)
  | ECall f args => ECall (sub_expr on f) (map (sub_expr on) args)
  | EBlock items => EBlock (sub_items_with sub_item on items)
  | EWhile c b => EWhile (sub_expr on c) (sub_expr on b)
  | EDoWhile b c => EDoWhile (sub_expr on b) (sub_expr on c)
  | EFor i c n b => EFor (sub_expr on i) (sub_expr on c) (sub_expr on n) (sub_expr on b)
  | EForInRange v a b body =>
      EForInRange v (sub_expr on a) (sub_expr on b) (sub_expr (on && negb (N.eqb v x)) body)
  | EForInArr v a body => EForInArr v (sub_expr on a) (sub_expr (on && negb (N.eqb v x)) body)
  | ELambda fd => ELambda (sub_fdef on fd)
  | EArrLit es t => EArrLit (map (sub_expr on) es) t
  | EIndex a i => EIndex (sub_expr on a) (sub_expr on i)
  | ERecNew r args => ERecNew r (map (sub_expr on) args)
  | ERecNil r => ERecNil r
  | EField a r fld => EField (sub_expr on a) r fld
  | EPrint a => EPrint (sub_expr on a)
  end
with sub_item (on : bool) (i : item) {struct i} : item :=
  match i with
  | ILet b a => ILet b (sub_expr on a)
  | IVar b a => IVar b (sub_expr on a)
  | IFunc fd => IFunc (sub_fdef (on && negb (N.eqb (fd_name fd) x)) fd)
  | IExpr a => IExpr (sub_expr on a)
  end
with sub_fdef (on : bool) (fd : fdef) {struct fd} : fdef :=
  match fd with
  | FDef n ps ret body catches call =>
    FDef n ps ret
         (sub_items_with sub_item (on && negb (params_bind_x ps)) body)
         (map (fun c => match c with
                        | (ex, b) => (ex, sub_items_with sub_item (on && negb (params_bind_x ps)) b)
                        end) catches)
         (match call with
          | Some b => Some (sub_items_with sub_item (on && negb (params_bind_x ps)) b)
          | None => None end)
  end.

Definition sub_items := sub_items_with sub_item.
Definition sub_catch (on : bool) (c : exn * list item) : exn * list item :=
  match c with (ex, b) => (ex, sub_items on b) end.

(* the substitution to use on the rest of a block after `let x = ...` / `var x = ...` *)
Definition subst_var (rest : list item) : list item := sub_items true rest.

Lemma sub_items_nil : forall on, sub_items on [] = [].
Proof. reflexivity. Qed.
Lemma sub_items_cons : forall on i r,
  sub_items on (i :: r) =
  sub_item (match i with IFunc _ => on && negb (run_binds_x r) | _ => on end) i
    :: sub_items (on && negb (item_binds_x i)) r.
Proof. reflexivity. Qed.

Lemma fd_name_sub : forall on fd, fd_name (sub_fdef on fd) = fd_name fd.
Proof. destruct fd; reflexivity. Qed.
Lemma fd_params_sub : forall on fd, fd_params (sub_fdef on fd) = fd_params fd.
Proof. destruct fd; reflexivity. Qed.
Lemma fd_body_sub : forall on fd,
  fd_body (sub_fdef on fd) = sub_items (on && negb (params_bind_x (fd_params fd))) (fd_body fd).
Proof. destruct fd; reflexivity. Qed.
Lemma fd_catches_sub : forall on fd,
  fd_catches (sub_fdef on fd) =
  map (sub_catch (on && negb (params_bind_x (fd_params fd)))) (fd_catches fd).
Proof. destruct fd; reflexivity. Qed.
Lemma fd_catch_all_sub : forall on fd,
  fd_catch_all (sub_fdef on fd) =
  option_map (sub_items (on && negb (params_bind_x (fd_params fd)))) (fd_catch_all fd).
Proof. destruct fd as [? ? ? ? ? [?|]]; reflexivity. Qed.

(* outside the scope nothing changes *)
Lemma sg_false : forall v, sg false v = v.
Proof. reflexivity. Qed.

Lemma sub_items_false_id : forall l,
  Forall (fun i => sub_item false i = i) l -> sub_items false l = l.
Proof.
  induction 1 as [|i l Hi Hl IH]; [reflexivity|]. rewrite sub_items_cons. cbn [andb].
  replace (match i with IFunc _ => false | _ => false end) with false by (destruct i; reflexivity).
  congruence.
Qed.

Lemma map_id_Forall : forall A (f : A -> A) l, Forall (fun a => f a = a) l -> map f l = l.
Proof. induction 1; simpl; congruence. Qed.

Lemma sub_false_id :
  (forall t, sub_expr false t = t) /\ (forall i, sub_item false i = i) /\
  (forall fd, sub_fdef false fd = fd).
Proof.
  apply syntax_mutind; intros; cbn [sub_expr sub_item sub_fdef andb];
    fold sub_items;
    rewrite ?sub_items_false_id, ?map_id_Forall by assumption; try congruence.
  - reflexivity.
  - f_equal.
    + apply map_id_Forall. eapply Forall_impl; [|eassumption]. intros [ex b] Hb; simpl in *.
      rewrite sub_items_false_id; auto.
    + destruct call; auto. simpl in *. rewrite sub_items_false_id; auto.
Qed.

(* ---- "y does not occur" (free or bound, anywhere) ---------------------------------- *)

Definition all_list {A} (f : A -> Prop) :=
  fix go (l : list A) : Prop := match l with [] => True | a :: r => f a /\ go r end.

Fixpoint nin_expr (t : expr) : Prop :=
  match t with
  | EInt _ | EBool _ | ERecNil _ => True
  | EVar v => v <> y
  | ENeg a | ENot a | EBNot a | EPrint a | EField a _ _ => nin_expr a
  | EBin _ a b | EIf a b | EAssign a b | EWhile a b | EDoWhile a b | EIndex a b =>
      nin_expr a /\ nin_expr b
  | ECond c a b => nin_expr c /\ nin_expr a /\ nin_expr b
  | ECall f args => nin_expr f /\ all_list nin_expr args
  | EBlock items => all_list nin_item items
  | EFor i c n b => nin_expr i /\ nin_expr c /\ nin_expr n /\ nin_expr b
  | EForInRange v a b body => v <> y /\ nin_expr a /\ nin_expr b /\ nin_expr body
  | EForInArr v a body => v <> y /\ nin_expr a /\ nin_expr body
  | ELambda fd => nin_fdef fd
  | EArrLit es _ => all_list nin_expr es
  | ERecNew _ args => all_list nin_expr args
  end
with nin_item (i : item) : Prop :=
  match i with
  | ILet b a | IVar b a => b <> y /\ nin_expr a
  | IFunc fd => nin_fdef fd
  | IExpr a => nin_expr a
  end
with nin_fdef (fd : fdef) : Prop :=
  match fd with
  | FDef n ps _ body catches call =>
    n <> y /\ all_list (fun p : ident * bool * ty => fst (fst p) <> y) ps /\
    all_list nin_item body /\
    all_list (fun c : exn * list item => match c with (_, b) => all_list nin_item b end) catches /\
    match call with Some b => all_list nin_item b | None => True end
  end.

Lemma nin_fdef_eq : forall fd, nin_fdef fd ->
  fd_name fd <> y /\ all_list (fun p : ident * bool * ty => fst (fst p) <> y) (fd_params fd) /\
  all_list nin_item (fd_body fd) /\
  all_list (fun c : exn * list item => all_list nin_item (snd c)) (fd_catches fd) /\
  opt_all (all_list nin_item) (fd_catch_all fd).
Proof.
  destruct fd as [n ps ret body catches call]; simpl. intros (H1 & H2 & H3 & H4 & H5).
  repeat split; auto. clear -H4. induction catches as [|[ex b] t IH]; simpl in *; tauto.
Qed.


(* ---- related environments ------------------------------------------------------------ *)

(* `strict` = the term evaluated under these environments does not mention y.
   `on`     = we are in the scope of the renamed binder: x on the left is y on the right. *)
Record cfg (strict on : bool) (E1 E2 : env) : Prop := {
  cfg_agree : forall v, (strict = true -> v <> y) -> lookup v E1 = lookup (sg on v) E2;
  cfg_strict : on = true -> strict = true;
  cfg_bound : on = true -> lookup x E1 <> None
}.

Lemma cfg_same : forall E, cfg false false E E.
Proof. intros; constructor; intros; try discriminate. reflexivity. Qed.

Lemma cfg_lookup_var : forall genv s on E1 E2 v, cfg s on E1 E2 -> (s = true -> v <> y) ->
  lookup_var genv v E1 = lookup_var genv (sg on v) E2.
Proof.
  intros genv s on E1 E2 v C Hv. unfold lookup_var. rewrite <- (cfg_agree _ _ _ _ C v Hv).
  destruct (lookup v E1) eqn:E; auto.
  unfold sg. destruct on; simpl; auto. destruct (N.eqb_spec v x); auto. subst.
  exfalso. apply (cfg_bound _ _ _ _ C); auto.
Qed.

Lemma cfg_bind : forall s on E1 E2 b c, cfg s on E1 E2 -> (s = true -> b <> y) ->
  cfg s (on && negb (N.eqb b x)) ((b, c) :: E1) ((b, c) :: E2).
Proof.
  intros s on E1 E2 b c C Hb.
  assert (Hby : on = true -> b <> y) by (intros h; apply Hb, (cfg_strict _ _ _ _ C), h).
  constructor.
  - intros v Hv. simpl. pose proof (cfg_agree _ _ _ _ C v Hv) as A.
    unfold sg in *. destruct on; cbn [andb negb] in *;
      repeat match goal with
      | |- context[N.eqb ?a ?b] => destruct (N.eqb_spec a b); subst; cbn [andb negb] in *
      | H : context[N.eqb ?a ?b] |- _ => destruct (N.eqb_spec a b); subst; cbn [andb negb] in *
      end; try congruence; auto.
    exfalso; apply Hby; auto.
  - intros H. apply andb_prop in H. apply (cfg_strict _ _ _ _ C), H.
  - intros H. apply andb_prop in H. destruct H as [H1 H2]. simpl.
    destruct (N.eqb x b); [discriminate|]. apply (cfg_bound _ _ _ _ C); auto.
Qed.

Lemma cfg_params : forall s on E1 E2 ps cs penv, cfg s on E1 E2 ->
  bind_params ps cs = Some penv ->
  (s = true -> all_list (fun p : ident * bool * ty => fst (fst p) <> y) ps) ->
  cfg s (on && negb (params_bind_x ps)) (penv ++ E1) (penv ++ E2).
Proof.
  intros s on E1 E2 ps. induction ps as [|[[b m] t] ps IH]; intros cs penv C Hb Hy;
    destruct cs as [|c cs]; simpl in Hb; try discriminate.
  - inversion Hb; subst. simpl. rewrite andb_true_r. exact C.
  - destruct (bind_params ps cs) as [pe|] eqn:Eb; [|discriminate]. inversion Hb; subst.
    assert (C' := IH cs pe C Eb (fun h => proj2 (Hy h))).
    apply (cfg_bind _ _ _ _ b c) in C'; [|intros h; apply (proj1 (Hy h))].
    simpl app. simpl params_bind_x.
    replace (on && negb (N.eqb b x || params_bind_x ps))
      with (on && negb (params_bind_x ps) && negb (N.eqb b x)); [exact C'|].
    destruct on, (N.eqb b x), (params_bind_x ps); reflexivity.
Qed.

(* ---- runs of function items ----------------------------------------------------------- *)

Definition fds_bind_x (fds : list fdef) : bool := existsb (fun f => N.eqb (fd_name f) x) fds.

Lemma run_binds_x_funcs : forall l, run_binds_x l = fds_bind_x (run_funcs l).
Proof. induction l as [|[] l IH]; simpl; auto. now rewrite IH. Qed.

Lemma run_funcs_sub : forall l on,
  run_funcs (sub_items on l) = map (sub_fdef (on && negb (run_binds_x l))) (run_funcs l).
Proof.
  induction l as [|i l IH]; intros on; [reflexivity|].
  rewrite sub_items_cons. destruct i; try reflexivity.
  cbn [sub_item run_funcs map run_binds_x item_binds_x]. rewrite IH. f_equal.
  - f_equal. destruct on, (N.eqb (fd_name fd) x), (run_binds_x l); reflexivity.
  - f_equal. f_equal. destruct on, (N.eqb (fd_name fd) x), (run_binds_x l); reflexivity.
Qed.

Lemma run_rest_sub : forall l on,
  run_rest (sub_items on l) = sub_items (on && negb (run_binds_x l)) (run_rest l).
Proof.
  induction l as [|i l IH]; intros on; [reflexivity|].
  destruct i; try (cbn [run_binds_x negb]; rewrite andb_true_r; reflexivity).
  rewrite sub_items_cons. cbn [sub_item run_rest run_binds_x item_binds_x]. rewrite IH.
  f_equal. destruct on, (N.eqb (fd_name fd) x), (run_binds_x l); reflexivity.
Qed.

Lemma cfg_func_env : forall fds o s on E1 E2 c, cfg s on E1 E2 ->
  (s = true -> all_list (fun f => fd_name f <> y) fds) ->
  cfg s (on && negb (fds_bind_x fds)) (func_env fds c E1) (func_env (map (sub_fdef o) fds) c E2).
Proof.
  induction fds as [|fd t IH]; intros o s on E1 E2 c C Hy.
  - simpl. rewrite andb_true_r. exact C.
  - cbn [map func_env]. rewrite fd_name_sub.
    assert (C1 := cfg_bind _ _ _ _ (fd_name fd) c C (fun h => proj1 (Hy h))).
    assert (C2 := IH o _ _ _ _ (S c) C1 (fun h => proj2 (Hy h))).
    replace (on && negb (fds_bind_x (fd :: t)))
      with (on && negb (N.eqb (fd_name fd) x) && negb (fds_bind_x t)); [exact C2|].
    simpl. destruct on, (N.eqb (fd_name fd) x), (fds_bind_x t); reflexivity.
Qed.

Lemma nin_run : forall l, all_list nin_item l ->
  all_list nin_fdef (run_funcs l) /\ all_list nin_item (run_rest l).
Proof.
  induction l as [|i l IH]; intros H; [simpl; auto|].
  destruct i; try (simpl; auto; fail). destruct H as [H1 H2]. destruct (IH H2). simpl. auto.
Qed.

Lemma all_list_names : forall fds, all_list nin_fdef fds -> all_list (fun f => fd_name f <> y) fds.
Proof.
  induction fds as [|f t IH]; simpl; auto. intros [H1 H2]. split; auto.
  exact (proj1 (nin_fdef_eq _ H1)).
Qed.

(* ---- related stores ------------------------------------------------------------------ *)

Inductive cell_rel : cellval -> cellval -> Prop :=
| cr_int : forall z, cell_rel (CInt z) (CInt z)
| cr_bool : forall b, cell_rel (CBool b) (CBool b)
| cr_arr : forall a, cell_rel (CArr a) (CArr a)
| cr_rec : forall r, cell_rel (CRec r) (CRec r)
| cr_fun : forall s on fd env1 env2, (s = true -> nin_fdef fd) -> cfg s on env1 env2 ->
    cell_rel (CFun fd env1) (CFun (sub_fdef on fd) env2).

Definition st_rel (s1 s2 : state) : Prop :=
  Forall2 cell_rel (cells s1) (cells s2) /\ arrs s1 = arrs s2 /\ recs s1 = recs s2 /\ out s1 = out s2.

Definition res_rel (p1 p2 : res * state) : Prop := fst p1 = fst p2 /\ st_rel (snd p1) (snd p2).

Lemma cell_rel_refl : forall v, cell_rel v v.
Proof.
  destruct v; try constructor.
  rewrite <- (proj2 (proj2 sub_false_id) fd) at 2.
  apply (cr_fun false false); [discriminate|apply cfg_same].
Qed.

Lemma st_rel_refl : forall st, st_rel st st.
Proof.
  intros; repeat split; auto. induction (cells st); constructor; auto using cell_rel_refl.
Qed.

Lemma cell_rel_scalar : forall v, (forall fd e, v <> CFun fd e) -> cell_rel v v.
Proof. intros; apply cell_rel_refl. Qed.

Lemma get_cell_rel : forall s1 s2 c, st_rel s1 s2 ->
  (get_cell s1 c = None /\ get_cell s2 c = None) \/
  (exists v1 v2, get_cell s1 c = Some v1 /\ get_cell s2 c = Some v2 /\ cell_rel v1 v2).
Proof.
  intros s1 s2 c [H _]. unfold get_cell. revert c.
  induction H; intros [|c]; simpl; eauto 6.
Qed.

Lemma get_int_rel : forall s1 s2 c, st_rel s1 s2 -> get_int s1 c = get_int s2 c.
Proof.
  intros s1 s2 c H. unfold get_int.
  destruct (get_cell_rel _ _ c H) as [[-> ->]|[v1 [v2 [-> [-> R]]]]]; auto. inversion R; auto.
Qed.

Lemma get_bool_rel : forall s1 s2 c, st_rel s1 s2 -> get_bool s1 c = get_bool s2 c.
Proof.
  intros s1 s2 c H. unfold get_bool.
  destruct (get_cell_rel _ _ c H) as [[-> ->]|[v1 [v2 [-> [-> R]]]]]; auto. inversion R; auto.
Qed.

Lemma st_rel_length : forall s1 s2, st_rel s1 s2 -> length (cells s1) = length (cells s2).
Proof. intros s1 s2 [H _]. induction H; simpl; auto. Qed.

Lemma fresh_rel : forall s1 s2 v1 v2, st_rel s1 s2 -> cell_rel v1 v2 ->
  res_rel (fresh s1 v1) (fresh s2 v2).
Proof.
  intros s1 s2 v1 v2 H R. unfold fresh, alloc, res_rel; simpl.
  rewrite (st_rel_length _ _ H). split; auto.
  destruct H as (H1 & H2 & H3 & H4). repeat split; simpl; auto.
  apply Forall2_app; auto.
Qed.

Lemma alloc_rel : forall s1 s2 v1 v2, st_rel s1 s2 -> cell_rel v1 v2 ->
  fst (alloc s1 v1) = fst (alloc s2 v2) /\ st_rel (snd (alloc s1 v1)) (snd (alloc s2 v2)).
Proof. intros. exact (match fresh_rel _ _ _ _ H H0 with conj A B => conj (f_equal (fun r => match r with ROk c => c | _ => 0 end) A) B end). Qed.

Lemma list_upd_rel : forall l1 l2 c v1 v2, Forall2 cell_rel l1 l2 -> cell_rel v1 v2 ->
  Forall2 cell_rel (list_upd l1 c v1) (list_upd l2 c v2).
Proof. intros l1 l2 c v1 v2 H R. revert c. induction H; intros [|c]; simpl; constructor; auto. Qed.

Lemma set_cell_rel : forall s1 s2 c v1 v2, st_rel s1 s2 -> cell_rel v1 v2 ->
  st_rel (set_cell s1 c v1) (set_cell s2 c v2).
Proof.
  intros s1 s2 c v1 v2 (H1 & H2 & H3 & H4) R. repeat split; simpl; auto using list_upd_rel.
Qed.

Lemma print_num_rel : forall s1 s2 z, st_rel s1 s2 -> st_rel (print_num s1 z) (print_num s2 z).
Proof. intros s1 s2 z (H1 & H2 & H3 & H4). repeat split; simpl; auto. congruence. Qed.

Lemma new_arr_rel : forall s1 s2 cs, st_rel s1 s2 ->
  fst (new_arr s1 cs) = fst (new_arr s2 cs) /\ st_rel (snd (new_arr s1 cs)) (snd (new_arr s2 cs)).
Proof. intros s1 s2 cs (H1 & H2 & H3 & H4). repeat split; simpl; auto; congruence. Qed.

Lemma new_rec_rel : forall s1 s2 cs, st_rel s1 s2 ->
  fst (new_rec s1 cs) = fst (new_rec s2 cs) /\ st_rel (snd (new_rec s1 cs)) (snd (new_rec s2 cs)).
Proof. intros s1 s2 cs (H1 & H2 & H3 & H4). repeat split; simpl; auto; congruence. Qed.

Lemma res_rel_same : forall r s1 s2, st_rel s1 s2 -> res_rel (r, s1) (r, s2).
Proof. intros; split; auto. Qed.

Lemma ref_is_nil_rel : forall v1 v2, cell_rel v1 v2 -> ref_is_nil v1 = ref_is_nil v2.
Proof. intros v1 v2 R. inversion R; reflexivity. Qed.

Lemma nil_cmp_rel : forall op s1 s2 c1 c2, st_rel s1 s2 ->
  nil_cmp op (get_cell s1 c1) (get_cell s1 c2) = nil_cmp op (get_cell s2 c1) (get_cell s2 c2).
Proof.
  intros op s1 s2 c1 c2 H. unfold nil_cmp.
  destruct (get_cell_rel _ _ c1 H) as [[-> ->]|[v1 [v2 [-> [-> R1]]]]]; auto.
  destruct (get_cell_rel _ _ c2 H) as [[-> ->]|[w1 [w2 [-> [-> R2]]]]]; auto.
  rewrite (ref_is_nil_rel _ _ R1), (ref_is_nil_rel _ _ R2). reflexivity.
Qed.

Lemma binop_result_rel : forall op c1 c2 s1 s2, st_rel s1 s2 ->
  res_rel (binop_result op c1 c2 s1) (binop_result op c1 c2 s2).
Proof.
  intros op c1 c2 s1 s2 H. unfold binop_result.
  rewrite !(get_int_rel _ _ _ H), !(get_bool_rel _ _ _ H), (nil_cmp_rel op _ _ c1 c2 H).
  destruct (get_int s2 c1), (get_int s2 c2);
    try destruct (int_binop op z z0);
    destruct op; try destruct (get_bool s2 c1); try destruct (get_bool s2 c2);
    try match goal with |- context[nil_cmp ?o ?a ?b] => destruct (nil_cmp o a b) end;
    auto using res_rel_same, fresh_rel, cell_rel_refl.
Qed.

Lemma index_result_rel : forall s1 s2 ca ci, st_rel s1 s2 ->
  res_rel (index_result s1 ca ci) (index_result s2 ca ci).
Proof.
  intros s1 s2 ca ci H. unfold index_result. rewrite (get_int_rel _ _ _ H).
  pose proof H as (_ & <- & _ & _).
  destruct (get_cell_rel _ _ ca H) as [[-> ->]|[v1 [v2 [-> [-> R]]]]]; auto using res_rel_same.
  inversion R; subst; auto using res_rel_same.
  destruct a; destruct (get_int s2 ci); auto using res_rel_same.
  destruct (nth_error (arrs s1) n); auto using res_rel_same.
  destruct (_ || _); auto using res_rel_same.
  destruct (nth_error l _); auto using res_rel_same.
Qed.

Lemma field_result_rel : forall s1 s2 ca fld, st_rel s1 s2 ->
  res_rel (field_result s1 ca fld) (field_result s2 ca fld).
Proof.
  intros s1 s2 ca fld H. unfold field_result.
  pose proof H as (_ & _ & <- & _).
  destruct (get_cell_rel _ _ ca H) as [[-> ->]|[v1 [v2 [-> [-> R]]]]]; auto using res_rel_same.
  inversion R; subst; auto using res_rel_same.
  destruct r; auto using res_rel_same.
  destruct (nth_error (recs s1) n); auto using res_rel_same.
  destruct (nth_error l fld); auto using res_rel_same.
Qed.

(* for-in loops *)
Inductive lstep_rel : lstep -> lstep -> Prop :=
| lr_done : lstep_rel LsDone LsDone
| lr_fault : forall r, lstep_rel (LsFault r) (LsFault r)
| lr_bind : forall c s1 s2 src, st_rel s1 s2 -> lstep_rel (LsBind c s1 src) (LsBind c s2 src).

Lemma forin_step_rel : forall s1 s2 src, st_rel s1 s2 ->
  lstep_rel (forin_step s1 src) (forin_step s2 src).
Proof.
  intros s1 s2 src H. destruct src as [z zb|z zb|ca i]; cbn [forin_step].
  - destruct (z <=? zb)%Z; [|constructor].
    destruct (alloc_rel s1 s2 (CInt z) (CInt z) H (cr_int z)) as [E R].
    destruct (alloc s1 (CInt z)), (alloc s2 (CInt z)). simpl in E, R. subst. constructor; auto.
  - destruct (zb <=? z)%Z; [|constructor].
    destruct (alloc_rel s1 s2 (CInt z) (CInt z) H (cr_int z)) as [E R].
    destruct (alloc s1 (CInt z)), (alloc s2 (CInt z)). simpl in E, R. subst. constructor; auto.
  - pose proof H as (_ & <- & _ & _).
    destruct (get_cell_rel _ _ ca H) as [[-> ->]|[v1 [v2 [-> [-> R]]]]]; [constructor|].
    inversion R; subst; try constructor.
    destruct a; [|constructor].
    destruct (nth_error (arrs s1) n); [|constructor].
    destruct (nth_error l i); constructor; auto.
Qed.

Lemma forin_loop_rel : forall (ev1 ev2 : nat -> state -> res * state),
  (forall c s1 s2, st_rel s1 s2 -> res_rel (ev1 c s1) (ev2 c s2)) ->
  forall n src s1 s2, st_rel s1 s2 ->
  res_rel (forin_loop ev1 n src s1) (forin_loop ev2 n src s2).
Proof.
  intros ev1 ev2 Hev. induction n as [|n IH]; intros src s1 s2 H.
  - rewrite !forin_loop_O. apply res_rel_same; auto.
  - rewrite !forin_loop_S.
    destruct (forin_step_rel _ _ src H) as [|r|c t1 t2 src' Ht].
    + apply fresh_rel; auto. constructor.
    + apply res_rel_same; auto.
    + specialize (Hev c _ _ Ht). destruct (ev1 c t1) as [r1 u1], (ev2 c t2) as [r2 u2].
      destruct Hev as [Hr Hs]. cbn [fst snd] in Hr, Hs. subst r2.
      destruct r1; try (apply res_rel_same; auto). apply IH; auto.
Qed.

Lemma run_state_rel : forall s on' fds E1 E2 s1 s2,
  (s = true -> all_list nin_fdef fds) ->
  cfg s on' (run_env fds E1 s1) (run_env (map (sub_fdef on') fds) E2 s2) ->
  st_rel s1 s2 ->
  st_rel (run_state fds E1 s1) (run_state (map (sub_fdef on') fds) E2 s2).
Proof.
  intros s on' fds E1 E2 s1 s2 Hn C (H1 & H2 & H3 & H4). unfold run_state.
  repeat split; simpl; auto. apply Forall2_app; auto.
  rewrite map_map.
  generalize dependent (run_env fds E1 s1). generalize (run_env (map (sub_fdef on') fds) E2 s2).
  intros e2 e1 C. clear -Hn C. induction fds as [|f t IH]; simpl; constructor.
  - eapply cr_fun; eauto. intro h. exact (proj1 (Hn h)).
  - apply IH. intro h. exact (proj2 (Hn h)).
Qed.

(* ---- the simulation ------------------------------------------------------------------ *)

Section Sim.
Variable genv : env.

Definition sim_eval (k : nat) := forall s on E1 E2 st1 st2 t,
  cfg s on E1 E2 -> (s = true -> nin_expr t) -> st_rel st1 st2 ->
  res_rel (eval genv k E1 st1 t) (eval genv k E2 st2 (sub_expr on t)).
Definition sim_items (k : nat) := forall s on E1 E2 st1 st2 l last,
  cfg s on E1 E2 -> (s = true -> all_list nin_item l) -> st_rel st1 st2 ->
  res_rel (eval_items genv k E1 st1 l last) (eval_items genv k E2 st2 (sub_items on l) last).
Definition sim_handlers (k : nat) := forall s on E1 E2 st1 st2 ex cs call,
  cfg s on E1 E2 ->
  (s = true -> all_list (fun c : exn * list item => all_list nin_item (snd c)) cs) ->
  (s = true -> opt_all (all_list nin_item) call) -> st_rel st1 st2 ->
  res_rel (handlers genv k E1 st1 ex cs call)
          (handlers genv k E2 st2 ex (map (sub_catch on) cs) (option_map (sub_items on) call)).

Lemma eval_args_f_rel : forall (ev1 ev2 : state -> expr -> res * state) (f : expr -> expr)
    (Q : expr -> Prop),
  (forall st1 st2 a, Q a -> st_rel st1 st2 -> res_rel (ev1 st1 a) (ev2 st2 (f a))) ->
  forall l st1 st2, all_list Q l -> st_rel st1 st2 ->
  fst (eval_args_f ev1 l st1) = fst (eval_args_f ev2 (map f l) st2) /\
  st_rel (snd (eval_args_f ev1 l st1)) (snd (eval_args_f ev2 (map f l) st2)).
Proof.
  intros ev1 ev2 f Q Hev. induction l as [|a t IH]; intros st1 st2 HQ Hs.
  - simpl. auto.
  - simpl map. rewrite !eval_args_f_cons. destruct HQ as [Qa Qt].
    specialize (IH st1 st2 Qt Hs).
    destruct (eval_args_f ev1 t st1) as [[o1 r1] s1], (eval_args_f ev2 (map f t) st2) as [[o2 r2] s2].
    simpl in IH. destruct IH as [E R]. inversion E; subst. destruct o2; simpl; auto.
    specialize (Hev s1 s2 a Qa R).
    destruct (ev1 s1 a) as [ra sa], (ev2 s2 (f a)) as [rb sb]. destruct Hev as [E2 R2].
    simpl in E2, R2. subst. destruct rb; simpl; auto.
Qed.

Lemma all_list_imp : forall A (Q : A -> Prop) (P : Prop) l,
  (P -> all_list Q l) -> all_list (fun a => P -> Q a) l.
Proof. induction l; simpl; intros; auto. split; [|apply IHl]; intros; apply H; auto. Qed.

Hint Resolve res_rel_same fresh_rel cell_rel_refl binop_result_rel index_result_rel
  field_result_rel print_num_rel set_cell_rel cr_int cr_bool cr_arr cr_rec : rel.


Ltac split_ok :=
  repeat match goal with
  | H : ?s = true -> ?A /\ ?B |- _ =>
      let H1 := fresh "Hok" in let H2 := fresh "Hok" in
      assert (H1 : s = true -> A) by (let h := fresh in intro h; exact (proj1 (H h)));
      assert (H2 : s = true -> B) by (let h := fresh in intro h; exact (proj2 (H h)));
      clear H
  end.

Ltac use_rel H :=
  match type of H with
  | res_rel ?X1 ?X2 =>
    let r1 := fresh "r" in let s1 := fresh "sa" in
    let r2 := fresh "r" in let s2 := fresh "sb" in
    destruct X1 as [r1 s1]; destruct X2 as [r2 s2];
    let Hr := fresh "Hr" in let Hs := fresh "Hs" in
    destruct H as [Hr Hs]; cbn [fst snd] in Hr, Hs; subst r2; destruct r1;
    auto with rel
  end.

Ltac rel_step IHe :=
  match goal with
  | |- res_rel (match eval ?g ?k ?E1 ?s1 ?a with _ => _ end)
               (match eval ?g ?k ?E2 ?s2 ?a' with _ => _ end) =>
    let H := fresh "H" in
    assert (H : res_rel (eval g k E1 s1 a) (eval g k E2 s2 a')) by (eapply IHe; eauto);
    use_rel H
  | Hs : st_rel ?sa ?sb |- context[get_bool ?sa ?c] =>
    rewrite (get_bool_rel sa sb c Hs); destruct (get_bool sb c) as [[]|]; auto with rel
  | Hs : st_rel ?sa ?sb |- context[get_int ?sa ?c] =>
    rewrite (get_int_rel sa sb c Hs); destruct (get_int sb c); auto with rel
  | |- res_rel (eval _ _ _ _ _) (eval _ _ _ _ _) => solve [eapply IHe; eauto]
  end.

Lemma sim_all : forall k, sim_eval k /\ sim_items k /\ sim_handlers k.
Proof.
  induction k as [|k [IHe [IHi IHh]]].
  - (split; [|split]); red; intros; rewrite ?eval_O, ?eval_items_O, ?handlers_O;
      auto using res_rel_same.
  - assert (Hargs : forall s on E1 E2 l st1 st2, cfg s on E1 E2 ->
              (s = true -> all_list nin_expr l) -> st_rel st1 st2 ->
              fst (eval_args genv k E1 l st1) = fst (eval_args genv k E2 (map (sub_expr on) l) st2) /\
              st_rel (snd (eval_args genv k E1 l st1))
                     (snd (eval_args genv k E2 (map (sub_expr on) l) st2))).
    { intros s on E1 E2 l st1 st2 C Hl Hs. unfold eval_args.
      apply (eval_args_f_rel _ _ _ (fun a => s = true -> nin_expr a)); auto.
      - intros; eapply IHe; eauto.
      - apply all_list_imp; auto. }
    assert (Happ : forall st1 st2 cf cs, st_rel st1 st2 ->
              res_rel (apply_fun genv k st1 cf cs) (apply_fun genv k st2 cf cs)).
    { intros st1 st2 cf cs Hs. unfold apply_fun.
      destruct (get_cell_rel _ _ cf Hs) as [[-> ->]|[v1 [v2 [-> [-> R]]]]]; auto with rel.
      inversion R; subst; auto with rel. rewrite fd_params_sub.
      destruct (bind_params (fd_params fd) cs) as [penv|] eqn:Eb; auto with rel.
      assert (Hn : s = true -> _) by (intro h; exact (nin_fdef_eq _ (H h))). split_ok.
      pose proof (cfg_params _ _ _ _ _ _ _ H0 Eb Hok1) as C'.
      unfold call_body. rewrite fd_body_sub, fd_catches_sub, fd_catch_all_sub.
      assert (Hb : res_rel (eval_items genv k (penv ++ env1) st1 (fd_body fd) None)
                     (eval_items genv k (penv ++ env2) st2
                        (sub_items (on && negb (params_bind_x (fd_params fd))) (fd_body fd)) None))
        by (eapply IHi; eauto).
      use_rel Hb. eapply IHh; eauto. }
    (split; [|split]); red.
    + intros s on E1 E2 st1 st2 t C Hok Hs.
      destruct t; cbn [sub_expr nin_expr] in *; split_ok;
        try (destruct (binop_cases op) as [->|[->|[Hop1 Hop2]]];
             [| | rewrite !(eval_EBin genv op) by assumption]);
        autorewrite with evaleq; repeat (rel_step IHe); auto with rel.
      * (* EVar *)
        rewrite (cfg_lookup_var genv _ _ _ _ _ C Hok).
        destruct (lookup_var genv (sg on x0) E2); auto with rel.
      * (* EAssign *)
        destruct (get_cell_rel _ _ c0 Hs1) as [[-> ->]|[v1 [v2 [-> [-> R]]]]]; auto with rel.
      * (* ECall *)
        destruct (Hargs _ _ _ _ args _ _ C ltac:(assumption) Hs) as [Ea Ra].
        destruct (eval_args genv k E1 args st1) as [[o1 r1] sa],
                 (eval_args genv k E2 (map (sub_expr on) args) st2) as [[o2 r2] sb].
        simpl in Ea, Ra. inversion Ea; subst. destruct o2; auto with rel.
        repeat (rel_step IHe); auto with rel.
      * (* EBlock *) eapply IHi; eauto.
      * (* EWhile *) apply (IHe s on _ _ _ _ (EWhile t1 t2)); auto. intro h; cbn; auto.
      * (* EDoWhile *) apply (IHe s on _ _ _ _ (EDoWhile t1 t2)); auto. intro h; cbn; auto.
      * (* EFor *)
        assert (Ef : EWhile (sub_expr on t2) (EBlock [IExpr (sub_expr on t4); IExpr (sub_expr on t3)])
                     = sub_expr on (EWhile t2 (EBlock [IExpr t4; IExpr t3])))
          by (cbn; rewrite andb_true_r; reflexivity).
        rewrite Ef. apply IHe with (s := s); auto.
        intro h; cbn; auto.
      * (* EForInRange *)
        apply forin_loop_rel; auto. intros cv s1 s2 Hs12.
        apply IHe with (s := s); auto. apply cfg_bind; auto.
      * (* EForInArr *)
        apply forin_loop_rel; auto. intros cv s1 s2 Hs12.
        apply IHe with (s := s); auto. apply cfg_bind; auto.
      * (* ELambda *) apply fresh_rel; auto. eapply cr_fun; eauto.
      * (* EArrLit *)
        destruct (Hargs _ _ _ _ es _ _ C ltac:(assumption) Hs) as [Ea Ra].
        destruct (eval_args genv k E1 es st1) as [[o1 r1] sa],
                 (eval_args genv k E2 (map (sub_expr on) es) st2) as [[o2 r2] sb].
        simpl in Ea, Ra. inversion Ea; subst. destruct o2; auto with rel.
        destruct (new_arr_rel _ _ l Ra) as [En Rn].
        destruct (new_arr sa l) as [a1 sa1], (new_arr sb l) as [a2 sb1]. simpl in En, Rn. subst.
        auto with rel.
      * (* ERecNew *)
        destruct (Hargs _ _ _ _ args _ _ C ltac:(assumption) Hs) as [Ea Ra].
        destruct (eval_args genv k E1 args st1) as [[o1 r1] sa],
                 (eval_args genv k E2 (map (sub_expr on) args) st2) as [[o2 r2] sb].
        simpl in Ea, Ra. inversion Ea; subst. destruct o2; auto with rel.
        destruct (new_rec_rel _ _ l Ra) as [En Rn].
        destruct (new_rec sa l) as [a1 sa1], (new_rec sb l) as [a2 sb1]. simpl in En, Rn. subst.
        auto with rel.
    + intros s on E1 E2 st1 st2 l last C Hok Hs.
      destruct l as [|[b a|b a|fd|a] t]; rewrite ?sub_items_cons;
        cbn [sub_item item_binds_x all_list nin_item] in *; split_ok;
        autorewrite with evaleq; repeat (rel_step IHe); auto with rel.
      * destruct last; auto with rel.
      * eapply IHi; eauto using cfg_bind.
      * eapply IHi; eauto using cfg_bind.
      * (* a run of function items *)
        set (on' := on && negb (run_binds_x (IFunc fd :: t))).
        assert (Hnr : s = true -> all_list nin_fdef (fd :: run_funcs t) /\ all_list nin_item (run_rest t)).
        { intro h. destruct (nin_run t (Hok1 h)). simpl. auto. }
        split_ok.
        assert (E0 : on && negb (run_binds_x t) && negb (N.eqb (fd_name fd) x) = on')
          by (unfold on'; simpl; destruct on, (N.eqb (fd_name fd) x), (run_binds_x t); reflexivity).
        assert (E1' : on && negb (N.eqb (fd_name fd) x) && negb (run_binds_x t) = on')
          by (unfold on'; simpl; destruct on, (N.eqb (fd_name fd) x), (run_binds_x t); reflexivity).
        rewrite run_funcs_sub, run_rest_sub, map_length, E0, E1'.
        change (sub_fdef on' fd :: map (sub_fdef on') (run_funcs t))
          with (map (sub_fdef on') (fd :: run_funcs t)).
        rewrite <- (st_rel_length _ _ Hs).
        assert (C' : cfg s on' (run_env (fd :: run_funcs t) E1 st1)
                           (run_env (map (sub_fdef on') (fd :: run_funcs t)) E2 st2)).
        { unfold run_env. rewrite <- (st_rel_length _ _ Hs).
          unfold on'. rewrite run_binds_x_funcs. change (run_funcs (IFunc fd :: t)) with (fd :: run_funcs t).
          apply cfg_func_env; auto. intro h. apply all_list_names. auto. }
        eapply IHi; eauto. eapply run_state_rel; eauto.
      * cbn [negb]. rewrite andb_true_r. eapply IHi; eauto.
    + intros s on E1 E2 st1 st2 ex cs call C Hok Hokc Hs.
      destruct cs as [|[ex' body] t]; cbn [map sub_catch all_list snd] in *; split_ok;
        autorewrite with evaleq.
      * destruct call; cbn [option_map opt_all] in *; auto with rel. eapply IHi; eauto.
      * destruct (exn_eqb ex ex'); [|eapply IHh; eauto].
        assert (Hb : res_rel (eval_items genv k E1 st1 body None)
                             (eval_items genv k E2 st2 (sub_items on body) None))
          by (eapply IHi; eauto).
        use_rel Hb. eapply IHh; eauto.
Qed.

Theorem eval_subst_rel : forall k s on E1 E2 st1 st2 t,
  cfg s on E1 E2 -> (s = true -> nin_expr t) -> st_rel st1 st2 ->
  res_rel (eval genv k E1 st1 t) (eval genv k E2 st2 (sub_expr on t)).
Proof. intros k; exact (proj1 (sim_all k)). Qed.

Theorem eval_items_subst_rel : forall k s on E1 E2 st1 st2 l last,
  cfg s on E1 E2 -> (s = true -> all_list nin_item l) -> st_rel st1 st2 ->
  res_rel (eval_items genv k E1 st1 l last) (eval_items genv k E2 st2 (sub_items on l) last).
Proof. intros k; exact (proj1 (proj2 (sim_all k))). Qed.

Lemma cfg_top : forall c e, cfg true true ((x, c) :: e) ((y, c) :: e).
Proof.
  intros c e. constructor; auto.
  - intros v Hv. specialize (Hv eq_refl). unfold sg. simpl.
    destruct (N.eqb_spec v x) as [->|Hx]; simpl.
    + rewrite N.eqb_refl. reflexivity.
    + destruct (N.eqb_spec v y); [congruence|reflexivity].
  - intros _. simpl. rewrite N.eqb_refl. discriminate.
Qed.

(* Alpha-conversion of one binder.  y does not occur in `rest` (neither free nor bound);
   `a`, the environment, the store and the items before are arbitrary (they may mention y). *)
Theorem alpha_fresh_binder : forall k e st a rest last,
  all_list nin_item rest ->
  res_rel (eval_items genv k e st (ILet x a :: rest) last)
          (eval_items genv k e st (ILet y a :: subst_var rest) last) /\
  res_rel (eval_items genv k e st (IVar x a :: rest) last)
          (eval_items genv k e st (IVar y a :: subst_var rest) last).
Proof.
  intros k e st a rest last Hn.
  destruct k; [rewrite !eval_items_O; auto using res_rel_same, st_rel_refl|].
  rewrite !eval_items_ILet, !eval_items_IVar.
  destruct (eval genv k e st a) as [[c| | |] st1]; auto using res_rel_same, st_rel_refl.
  assert (G : res_rel (eval_items genv k ((x, c) :: e) st1 rest (Some c))
                      (eval_items genv k ((y, c) :: e) st1 (subst_var rest) (Some c))).
  { apply eval_items_subst_rel with (s := true); auto using cfg_top, st_rel_refl. }
  auto.
Qed.

(* ... anywhere inside a block *)
Lemma run_app_nr : forall pre l, run_funcs l = [] ->
  run_funcs (pre ++ l) = run_funcs pre /\ run_rest (pre ++ l) = run_rest pre ++ l.
Proof.
  induction pre as [|i pre IH]; intros l H; simpl.
  - split; [exact H|apply run_rest_id; exact H].
  - destruct i; auto. destruct (IH l H) as [-> ->]. auto.
Qed.

Lemma run_rest_length : forall l, length (run_rest l) <= length l.
Proof. induction l as [|[] l IH]; simpl; auto. Qed.

Theorem alpha_fresh_binder_in_block : forall pre k e st a rest last,
  all_list nin_item rest ->
  res_rel (eval_items genv k e st (pre ++ ILet x a :: rest) last)
          (eval_items genv k e st (pre ++ ILet y a :: subst_var rest) last) /\
  res_rel (eval_items genv k e st (pre ++ IVar x a :: rest) last)
          (eval_items genv k e st (pre ++ IVar y a :: subst_var rest) last).
Proof.
  assert (G : forall n pre, length pre <= n -> forall k e st a rest last,
    all_list nin_item rest ->
    res_rel (eval_items genv k e st (pre ++ ILet x a :: rest) last)
            (eval_items genv k e st (pre ++ ILet y a :: subst_var rest) last) /\
    res_rel (eval_items genv k e st (pre ++ IVar x a :: rest) last)
            (eval_items genv k e st (pre ++ IVar y a :: subst_var rest) last)).
  { induction n as [|n IH]; intros pre Hl k e st a rest last Hn;
      (destruct pre as [|i pre]; [apply alpha_fresh_binder; auto|]); simpl in Hl; [lia|].
    destruct k; [rewrite !eval_items_O; auto using res_rel_same, st_rel_refl|].
    simpl app. destruct i as [b a0|b a0|fd|a0]; autorewrite with evaleq.
    + destruct (eval genv k e st a0) as [[c| | |] st1]; auto using res_rel_same, st_rel_refl.
      apply IH; auto; lia.
    + destruct (eval genv k e st a0) as [[c| | |] st1]; auto using res_rel_same, st_rel_refl.
      apply IH; auto; lia.
    + destruct (run_app_nr pre (ILet x a :: rest) eq_refl) as [-> ->].
      destruct (run_app_nr pre (ILet y a :: subst_var rest) eq_refl) as [-> ->].
      destruct (run_app_nr pre (IVar x a :: rest) eq_refl) as [-> ->].
      destruct (run_app_nr pre (IVar y a :: subst_var rest) eq_refl) as [-> ->].
      apply IH; auto. pose proof (run_rest_length pre). lia.
    + destruct (eval genv k e st a0) as [[c| | |] st1]; auto using res_rel_same, st_rel_refl.
      apply IH; auto; lia. }
  intros pre. apply (G (length pre)); auto.
Qed.

(* ... and inside an expression block *)
Corollary alpha_fresh_binder_block_expr : forall pre k e st a rest,
  all_list nin_item rest ->
  res_rel (eval genv k e st (EBlock (pre ++ ILet x a :: rest)))
          (eval genv k e st (EBlock (pre ++ ILet y a :: subst_var rest))).
Proof.
  intros. destruct k; [rewrite !eval_O; auto using res_rel_same, st_rel_refl|].
  rewrite !eval_EBlock. apply alpha_fresh_binder_in_block; auto.
Qed.

End Sim.

End Subst.

(* what related results have in common: everything an observer can see *)
Theorem res_rel_observable : forall x y p1 p2, res_rel x y p1 p2 ->
  fst p1 = fst p2 /\ out (snd p1) = out (snd p2) /\
  arrs (snd p1) = arrs (snd p2) /\ recs (snd p1) = recs (snd p2) /\
  length (cells (snd p1)) = length (cells (snd p2)) /\
  (forall c, get_int (snd p1) c = get_int (snd p2) c) /\
  (forall c, get_bool (snd p1) c = get_bool (snd p2) c) /\
  (forall c a, get_cell (snd p1) c = Some (CArr a) <-> get_cell (snd p2) c = Some (CArr a)) /\
  (forall c r, get_cell (snd p1) c = Some (CRec r) <-> get_cell (snd p2) c = Some (CRec r)).
Proof.
  intros x y p1 p2 [Hr Hs]. pose proof Hs as (_ & A & R & O).
  repeat split; auto; try (eapply st_rel_length; eassumption);
    try (intros; eapply get_int_rel; eassumption); try (intros; eapply get_bool_rel; eassumption);
    intros G;
    destruct (get_cell_rel _ _ _ _ c Hs) as [[E1 E2]|[v1 [v2 [E1 [E2 Rv]]]]];
    rewrite ?E1, ?E2 in *; try discriminate; inversion G; subst; inversion Rv; subst; auto.
Qed.
