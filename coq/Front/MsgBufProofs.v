(* Front/MsgBufProofs.v — theorems about the print_msg length arithmetic (C05).
   Everything here is generic in the regenerated definitions (only [msg_buf_size_pos] looks at
   a value): it stays true whatever size expressions the source carries.  The statements that
   hold for the pinned tree only are in MsgBufPinned.v.  No axioms. *)
From Coq Require Import ZArith Bool List Lia.
From NV Require Import Gen.FrontConsts Front.MsgBuf.
Import ListNotations.
Local Open Scope Z_scope.

Lemma as_size_nonneg n : 0 <= as_size n.
Proof. unfold as_size, SIZE_T_MOD. apply Z.mod_pos_bound. reflexivity. Qed.

Lemma extent_bounds n w : 0 <= n -> 0 <= w -> 0 <= snprintf_extent n w <= n.
Proof.
  intros Hn Hw. unfold snprintf_extent. destruct (Z.eqb_spec n 0); lia.
Qed.

Lemma extent_zero n w : 0 <= n -> 0 <= w -> (snprintf_extent n w = 0 <-> n = 0).
Proof.
  intros Hn Hw. unfold snprintf_extent. destruct (Z.eqb_spec n 0); lia.
Qed.

Lemma extent_full n : 0 <= n -> snprintf_extent n n = n.
Proof. intros Hn. unfold snprintf_extent. destruct (Z.eqb_spec n 0); lia. Qed.

(* an array dimension is positive (checked on the regenerated value) *)
Lemma msg_buf_size_pos : 0 < MSG_BUF_SIZE.
Proof. reflexivity. Qed.

(* the executable test says exactly "every written offset is inside msg_buf" *)
Theorem within_buffer_spec : forall p b, 0 <= p -> 0 <= b ->
  (within_buffer p b = true <-> writes_within_buffer p b).
Proof.
  intros p b Hp Hb. pose proof msg_buf_size_pos as Hs.
  unfold within_buffer, writes_within_buffer, written.
  pose proof (extent_bounds (as_size msg_prefix_limit) p (as_size_nonneg _) Hp) as H1.
  pose proof (extent_bounds (as_size (msg_body_limit (body_start p))) b (as_size_nonneg _) Hb) as H2.
  fold (prefix_extent p) in H1. fold (body_extent p b) in H2.
  rewrite andb_true_iff, orb_true_iff, andb_true_iff, !Z.leb_le, Z.eqb_eq. split.
  - intros [Ha Hc] i [Hi|Hi]; [lia|]. destruct Hc as [Hc|[Hc Hd]]; lia.
  - intros H. split.
    + destruct (Z.eq_dec (prefix_extent p) 0) as [E|E]; [lia|].
      specialize (H (prefix_extent p - 1)). lia.
    + destruct (Z.eq_dec (body_extent p b) 0) as [E|E]; [now left|right].
      pose proof (H (body_start p)) as Ha. pose proof (H (body_start p + body_extent p b - 1)) as Hb'.
      lia.
Qed.

(* per-prefix criterion: print_msg is safe for EVERY body length iff the size argument
   handed to vsnprintf does not exceed what is left of the buffer behind the start offset *)
Theorem msg_write_safe_criterion : forall p, 0 <= p ->
  ((forall b, 0 <= b -> writes_within_buffer p b) <-> safe_at p = true).
Proof.
  intros p Hp. unfold safe_at. set (n := as_size (msg_body_limit (body_start p))).
  assert (Hn : 0 <= n) by apply as_size_nonneg.
  cbv zeta. rewrite andb_true_iff, orb_true_iff, andb_true_iff, !Z.leb_le, Z.eqb_eq. split.
  - intros H. specialize (H n Hn). apply within_buffer_spec in H; try lia.
    unfold within_buffer in H.
    rewrite andb_true_iff, orb_true_iff, andb_true_iff, !Z.leb_le, Z.eqb_eq in H.
    unfold body_extent in H. fold n in H. rewrite extent_full in H by exact Hn. exact H.
  - intros [Ha Hc] b Hb. apply within_buffer_spec; try lia.
    unfold within_buffer. rewrite andb_true_iff, orb_true_iff, andb_true_iff, !Z.leb_le, Z.eqb_eq.
    split; [exact Ha|]. unfold body_extent. fold n.
    pose proof (extent_bounds n b Hn Hb) as HB.
    destruct Hc as [Hc|[Hc Hd]].
    + left. apply extent_zero; assumption.
    + right. lia.
Qed.

Lemma in_zrange n x : In x (zrange n) <-> 0 <= x < n.
Proof.
  unfold zrange. rewrite in_map_iff. split.
  - intros [k [<- Hk]]. apply in_seq in Hk. lia.
  - intros H. exists (Z.to_nat x). split; [lia|]. apply in_seq. lia.
Qed.

Lemma filter_head_in {A} (f : A -> bool) l x r : filter f l = x :: r -> In x l /\ f x = true.
Proof.
  intros H. assert (I : In x (filter f l)) by (rewrite H; now left).
  apply filter_In in I. exact I.
Qed.

Lemma filter_nil_all {A} (f : A -> bool) l : filter f l = [] -> forall x, In x l -> f x = false.
Proof.
  intros H x Hx. destruct (f x) eqn:E; [|reflexivity].
  assert (I : In x (filter f l)) by (apply filter_In; auto). rewrite H in I. destruct I.
Qed.

(* the verdict for the current tree, decided by computation: either every diagnostic whose
   prefix fits the buffer is written inside it, or a concrete (prefix, body) overflows *)
Theorem msg_write_within_buffer_verdict :
  match msg_overflow_witness with
  | None => forall p b, 0 <= p < MSG_BUF_SIZE -> 0 <= b -> writes_within_buffer p b
  | Some (p, b) => 0 <= p < MSG_BUF_SIZE /\ 0 <= b /\ ~ writes_within_buffer p b
  end.
Proof.
  unfold msg_overflow_witness.
  destruct (filter (fun p => negb (safe_at p)) (zrange MSG_BUF_SIZE)) as [|p r] eqn:E.
  - intros p b Hp Hb. apply msg_write_safe_criterion; try lia.
    pose proof (filter_nil_all _ _ E p) as H. rewrite in_zrange in H.
    specialize (H Hp). now apply negb_false_iff in H.
  - apply filter_head_in in E. destruct E as [Hin Hf]. apply in_zrange in Hin.
    apply negb_true_iff in Hf. split; [exact Hin|]. split; [apply as_size_nonneg|].
    intros W. apply within_buffer_spec in W; [|lia|apply as_size_nonneg].
    unfold within_buffer in W. unfold safe_at in Hf.
    unfold body_extent in W. rewrite extent_full in W by apply as_size_nonneg.
    congruence.
Qed.

Lemma msg_safe_all_spec :
  msg_safe_all = true <-> (forall p b, 0 <= p < MSG_BUF_SIZE -> 0 <= b -> writes_within_buffer p b).
Proof.
  unfold msg_safe_all. rewrite forallb_forall. split.
  - intros H p b Hp Hb. apply msg_write_safe_criterion; try lia. apply H. now apply in_zrange.
  - intros H p Hp. apply in_zrange in Hp. apply msg_write_safe_criterion; try lia.
    intros b Hb. now apply H.
Qed.

