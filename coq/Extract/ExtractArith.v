(* Extraction of the arithmetic engine (C11, C10) for the correspondence runs. *)
Require Import ExtrOcamlBasic.
From NV Require Import Arith.NumTy Arith.Bits Arith.IntOps Arith.FloatOps Arith.VMOps
  Arith.Promote Arith.RtEval Arith.Constred Arith.Enumred Arith.EnumIndex Arith.Fmt.
Extraction "arithmodel.ml" elab ty_of fold rt_eval rt_assign lit_val emit_ok
  strict exec_bop exec_uop exec_conv fmt_int fmt_fixed2 canon to_Z_defined shift_ok
  check_bin check_un check_ass efold decl_indices index_of decls_eqs.
