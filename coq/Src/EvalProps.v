(* Properties of the reference evaluator, part 1: fuel monotonicity (the outcome of a program
   is a well-defined partial function) and monotone growth of the store.  No axioms. *)
From Coq Require Import ZArith List Bool Lia.
From NV Require Import Src.Syntax Src.Eval Src.EvalLemmas.
Import ListNotations.

Lemma binop_cases : forall op, op = And \/ op = Or \/ (op <> And /\ op <> Or).
Proof. destruct op; auto; right; right; split; discriminate. Qed.

(* ---- A1. fuel monotonicity -------------------------------------------------------- *)

Section Mono.
Variable genv : env.

Definition mono_eval (k : nat) := forall k' e st x r st', k <= k' ->
  eval genv k e st x = (r, st') -> r <> RFuel -> eval genv k' e st x = (r, st').
Definition mono_items (k : nat) := forall k' e st l last r st', k <= k' ->
  eval_items genv k e st l last = (r, st') -> r <> RFuel -> eval_items genv k' e st l last = (r, st').
Definition mono_handlers (k : nat) := forall k' e st ex cs call r st', k <= k' ->
  handlers genv k e st ex cs call = (r, st') -> r <> RFuel ->
  handlers genv k' e st ex cs call = (r, st').

(* the local argument-list evaluator, for an abstract closure *)
Lemma eval_args_f_mono : forall (ev ev' : state -> expr -> res * state),
  (forall st a r st', ev st a = (r, st') -> r <> RFuel -> ev' st a = (r, st')) ->
  forall l st o r st', eval_args_f ev l st = ((o, r), st') -> (o = None -> r <> RFuel) ->
  eval_args_f ev' l st = ((o, r), st').
Proof.
  intros ev ev' Hev. induction l as [|a t IH]; intros st o r st' H Hne.
  - exact H.
  - rewrite eval_args_f_cons in *.
    destruct (eval_args_f ev t st) as [[o1 r1] s1] eqn:E1.
    destruct o1 as [cs|].
    + rewrite (IH _ _ _ _ E1) by discriminate.
      destruct (ev s1 a) as [r2 s2] eqn:E2.
      destruct r2; inversion H; subst;
        try (rewrite (Hev _ _ _ _ E2) by (try discriminate; auto); reflexivity).
    + inversion H; subst. rewrite (IH _ _ _ _ E1) by auto. reflexivity.
Qed.

Ltac mono_fin :=
  match goal with
  | H : (?r1, ?s1) = (?r, ?s), Hne : ?r <> RFuel |- _ =>
      first [ exact H | exfalso; inversion H; subst; congruence ]
  | H : ?X = (?r, ?s) |- ?X = (?r, ?s) => exact H
  end.

Ltac mono_step IHe IHi IHh Hle :=
  match goal with
  | H : context[match eval ?g ?k ?e ?st ?a with _ => _ end] |- _ =>
      let r := fresh "r" in let s := fresh "s" in let E := fresh "E" in
      destruct (eval g k e st a) as [r s] eqn:E;
      destruct r;
      try (rewrite (IHe _ _ _ _ _ _ Hle E) by discriminate)
  | H : context[match eval_items ?g ?k ?e ?st ?a ?l with _ => _ end] |- _ =>
      let r := fresh "r" in let s := fresh "s" in let E := fresh "E" in
      destruct (eval_items g k e st a l) as [r s] eqn:E;
      destruct r;
      try (rewrite (IHi _ _ _ _ _ _ _ Hle E) by discriminate)
  | H : context[match eval_args ?g ?k ?e ?l ?st with _ => _ end] |- _ =>
      let o := fresh "o" in let r := fresh "r" in let s := fresh "s" in let E := fresh "E" in
      destruct (eval_args g k e l st) as [[o r] s] eqn:E;
      destruct o;
      [ unfold eval_args in *;
        rewrite (eval_args_f_mono _ _ (fun st a r st' => IHe _ _ st a r st' Hle) _ _ _ _ _ E)
          by discriminate
      | unfold eval_args in *;
        rewrite (eval_args_f_mono _ (fun st a => eval g _ e st a)
                   (fun st a r st' => IHe _ _ st a r st' Hle) _ _ _ _ _ E)
          by (intros _; intro; subst; match goal with H : (RFuel, _) = (_, _) |- _ =>
                                        inversion H; subst; congruence end) ]
  | H : context[match ?X with _ => _ end] |- _ =>
      lazymatch X with
      | eval _ _ _ _ _ => fail
      | eval_items _ _ _ _ _ _ => fail
      | handlers _ _ _ _ _ _ _ => fail
      | _ => destruct X eqn:?
      end
  end.

Ltac mono_solve IHe IHi IHh Hle :=
  repeat (mono_step IHe IHi IHh Hle);
  try mono_fin;
  try (eapply IHe; eassumption);
  try (eapply IHi; eassumption);
  try (eapply IHh; eassumption).

Lemma fuel_mono_all : forall k, mono_eval k /\ mono_items k /\ mono_handlers k.
Proof.
  induction k as [|k [IHe [IHi IHh]]].
  - repeat split; red; intros; rewrite ?eval_O, ?eval_items_O, ?handlers_O in *; congruence.
  - repeat split; red.
    + intros k' e st x r st' Hle H Hne.
      destruct k' as [|k']; [lia|]. assert (Hle' : k <= k') by lia. clear Hle.
      destruct x;
        try (destruct (binop_cases op) as [->|[->|[Hop1 Hop2]]];
             [| | rewrite (eval_EBin genv op) in * by assumption]);
        autorewrite with evaleq in *; unfold apply_fun, call_body in *;
        mono_solve IHe IHi IHh Hle'.
    + intros k' e st l last r st' Hle H Hne.
      destruct k' as [|k']; [lia|]. assert (Hle' : k <= k') by lia. clear Hle.
      destruct l as [|[x a|x a|fd|a] t];
        autorewrite with evaleq in *; mono_solve IHe IHi IHh Hle'.
    + intros k' e st ex cs call r st' Hle H Hne.
      destruct k' as [|k']; [lia|]. assert (Hle' : k <= k') by lia. clear Hle.
      destruct cs as [|[ex' body] t];
        autorewrite with evaleq in *; mono_solve IHe IHi IHh Hle'.
Qed.

Theorem eval_fuel_mono : forall k k' e st x r st', k <= k' ->
  eval genv k e st x = (r, st') -> r <> RFuel -> eval genv k' e st x = (r, st').
Proof. intros k; exact (proj1 (fuel_mono_all k)). Qed.

Theorem eval_items_fuel_mono : forall k k' e st l last r st', k <= k' ->
  eval_items genv k e st l last = (r, st') -> r <> RFuel ->
  eval_items genv k' e st l last = (r, st').
Proof. intros k; exact (proj1 (proj2 (fuel_mono_all k))). Qed.

Theorem handlers_fuel_mono : forall k k' e st ex cs call r st', k <= k' ->
  handlers genv k e st ex cs call = (r, st') -> r <> RFuel ->
  handlers genv k' e st ex cs call = (r, st').
Proof. intros k; exact (proj2 (proj2 (fuel_mono_all k))). Qed.

End Mono.

(* the outcome of a program does not depend on the fuel, once it is enough *)
Theorem run_program_fuel_mono : forall k k' p args, k <= k' ->
  run_program k p args <> OFuel -> run_program k' p args = run_program k p args.
Proof.
  intros k k' p args Hle. unfold run_program.
  destruct (fold_left _ args _) as [argcells st1].
  destruct (lookup _ _) as [cm|]; auto.
  destruct (get_cell st1 cm) as [[ | |fd cenv| |]|]; auto.
  destruct (bind_params _ _) as [penv|]; auto.
  destruct (eval_items _ k penv st1 (fd_body fd) None) as [r s] eqn:E.
  destruct r.
  - intros _. rewrite (eval_items_fuel_mono _ _ _ _ _ _ _ _ _ Hle E) by discriminate. reflexivity.
  - rewrite (eval_items_fuel_mono _ _ _ _ _ _ _ _ _ Hle E) by discriminate.
    destruct (handlers _ k penv s e _ _) as [r2 s2] eqn:E2.
    destruct r2; intros Hne;
      try (rewrite (handlers_fuel_mono _ _ _ _ _ _ _ _ _ _ Hle E2) by discriminate; reflexivity).
    congruence.
  - congruence.
  - intros _. rewrite (eval_items_fuel_mono _ _ _ _ _ _ _ _ _ Hle E) by discriminate. reflexivity.
Qed.

(* two sufficient fuels give the same outcome *)
Corollary run_program_deterministic_in_fuel : forall k1 k2 p args,
  run_program k1 p args <> OFuel -> run_program k2 p args <> OFuel ->
  run_program k1 p args = run_program k2 p args.
Proof.
  intros k1 k2 p args H1 H2. destruct (Nat.le_ge_cases k1 k2) as [H|H].
  - symmetry. apply run_program_fuel_mono; auto.
  - apply run_program_fuel_mono; auto.
Qed.

(* fuel-free evaluation judgement *)
Definition evaluates (genv e : env) (st : state) (x : expr) (r : res) (st' : state) : Prop :=
  exists k, eval genv k e st x = (r, st') /\ r <> RFuel.

Lemma evaluates_functional : forall genv e st x r1 s1 r2 s2,
  evaluates genv e st x r1 s1 -> evaluates genv e st x r2 s2 -> r1 = r2 /\ s1 = s2.
Proof.
  intros genv e st x r1 s1 r2 s2 [k1 [H1 N1]] [k2 [H2 N2]].
  destruct (Nat.le_ge_cases k1 k2) as [H|H].
  - rewrite (eval_fuel_mono _ _ _ _ _ _ _ _ H H1 N1) in H2. inversion H2; auto.
  - rewrite (eval_fuel_mono _ _ _ _ _ _ _ _ H H2 N2) in H1. inversion H1; auto.
Qed.

(* ---- store monotonicity ----------------------------------------------------------- *)

Definition st_le (st st' : state) : Prop :=
  length (cells st) <= length (cells st') /\
  (exists l, arrs st' = arrs st ++ l) /\
  (exists l, recs st' = recs st ++ l) /\
  (exists l, out st' = l ++ out st).

Lemma st_le_refl : forall st, st_le st st.
Proof. intros; repeat split; auto; exists []; simpl; rewrite ?app_nil_r; reflexivity. Qed.

Lemma st_le_trans : forall a b c, st_le a b -> st_le b c -> st_le a c.
Proof.
  intros a b c [H1 [[l2 H2] [[l3 H3] [l4 H4]]]] [G1 [[m2 G2] [[m3 G3] [m4 G4]]]].
  repeat split.
  - lia.
  - exists (l2 ++ m2). rewrite G2, H2, app_assoc. reflexivity.
  - exists (l3 ++ m3). rewrite G3, H3, app_assoc. reflexivity.
  - exists (m4 ++ l4). rewrite G4, H4, app_assoc. reflexivity.
Qed.

Lemma st_le_fresh : forall st v r st', fresh st v = (r, st') ->
  st_le st st' /\ r = ROk (length (cells st)) /\ cells st' = cells st ++ [v] /\
  arrs st' = arrs st /\ recs st' = recs st /\ out st' = out st.
Proof.
  unfold fresh, alloc. intros st v r st' H. inversion H; subst; clear H. simpl.
  repeat split; auto; try solve [exists []; simpl; rewrite ?app_nil_r; reflexivity];
    try (simpl; rewrite app_length; simpl; lia).
Qed.

Lemma st_le_set_cell : forall st c v, st_le st (set_cell st c v).
Proof.
  intros; unfold set_cell; repeat split; simpl; try solve [exists []; simpl; rewrite ?app_nil_r; reflexivity].
  rewrite list_upd_length; auto.
Qed.

Lemma st_le_new_arr : forall st cs, st_le st (snd (new_arr st cs)).
Proof. intros; repeat split; simpl; auto; try solve [exists []; simpl; rewrite ?app_nil_r; reflexivity]. eexists; eauto. Qed.

Lemma st_le_new_rec : forall st cs, st_le st (snd (new_rec st cs)).
Proof. intros; repeat split; simpl; auto; try solve [exists []; simpl; rewrite ?app_nil_r; reflexivity]. eexists; eauto. Qed.

Lemma st_le_print : forall st z, st_le st (print_num st z).
Proof. intros; repeat split; simpl; auto; try solve [exists []; simpl; rewrite ?app_nil_r; reflexivity]. exists [z]; auto. Qed.

Lemma st_le_alloc : forall st v, st_le st (snd (alloc st v)).
Proof.
  intros; repeat split; simpl; auto; try solve [exists []; simpl; rewrite ?app_nil_r; reflexivity];
    try (rewrite app_length; simpl; lia).
Qed.

Lemma new_arr_le : forall st cs a st', new_arr st cs = (a, st') -> st_le st st'.
Proof. intros st cs a st' H. generalize (st_le_new_arr st cs). rewrite H. auto. Qed.
Lemma new_rec_le : forall st cs a st', new_rec st cs = (a, st') -> st_le st st'.
Proof. intros st cs a st' H. generalize (st_le_new_rec st cs). rewrite H. auto. Qed.

Section Grow.
Variable genv : env.

Definition grow_eval (k : nat) := forall e st x r st', eval genv k e st x = (r, st') -> st_le st st'.
Definition grow_items (k : nat) := forall e st l last r st',
  eval_items genv k e st l last = (r, st') -> st_le st st'.
Definition grow_handlers (k : nat) := forall e st ex cs call r st',
  handlers genv k e st ex cs call = (r, st') -> st_le st st'.

Lemma eval_args_f_le : forall (ev : state -> expr -> res * state),
  (forall st a r st', ev st a = (r, st') -> st_le st st') ->
  forall l st x st', eval_args_f ev l st = (x, st') -> st_le st st'.
Proof.
  intros ev Hev. induction l as [|a t IH]; intros st x st' H.
  - inversion H; apply st_le_refl.
  - rewrite eval_args_f_cons in H.
    destruct (eval_args_f ev t st) as [[o1 r1] s1] eqn:E1. apply IH in E1.
    destruct o1.
    + destruct (ev s1 a) as [r2 s2] eqn:E2. apply Hev in E2.
      destruct r2; inversion H; subst; eapply st_le_trans; eauto.
    + inversion H; subst; auto.
Qed.

Ltac chain :=
  repeat match goal with
  | H : st_le ?a ?b |- st_le ?a ?c => apply (st_le_trans a b c H); clear H
  end;
  first [ apply st_le_refl | assumption | apply st_le_set_cell
        | eapply st_le_trans; [apply st_le_print | eassumption]
        | idtac ].

Ltac grow_leaf IHe IHi IHh :=
  match goal with
  | H : fresh _ _ = (_, _) |- _ => apply st_le_fresh in H; destruct H as [H _]
  | H : new_arr _ _ = (_, _) |- _ => apply new_arr_le in H
  | H : new_rec _ _ = (_, _) |- _ => apply new_rec_le in H
  | H : (_, _) = (_, _) |- _ => inversion H; subst; clear H
  | H : eval _ _ _ _ _ = (_, _) |- _ => apply IHe in H
  | H : eval_items _ _ _ _ _ _ = (_, _) |- _ => apply IHi in H
  | H : handlers _ _ _ _ _ _ _ = (_, _) |- _ => apply IHh in H
  | H : eval_args _ _ _ _ _ = (_, _) |- _ =>
      apply (eval_args_f_le _ (fun st a r st' => IHe _ st a r st')) in H
  end.

Ltac grow_step :=
  match goal with
  | H : context[match ?X with _ => _ end] |- _ =>
      lazymatch type of H with
      | st_le _ _ => fail
      | _ => destruct X eqn:?
      end
  end.

Lemma grow_all : forall k, grow_eval k /\ grow_items k /\ grow_handlers k.
Proof.
  induction k as [|k [IHe [IHi IHh]]].
  - (split; [|split]); red; intros; rewrite ?eval_O, ?eval_items_O, ?handlers_O in *;
      inversion H; apply st_le_refl.
  - (split; [|split]); red.
    + intros e st x r st' H.
      destruct x;
        try (destruct (binop_cases op) as [->|[->|[Hop1 Hop2]]];
             [| | rewrite (eval_EBin genv op) in * by assumption]);
        autorewrite with evaleq in *;
        unfold apply_fun, call_body, binop_result, index_result, field_result in *;
        repeat grow_step; repeat (grow_leaf IHe IHi IHh); chain.
    + intros e st l last r st' H.
      destruct l as [|[x a|x a|fd|a] t];
        autorewrite with evaleq in *; unfold alloc in *;
        repeat grow_step; repeat (grow_leaf IHe IHi IHh); chain.
      eapply st_le_trans; [|eassumption].
      eapply st_le_trans; [apply (st_le_alloc st (CInt 0))|apply st_le_set_cell].
    + intros e st ex cs call r st' H.
      destruct cs as [|[ex' body] t];
        autorewrite with evaleq in *;
        repeat grow_step; repeat (grow_leaf IHe IHi IHh); chain.
Qed.
End Grow.
