(* Src/Compile3.v — a model of the code generator /repo/front/emit.c for the core fragment,
   instruction by instruction (definitions only; proofs in Src/CompileCorrect3*.v; the tie
   harness/ocaml/compile3 + checks/parts/compiletie.py compares `compile_func` with the code the
   real emitter produces, instruction by instruction, on generated programs).

   Mirrored functions of emit.c (stack_level L = number of let/var slots and temporaries above
   the parameters at the point where the code runs):
     expr_int_emit (EXPR_INT and EXPR_BOOL)      INT v
     expr_id_local_emit / expr_id_bind_emit      ID_LOCAL {L, index}; parameters have index
                                                 0, -1, -2 … (func_enum_param_list), a let/var
                                                 has index = L+1 at its binding (bind_emit)
     expr_neg_emit, expr_not_emit                a; OP_NEG_INT / OP_NOT_INT
     expr_{add,sub,mul,lt,gt,lte,gte,eq,neq,bin_*}_emit   a at L; b at L+1; OP
     expr_div_emit, expr_mod_emit                a; b; LINE; OP          (LINE before the op)
     expr_cond_emit (?: and if/else)             c; JUMPZ; a; JUMP; LABEL; b; LABEL
                                                 offsets = label.addr - jump.addr
     expr_ass_emit                               l at L; r at L+1; OP_ASS_INT
     seq_emit + seq_list_emit (blocks)           items in order; `SLIDE 1 0` before an item that
                                                 follows an expression item; a let/var leaves its
                                                 value on the stack (L grows);  at the end
                                                 `SLIDE n 1` if n = number of binds > 0
     func_body_emit_native                       FUNC_DEF; body; LINE; RET; LABEL; RETHROW
   stage 2:
     expr_and_emit                               a; JUMPZ F; b (at L, a was popped); JUMPZ F; INT 1;
                                                 JUMP E; F: LABEL; INT 0; E: LABEL
     expr_or_emit                                a; JUMPZ B; JUMP T; B: LABEL; b; JUMPZ F; T: LABEL;
                                                 INT 1; JUMP E; F: LABEL; INT 0; E: LABEL
     expr_while_emit                             A: LABEL; c; JUMPZ B; body; SLIDE 1 0; JUMP A;
                                                 B: LABEL; INT 0
     expr_do_while_emit                          A: LABEL; body; SLIDE 1 0; c; JUMPZ B; JUMP A;
                                                 B: LABEL; INT 0
     expr_for_emit                               init; SLIDE 1 0; A: LABEL; c; JUMPZ B; body;
                                                 SLIDE 1 0; incr; SLIDE 1 0; JUMP A; B: LABEL; INT 0
     expr_call_emit on the stdlib `print`        LINE; MARK ret; e at L+5 (NUM_FRAME_PTRS);
                                                 GLOBAL_VEC 0; ID_FUNC_ADDR print; CALL; ret: LABEL
                                                 (MARK's operand: relative to the MARK in the model,
                                                 absolute in the real code; the tie relocates)
   stage 3 (calls of top-level functions, self tail calls, the whole module image):
     expr_call_emit                              LINE; MARK ret; args right to left at L+5, L+6, …;
                                                 callee; CALL; ret: LABEL
     expr_id_func_top_emit (callee = a top-level function)   GLOBAL_VEC 0; ID_FUNC_ADDR f
     front/tailrec.c + expr_last_call_emit       a call of the enclosing function itself in tail
                                                 position (through ?: branches and the last
                                                 expression item of blocks) has no MARK:
                                                 args at L, L+1, …; callee; SLIDE (L+v) (v+1); CALL
     main_emit / func_entry_emit                 the module image `compile_program`: global prelude
                                                 (ALLOC 30 + the 30 stdlib closures, ALLOC n + the
                                                 program's n top-level closures), the entry stub,
                                                 the 30 stdlib bodies, the program's bodies in
                                                 source order; the exception table.
   Code is first produced in RELATIVE form — the operand of MARK is the distance from the MARK to
   its return LABEL, the operand of ID_FUNC_ADDR is the index of the function (0..29 stdlib in
   the order of front/libmath.c, 30.. the program's functions) — and then linked (`link`):
   MARK gets the absolute address, ID_FUNC_ADDR the address of the function's FUNC_DEF.  The tie
   compares the linked image with the real module's whole code array and exception table.
   The operand of LINE is a source line number; the model writes 0 and the tie does not compare
   it (the modelled VM ignores it).

   The real pipeline runs front/constred.c before the emitter: an operator all of whose operands
   are literals is replaced by a literal.  The model does not fold; the fragment predicate
   (`in_F1`, Src/CompileCorrect.v) requires programs on which folding is the identity.

   No axioms. *)
From Coq Require Import ZArith List Bool Lia.
From NV Require Import Gen.Opcodes Verifier.Effect Src.Syntax Src.Eval VM.ValueVM3.
Import ListNotations.
Local Open Scope Z_scope.

Definition cenv := list (ident * Z).        (* name -> index operand of ID_LOCAL *)

Fixpoint clookup (x : ident) (ce : cenv) : option Z :=
  match ce with
  | [] => None
  | (y, i) :: t => if N.eqb x y then Some i else clookup x t
  end.

Definition cidx (x : ident) (ce : cenv) : Z :=
  match clookup x ce with Some i => i | None => 0 end.

Definition ins (o : opcode) (a b : Z) : rinstr := {| r_op := o; r_w0 := a; r_w1 := b; r_w2 := 0 |}.
Definition ins0 (o : opcode) : rinstr := ins o 0 0.

Definition len (c : list rinstr) : Z := Z.of_nat (length c).

(* the operator instruction that follows the two operands *)
Definition binop_opcode (op : binop) : opcode :=
  match op with
  | Add => BYTECODE_OP_ADD_INT
  | Sub => BYTECODE_OP_SUB_INT
  | Mul => BYTECODE_OP_MUL_INT
  | Div => BYTECODE_OP_DIV_INT
  | Mod => BYTECODE_OP_MOD_INT
  | Lt => BYTECODE_OP_LT_INT
  | Le => BYTECODE_OP_LTE_INT
  | Gt => BYTECODE_OP_GT_INT
  | Ge => BYTECODE_OP_GTE_INT
  | Eq => BYTECODE_OP_EQ_INT
  | Ne => BYTECODE_OP_NEQ_INT
  | BAnd => BYTECODE_OP_BIN_AND_INT
  | BOr => BYTECODE_OP_BIN_OR_INT
  | BXor => BYTECODE_OP_BIN_XOR_INT
  | Shl => BYTECODE_OP_BIN_SHL_INT
  | Shr => BYTECODE_OP_BIN_SHR_INT
  | And | Or => BYTECODE_UNKNOWN         (* short-circuit forms are jumps, not an opcode *)
  end.

(* expr_div_emit / expr_mod_emit put a LINE before the operator (the fault message needs it) *)
Definition binop_code (op : binop) : list rinstr :=
  match op with
  | Div | Mod => [ins0 BYTECODE_LINE; ins0 (binop_opcode op)]
  | _ => [ins0 (binop_opcode op)]
  end.

(* number of let/var items of a block *)
Fixpoint nbinds (l : list item) : Z :=
  match l with
  | [] => 0
  | (ILet _ _ | IVar _ _) :: t => 1 + nbinds t
  | _ :: t => nbinds t
  end.

(* seq_list_emit, for an abstract expression compiler (cx) and the compiler of the block's last
   expression item (cxl: the same, or the one that knows it is in tail position) *)
Definition compile_items_f (cx cxl : Z -> cenv -> expr -> list rinstr) :=
  fix go (L : Z) (ce : cenv) (l : list item) {struct l} : list rinstr :=
  match l with
  | [] => []
  | IExpr e :: t =>
      (match t with [] => cxl | _ => cx end) L ce e ++
      match t with [] => [] | _ => ins BYTECODE_SLIDE 1 0 :: go L ce t end
  | ILet x e :: t | IVar x e :: t =>
      cx L ce e ++ go (L + 1) ((x, L + 1) :: ce) t
  | IFunc _ :: t => go L ce t            (* nested functions: outside the fragment *)
  end.

(* expr_list_emit: the last argument first; the k-th compiled argument sits at level L + k *)
Definition compile_args_f (cx : Z -> cenv -> expr -> list rinstr) (ce : cenv) :=
  fix go (L : Z) (l : list expr) {struct l} : list rinstr :=
  match l with
  | [] => []
  | a :: t => go L t ++ cx (L + Z.of_nat (length t)) ce a
  end.

Definition block_end (n : Z) : list rinstr :=
  if 0 <? n then [ins BYTECODE_SLIDE n 1] else [].

(* expr_while_emit, on the compiled condition and body (expr_for_emit's loop is the same code with
   body; SLIDE 1 0; incr as body) *)
Definition while_code (cc cb : list rinstr) : list rinstr :=
  ins0 BYTECODE_LABEL :: cc ++ ins BYTECODE_JUMPZ (len cb + 3) 0 :: cb ++
  [ins BYTECODE_SLIDE 1 0; ins BYTECODE_JUMP (- (len cc + len cb + 3)) 0; ins0 BYTECODE_LABEL;
   ins BYTECODE_INT 0 0].

Definition dowhile_code (cb cc : list rinstr) : list rinstr :=
  ins0 BYTECODE_LABEL :: cb ++ ins BYTECODE_SLIDE 1 0 :: cc ++
  [ins BYTECODE_JUMPZ 2 0; ins BYTECODE_JUMP (- (len cb + len cc + 3)) 0; ins0 BYTECODE_LABEL;
   ins BYTECODE_INT 0 0].

Definition and_code (ca cb : list rinstr) : list rinstr :=
  ca ++ ins BYTECODE_JUMPZ (len cb + 4) 0 :: cb ++
  [ins BYTECODE_JUMPZ 3 0; ins BYTECODE_INT 1 0; ins BYTECODE_JUMP 3 0; ins0 BYTECODE_LABEL;
   ins BYTECODE_INT 0 0; ins0 BYTECODE_LABEL].

Definition or_code (ca cb : list rinstr) : list rinstr :=
  ca ++ ins BYTECODE_JUMPZ 2 0 :: ins BYTECODE_JUMP (len cb + 3) 0 :: ins0 BYTECODE_LABEL :: cb ++
  [ins BYTECODE_JUMPZ 4 0; ins0 BYTECODE_LABEL; ins BYTECODE_INT 1 0; ins BYTECODE_JUMP 3 0;
   ins0 BYTECODE_LABEL; ins BYTECODE_INT 0 0; ins0 BYTECODE_LABEL].

(* NUM_FRAME_PTRS of emit.c: the slots MARK pushes *)
Definition num_frame_ptrs : Z := 5.

(* function indices (operand of ID_FUNC_ADDR before linking): the stdlib of front/libmath.c … *)
Definition nstd : nat := 30.
Definition print_idx : Z := 13.

(* expr_call_emit on a top-level function, given the compiled arguments *)
Definition call_code (fi : Z) (ca : list rinstr) : list rinstr :=
  ins0 BYTECODE_LINE :: ins BYTECODE_MARK (len ca + 4) 0 :: ca ++
  [ins BYTECODE_GLOBAL_VEC 0 0; ins BYTECODE_ID_FUNC_ADDR fi 0; ins0 BYTECODE_CALL;
   ins0 BYTECODE_LABEL].

(* expr_last_call_emit: v arguments *)
Definition last_call_code (fi : Z) (L v : Z) (ca : list rinstr) : list rinstr :=
  ca ++ [ins BYTECODE_GLOBAL_VEC 0 0; ins BYTECODE_ID_FUNC_ADDR fi 0;
         ins BYTECODE_SLIDE (L + v) (v + 1); ins0 BYTECODE_CALL].

Definition print_code (ca : list rinstr) : list rinstr := call_code print_idx ca.

(* … then the program's top-level functions, in source order *)
Fixpoint fpos (f : ident) (l : list ident) (i : Z) : option Z :=
  match l with
  | [] => None
  | g :: t => if N.eqb f g then Some i else fpos f t (i + 1)
  end.

Definition self_is (self : option ident) (f : ident) : bool :=
  match self with Some g => N.eqb f g | None => false end.

Section Funs.
Variable FT : list ident.            (* the names of the program's top-level functions, in order *)

Definition fidx (f : ident) : Z :=
  match fpos f FT (Z.of_nat nstd) with Some i => i | None => 0 end.

(* self = the enclosing function (front/tailrec.c marks only calls of it), tail = the expression is
   in tail position.  Sub-expressions that are not in tail position are compiled by
   `cexpr None false` = compile_expr. *)
Fixpoint cexpr (self : option ident) (tail : bool) (L : Z) (ce : cenv) (e : expr) {struct e}
  : list rinstr :=
  match e with
  | EInt z => [ins BYTECODE_INT z 0]
  | EBool b => [ins BYTECODE_INT (b2z b) 0]
  | EVar x => [ins BYTECODE_ID_LOCAL L (cidx x ce)]
  | ENeg a => cexpr None false L ce a ++ [ins0 BYTECODE_OP_NEG_INT]
  | ENot a => cexpr None false L ce a ++ [ins0 BYTECODE_OP_NOT_INT]
  | EBin And a b => and_code (cexpr None false L ce a) (cexpr None false L ce b)
  | EBin Or a b => or_code (cexpr None false L ce a) (cexpr None false L ce b)
  | EBin op a b => cexpr None false L ce a ++ cexpr None false (L + 1) ce b ++ binop_code op
  | ECond c a b =>
      let ca := cexpr self tail L ce a in
      let cb := cexpr self tail L ce b in
      cexpr None false L ce c ++ ins BYTECODE_JUMPZ (len ca + 2) 0 :: ca ++
      ins BYTECODE_JUMP (len cb + 2) 0 :: ins0 BYTECODE_LABEL :: cb ++ [ins0 BYTECODE_LABEL]
  | EAssign l r => cexpr None false L ce l ++ cexpr None false (L + 1) ce r ++ [ins0 BYTECODE_OP_ASS_INT]
  | EBlock items =>
      compile_items_f (cexpr None false) (cexpr self tail) L ce items ++ block_end (nbinds items)
  | EWhile c b => while_code (cexpr None false L ce c) (cexpr None false L ce b)
  | EDoWhile b c => dowhile_code (cexpr None false L ce b) (cexpr None false L ce c)
  | EFor i c s b =>
      cexpr None false L ce i ++ ins BYTECODE_SLIDE 1 0 ::
      while_code (cexpr None false L ce c)
                 (cexpr None false L ce b ++ ins BYTECODE_SLIDE 1 0 :: cexpr None false L ce s)
  | EPrint a => print_code (cexpr None false (L + num_frame_ptrs) ce a)
  | ECall (EVar f) args =>
      if tail && self_is self f
      then last_call_code (fidx f) L (Z.of_nat (length args))
             (compile_args_f (cexpr None false) ce L args)
      else call_code (fidx f) (compile_args_f (cexpr None false) ce (L + num_frame_ptrs) args)
  | _ => []                              (* outside the fragment *)
  end.

Definition compile_expr := cexpr None false.
Definition compile_items := compile_items_f compile_expr compile_expr.
Definition compile_args := compile_args_f compile_expr.
Definition compile_items_tl (self : option ident) := compile_items_f compile_expr (cexpr self true).

(* func_enum_param_list: the first parameter has index 0, the next -1, … *)
Fixpoint param_env (ps : list (ident * bool * ty)) (i : Z) : cenv :=
  match ps with
  | [] => []
  | (x, _, _) :: t => (x, i) :: param_env t (i - 1)
  end.

(* the body of a function is in tail position of that function *)
Definition compile_body (fd : fdef) : list rinstr :=
  cexpr (Some (fd_name fd)) true 0 (param_env (fd_params fd) 0) (EBlock (fd_body fd)).

(* catch clauses (except_emit / except_all_emit): CLEAR_STACK nparams; [INT no; PUSH_EXCEPT;
   OP_EQ_INT; JUMPZ next;] the clause's block (not in tail position: front/tailrec.c marks nothing in
   handlers); RET; LABEL.  The clause sees the parameters only: level 0. *)
Definition clause_body (fd : fdef) (body : list item) : list rinstr :=
  cexpr None false 0 (param_env (fd_params fd) 0) (EBlock body).

Definition clause_seg (fd : fdef) (c : exn * list item) : list rinstr :=
  let cb := clause_body fd (snd c) in
  ins BYTECODE_CLEAR_STACK (Z.of_nat (length (fd_params fd))) 0 :: ins BYTECODE_INT (exn_no (fst c)) 0 ::
  ins0 BYTECODE_PUSH_EXCEPT :: ins0 BYTECODE_OP_EQ_INT :: ins BYTECODE_JUMPZ (len cb + 2) 0 ::
  cb ++ [ins0 BYTECODE_RET; ins0 BYTECODE_LABEL].

Definition all_seg (fd : fdef) (body : list item) : list rinstr :=
  ins BYTECODE_CLEAR_STACK (Z.of_nat (length (fd_params fd))) 0 ::
  clause_body fd body ++ [ins0 BYTECODE_RET; ins0 BYTECODE_LABEL].

(* func_body_emit_native: the segments of a function — FUNC_DEF body LINE RET LABEL, then one per
   clause — each ending with the LABEL that is the handler of its addresses; then RETHROW *)
Definition body_seg (fd : fdef) : list rinstr :=
  ins0 BYTECODE_FUNC_DEF :: compile_body fd ++ [ins0 BYTECODE_LINE; ins0 BYTECODE_RET; ins0 BYTECODE_LABEL].

Definition clause_segs (fd : fdef) : list (list rinstr) :=
  map (clause_seg fd) (fd_catches fd) ++
  match fd_catch_all fd with Some b => [all_seg fd b] | None => [] end.

Definition fsegs (fd : fdef) : list (list rinstr) := body_seg fd :: clause_segs fd.

Definition compile_func (fd : fdef) : list rinstr := concat (fsegs fd) ++ [ins0 BYTECODE_RETHROW].

End Funs.

(* ---- the module image ------------------------------------------------------------------------ *)

(* libmath_add_funcs: (number of parameters, builtin id) of sin cos tan exp log sqrt pow str strf
   ord chr read printb print printl printf printd printc prints length assert assertf c_int_ptr
   c_long_ptr c_float_ptr c_double_ptr c_bool_ptr c_char_ptr c_string_ptr c_ptr_ptr *)
Definition std_tab : list (nat * Z) :=
  map (fun p : nat * nat => (fst p, Z.of_nat (snd p)))
  [(1,1);(1,2);(1,3);(1,4);(1,5);(1,6);(2,7);(1,8);(1,9);(1,10);(1,11);(0,12);(1,15);(1,13);(1,14);
   (1,16);(1,17);(1,18);(1,19);(1,20);(1,21);(2,22);(1,23);(1,24);(1,25);(1,26);(1,27);(1,28);
   (1,29);(1,30)]%nat.

Definition std_body (e : nat * Z) : list rinstr :=
  ins0 BYTECODE_FUNC_DEF ::
  match fst e with
  | 0%nat => []
  | 1%nat => [ins BYTECODE_ID_LOCAL 0 0]
  | _ => [ins BYTECODE_ID_LOCAL 0 (-1); ins BYTECODE_ID_LOCAL 1 0]
  end ++
  [ins BYTECODE_BUILD_IN (snd e) 0; ins0 BYTECODE_RET; ins0 BYTECODE_LABEL; ins0 BYTECODE_RETHROW].

(* FUNC_OBJ; [LINE;] GLOBAL_VEC 0; ID_FUNC_ADDR i; REWRITE k  for the functions i, i+1, … whose
   slots are k, k-1, … below the top *)
Fixpoint closures (line : bool) (i : Z) (k : nat) : list rinstr :=
  match k with
  | O => []
  | S k' =>
    ins0 BYTECODE_FUNC_OBJ :: (if line then [ins0 BYTECODE_LINE] else []) ++
    [ins BYTECODE_GLOBAL_VEC 0 0; ins BYTECODE_ID_FUNC_ADDR i 0; ins BYTECODE_REWRITE (Z.of_nat k) 0]
    ++ closures line (i + 1) k'
  end.

Definition prelude (n : nat) : list rinstr :=
  ins BYTECODE_ALLOC (Z.of_nat nstd) 0 :: closures false 0 nstd ++
  ins BYTECODE_ALLOC (Z.of_nat n) 0 :: closures true (Z.of_nat nstd) n.

(* func_entry_emit *)
Definition stub : list rinstr :=
  [ins0 BYTECODE_LABEL; ins BYTECODE_MARK 5 0; ins0 BYTECODE_PUSH_PARAM; ins BYTECODE_GLOBAL_VEC 0 0;
   ins0 BYTECODE_ID_FUNC_ENTRY; ins0 BYTECODE_CALL; ins0 BYTECODE_LABEL; ins0 BYTECODE_HALT;
   ins0 BYTECODE_LABEL; ins0 BYTECODE_UNHANDLED_EXCEPTION].

Definition fnames (p : program) : list ident := map fd_name (p_funcs p).

Definition bodies (p : program) : list (list rinstr) :=
  map std_body std_tab ++ map (compile_func (fnames p)) (p_funcs p).

(* the lengths of the segments of every function (a stdlib body is one segment + RETHROW) *)
Definition seglens (p : program) : list (list nat) :=
  map (fun e => [length (std_body e) - 1]%nat) std_tab ++
  map (fun fd => map (@length rinstr) (fsegs (fnames p) fd)) (p_funcs p).

Definition code_entry (p : program) : nat := length (prelude (length (p_funcs p))).
Definition head_len (p : program) : nat := code_entry p + length stub.

Fixpoint addrs_from (a : nat) (bs : list (list rinstr)) : list nat :=
  match bs with [] => [] | b :: t => a :: addrs_from (a + length b) t end.

(* the address of every function, by index *)
Definition ftable (p : program) : list nat := addrs_from (head_len p) (bodies p).

Definition rel_image (p : program) : list rinstr :=
  prelude (length (p_funcs p)) ++ stub ++ concat (bodies p).

(* linking *)
Definition reloc (tbl : list nat) (a : nat) (i : rinstr) : rinstr :=
  match r_op i with
  | BYTECODE_MARK => {| r_op := BYTECODE_MARK; r_w0 := Z.of_nat a + r_w0 i; r_w1 := r_w1 i; r_w2 := r_w2 i |}
  | BYTECODE_ID_FUNC_ADDR =>
      {| r_op := BYTECODE_ID_FUNC_ADDR; r_w0 := Z.of_nat (nth (Z.to_nat (r_w0 i)) tbl 0%nat);
         r_w1 := r_w1 i; r_w2 := r_w2 i |}
  | _ => i
  end.

Fixpoint link (tbl : list nat) (a : nat) (c : list rinstr) : list rinstr :=
  match c with [] => [] | i :: t => reloc tbl a i :: link tbl (S a) t end.

Definition compile_program (p : program) : list rinstr := link (ftable p) 0 (rel_image p).

(* exception_tab_insert: [0 ..) -> the stub's unhandled label; every segment of every function
   (the body, each catch clause) -> the LABEL that ends it *)
Fixpoint seg_entries (a : nat) (ls : list nat) : list (nat * nat) :=
  match ls with [] => [] | n :: t => (a, a + n - 1)%nat :: seg_entries (a + n) t end.

(* per function: the entries of its segments; the next function starts after the RETHROW *)
Fixpoint func_tab (a : nat) (ls : list (list nat)) : list (nat * nat) :=
  match ls with
  | [] => []
  | l :: t => seg_entries a l ++ func_tab (a + fold_right Nat.add 0 l + 1)%nat t
  end.

Definition exc_table (p : program) : list (nat * nat) :=
  (0%nat, code_entry p + 8)%nat :: func_tab (head_len p) (seglens p).

Definition main_addr (p : program) : nat :=
  match fpos (p_main p) (fnames p) (Z.of_nat nstd) with
  | Some i => nth (Z.to_nat i) (ftable p) 0%nat
  | None => 0%nat
  end.

Definition prog_xinfo (p : program) (args : list Z) : xinfo :=
  {| x_tab := exc_table p; x_entry := main_addr p; x_args := args; x_ftab := ftable p |}.

(* the model VM runs the relative image and links on the fly (VM/ValueVM3.v); the real machine
   starts at address 0; the model starts at the entry stub, with the slots the
   prelude leaves: the 30 stdlib closures and the program's *)
Definition run_vm (p : program) (fuel : nat) (args : list Z) : vres :=
  run (prog_xinfo p args) (rel_image p) fuel
      (boot_state (code_entry p) (nstd + length (p_funcs p))).

Definition run_vm_peak (p : program) (fuel : nat) (args : list Z) : vres * (nat * nat) :=
  run_peak (prog_xinfo p args) (rel_image p) fuel
           (boot_state (code_entry p) (nstd + length (p_funcs p))) 0 0.

(* ---- the fragments ------------------------------------------------------------------------
   F1 (level 1): int/bool expressions over parameters and let/var names: literals, names, unary -
   and !, the non-short-circuit binary operators, ?: (= if/else), assignment to a name, blocks of
   let / var / expression items that end with an expression item (the typechecker rejects other
   blocks).  Side conditions:
     - literals fit 32 bits (what the scanner accepts; the pretty-printer writes a negative
       literal as -k, which front/constred.c folds back to the literal);
     - no operator has only literal operands (constred.c would fold it: the model does not);
     - shift counts are literals 0..31 (other counts are undefined in C; Eval.v and the VM
       handlers need not agree on them);
     - every name is in scope (`sc`).
   F2 (level 2) adds && and || (short-circuit), while / do-while / for, print(e). *)

Definition is_lit (e : expr) : bool :=
  match e with EInt _ | EBool _ => true | _ => false end.

Definition int_lit_ok (z : Z) : bool := (-2147483648 <=? z) && (z <=? 2147483647).

Definition f1_binop (op : binop) : bool :=
  match op with And | Or => false | _ => true end.

Definition shift_ok (op : binop) (b : expr) : bool :=
  match op with
  | Shl | Shr => match b with EInt k => (0 <=? k) && (k <? 32) | _ => false end
  | _ => true
  end.

Fixpoint mem_id (x : ident) (l : list ident) : bool :=
  match l with [] => false | y :: t => N.eqb x y || mem_id x t end.

(* signatures of the program's functions: name, number of parameters *)
Definition fsigs := list (ident * nat).

Fixpoint fsig_lookup (f : ident) (FS : fsigs) : option nat :=
  match FS with [] => None | (g, n) :: t => if N.eqb f g then Some n else fsig_lookup f t end.

Definition is_fname (FS : fsigs) (x : ident) : bool :=
  match fsig_lookup x FS with Some _ => true | None => false end.

(* bound names must not hide a function (a let/var named like the enclosing function would also
   switch off the tail-call marking of front/tailrec.c) *)
Definition items_F_f (FS : fsigs) (fexpr : list ident -> expr -> bool) :=
  fix go (sc : list ident) (l : list item) {struct l} : bool :=
  match l with
  | [] => false                                  (* a block ends with an expression item *)
  | IExpr e :: t => fexpr sc e && match t with [] => true | _ => go sc t end
  | ILet x e :: t | IVar x e :: t => negb (is_fname FS x) && fexpr sc e && go (x :: sc) t
  | IFunc _ :: _ => false
  end.

Fixpoint in_F (FS : fsigs) (lv : nat) (sc : list ident) (e : expr) {struct e} : bool :=
  match e with
  | EInt z => int_lit_ok z
  | EBool _ => true
  | EVar x => mem_id x sc
  | ENeg a => negb (is_lit a) && in_F FS lv sc a
  | ENot a => negb (is_lit a) && in_F FS lv sc a
  | EBin op a b =>
      (f1_binop op || Nat.leb 2 lv) && negb (is_lit a && is_lit b) && shift_ok op b &&
      in_F FS lv sc a && in_F FS lv sc b
  | ECond c a b => negb (is_lit c) && in_F FS lv sc c && in_F FS lv sc a && in_F FS lv sc b
  | EAssign (EVar x) r => mem_id x sc && in_F FS lv sc r
  | EBlock items => items_F_f FS (in_F FS lv) sc items
  | EWhile c b => Nat.leb 2 lv && in_F FS lv sc c && in_F FS lv sc b
  | EDoWhile b c => Nat.leb 2 lv && in_F FS lv sc b && in_F FS lv sc c
  | EFor i c s b =>
      Nat.leb 2 lv && in_F FS lv sc i && in_F FS lv sc c && in_F FS lv sc s && in_F FS lv sc b
  | EPrint a => Nat.leb 2 lv && in_F FS lv sc a
  | ECall (EVar f) args =>
      Nat.leb 3 lv &&
      match fsig_lookup f FS with Some n => Nat.eqb n (length args) | None => false end &&
      (fix all (l : list expr) : bool :=
         match l with [] => true | a :: t => in_F FS lv sc a && all t end) args
  | _ => false
  end.

Definition items_F (FS : fsigs) (lv : nat) := items_F_f FS (in_F FS lv).

Fixpoint args_F (FS : fsigs) (lv : nat) (sc : list ident) (l : list expr) : bool :=
  match l with [] => true | a :: t => in_F FS lv sc a && args_F FS lv sc t end.

Definition param_names (ps : list (ident * bool * ty)) : list ident := map (fun p => fst (fst p)) ps.

(* a function of the fragment: body in the fragment, parameters not named like a function, no catch
   clauses *)
(* no call of the function `self` is in tail position of e (tail positions, front/tailrec.c: the
   expression itself, both branches of ?: / if-else, the last expression item of a block) *)
Definition nst_items_f (f : expr -> bool) :=
  fix go (l : list item) : bool :=
  match l with
  | [] => true
  | IExpr e :: t => match t with [] => f e | _ => go t end
  | _ :: t => go t
  end.

Fixpoint nst (self : ident) (e : expr) {struct e} : bool :=
  match e with
  | ECond _ a b => nst self a && nst self b
  | EBlock items => nst_items_f (nst self) items
  | ECall (EVar f) _ => negb (N.eqb f self)
  | _ => true
  end.

Definition no_self_tail_fd (fd : fdef) : bool := nst (fd_name fd) (EBlock (fd_body fd)).
Definition no_self_tail (p : program) : bool := forallb no_self_tail_fd (p_funcs p).

Definition no_catch (fd : fdef) : bool :=
  match fd_catches fd, fd_catch_all fd with [], None => true | _, _ => false end.

Definition func_in_F (FS : fsigs) (lv : nat) (fd : fdef) : bool :=
  items_F FS lv (param_names (fd_params fd)) (fd_body fd) &&
  forallb (fun x => negb (is_fname FS x)) (param_names (fd_params fd)) &&
  (no_catch fd ||
   (Nat.leb 5 lv && no_self_tail_fd fd &&
    forallb (fun c => items_F FS lv (param_names (fd_params fd)) (snd c)) (fd_catches fd) &&
    match fd_catch_all fd with Some b => items_F FS lv (param_names (fd_params fd)) b | None => true end)).

Definition in_F1 := in_F [] 1.
Definition in_F2 := in_F [] 2.
Definition func_in_F1 := func_in_F [] 1.
Definition func_in_F2 := func_in_F [] 2.

(* F3 (level 3) adds calls f(a1, …, an) of the program's top-level functions (any of them, the
   caller itself included: recursion; a self call in tail position is compiled as a jump, see
   cexpr), with as many arguments as f has parameters.  A program of F3: functions of F3 with
   pairwise different names, one of them the entry function. *)
Definition prog_sigs (p : program) : fsigs :=
  map (fun fd => (fd_name fd, length (fd_params fd))) (p_funcs p).

Fixpoint nodup_ids (l : list ident) : bool :=
  match l with [] => true | x :: t => negb (mem_id x t) && nodup_ids t end.

Definition prog_in_F (lv : nat) (p : program) : bool :=
  forallb (func_in_F (prog_sigs p) lv) (p_funcs p) &&
  nodup_ids (map fd_name (p_funcs p)) &&
  mem_id (p_main p) (map fd_name (p_funcs p)).

Definition prog_in_F3 := prog_in_F 3.

(* F5 (level 5; level 4 = closures is not part of it): F3 + catch clauses — `catch (name) { … }`
   and `catch { … }` after a function body; the clause blocks are in the fragment over the
   parameters only; a function with catch clauses has no self call in tail position (the evaluator
   has no tail-call elimination: for a clause that faults in a later iteration the replaced
   activations' clauses would run in Src/Eval.v and not in the implementation) *)
Definition prog_in_F5 := prog_in_F 5.




(* ---- unfolding equations ---------------------------------------------------------------- *)

Lemma compile_items_nil : forall FT L ce, compile_items FT L ce [] = [].
Proof. reflexivity. Qed.
Lemma compile_items_expr : forall FT L ce e t, compile_items FT L ce (IExpr e :: t) =
  compile_expr FT L ce e ++ match t with [] => [] | _ => ins BYTECODE_SLIDE 1 0 :: compile_items FT L ce t end.
Proof. intros. destruct t; reflexivity. Qed.
Lemma compile_items_let : forall FT L ce x e t, compile_items FT L ce (ILet x e :: t) =
  compile_expr FT L ce e ++ compile_items FT (L + 1) ((x, L + 1) :: ce) t.
Proof. reflexivity. Qed.
Lemma compile_items_var : forall FT L ce x e t, compile_items FT L ce (IVar x e :: t) =
  compile_expr FT L ce e ++ compile_items FT (L + 1) ((x, L + 1) :: ce) t.
Proof. reflexivity. Qed.
Lemma compile_block : forall FT L ce items, compile_expr FT L ce (EBlock items) =
  compile_items FT L ce items ++ block_end (nbinds items).
Proof. reflexivity. Qed.
Lemma compile_for : forall FT L ce i c st b, compile_expr FT L ce (EFor i c st b) =
  compile_expr FT L ce i ++ ins BYTECODE_SLIDE 1 0 ::
  compile_expr FT L ce (EWhile c (EBlock [IExpr b; IExpr st])).
Proof.
  intros. unfold compile_expr. cbn [cexpr compile_items_f nbinds block_end]. unfold block_end.
  simpl (0 <? 0). rewrite !app_nil_r. reflexivity.
Qed.

(* without a self call in tail position the tail-position compilation is the plain one *)
Lemma nst_eq : forall FT self e L ce, nst self e = true ->
  cexpr FT (Some self) true L ce e = cexpr FT None false L ce e.
Proof.
  intros FT self. fix IH 1. intros e L ce H. destruct e; try reflexivity.
  - (* ECond *) cbn [nst] in H. apply andb_true_iff in H. destruct H as [H2 H3].
    cbn [cexpr]. rewrite (IH e2 L ce H2), (IH e3 L ce H3). reflexivity.
  - (* ECall *) destruct e; try reflexivity. cbn [nst] in H. cbn [cexpr].
    unfold self_is. apply negb_true_iff in H. rewrite H. reflexivity.
  - (* EBlock *) cbn [nst] in H. cbn [cexpr]. f_equal.
    revert L ce H. induction items as [|it t IHt]; intros L ce H; [reflexivity|].
    destruct it as [x e | x e | fd | e]; cbn [compile_items_f nst_items_f] in *.
    + f_equal. apply IHt. exact H.
    + f_equal. apply IHt. exact H.
    + apply IHt. exact H.
    + destruct t as [|it2 t2].
      * rewrite (IH e L ce H). reflexivity.
      * f_equal. f_equal. apply IHt. exact H.
Qed.

Lemma no_self_tail_body : forall FT fd, no_self_tail_fd fd = true ->
  compile_body FT fd = compile_expr FT 0 (param_env (fd_params fd) 0) (EBlock (fd_body fd)).
Proof. intros FT fd H. unfold compile_body, compile_expr. apply nst_eq. exact H. Qed.
