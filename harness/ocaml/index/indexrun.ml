(* indexrun — runs the extracted indexing / exception-table models (Indexmodel) on the case file
   that harness/index/indexdrive.c runs against the real functions, and prints the same lines.
   Additional model-only cases (commands starting with H) predict what a VM handler does; checks/c12.py compares
   them with the outcome of probe programs.

     M n..                      dim_mult                      -> M elems m..
     F n..                      dim_fits                      -> F 0|1
     A n.. | i..                dim_mult + dim_addr           -> A addr oob
     D n m n m .. | i..         dim_addr                      -> D addr oob
     R a b c d                  get_slice_range               -> R rf rt oob
     CA s | s   CM s | s        can_add / can_mult            -> CA 0|1 / CM 0|1
     C n..   CD n m n m ..     dim_mult + dim_copy / dim_copy -> C n m n m .. / CD n m n m ..
     CO n..                     arr_copy (new_arr n..)        -> CO dims elems n m n m ..
     HN s                       arr_unary (negation, scalar multiple) -> ok shape | nil
     X b h b h .. | ip..        exctab_of_list, exctab_search, exception_tab_search -> X i:h|- ..
     XN ip..                    exctab_search None            -> X - ..
     HA s | i..                 array_deref                   -> ok k | oob d | nil
     HM n..                     mk_array (MK_ARRAY)           -> ok elems | oob d | size
     HMA n.. | i..              mk_array, array_deref         -> ok k | oob d | size
   ranges are passed to the model as the VM holds them: flat vectors [from0 to0 from1 to1 ..] and
   dims = length / 2 (the instruction's dims); the model's *_vec functions read slot d*2, d*2+1
     HR r | i..                 range_deref_vec               -> ok v.. | oob d | nil
     HS s | r | i..             (array, vector), slice_deref_vec
     HSS s | r1 | .. | rk | i.. (array, vector), slice_slice_vec k-1 times, slice_deref_vec
     HRR r1 | .. | rk | i..     slice_range_vec k-1 times, range_deref_vec
     HDS r1 | .. | rk           slice_range_vec chain (the range vector of a[r1]..[rk]), slice_dim_name of every name
     HDR r1 | .. | rk           the same chain, range_dim_name of every name
     HT chars | i               string_deref                  -> ok k | oob -1
     HU chars | from to         slice_string                  -> ok chars | oob -1
     HP s | s    HQ s | s       arr_addsub / arr_matmul       -> ok shape | size | nil
   (s = `nil` or extents; r = from to from to ..) *)
open Indexmodel

let rec pos_of_int n =
  if n = 1 then XH else if n land 1 = 0 then XO (pos_of_int (n lsr 1)) else XI (pos_of_int (n lsr 1))
let z_of_int n = if n = 0 then Z0 else if n > 0 then Zpos (pos_of_int n) else Zneg (pos_of_int (- n))
let rec int_of_pos = function XH -> 1 | XO p -> 2 * int_of_pos p | XI p -> 2 * int_of_pos p + 1
let int_of_z = function Z0 -> 0 | Zpos p -> int_of_pos p | Zneg p -> - (int_of_pos p)

let rec nat_of_int n = if n <= 0 then O else S (nat_of_int (n - 1))
let zs l = List.map z_of_int l
let ints l = String.concat " " (List.map (fun z -> string_of_int (int_of_z z)) l)

(* split the tokens after the command at "|" *)
let groups toks =
  let rec go acc cur = function
    | [] -> List.rev (List.rev cur :: acc)
    | "|" :: t -> go (List.rev cur :: acc) [] t
    | x :: t -> go acc (x :: cur) t in
  go [] [] toks

let nums g = List.map int_of_string g
let rec pairs = function a :: b :: t -> (z_of_int a, z_of_int b) :: pairs t | _ -> []
let shape g = match g with ["nil"] -> None | _ -> Some (zs (nums g))

let show_exc = function
  | IndexOob d -> Printf.sprintf "oob %d" (int_of_z d)
  | NilPointer -> "nil"
  | WrongArraySize -> "size"

let show_res f = function Ok a -> "ok " ^ f a | Exc e -> show_exc e

let arr_of = function None -> None | Some e -> Some (mk_arr e)
let narr_of = function None -> None | Some e -> Some (new_arr e)

let run_line line =
  let toks = List.filter (fun s -> s <> "") (String.split_on_char ' ' (String.trim line)) in
  match toks with
  | [] -> ""
  | cmd :: rest ->
    let gs = groups rest in
    let g i = try List.nth gs i with _ -> [] in
    (match cmd with
     | "M" ->
       let (dv, e) = dim_mult (zs (nums (g 0))) in
       String.trim (Printf.sprintf "M %d %s" (int_of_z e) (ints (List.map snd dv)))
     | "F" -> Printf.sprintf "F %d" (if dim_fits (zs (nums (g 0))) then 1 else 0)
     | "HM" -> "HM " ^ show_res (fun (_, e) -> string_of_int (int_of_z e)) (mk_array (zs (nums (g 0))))
     | "HMA" ->
       (match mk_array (zs (nums (g 0))) with
        | Exc e -> "HMA " ^ show_exc e
        | Ok (dv, _) -> "HMA " ^ show_res (fun k -> string_of_int (int_of_z k)) (array_deref (Some dv) (zs (nums (g 1)))))
     | "A" ->
       let (dv, _) = dim_mult (zs (nums (g 0))) in
       let (a, oob) = dim_addr dv (zs (nums (g 1))) in
       Printf.sprintf "A %d %d" (int_of_z a) (int_of_z oob)
     | "D" ->
       let (a, oob) = dim_addr (pairs (nums (g 0))) (zs (nums (g 1))) in
       Printf.sprintf "D %d %d" (int_of_z a) (int_of_z oob)
     | "R" ->
       (match nums (g 0) with
        | [a; b; c; d] ->
          let ((rf, rt), oob) = get_slice_range (z_of_int a) (z_of_int b) (z_of_int c) (z_of_int d) in
          Printf.sprintf "R %d %d %d" (int_of_z rf) (int_of_z rt) (if oob then 1 else 0)
        | _ -> "? R")
     | "CA" -> Printf.sprintf "CA %d" (if can_add (narr_of (shape (g 0))) (narr_of (shape (g 1))) then 1 else 0)
     | "CM" -> Printf.sprintf "CM %d" (if can_mult (narr_of (shape (g 0))) (narr_of (shape (g 1))) then 1 else 0)
     | "C" ->
       let (dv, _) = dim_mult (zs (nums (g 0))) in
       String.trim ("C " ^ ints (List.concat_map (fun (n, m) -> [n; m]) (dim_copy dv)))
     | "CD" ->
       String.trim ("CD " ^ ints (List.concat_map (fun (n, m) -> [n; m]) (dim_copy (pairs (nums (g 0))))))
     | "CO" ->
       let a = arr_copy (new_arr (zs (nums (g 0)))) in
       String.trim (Printf.sprintf "CO %d %d %s" (List.length a.a_dv) (int_of_z a.a_elems)
                      (ints (List.concat_map (fun (n, m) -> [n; m]) a.a_dv)))
     | "HN" -> String.trim ("HN " ^ show_res (fun a -> ints a.acc_shape) (arr_unary (narr_of (shape (g 0)))))
     | "X" ->
       let t = exctab_of_list (pairs (nums (g 0))) in
       let one ip =
         match exctab_search (Some t.et_tab) t.et_count (z_of_int ip) with
         | Found i ->
           (match exception_tab_search t (z_of_int ip) with
            | Some h -> Printf.sprintf "%d:%d" (int_of_z i) (int_of_z h)
            | None -> Printf.sprintf "%d:?" (int_of_z i))
         | NotFound -> "-"
         | OutOfFuel -> "fuel" in
       String.concat " " ("X" :: List.map one (nums (g 1)))
     | "XN" ->
       let one ip = match exctab_search None (z_of_int 3) (z_of_int ip) with NotFound -> "-" | _ -> "?" in
       String.concat " " ("X" :: List.map one (nums (g 0)))
     | "HA" -> "HA " ^ show_res (fun k -> string_of_int (int_of_z k))
                 (array_deref (arr_of (shape (g 0))) (zs (nums (g 1))))
     | "HR" ->
       let v = zs (nums (g 0)) in
       "HR " ^ show_res ints (range_deref_vec (nat_of_int (List.length v / 2)) (Some v) (zs (nums (g 1))))
     | "HS" | "HSS" ->
       (* groups: shape, r1, .., rk, idx *)
       let n = List.length gs in
       (match arr_of (shape (g 0)) with
        | None -> cmd ^ " nil"
        | Some dv ->
          let v1 = zs (nums (g 1)) in
          let dims = nat_of_int (List.length v1 / 2) in
          let rec chain s k =
            if k >= n - 1 then Ok s
            else match slice_slice_vec dims (Some s) (Some (zs (nums (g k)))) with
              | Ok s2 -> chain s2 (k + 1)
              | Exc e -> Exc e in
          (match chain { slv_arr = Some dv; slv_range = Some v1 } 2 with
           | Exc e -> cmd ^ " " ^ show_exc e
           | Ok s -> cmd ^ " " ^ show_res (fun k -> string_of_int (int_of_z k))
                       (slice_deref_vec dims (Some s) (zs (nums (g (n - 1)))))))
     | "HRR" ->
       let n = List.length gs in
       let v1 = zs (nums (g 0)) in
       let dims = nat_of_int (List.length v1 / 2) in
       let rec chain v k =
         if k >= n - 1 then Ok v
         else match slice_range_vec dims (Some v) (Some (zs (nums (g k)))) with
           | Ok v2 -> chain v2 (k + 1)
           | Exc e -> Exc e in
       (match chain v1 1 with
        | Exc e -> "HRR " ^ show_exc e
        | Ok v -> "HRR " ^ show_res ints (range_deref_vec dims (Some v) (zs (nums (g (n - 1))))))
     | "HDS" ->
       (* HDS r1 | .. | rk : SLICE_SLICE chain on vectors, then every bound name of the slice parameter *)
       let n = List.length gs in
       let v1 = zs (nums (g 0)) in
       let dims = List.length v1 / 2 in
       let rec chain v k =
         if k >= n then Ok v
         else match slice_range_vec (nat_of_int dims) (Some v) (Some (zs (nums (g k)))) with
           | Ok v2 -> chain v2 (k + 1)
           | Exc e -> Exc e in
       (match chain v1 1 with
        | Exc e -> "HDS " ^ show_exc e
        | Ok v -> "HDS ok " ^ ints (List.init (2 * dims) (fun k -> slice_dim_name v (nat_of_int k))))
     | "HDR" ->
       let n = List.length gs in
       let v1 = zs (nums (g 0)) in
       let dims = List.length v1 / 2 in
       let rec chain v k =
         if k >= n then Ok v
         else match slice_range_vec (nat_of_int dims) (Some v) (Some (zs (nums (g k)))) with
           | Ok v2 -> chain v2 (k + 1)
           | Exc e -> Exc e in
       (match chain v1 1 with
        | Exc e -> "HDR " ^ show_exc e
        | Ok v -> "HDR ok " ^ ints (List.init (2 * dims) (fun k -> range_dim_name v (nat_of_int k))))
     | "HT" ->
       (match nums (g 1) with
        | [i] -> "HT " ^ show_res (fun k -> string_of_int (int_of_z k)) (string_deref (Some (zs (nums (g 0)))) (z_of_int i))
        | _ -> "? HT")
     | "HU" ->
       (match nums (g 1) with
        | [a; b] -> String.trim ("HU " ^ show_res ints (slice_string (zs (nums (g 0))) (z_of_int a) (z_of_int b)))
        | _ -> "? HU")
     | "HP" -> String.trim ("HP " ^ show_res (fun a -> ints a.acc_shape) (arr_addsub (narr_of (shape (g 0))) (narr_of (shape (g 1)))))
     | "HQ" -> String.trim ("HQ " ^ show_res (fun a -> ints a.acc_shape) (arr_matmul (narr_of (shape (g 0))) (narr_of (shape (g 1)))))
     | c -> "? " ^ c)

let () =
  if Array.length Sys.argv < 2 then (prerr_endline "usage: run FILE"; exit 2);
  let ic = open_in Sys.argv.(1) in
  let out = Buffer.create (1 lsl 20) in
  (try
     while true do
       let line = input_line ic in
       Buffer.add_string out (run_line line);
       Buffer.add_char out '\n'
     done
   with End_of_file -> ());
  close_in ic;
  print_string (Buffer.contents out)
