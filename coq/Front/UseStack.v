(* Front/UseStack.v — model of the `use` include stack of front/scanner.l (C05).

   The scanner keeps   int use_stack_ptr;  use_descr use_stack[USE_STACK_SIZE];  moduletab * modtab;
   and touches them in two rules only:

   <USE>[a-zA-Z_./]+   (a module name after the keyword `use`)
       if (use_guard use_stack_ptr)          -> error "module uses are nested too deep", no push
       else if name is in modtab             -> no push ("each module parsed once")
       else if fopen_path(name.nev) fails    -> error "cannot open module", no push
       else use_stack[use_stack_ptr++] = descr; moduletab_add_module(modtab, name);
            switch to the module's buffer
   <<EOF>>
       if (--use_stack_ptr < 0) yyterminate();
       else restore from use_stack[use_stack_ptr]

   scan_string/scan_file reset use_stack_ptr to 0 and create an empty modtab (scan_file adds
   the file name itself, which carries the ".nev" suffix and so never equals a module name).
   Module names are abstracted to numbers; whether the file can be opened is an input of the
   event (the file system is outside the model).  After yyterminate() bison normally keeps
   YYEOF as look-ahead; only the error-recovery action of `func: TOK_FUNC TOK_ID error`
   (yyclearin) makes it call the scanner again, which then meets <<EOF>> again (modelled).

   USE_STACK_SIZE and use_guard are regenerated from the source text (Gen/FrontConsts.v).
   Every array access is recorded so that the theorem can talk about indices, not only
   about the counter.  Definitions only; proofs in UseStackProofs.v. *)
From Coq Require Import ZArith NArith Bool List.
From NV Require Import Gen.FrontConsts.
Import ListNotations.
Local Open Scope Z_scope.

Inductive uevent :=
| EUse (name : N) (opens : bool)     (* a module name scanned in state <USE> *)
| EEof.                              (* end of the current buffer *)

Record ustate := {
  u_ptr : Z;                 (* use_stack_ptr *)
  u_modtab : list N;         (* names added to modtab, newest first *)
  u_opened : list N;         (* modules actually opened and scanned, oldest first *)
  u_term : bool;             (* yyterminate() was executed *)
  u_access : list Z;         (* every index used in use_stack[...] so far, newest first *)
  u_errors : nat             (* diagnostics emitted by the <USE> rule *)
}.

Definition u_init : ustate :=
  {| u_ptr := 0; u_modtab := []; u_opened := []; u_term := false; u_access := []; u_errors := 0 |}.

Definition mem_name (n : N) (l : list N) : bool := existsb (N.eqb n) l.

Definition use_step (s : ustate) (e : uevent) : ustate :=
  if u_term s then
    (* the parser's error recovery (yyclearin) can ask for another token after the final EOF:
       the <<EOF>> rule runs again, decrements again and terminates again without touching the
       array.  No text is left, so no module name can be scanned any more. *)
    match e with
    | EEof => {| u_ptr := u_ptr s - 1; u_modtab := u_modtab s; u_opened := u_opened s; u_term := true;
                 u_access := u_access s; u_errors := u_errors s |}
    | EUse _ _ => s
    end
  else
  match e with
  | EUse n opens =>
    if use_guard (u_ptr s) then
      {| u_ptr := u_ptr s; u_modtab := u_modtab s; u_opened := u_opened s; u_term := false;
         u_access := u_access s; u_errors := S (u_errors s) |}
    else if mem_name n (u_modtab s) then s
    else if negb opens then
      {| u_ptr := u_ptr s; u_modtab := u_modtab s; u_opened := u_opened s; u_term := false;
         u_access := u_access s; u_errors := S (u_errors s) |}
    else
      {| u_ptr := u_ptr s + 1; u_modtab := n :: u_modtab s; u_opened := u_opened s ++ [n];
         u_term := false; u_access := u_ptr s :: u_access s; u_errors := u_errors s |}
  | EEof =>
    let p := u_ptr s - 1 in
    if p <? 0 then
      {| u_ptr := p; u_modtab := u_modtab s; u_opened := u_opened s; u_term := true;
         u_access := u_access s; u_errors := u_errors s |}
    else
      {| u_ptr := p; u_modtab := u_modtab s; u_opened := u_opened s; u_term := false;
         u_access := p :: u_access s; u_errors := u_errors s |}
  end.

Definition use_run (evs : list uevent) : ustate := fold_left use_step evs u_init.

(* ---- the scanner walking a module graph (for the correspondence run) -------------------
   A module graph maps a module name to the list of names it `use`s, in textual order; a name
   without an entry is a missing file.  [walk] produces the events the scanner goes through
   and records use_stack_ptr after every `use` token, which is what the C driver prints. *)
Definition graph := list (N * list N).

Fixpoint lookup (g : graph) (n : N) : option (list N) :=
  match g with
  | [] => None
  | (m, us) :: r => if N.eqb m n then Some us else lookup r n
  end.

Fixpoint walk (fuel : nat) (g : graph) (s : ustate) (frames : list (list N)) (cur : list N)
              (out : list Z) : ustate * list Z :=
  match fuel with
  | O => (s, rev out)
  | S k =>
    match cur with
    | n :: rest =>
      let body := lookup g n in
      let s' := use_step s (EUse n (match body with Some _ => true | None => false end)) in
      let out' := u_ptr s' :: out in
      if u_ptr s <? u_ptr s'
      then walk k g s' (rest :: frames) (match body with Some b => b | None => [] end) out'
      else walk k g s' frames rest out'
    | [] =>
      let s' := use_step s EEof in
      match frames with
      | f :: fs => walk k g s' fs f out
      | [] => (s', rev out)
      end
    end
  end.

Definition walk_main (fuel : nat) (g : graph) (main_uses : list N) : ustate * list Z :=
  walk fuel g u_init [] main_uses [].
