(* Proofs about shape conformance of array arithmetic (model: Index/Shapes.v).  No axioms. *)
From Coq Require Import ZArith List Bool Lia.
From NV Require Import Index.W32 Index.ArrIndex Index.Shapes Index.IndexSpec Index.ArrIndexProofs.
Import ListNotations.
Local Open Scope Z_scope.

Lemma new_arr_dv exts : map fst (a_dv (new_arr exts)) = exts.
Proof. unfold new_arr, dim_mult. cbn. apply mults_fst. Qed.

Lemma new_arr_dims exts : a_dims (new_arr exts) = Z.of_nat (length exts).
Proof. unfold a_dims. rewrite <- (new_arr_dv exts) at 2. now rewrite map_length. Qed.

Lemma new_arr_elems exts : a_elems (new_arr exts) = snd (dim_mult exts).
Proof. reflexivity. Qed.

Lemma can_add_loop_spec : forall d1 d2, length d1 = length d2 ->
  (can_add_loop d1 d2 = true <-> map fst d1 = map fst d2).
Proof.
  induction d1 as [|[n1 m1] t1 IH]; destruct d2 as [|[n2 m2] t2]; cbn; intros Hlen; try discriminate.
  - tauto.
  - destruct (Z.eqb_spec n1 n2) as [->|Hne]; cbn.
    + rewrite IH by lia. split; [intros ->; reflexivity | intros H; inversion H; reflexivity].
    + split; [discriminate | intros H; inversion H; contradiction].
Qed.

Lemma can_add_spec : forall e1 e2,
  can_add (Some (new_arr e1)) (Some (new_arr e2)) = true <-> e1 = e2.
Proof.
  intros e1 e2. unfold can_add. rewrite !new_arr_dims.
  destruct (Z.eqb_spec (Z.of_nat (length e1)) (Z.of_nat (length e2))) as [Hl|Hl]; cbn [negb].
  - rewrite can_add_loop_spec.
    + rewrite !new_arr_dv. tauto.
    + rewrite <- (map_length fst (a_dv (new_arr e1))), <- (map_length fst (a_dv (new_arr e2))).
      rewrite !new_arr_dv. lia.
  - split; [discriminate | intros ->; contradiction].
Qed.

Lemma dv_elems_new exts d : dv_elems (a_dv (new_arr exts)) d = nth d exts 0.
Proof. unfold dv_elems. rewrite nth_map_fst, new_arr_dv. reflexivity. Qed.

Lemma can_mult_spec : forall e1 e2,
  can_mult (Some (new_arr e1)) (Some (new_arr e2)) = true <->
  exists m k n, e1 = [m; k] /\ e2 = [k; n].
Proof.
  intros e1 e2. unfold can_mult. rewrite !new_arr_dims, !dv_elems_new.
  destruct (Z.eqb_spec (Z.of_nat (length e1)) 2) as [H1|H1];
    destruct (Z.eqb_spec (Z.of_nat (length e2)) 2) as [H2|H2]; cbn [negb orb].
  - destruct e1 as [|m [|k [|? ?]]]; cbn in H1; try lia.
    destruct e2 as [|k' [|n [|? ?]]]; cbn in H2; try lia. cbn [nth].
    destruct (Z.eqb_spec k k') as [->|Hne].
    + split; [intros _; eauto | reflexivity].
    + split; [discriminate | intros [m' [k'' [n' [E1 E2]]]]; inversion E1; inversion E2; congruence].
  - split; [discriminate | intros [m [k [n [-> ->]]]]; cbn in H2; lia].
  - split; [discriminate | intros [m [k [n [-> ->]]]]; cbn in H1; lia].
  - split; [discriminate | intros [m [k [n [-> ->]]]]; cbn in H1; lia].
Qed.

Lemma in_upto : forall n x, In x (upto n) <-> 0 <= x < Z.of_nat n.
Proof.
  induction n as [|n IH]; intros x; cbn [upto].
  - cbn. lia.
  - rewrite in_app_iff, IH. cbn. lia.
Qed.

Theorem shape_conformance : forall e1 e2,
  let a1 := Some (new_arr e1) in
  let a2 := Some (new_arr e2) in
  (* element-wise add / sub: same number of dimensions and the same extents, else wrong_array_size *)
  (can_add a1 a2 = true <-> e1 = e2) /\
  (arr_addsub a1 a2 = Exc WrongArraySize <-> e1 <> e2) /\
  (e1 = e2 -> exists acc, arr_addsub a1 a2 = Ok acc /\ acc_shape acc = e2 /\
     forall w r1 r2, In (w, r1, r2) (acc_reads acc) ->
       0 <= r1 < a_elems (new_arr e1) /\ 0 <= r2 < a_elems (new_arr e2) /\ 0 <= w < a_elems (new_arr e2)) /\
  (* matrix product: both two-dimensional with equal inner extents, else wrong_array_size *)
  (can_mult a1 a2 = true <-> exists m k n, e1 = [m; k] /\ e2 = [k; n]) /\
  ((~ exists m k n, e1 = [m; k] /\ e2 = [k; n]) -> arr_matmul a1 a2 = Exc WrongArraySize) /\
  (* conformable: wrong_array_size exactly when the m * n cells of the result do not fit unsigned
     int (fix 1f9996a), otherwise a result *)
  (forall m k n, e1 = [m; k] -> e2 = [k; n] -> 0 < m -> 0 < n ->
     (arr_matmul a1 a2 = Exc WrongArraySize <-> two32 <= m * n) /\
     (m * n < two32 -> exists acc, arr_matmul a1 a2 = Ok acc)) /\
  (* whenever the product of two matrices is produced, the result has m * n < 2^32 cells and
     every element read or written lies inside its value[] -- no hypothesis on m * n *)
  (forall m k n acc, e1 = [m; k] -> e2 = [k; n] -> 0 < m -> 0 < k -> 0 < n ->
     m * k < two32 -> k * n < two32 ->
     arr_matmul a1 a2 = Ok acc ->
     acc_shape acc = [m; n] /\ m * n < two32 /\ a_elems (new_arr [m; n]) = m * n /\
       forall w r1 r2, In (w, r1, r2) (acc_reads acc) ->
         0 <= r1 < a_elems (new_arr e1) /\ 0 <= r2 < a_elems (new_arr e2) /\
         0 <= w < a_elems (new_arr [m; n])) /\
  (* a nil operand: nil_pointer *)
  (arr_addsub None a2 = Exc NilPointer /\ arr_addsub a1 None = Exc NilPointer /\
   arr_matmul None a2 = Exc NilPointer /\ arr_matmul a1 None = Exc NilPointer).
Proof.
  intros e1 e2 a1 a2. subst a1 a2.
  pose proof (can_add_spec e1 e2) as CA. pose proof (can_mult_spec e1 e2) as CM.
  split; [exact CA|]. split.
  { unfold arr_addsub. destruct (can_add (Some (new_arr e1)) (Some (new_arr e2))) eqn:E; cbn.
    - split; [discriminate | intros Hne; exfalso; apply Hne; apply CA; reflexivity].
    - split; [intros _ Heq; apply CA in Heq; congruence | reflexivity]. }
  split.
  { intros Heq. unfold arr_addsub.
    assert (E : can_add (Some (new_arr e1)) (Some (new_arr e2)) = true) by (apply CA; exact Heq).
    rewrite E. cbn [negb]. eexists. split; [reflexivity|]. cbn [acc_shape acc_reads].
    split; [apply new_arr_dv|].
    intros w r1 r2 Hin. apply in_map_iff in Hin. destruct Hin as [e [He Hin]].
    inversion He; subst. apply in_upto in Hin. lia. }
  split; [exact CM|]. split.
  { intros Hne. unfold arr_matmul.
    destruct (can_mult (Some (new_arr e1)) (Some (new_arr e2))) eqn:E; cbn; [|reflexivity].
    exfalso. apply Hne. apply CM. reflexivity. }
  split.
  { intros m k n -> -> Hm Hn. unfold arr_matmul.
    assert (E : can_mult (Some (new_arr [m; k])) (Some (new_arr [k; n])) = true)
      by (apply can_mult_spec; eauto).
    rewrite E. cbn [negb]. rewrite !dv_elems_new. cbn [nth].
    pose proof (dim_fits_spec [m; n] ltac:(repeat constructor; lia)) as F. cbn [prodZ] in F.
    destruct (dim_fits [m; n]); cbn [negb].
    - split; [split; [discriminate | intros Hb; assert (m * (n * 1) < two32) by (apply F; reflexivity); lia]
             | intros _; eauto].
    - split; [split; [intros _ | reflexivity] | intros Hb; assert (false = true) by (apply F; lia); discriminate].
      destruct (Z_lt_le_dec (m * n) two32) as [Hlt|Hge]; [|exact Hge].
      assert (false = true) by (apply F; lia). discriminate. }
  split.
  { intros m k n acc -> -> Hm Hk Hn B1 B2 H. unfold arr_matmul in H.
    assert (E : can_mult (Some (new_arr [m; k])) (Some (new_arr [k; n])) = true)
      by (apply can_mult_spec; eauto).
    rewrite E in H. cbn [negb] in H. rewrite !dv_elems_new in H. cbn [nth] in H.
    pose proof (dim_fits_spec [m; n] ltac:(repeat constructor; lia)) as F. cbn [prodZ] in F.
    destruct (dim_fits [m; n]); cbn [negb] in H; [|discriminate].
    assert (B3 : m * n < two32) by (assert (m * (n * 1) < two32) by (apply F; reflexivity); lia).
    inversion H; subst acc; clear H. cbn [acc_shape acc_reads]. split; [reflexivity|].
    split; [exact B3|].
    assert (El : forall x y, 0 < x -> 0 < y -> x * y < two32 -> a_elems (new_arr [x; y]) = x * y).
    { intros x y Hx Hy Hb. rewrite new_arr_elems, dim_mult_exact; cbn [snd prodZ].
      - lia.
      - repeat constructor; lia.
      - lia. }
    rewrite !El by assumption. split; [reflexivity|].
    intros w r1 r2 Hin. unfold matmul_reads in Hin.
    apply in_flat_map in Hin. destruct Hin as [i [Hi Hin]].
    apply in_flat_map in Hin. destruct Hin as [j [Hj Hin]].
    apply in_map_iff in Hin. destruct Hin as [kk [He Hkk]].
    apply in_upto in Hi. apply in_upto in Hj. apply in_upto in Hkk.
    inversion He; subst.
    rewrite !u32_small by nia. nia. }
  repeat split; reflexivity.
Qed.

(* ---- the result of array arithmetic is indexed like any array of its shape ------------------- *)
Lemma dim_copy_id : forall dv, dim_copy dv = dv.
Proof. induction dv as [|[n mu] t IH]; cbn; congruence. Qed.

Lemma new_arr_mk exts : a_dv (new_arr exts) = mk_arr exts.
Proof. reflexivity. Qed.

(* add/sub, negation, scalar multiple: the result carries exactly the dimension vector
   (extents and row-major multipliers) of a freshly built array of the operand's shape, for
   every number of dimensions; the matrix product likewise for [m; n].  Hence
   array_deref_spec applies to results: r[i, j, k, ..] is the row-major element. *)
Theorem arith_result_indexing : forall e,
  (exists acc, arr_addsub (Some (new_arr e)) (Some (new_arr e)) = Ok acc /\ acc_dv acc = mk_arr e) /\
  (exists acc, arr_unary (Some (new_arr e)) = Ok acc /\ acc_shape acc = e /\ acc_dv acc = mk_arr e /\
     forall w r1 r2, In (w, r1, r2) (acc_reads acc) -> w = r1 /\ 0 <= r1 < a_elems (new_arr e)) /\
  arr_unary None = Exc NilPointer /\
  (forall m k n acc, arr_matmul (Some (new_arr [m; k])) (Some (new_arr [k; n])) = Ok acc ->
     acc_dv acc = mk_arr [m; n]) /\
  (forall idx, array_deref (Some (a_dv (arr_copy (new_arr e)))) idx = array_deref (Some (mk_arr e)) idx).
Proof.
  intros e. split; [|split; [|split; [|split]]].
  - unfold arr_addsub.
    assert (E : can_add (Some (new_arr e)) (Some (new_arr e)) = true) by (apply can_add_spec; reflexivity).
    rewrite E. cbn [negb]. eexists. split; [reflexivity|]. cbn [acc_dv arr_copy a_dv].
    rewrite dim_copy_id. apply new_arr_mk.
  - unfold arr_unary. eexists. split; [reflexivity|]. cbn [acc_shape acc_dv acc_reads arr_copy a_dv].
    split; [apply new_arr_dv|]. split; [rewrite dim_copy_id; apply new_arr_mk|].
    intros w r1 r2 Hin. apply in_map_iff in Hin. destruct Hin as [x [Hx Hin]].
    inversion Hx; subst. apply in_upto in Hin. split; [reflexivity|lia].
  - reflexivity.
  - intros m k n acc H. unfold arr_matmul in H.
    destruct (can_mult (Some (new_arr [m; k])) (Some (new_arr [k; n]))); cbn [negb] in H; [|discriminate].
    rewrite !dv_elems_new in H. cbn [nth] in H.
    destruct (dim_fits [m; n]); cbn [negb] in H; [|discriminate]. inversion H; subst. reflexivity.
  - intros idx. cbn [arr_copy a_dv]. rewrite dim_copy_id. reflexivity.
Qed.

(* regression (finding array_deref:extent-product-overflow, matrix-product variant, fixed by
   1f9996a): the 65536 x 65536 result of [65536 x 1] * [1 x 65536] got 0 cells and no value[],
   the handler then stored through it *)
Theorem matmul_overflow_regression :
  arr_matmul (Some (new_arr [65536; 1])) (Some (new_arr [1; 65536])) = Exc WrongArraySize /\
  arr_matmul (Some (new_arr [65537; 2])) (Some (new_arr [2; 65537])) = Exc WrongArraySize /\
  arr_matmul (Some (new_arr [3; 1])) (Some (new_arr [1; 1431655766])) = Exc WrongArraySize /\
  (exists acc, arr_matmul (Some (new_arr [3; 1])) (Some (new_arr [1; 4])) = Ok acc /\ acc_shape acc = [3; 4]).
Proof.
  repeat split; try (vm_compute; reflexivity). eexists. split; vm_compute; reflexivity.
Qed.

Example shape_conformance_example :
  can_add (Some (new_arr [2; 3])) (Some (new_arr [2; 3])) = true /\
  can_add (Some (new_arr [2; 3])) (Some (new_arr [3; 2])) = false /\
  can_add (Some (new_arr [6])) (Some (new_arr [2; 3])) = false /\
  can_mult (Some (new_arr [2; 3])) (Some (new_arr [3; 4])) = true /\
  can_mult (Some (new_arr [2; 3])) (Some (new_arr [2; 3])) = false /\
  arr_matmul (Some (new_arr [2; 3])) (Some (new_arr [2; 3])) = Exc WrongArraySize /\
  (exists acc, arr_matmul (Some (new_arr [2; 3])) (Some (new_arr [3; 4])) = Ok acc /\
               acc_shape acc = [2; 4] /\ length (acc_reads acc) = 24%nat).
Proof. repeat split; try (vm_compute; reflexivity). eexists. repeat split; vm_compute; reflexivity. Qed.
