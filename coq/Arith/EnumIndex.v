(* Arith/EnumIndex.v — the index (int value) the front end assigns to every enumerator of a
   set of enum declarations.  Written from front/typecheck.c (never_add_enumerator: default
   initialisers), front/enumred.c (expr_enumerator_enumred, enumerator_index_enumred,
   enumerator_index_check_value) and front/parser.y (enum_item).  Definitions only.

   An enumerator is  `Id`  (plain),  `Id = <expr>`  (valued)  or  `Id { params }`  (record
   style).  never_add_enumerator gives every enumerator WITHOUT initialiser the initialiser
   `0` (first of its enum) or `<previous enumerator of the same enum> + 1`, so after that
   step every enumerator has a defining expression: the declarations are a system of
   equations  key = body  over references to other enumerators (of any enum, declared before
   or after).  enumred.c evaluates the bodies in declaration order; a reference to another
   enumerator reduces THAT enumerator's body first (expr_enumerator_enumred), a `mark` on the
   enumerator being reduced detects cyclic references.  A body is reduced by the evaluator of
   Arith/Enumred.v (efold) once its references are ints.  Finally the indices of one enum
   must be pairwise distinct (inttab: "with same value as").

   The model recomputes a referenced body each time instead of caching the reduced tree (the
   C code rewrites the body in place, so it is reduced once): same values, see
   EnumIndexProofs.v (result independent of stack and fuel). *)
From Coq Require Import ZArith Bool List Arith.
From NV Require Import Arith.NumTy Arith.Promote Arith.Constred Arith.Enumred.
Import ListNotations.
Local Open Scope Z_scope.

(* (number of the enum declaration, position of the enumerator within it) *)
Definition key := (nat * nat)%type.

Definition key_eqb (a b : key) : bool :=
  Nat.eqb (fst a) (fst b) && Nat.eqb (snd a) (snd b).

Fixpoint memk (k : key) (l : list key) : bool :=
  match l with [] => false | h :: t => key_eqb k h || memk k t end.

(* initialiser expressions: Promote.sexpr with references to enumerators whose value is not
   known yet *)
Inductive ix :=
  | XRef (k : key)
  | XLit (l : lit)
  | XUn (o : unop) (a : ix)
  | XBin (o : binop) (a b : ix)
  | XSup (a : ix)
  | XCond (c a b : ix).

Inductive item :=
  | ItPlain                (* Id *)
  | ItValue (e : ix)       (* Id = e *)
  | ItRecord.              (* Id { ... } : numbered like a plain one *)

Definition decls := list (list item).

(* never_add_enumerator *)
Definition body_of (en pos : nat) (it : item) : ix :=
  match it with
  | ItValue e => e
  | ItPlain | ItRecord =>
      match pos with
      | O => XLit (LInt 0)
      | S p => XBin Add (XRef (en, p)) (XLit (LInt 1))
      end
  end.

Definition eqs := list (key * ix).

Fixpoint enum_eqs (en pos : nat) (its : list item) : eqs :=
  match its with
  | [] => []
  | it :: t => ((en, pos), body_of en pos it) :: enum_eqs en (S pos) t
  end.

Fixpoint decls_eqs (en : nat) (D : decls) : eqs :=
  match D with
  | [] => []
  | its :: t => enum_eqs en 0 its ++ decls_eqs (S en) t
  end.

Fixpoint lookup (E : eqs) (k : key) : option ix :=
  match E with
  | [] => None
  | (k', b) :: t => if key_eqb k k' then Some b else lookup t k
  end.

(* references of a body, left to right *)
Fixpoint refs (e : ix) : list key :=
  match e with
  | XRef k => [k]
  | XLit _ => []
  | XUn _ a | XSup a => refs a
  | XBin _ a b => refs a ++ refs b
  | XCond c a b => refs c ++ refs a ++ refs b
  end.

(* the body once every reference is an int: expr_enumerator_enumred turns EXPR_ENUMTYPE into
   EXPR_INT; typechecking (before) saw an operand of the enum's type *)
Fixpoint inst (rho : key -> Z) (e : ix) : sexpr :=
  match e with
  | XRef k => SLit (LEnum (rho k))
  | XLit l => SLit l
  | XUn o a => SUn o (inst rho a)
  | XBin o a b => SBin o (inst rho a) (inst rho b)
  | XSup a => SSup (inst rho a)
  | XCond c a b => SCond (inst rho c) (inst rho a) (inst rho b)
  end.

Inductive xres :=
  | XOk (z : Z)
  | XCyclic        (* "could not reduce value to int, cyclic reference detected" *)
  | XUnknown       (* reference to an enumerator that does not exist *)
  | XDivZero       (* "division by zero" *)
  | XNotInt        (* "index value is not an integer" / "could not reduce enumerator index" *)
  | XFuel.         (* artefact of the model, excluded by no_fuel_needed *)

(* enumerator_index_check_type + enumerator_index_enumred on a body without open references *)
Definition eval_closed (s : sexpr) : xres :=
  match elab s with
  | Some (e, TInt) | Some (e, TEnum) =>
      match efold e with
      | FOk (ELit (LInt z)) => XOk z
      | FOk _ => XNotInt
      | FReject => XDivZero
      | FCrash => XNotInt
      end
  | _ => XNotInt
  end.

Fixpoint first_err (r : key -> xres) (ks : list key) : option xres :=
  match ks with
  | [] => None
  | k :: t => match r k with XOk _ => first_err r t | e => Some e end
  end.

Definition val_of (r : key -> xres) (k : key) : Z :=
  match r k with XOk z => z | _ => 0 end.

Definition eval_body (r : key -> xres) (body : ix) : xres :=
  match first_err r (refs body) with
  | Some e => e
  | None => eval_closed (inst (val_of r) body)
  end.

(* expr_enumerator_enumred: `stack` = the enumerators whose mark is set *)
Fixpoint resolve (fuel : nat) (E : eqs) (stack : list key) (k : key) : xres :=
  match fuel with
  | O => XFuel
  | S f =>
      if memk k stack then XCyclic
      else match lookup E k with
           | None => XUnknown
           | Some body => eval_body (resolve f E (k :: stack)) body
           end
  end.

Definition index_of (E : eqs) (k : key) : xres := resolve (S (length E)) E [] k.

(* ---- a whole set of declarations -------------------------------------------------------- *)

Fixpoint zmem (z : Z) (l : list Z) : bool :=
  match l with [] => false | h :: t => Z.eqb z h || zmem z t end.

Inductive dres :=
  | DOk (indices : list (list Z))
  | DBad (k : key) (why : xres)     (* first enumerator (declaration order) without index *)
  | DDup (k : key) (z : Z).         (* first enumerator whose index is already taken *)

(* enumerator_list_enumred over one enum: indices in declaration order, inttab check *)
Fixpoint enum_indices (E : eqs) (en pos : nat) (n : nat) (seen : list Z) : dres :=
  match n with
  | O => DOk [rev seen]
  | S m =>
      match index_of E (en, pos) with
      | XOk z => if zmem z seen then DDup (en, pos) z
                 else enum_indices E en (S pos) m (z :: seen)
      | e => DBad (en, pos) e
      end
  end.

Fixpoint all_indices (E : eqs) (en : nat) (D : decls) : dres :=
  match D with
  | [] => DOk []
  | its :: t =>
      match enum_indices E en 0 (length its) [] with
      | DOk [l] =>
          match all_indices E (S en) t with
          | DOk ls => DOk (l :: ls)
          | r => r
          end
      | DOk _ => DOk []
      | r => r
      end
  end.

Definition decl_indices (D : decls) : dres := all_indices (decls_eqs 0 D) 0 D.
