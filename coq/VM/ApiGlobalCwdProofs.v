(* VM/ApiGlobalCwdProofs.v — proofs about VM/ApiGlobalCwd.v (the working directory as process-global state).
   No axioms.  Statements used by property C15 are restated in Properties/Properties_C15c.v. *)
From Coq Require Import List Bool.
From NV Require Import VM.ApiGlobal VM.ApiGlobalProofs VM.ApiGlobalCwd.
Import ListNotations.

Lemma cwd_restoring_split :
  forall pol, cwd_restoring pol = true -> restore_on_found pol = true /\ restore_on_miss pol = true.
Proof. intros pol H; unfold cwd_restoring in H; apply andb_true_iff in H; exact H. Qed.

(* the module search leaves the process where it was *)
Theorem search_restores_cwd :
  forall pol, cwd_restoring pol = true ->
  forall F home m path, snd (search pol F home home m path) = home.
Proof.
  intros pol H F home m path; apply cwd_restoring_split in H; destruct H as [Hf Hm].
  induction path as [|e rest IH]; cbn [search]; [reflexivity|].
  rewrite Hf, Hm. destruct (enter F home e) as [d|]; [|exact IH].
  destruct (has F d m); [reflexivity | exact IH].
Qed.

Lemma resolve_keeps_cwd :
  forall pol, cwd_restoring pol = true -> forall F cur npath m, snd (resolve pol F cur npath m) = cur.
Proof.
  intros pol H F cur npath m; destruct npath as [p|]; cbn [resolve]; [apply search_restores_cwd; assumption | reflexivity].
Qed.

Lemma resolve_all_keeps_cwd :
  forall pol, cwd_restoring pol = true -> forall F npath ms cur, snd (resolve_all pol F cur npath ms) = cur.
Proof.
  intros pol H F npath ms; induction ms as [|m ms IH]; intros cur; cbn [resolve_all]; [reflexivity|].
  pose proof (resolve_keeps_cwd pol H F cur npath m) as E.
  destruct (resolve pol F cur npath m) as [r c1]; simpl in E; subst c1.
  specialize (IH cur). destruct (resolve_all pol F cur npath ms) as [rs c2]; simpl in *; assumption.
Qed.

Lemma cstep_keeps_cwd :
  forall pol, cwd_restoring pol = true -> forall F cur o, snd (cstep pol F cur o) = cur.
Proof.
  intros pol H F cur [file npath ms]; cbn [cstep].
  destruct (match file with None => true | Some f => has F cur f end); [|reflexivity].
  pose proof (resolve_all_keeps_cwd pol H F npath ms cur) as E.
  destruct (resolve_all pol F cur npath ms) as [rs c]; simpl in *; assumption.
Qed.

(* no history of compiles moves the working directory *)
Theorem cwd_invariant_over_history :
  forall pol, cwd_restoring pol = true -> forall F os cur, snd (crun pol F cur os) = cur.
Proof.
  intros pol H F os; induction os as [|o os IH]; intros cur; cbn [crun]; [reflexivity|].
  pose proof (cstep_keeps_cwd pol H F cur o) as E.
  destruct (cstep pol F cur o) as [ob c1]; simpl in E; subst c1.
  specialize (IH cur). destruct (crun pol F cur os) as [obs c2]; simpl in *; assumption.
Qed.

Lemma crun_app :
  forall pol F pre os cur,
    crun pol F cur (pre ++ os) =
    let '(o1, c1) := crun pol F cur pre in
    let '(o2, c2) := crun pol F c1 os in (o1 ++ o2, c2).
Proof.
  intros pol F pre; induction pre as [|o pre IH]; intros os cur; cbn [crun app].
  - destruct (crun pol F cur os); reflexivity.
  - destruct (cstep pol F cur o) as [ob c]. rewrite IH.
    destruct (crun pol F c pre) as [o1 c1]. destruct (crun pol F c1 os) as [o2 c2]. reflexivity.
Qed.

(* ... hence every compile resolves its file and its modules as it does in a fresh process *)
Theorem cwd_history_as_in_fresh_process :
  forall pol, cwd_restoring pol = true ->
  forall F home pre os,
    fst (crun pol F home (pre ++ os)) = fst (crun pol F home pre) ++ fst (crun pol F home os).
Proof.
  intros pol H F home pre os. rewrite crun_app.
  pose proof (cwd_invariant_over_history pol H F pre home) as E.
  destruct (crun pol F home pre) as [o1 c1]; simpl in E; subst c1.
  destruct (crun pol F home os) as [o2 c2]; reflexivity.
Qed.

(* the hypothesis is necessary: drop either chdir(cwd) and a compile of a relative file name after a compile that used a
   module through a relative NEVER_PATH element no longer finds its file *)
Theorem cwd_restore_necessary :
  forall pol, cwd_restoring pol = false ->
  exists F home pre o,
    fst (crun pol F home (pre ++ [o])) <> fst (crun pol F home pre) ++ fst (crun pol F home [o]).
Proof.
  intros pol H. unfold cwd_restoring in H.
  destruct (restore_on_found pol) eqn:Hf.
  - (* restore_on_miss = false: the module is not in the element, the process stays there *)
    simpl in H.
    exists witness_fs, 0, [CCompile None (Some [Rel 0]) [8]], (CCompile (Some 9) None []).
    cbn. rewrite H. cbn. discriminate.
  - (* restore_on_found = false: the module is found, the process stays in its directory *)
    exists witness_fs, 0, [CCompile None (Some [Rel 0]) [7]], (CCompile (Some 9) None []).
    cbn. rewrite Hf. cbn. discriminate.
Qed.

(* the seeded policy, concretely: after `use` of module 7 through NEVER_PATH="<dir 1>" the process stands in
   directory 1 and file 9 of directory 0 is no longer found *)
Theorem no_restore_on_found_observable :
  crun no_restore_on_found witness_fs 0 [CCompile None (Some [Rel 0]) [7]; CCompile (Some 9) None []]
  = ([CObs true [Some 1]; CObs false []], 1)
  /\ crun pinned_cwd witness_fs 0 [CCompile None (Some [Rel 0]) [7]; CCompile (Some 9) None []]
  = ([CObs true [Some 1]; CObs true []], 0).
Proof. split; reflexivity. Qed.

(* ---- all three components together -------------------------------------------------------------- *)
Lemma grun3_app :
  forall fp sp cp F pre os p,
    grun3 fp sp cp F p (pre ++ os) =
    let '(o1, q1) := grun3 fp sp cp F p pre in
    let '(o2, q2) := grun3 fp sp cp F q1 os in (o1 ++ o2, q2).
Proof.
  intros fp sp cp F pre; induction pre as [|o pre IH]; intros os p; cbn [grun3 app].
  - destruct (grun3 fp sp cp F p os); reflexivity.
  - destruct (gstep3 fp sp cp F p o) as [ob q]. rewrite IH.
    destruct (grun3 fp sp cp F q pre) as [o1 q1]. destruct (grun3 fp sp cp F q1 os) as [o2 q2]. reflexivity.
Qed.

Definition alike3 (sp : scan_policy) (p1 p2 : process3) : Prop := alike sp (glob p1) (glob p2) /\ pcwd p1 = pcwd p2.

Lemma gstep3_alike :
  forall fp sp cp F, fl_sub (tested fp) (cleared fp) = true -> cwd_restoring cp = true ->
  forall o p1 p2, alike3 sp p1 p2 ->
    fst (gstep3 fp sp cp F p1 o) = fst (gstep3 fp sp cp F p2 o)
    /\ alike3 sp (snd (gstep3 fp sp cp F p1 o)) (snd (gstep3 fp sp cp F p2 o))
    /\ pcwd (snd (gstep3 fp sp cp F p1 o)) = pcwd p1.
Proof.
  intros fp sp cp F Hf Hc [g c] p1 p2 [A D]; cbn [gstep3].
  destruct (gstep_alike fp sp Hf g (glob p1) (glob p2) A) as [E A'].
  destruct (gstep fp sp (glob p1) g) as [ob1 q1], (gstep fp sp (glob p2) g) as [ob2 q2]; simpl in E, A'; subst ob2.
  destruct c as [c'|].
  - rewrite <- D. pose proof (cstep_keeps_cwd cp Hc F (pcwd p1) c') as K.
    destruct (cstep cp F (pcwd p1) c') as [cb d]; simpl in K; subst d.
    simpl; repeat split; assumption.
  - simpl; repeat split; assumption.
Qed.

Theorem process3_history_independent :
  forall fp sp cp F, reinitialises fp sp = true -> cwd_restoring cp = true ->
  forall os p1 p2, alike3 sp p1 p2 -> fst (grun3 fp sp cp F p1 os) = fst (grun3 fp sp cp F p2 os).
Proof.
  intros fp sp cp F H Hc; apply reinitialises_split in H; destruct H as [Hf _].
  intros os; induction os as [|o os IH]; intros p1 p2 A; cbn [grun3]; [reflexivity|].
  destruct (gstep3_alike fp sp cp F Hf Hc o p1 p2 A) as (E & A' & _).
  destruct (gstep3 fp sp cp F p1 o) as [ob1 q1], (gstep3 fp sp cp F p2 o) as [ob2 q2]; simpl in E, A'; subst ob2.
  specialize (IH q1 q2 A').
  destruct (grun3 fp sp cp F q1 os) as [obs1 z1], (grun3 fp sp cp F q2 os) as [obs2 z2]; simpl in *; subst; reflexivity.
Qed.

Lemma grun3_alike_fresh :
  forall fp sp cp F, fl_sub (tested fp) (cleared fp) = true -> cwd_restoring cp = true ->
  forall home os p, alike3 sp p (mkproc3 fresh_process home) ->
    alike3 sp (snd (grun3 fp sp cp F p os)) (mkproc3 fresh_process home).
Proof.
  intros fp sp cp F Hf Hc home os; induction os as [|o os IH]; intros p A; cbn [grun3]; [exact A|].
  assert (A' : alike3 sp (snd (gstep3 fp sp cp F p o)) (mkproc3 fresh_process home)).
  { destruct A as [A D]; simpl in D. destruct o as [g c]; cbn [gstep3].
    pose proof (grun_alike fp sp Hf [g] (glob p) A) as G; cbn [grun] in G.
    destruct (gstep fp sp (glob p) g) as [ob q]; simpl in G.
    destruct c as [c'|].
    - pose proof (cstep_keeps_cwd cp Hc F (pcwd p) c') as K.
      destruct (cstep cp F (pcwd p) c') as [cb d]; simpl in K; subst d. split; simpl; assumption.
    - split; simpl; assumption. }
  destruct (gstep3 fp sp cp F p o) as [ob q]; simpl in A'.
  specialize (IH q A'). destruct (grun3 fp sp cp F q os); simpl in *; assumption.
Qed.

(* C15, isolation over any history, all three pieces of process state: status word, scanner buffer, working directory *)
Theorem process3_history_as_in_fresh_process :
  forall fp sp cp, reinitialises fp sp = true -> cwd_restoring cp = true ->
  forall F home pre os,
    fst (grun3 fp sp cp F (mkproc3 fresh_process home) (pre ++ os)) =
    fst (grun3 fp sp cp F (mkproc3 fresh_process home) pre) ++ fst (grun3 fp sp cp F (mkproc3 fresh_process home) os).
Proof.
  intros fp sp cp H Hc F home pre os. rewrite grun3_app.
  pose proof (reinitialises_split fp sp H) as [Hf Hs].
  assert (A0 : alike3 sp (mkproc3 fresh_process home) (mkproc3 fresh_process home)).
  { split; [|reflexivity]. destruct Hs; [left; assumption | right; auto]. }
  pose proof (grun3_alike_fresh fp sp cp F Hf Hc home pre _ A0) as A.
  destruct (grun3 fp sp cp F (mkproc3 fresh_process home) pre) as [o1 q1]; simpl in A.
  pose proof (process3_history_independent fp sp cp F H Hc os q1 _ A) as E.
  destruct (grun3 fp sp cp F q1 os) as [o2 q2]; simpl in *. rewrite E. reflexivity.
Qed.

Theorem pinned_cwd_restores : cwd_restoring pinned_cwd = true.
Proof. reflexivity. Qed.
Theorem no_restore_on_found_does_not : cwd_restoring no_restore_on_found = false.
Proof. reflexivity. Qed.
