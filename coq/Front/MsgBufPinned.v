(* Front/MsgBufPinned.v — what the print_msg arithmetic of the CURRENT tree amounts to (C05).
   These statements are about the regenerated values (Gen/FrontConsts.v) and may stop compiling
   when print_msg changes; the generic theorems of MsgBufProofs.v (criterion, computed verdict)
   do not.  History: up to the commit "fix: bound the diagnostic body by the space left in the
   message buffer" vsnprintf was handed MAX_MSG_SIZE whatever msg_len was; the statement
   msg_write_within_buffer was then FALSE ([msg_unbounded_body_limit_refuted] keeps the
   witness, replayed at the time on the real compiler under ASan with a 1100-character
   identifier).  No axioms. *)
From Coq Require Import ZArith Bool List Lia.
From NV Require Import Gen.FrontConsts Front.MsgBuf Front.MsgBufProofs.
Import ListNotations.
Local Open Scope Z_scope.

Lemma as_size_small n : 0 <= n < SIZE_T_MOD -> as_size n = n.
Proof. intros H. unfold as_size. now apply Z.mod_small. Qed.

(* every prefix length is safe on the current tree: short prefixes leave MAX - len bytes to the
   body, over-long ones are clamped to MAX - 1 and leave one byte (the NUL) *)
Lemma safe_at_every_prefix : forall p, 0 <= p -> safe_at p = true.
Proof.
  intros p Hp. unfold safe_at, prefix_extent, body_start, msg_len_after_prefix, msg_body_limit,
    msg_prefix_limit, MSG_BUF_SIZE, MAX_MSG_SIZE.
  assert (E1 : as_size 1024 = 1024) by reflexivity. rewrite E1.
  unfold snprintf_extent. change (1024 =? 0) with false. cbv iota.
  destruct (Z.leb_spec 1024 p) as [Hge|Hlt].
  - change (as_size (1024 - (1024 - 1))) with 1.
    apply andb_true_intro. split; [apply Z.leb_le; lia|].
    apply orb_true_intro. right. apply andb_true_intro. split; apply Z.leb_le; lia.
  - rewrite as_size_small by (unfold SIZE_T_MOD; lia).
    apply andb_true_intro. split; [apply Z.leb_le; lia|].
    apply orb_true_intro. right. apply andb_true_intro. split; apply Z.leb_le; lia.
Qed.

(* msg_write_within_buffer: every write of print_msg stays inside msg_buf, for ALL prefix and
   body lengths *)
Theorem msg_write_within_buffer : forall p b, 0 <= p -> 0 <= b -> writes_within_buffer p b.
Proof.
  intros p b Hp Hb. apply (proj2 (msg_write_safe_criterion p Hp)); [|exact Hb].
  now apply safe_at_every_prefix.
Qed.

(* what the decision procedure computes on this tree *)
Lemma msg_verdict_current_tree : msg_safe_all = true /\ msg_overflow_witness = None.
Proof. split; vm_compute; reflexivity. Qed.

(* the arithmetic of the tree before the fix: size argument MAX_MSG_SIZE whatever msg_len is.
   "<stdin>:1: error: " has 18 characters; a body of 1100 characters makes vsnprintf write
   offsets 18 .. 1041 of the 1024-byte array. *)
Theorem msg_unbounded_body_limit_refuted :
  exists p b, 0 <= p < MSG_BUF_SIZE /\ 0 <= b /\ within_buffer_with (fun _ => MAX_MSG_SIZE) p b = false.
Proof.
  exists 18, 1100. split; [split; [discriminate|reflexivity]|]. split; [discriminate|].
  vm_compute. reflexivity.
Qed.

Example msg_ok_short : within_buffer 18 100 = true.
Proof. vm_compute. reflexivity. Qed.
Example msg_truncated_body : within_buffer 18 1100 = true /\ body_extent 18 1100 = 1006.
Proof. split; vm_compute; reflexivity. Qed.
Example msg_long_prefix : within_buffer 1100 50 = true /\ body_start 1100 = 1023 /\ body_extent 1100 50 = 1.
Proof. repeat split; vm_compute; reflexivity. Qed.
Example msg_before_fix_boundary :
  within_buffer_with (fun _ => MAX_MSG_SIZE) 18 1005 = true /\ within_buffer_with (fun _ => MAX_MSG_SIZE) 18 1006 = false.
Proof. split; vm_compute; reflexivity. Qed.
