#!/usr/bin/env python3
"""gen_convtables.py — regenerate coq/Gen/ConvTables.v and coq/Gen/OpSelect.v from the tree's
compiler (DESIGN §4.1).

For every binary operator x every ordered pair of {int,long,float,double,bool,char,string,
enum}, every unary operator x type, and every assignment pair, one probe program is compiled
with the compiler built from /repo's current tree (harness/arith/dumpops.c, which prints the
instructions of main's body with the tree's own bytecode printer) and the table cell records
  accepted?  static result type  conversion inserted on the left/right  opcode emitted.
The domain is finite and enumerated completely.  Output is sorted and carries no time stamp;
files are only rewritten when their text changes.

Usage (stand-alone):  gen/gen_convtables.py [--variant asan|plain]
"""
import os
import re
import sys

HERE = os.path.dirname(os.path.abspath(__file__))
VERIF = os.path.dirname(HERE)
if VERIF not in sys.path:
    sys.path.insert(0, VERIF)
from lib import common          # noqa: E402
from gen import arithlib        # noqa: E402

TYPES = ["TInt", "TLong", "TFloat", "TDouble", "TBool", "TChar", "TString", "TEnum"]
LIT = {"TInt": "1", "TLong": "2L", "TFloat": "1.5", "TDouble": "2.5d", "TBool": "true",
       "TChar": "'a'", "TString": "\"s\"", "TEnum": "E::B"}
BINOPS = [("Add", "+"), ("Sub", "-"), ("Mul", "*"), ("Div", "/"), ("Mod", "%"),
          ("OLt", "<"), ("OGt", ">"), ("OLe", "<="), ("OGe", ">="), ("OEq", "=="), ("ONe", "!="),
          ("And", "&&"), ("Or", "||"),
          ("BAnd", "&&&"), ("BOr", "|||"), ("BXor", "^^^"), ("Shl", "<<<"), ("Shr", ">>>")]
UNOPS = [("Neg", "-"), ("Not", "!"), ("BNot", "~~~")]
PRELUDE = "enum E { A, B, C }\n"

TYNAME = {"int": "TInt", "long": "TLong", "float": "TFloat", "double": "TDouble",
          "char": "TChar", "string": "TString"}
CONVNAME = {("int", "long"): "I2L", ("int", "float"): "I2F", ("int", "double"): "I2D",
            ("long", "int"): "L2I", ("long", "float"): "L2F", ("long", "double"): "L2D",
            ("float", "int"): "F2I", ("float", "long"): "F2L", ("float", "double"): "F2D",
            ("double", "int"): "D2I", ("double", "long"): "D2L", ("double", "float"): "D2F"}
BINNAME = {"add": "Add", "sub": "Sub", "mul": "Mul", "div": "Div", "mod": "Mod", "lt": "OLt",
           "gt": "OGt", "lte": "OLe", "gte": "OGe", "eq": "OEq", "neq": "ONe",
           "bin and": "BAnd", "bin or": "BOr", "bin xor": "BXor", "bin shl": "Shl",
           "bin shr": "Shr"}


def parse_opcode(name):
    """printed instruction name -> Coq term of type vmop"""
    name = name.strip()
    m = re.fullmatch(r"(int|long|float|double) to (int|long|float|double)", name)
    if m and (m.group(1), m.group(2)) in CONVNAME:
        return "VConv %s" % CONVNAME[(m.group(1), m.group(2))]
    m = re.fullmatch(r"op ass (int|long|float|double|char|string)", name)
    if m:
        return "VAss %s" % TYNAME[m.group(1)]
    m = re.fullmatch(r"op add (int|long|float|double|char|string) (int|long|float|double|char|string)", name)
    if m:
        return "VCat %s %s" % (TYNAME[m.group(1)], TYNAME[m.group(2)])
    if name == "op add string":
        return "VCat TString TString"
    m = re.fullmatch(r"op (bin and|bin or|bin xor|bin shl|bin shr|add|sub|mul|div|mod|lte|gte|lt|gt|neq|eq) (int|long|float|double|char|string)", name)
    if m:
        return "VBin %s %s" % (BINNAME[m.group(1)], TYNAME[m.group(2)])
    m = re.fullmatch(r"op neg (int|long|float|double)", name)
    if m:
        return "VUn Neg %s" % TYNAME[m.group(1)]
    m = re.fullmatch(r"op bin not (int|long)", name)
    if m:
        return "VUn BNot %s" % TYNAME[m.group(1)]
    if name == "op not":
        return "VUn Not TInt"
    return 'VOther "%s"' % name.replace('"', "'")


def is_conv(instr):
    return instr.startswith("I ") and re.fullmatch(
        r"(int|long|float|double) to (int|long|float|double)", instr[2:].strip()) is not None


def conv_term(instr):
    a, _, b = instr[2:].strip().partition(" to ")
    return "Some %s" % CONVNAME[(a, b)]


def status_of(rec):
    """'dumped' | 'rejected' | 'abort' (compiler died after/inside typecheck)"""
    if rec is None:
        return "abort"
    if rec["outcome"] == "DUMPED":
        return "dumped"
    if rec["outcome"] == "COMPILE_ERROR":
        return "rejected"
    return "abort"


def died_in_emit(rec):
    return rec is not None and any("emit.c" in l and "Assertion" in l for l in rec["lines"])


def split_code(code, nvars):
    """code of  var v1 = L1; ...; var x = <expr>; x = x; 0  ->  instructions of <expr>.
    The initialisers of the nvars variables are single push instructions; the assignment
    `x = x` is [id local; id local; op ass T]."""
    body = code[nvars:]
    k = None
    for i, ins in enumerate(body):
        if ins.startswith("I op ass "):
            k = i
            break
    if k is None or k < 2:
        return None, None
    return body[:k - 2], body[k][2:].strip()


def gen_programs():
    progs = []
    for on, osym in BINOPS:
        for l in TYPES:
            for r in TYPES:
                key = "b.%s.%s.%s" % (on, l, r)
                decl = "var a = %s; var b = %s;" % (LIT[l], LIT[r])
                progs.append((key + ".x", "", PRELUDE + "func main() -> int { %s var x = a %s b; x = x; 0 }" % (decl, osym)))
                progs.append((key + ".q", "", PRELUDE + "func main() -> bool { %s a %s b }" % (decl, osym)))
    for on, osym in UNOPS:
        for t in TYPES:
            key = "u.%s.%s" % (on, t)
            decl = "var a = %s;" % LIT[t]
            progs.append((key + ".x", "", PRELUDE + "func main() -> int { %s var x = %s a; x = x; 0 }" % (decl, osym)))
            progs.append((key + ".q", "", PRELUDE + "func main() -> bool { %s %s a }" % (decl, osym)))
    for l in TYPES:
        for r in TYPES:
            progs.append(("a.%s.%s" % (l, r), "", PRELUDE +
                          "func main() -> int { var x = %s; var y = %s; x = y; 0 }" % (LIT[l], LIT[r])))
    return progs


def static_type(ass_name, bool_status):
    """static type of the probe expression from the opcode of `x = x` and the `-> bool` probe"""
    if bool_status in ("dumped", "abort_emit"):
        return "TBool"
    m = re.fullmatch(r"op ass (int|long|float|double|char|string)", ass_name or "")
    if m:
        return TYNAME[m.group(1)]
    return None


def opt(x):
    return "None" if x is None else ("Some %s" % x)


def tabulate(res):
    bin_rows, binop_rows, un_rows, unop_rows, ass_rows, assop_rows = [], [], [], [], [], []
    problems = []
    for on, _ in BINOPS:
        for l in TYPES:
            for r in TYPES:
                key = "b.%s.%s.%s" % (on, l, r)
                x, q = res.get(key + ".x"), res.get(key + ".q")
                sx, sq = status_of(x), status_of(q)
                qs = sq if sq != "abort" else ("abort_emit" if died_in_emit(q) else "abort")
                if sx == "rejected":
                    bin_rows.append((on, l, r, "false", "None", "None", "None"))
                    binop_rows.append((on, l, r, "EmitNone"))
                    continue
                if sx == "abort":
                    if not died_in_emit(x):
                        problems.append("%s: compiler died outside emit.c" % key)
                    rt = "Some TBool" if qs == "abort_emit" else "None"
                    bin_rows.append((on, l, r, "true", rt, "None", "None"))
                    binop_rows.append((on, l, r, "EmitAbort"))
                    continue
                seg, assn = split_code(x["code"], 2)
                if seg is None:
                    problems.append("%s: cannot parse %r" % (key, x["code"]))
                    continue
                seg = [i for i in seg if not i.startswith("I line ")]
                # [load a][conv?][load b][conv?] op...
                cl = cr = "None"
                pos = 0
                loads = 0
                ops = []
                phase = 0
                for ins in seg:
                    if phase < 2 and ins.startswith("I id local"):
                        phase += 1
                        loads += 1
                    elif phase == 1 and is_conv(ins) and not ops:
                        cl = conv_term(ins)
                    elif phase == 2 and is_conv(ins) and not ops:
                        cr = conv_term(ins)
                    else:
                        ops.append(ins)
                if on in ("And", "Or"):
                    # a; jumpz; b; jumpz; int 1; jump; label; int 0; label
                    names = [i[2:].split()[0] if i.startswith("I ") else "K" for i in seg]
                    emit = "EmitJumps" if ("jumpz" in names and not any(n == "op" for n in names)) else None
                    cl = cr = "None"
                    if emit is None:
                        problems.append("%s: unexpected code %r" % (key, seg))
                        continue
                elif len(ops) == 1 and ops[0].startswith("I "):
                    emit = "EmitOp (%s)" % parse_opcode(ops[0][2:])
                else:
                    problems.append("%s: unexpected code %r" % (key, seg))
                    continue
                st = static_type(assn, qs)
                bin_rows.append((on, l, r, "true", opt(st), cl, cr))
                binop_rows.append((on, l, r, emit))
    for on, _ in UNOPS:
        for t in TYPES:
            key = "u.%s.%s" % (on, t)
            x, q = res.get(key + ".x"), res.get(key + ".q")
            sx, sq = status_of(x), status_of(q)
            qs = sq if sq != "abort" else ("abort_emit" if died_in_emit(q) else "abort")
            if sx == "rejected":
                un_rows.append((on, t, "false", "None"))
                unop_rows.append((on, t, "EmitNone"))
                continue
            if sx == "abort":
                if not died_in_emit(x):
                    problems.append("%s: compiler died outside emit.c" % key)
                un_rows.append((on, t, "true", "Some TBool" if qs == "abort_emit" else "None"))
                unop_rows.append((on, t, "EmitAbort"))
                continue
            seg, assn = split_code(x["code"], 1)
            if seg is None:
                problems.append("%s: cannot parse %r" % (key, x["code"]))
                continue
            ops = [i for i in seg if not i.startswith("I id local") and not i.startswith("I line ")]
            if len(ops) != 1:
                problems.append("%s: unexpected code %r" % (key, seg))
                continue
            un_rows.append((on, t, "true", opt(static_type(assn, qs))))
            unop_rows.append((on, t, "EmitOp (%s)" % parse_opcode(ops[0][2:])))
    for l in TYPES:
        for r in TYPES:
            key = "a.%s.%s" % (l, r)
            x = res.get(key)
            sx = status_of(x)
            if sx == "rejected":
                ass_rows.append((l, r, "false", "None"))
                assop_rows.append((l, r, "EmitNone"))
                continue
            if sx == "abort":
                if not died_in_emit(x):
                    problems.append("%s: compiler died outside emit.c" % key)
                ass_rows.append((l, r, "true", "None"))
                assop_rows.append((l, r, "EmitAbort"))
                continue
            body = x["code"][2:]
            k = [i for i, ins in enumerate(body) if ins.startswith("I op ass ")]
            if not k:
                problems.append("%s: no assignment opcode in %r" % (key, body))
                continue
            seg = body[:k[0]]
            convs = [i for i in seg if is_conv(i)]
            ass_rows.append((l, r, "true", conv_term(convs[0]) if convs else "None"))
            assop_rows.append((l, r, "EmitOp (%s)" % parse_opcode(body[k[0]][2:])))
    return bin_rows, binop_rows, un_rows, unop_rows, ass_rows, assop_rows, problems


HEADER = """(* %s — REGENERATED by gen/gen_convtables.py from the tree's compiler; do not edit.
   One row per probe program (operator x operand types), completely enumerated:
   %s *)
From Coq Require Import List String.
From NV Require Import Arith.NumTy.
Import ListNotations.
Local Open Scope string_scope.
"""


def coq_list(name, typ, rows, fmt):
    out = ["Definition %s : list %s := [" % (name, typ)]
    out.append(";\n".join("  " + fmt(r) for r in rows))
    out.append("].\n")
    return "\n".join(out)


def render(tabs):
    bin_rows, binop_rows, un_rows, unop_rows, ass_rows, assop_rows, _ = tabs
    conv = HEADER % ("Gen/ConvTables.v",
                     "%d binary cells, %d unary cells, %d assignment cells." % (len(bin_rows), len(un_rows), len(ass_rows)))
    conv += "\n" + coq_list("binary_table", "bin_row", bin_rows, lambda r:
                            "{| br_op := %s; br_l := %s; br_r := %s; br_accepted := %s; br_res := %s; br_cl := %s; br_cr := %s |}" % r)
    conv += "\n" + coq_list("unary_table", "un_row", un_rows, lambda r:
                            "{| ur_op := %s; ur_t := %s; ur_accepted := %s; ur_res := %s |}" % r)
    conv += "\n" + coq_list("assign_table", "ass_row", ass_rows, lambda r:
                            "{| ar_l := %s; ar_r := %s; ar_accepted := %s; ar_conv := %s |}" % r)
    ops = HEADER % ("Gen/OpSelect.v",
                    "%d binary cells, %d unary cells, %d assignment cells." % (len(binop_rows), len(unop_rows), len(assop_rows)))
    ops += "\n" + coq_list("binop_table", "binop_row", binop_rows, lambda r:
                           "{| bo_op := %s; bo_l := %s; bo_r := %s; bo_emit := %s |}" % r)
    ops += "\n" + coq_list("unop_table", "unop_row", unop_rows, lambda r:
                           "{| uo_op := %s; uo_t := %s; uo_emit := %s |}" % r)
    ops += "\n" + coq_list("assop_table", "assop_row", assop_rows, lambda r:
                           "{| ao_l := %s; ao_r := %s; ao_emit := %s |}" % r)
    return conv, ops


def generate(dumpops, workdir, jobs=16):
    """Run all probes, write the two files if changed.  Returns a dict for the evidence."""
    progs = gen_programs()
    res = arithlib.run_batch(dumpops, progs, workdir, "convtab", jobs=jobs)
    tabs = tabulate(res)
    conv, ops = render(tabs)
    c1 = common.write_if_changed(os.path.join(common.COQ, "Gen", "ConvTables.v"), conv)
    c2 = common.write_if_changed(os.path.join(common.COQ, "Gen", "OpSelect.v"), ops)
    expected = len(BINOPS) * len(TYPES) ** 2
    return {"probe_programs": len(progs), "binary_cells": len(tabs[0]), "unary_cells": len(tabs[2]),
            "assign_cells": len(tabs[4]), "changed": bool(c1 or c2), "problems": tabs[6],
            "complete": (len(tabs[0]) == expected and len(tabs[2]) == len(UNOPS) * len(TYPES)
                         and len(tabs[4]) == len(TYPES) ** 2 and not tabs[6]),
            "tables": tabs}


if __name__ == "__main__":
    variant = "asan"
    if "--variant" in sys.argv:
        variant = sys.argv[sys.argv.index("--variant") + 1]
    lib = common.repobuild(variant)
    drv = common.cc_driver("dumpops", ["arith/dumpops.c"], lib)
    info = generate(drv, os.path.join(common.OUT, "gen"))
    info.pop("tables")
    print(info)
