(* C16 (continuation) — vm_delete releases the whole VM heap, whatever heap size the host chose.

   Mem/GcDelete.v models the loop of gc_delete (back/gc.c) with its bounds as parameters:
       for (i = lo; i < collector->mem_size - cut; i++) if (mem[i].object_value) object_delete(...)
   PROVED: with lo <= 1 and cut = 0 the object of every allocated cell is released in every heap whose nil cell is
   empty (GCSpec.wf_nil_empty); with any cut > 0 the heap that a run filled exactly to the brim (an object in cell
   mem_size-1) keeps that object allocated — for every heap size > 1.
   TIE: checks/c16.py reads lo and cut from the tree's gc_delete (measure_gc_delete_bounds) and, independently of
   that, sweeps the heap size of allocating probe programs over every value around the smallest one that completes,
   so that the brim is actually hit (coverage.heap_size_sweep lists the sizes at which cell mem_size-1 was in use at
   vm_delete).  Only statements here; proofs in Mem/GcDeleteProofs.v. *)
From Coq Require Import NArith List.
From NV Require Import Base.TMap GC.GCModel Mem.GcDelete Mem.GcDeleteProofs.
Import ListNotations.
Local Open Scope N_scope.

Theorem gc_delete_bounds_freed : forall lo cut g i o,
  In (i, o) (gc_delete_freed_bounds lo cut g) <-> (lo <= i /\ i < g_size g - cut) /\ tget (g_obj g) i = Some o.
Proof. exact GcDeleteProofs.gc_delete_bounds_freed. Qed.
Print Assumptions gc_delete_bounds_freed.

Theorem gc_delete_bounds_complete : forall lo cut g,
  lo <= 1 -> cut = 0 -> tget (g_obj g) 0 = None ->
  forall i o, i < g_size g -> tget (g_obj g) i = Some o -> In (i, o) (gc_delete_freed_bounds lo cut g).
Proof. exact GcDeleteProofs.gc_delete_bounds_complete. Qed.
Print Assumptions gc_delete_bounds_complete.

Theorem gc_delete_cut_leaks : forall lo cut size,
  0 < cut -> 1 < size ->
  tget (g_obj (brim_heap size)) 0 = None /\
  exists o, tget (g_obj (brim_heap size)) (size - 1) = Some o /\
            ~ In (size - 1, o) (gc_delete_freed_bounds lo cut (brim_heap size)).
Proof. exact GcDeleteProofs.gc_delete_cut_leaks. Qed.
Print Assumptions gc_delete_cut_leaks.
