/* bcdump — compile a Never program with the tree's compiler and dump the module, optionally
 * run it with the per-instruction hook (H1) and dump the register trace.
 *
 *   bcdump [--trace|--peak] [--nocode] [--gc every|default|seed:<n>] [--mem M] [--stack S] [--max-steps N]
 *          [--entry name] [--arg a]... FILE
 *
 * Output (stdout), all numbers decimal:
 *   COMPILE <ret>
 *   CODE <n> ENTRY <code_entry>
 *   I <addr> <opcode-number> <w0> <w1> <w2> <w3>      (raw 32-bit words of the operand union)
 *   EXCTAB <count>
 *   X <block_addr> <handler_addr>
 *   FUNCS <k>
 *   F <addr> <nparams> <nfreevars> <is_ffi> <name>     (from hook H3, in emission order)
 *   STRTAB <n>
 *   S <index> <len> <hex bytes>
 *   FUNCTAB <n>
 *   T <func_addr> <entry_type> <params_count> <id>
 *   with --trace, after PREPARE <ret>:
 *   t <ip> <sp> <fp> <pp> <running> <exception> <line> <kinds>  one per dispatched instruction
 *                                           (state BEFORE the instruction executes; kinds = hash of the
 *                                           gc_stack tags of slots 0..sp: h = h*31 + type, low 30 bits —
 *                                           which slots the collector treats as roots)
 *   g <n>                                   a collection happened (n = number so far)
 *   with --peak instead of --trace no t lines are written; PEAK sp=<max sp> maxdepth=<max number of
 *   frames on the fp chain> steps=<n> collections=<number of collections run> is printed before END (for long runs); --nocode omits I/S lines
   GCROOTS mismatch …                     a collection was given a stack extent / environment that differs
 *                                           from sp+1 / gp at the next instruction boundary (first 3 only)
 *   OUT <hex of everything the program printed>   (stdout of the run is captured via a pipe)
 *   END <ret> <result type> <result value> steps=<n>
 */
#define _GNU_SOURCE
#include <stdio.h>
#include <stdlib.h>
#include <string.h>
#include <unistd.h>
#include "nev.h"
#include "module.h"
#include "bytecode.h"
#include "functab.h"
#include "strtab.h"
#include "exctab.h"
#include "gc.h"

#ifdef NEVER_VERIF
extern void (*nev_verif_step_hook)(vm * machine, bytecode * code);
extern int (*nev_verif_gc_decide)(gc * collector);
extern void (*nev_verif_gc_after)(gc * collector, gc_stack * stack, int stack_size, mem_ptr global_vec);
extern void (*nev_verif_func_meta)(unsigned int addr, unsigned int params, unsigned int freevars,
                                   int is_ffi, const char * name);
#endif

static FILE * out;
static unsigned long steps = 0, max_steps = 2000000;
static int peak_only = 0, nocode = 0; static int peak_sp = -1; static int peak_frames = 0;
static int gc_mode = 2; /* 0 never-forced-skip, 1 every, 2 default, 3 seeded */
static unsigned long long gc_rng = 1;
static unsigned int gc_count = 0;

typedef struct { unsigned addr, params, freevars; int ffi; char name[128]; } fmeta;
static fmeta * metas = NULL; static unsigned nmetas = 0, capmetas = 0;

static void meta_hook(unsigned int addr, unsigned int params, unsigned int freevars, int is_ffi, const char * name)
{
    if (nmetas == capmetas) { capmetas = capmetas ? capmetas * 2 : 64; metas = realloc(metas, capmetas * sizeof(fmeta)); }
    metas[nmetas].addr = addr; metas[nmetas].params = params; metas[nmetas].freevars = freevars; metas[nmetas].ffi = is_ffi;
    snprintf(metas[nmetas].name, sizeof metas[nmetas].name, "%s", name ? name : "<lambda>");
    nmetas++;
}

/* the root set handed to the last collection; compared with the registers at the next instruction boundary */
static int gc_pending = 0, gc_last_size = 0; static mem_ptr gc_last_gv = 0; static unsigned gc_boundary_mismatch = 0;

static void step_hook(vm * m, bytecode * bc)
{
    if (m->sp > peak_sp) peak_sp = m->sp;
    if (gc_pending)
    {
        /* gc_run is the last action of the instruction that triggers it: the stack extent and the
           environment it was given must be the machine's registers at this instruction boundary */
        gc_pending = 0;
        if (gc_last_size != m->sp + 1 || gc_last_gv != m->gp)
        {
            gc_boundary_mismatch++;
            if (gc_boundary_mismatch <= 3)
                fprintf(out, "GCROOTS mismatch collection=%u roots_stack_size=%d sp_plus_1=%d roots_env=%u gp=%u ip=%u\n",
                        gc_count, gc_last_size, m->sp + 1, (unsigned)gc_last_gv, (unsigned)m->gp, m->ip);
        }
    }
    if (!peak_only)
    {
        unsigned h = 0; int k;
        for (k = 0; k <= m->sp; k++) h = h * 31u + (unsigned)m->stack[k].type;
        fprintf(out, "t %u %d %d %d %d %d %u %u\n", m->ip, m->sp, m->fp, m->pp, (int)m->running, (int)m->exception, m->line_no, h & 0x3fffffffu);
    }
    else if (bc->type == BYTECODE_CALL)
    {
        int n = 0; stack_ptr p = m->pp;
        while (p > 0 && n < 100000) { n++; p = m->stack[p - 4].sp; }
        if (n > peak_frames) peak_frames = n;
    }
    if (++steps > max_steps)
    {
        if (peak_only) fprintf(out, "PEAK sp=%d maxdepth=%d steps=%lu collections=%u gcroots_mismatch=%u\n", peak_sp, peak_frames, steps, gc_count, gc_boundary_mismatch);
        fprintf(out, "END budget 0 0 steps=%lu\n", steps);
        fflush(out);
        _exit(0);
    }
}

static int gc_decide(gc * c)
{
    if (gc_mode == 1) return 1;
    if (gc_mode == 3)
    {
        gc_rng ^= gc_rng << 13; gc_rng ^= gc_rng >> 7; gc_rng ^= gc_rng << 17;
        return (gc_rng & 3) == 0 ? 1 : 0;
    }
    return 2;
}


static void gc_after(gc * c, gc_stack * s, int n, mem_ptr gv)
{
    gc_count++;
    gc_pending = 1; gc_last_size = n; gc_last_gv = gv;
    if (!peak_only) fprintf(out, "g %u\n", gc_count);
}

int main(int argc, char ** argv)
{
    int trace = 0, i; const char * file = NULL; const char * entry = "main";
    unsigned mem = DEFAULT_VM_MEM_SIZE, stack = DEFAULT_VM_STACK_SIZE;
    char * args[64]; int nargs = 0;
    for (i = 1; i < argc; i++)
    {
        if (!strcmp(argv[i], "--trace")) trace = 1;
        else if (!strcmp(argv[i], "--peak")) { trace = 1; peak_only = 1; }
        else if (!strcmp(argv[i], "--nocode")) nocode = 1;
        else if (!strcmp(argv[i], "--mem") && i + 1 < argc) mem = (unsigned)atoi(argv[++i]);
        else if (!strcmp(argv[i], "--stack") && i + 1 < argc) stack = (unsigned)atoi(argv[++i]);
        else if (!strcmp(argv[i], "--max-steps") && i + 1 < argc) max_steps = strtoul(argv[++i], NULL, 10);
        else if (!strcmp(argv[i], "--entry") && i + 1 < argc) entry = argv[++i];
        else if (!strcmp(argv[i], "--arg") && i + 1 < argc) { if (nargs < 63) args[nargs++] = argv[++i]; }
        else if (!strcmp(argv[i], "--gc") && i + 1 < argc)
        {
            const char * g = argv[++i];
            if (!strcmp(g, "every")) gc_mode = 1;
            else if (!strcmp(g, "default")) gc_mode = 2;
            else if (!strncmp(g, "seed:", 5)) { gc_mode = 3; gc_rng = strtoull(g + 5, NULL, 10) * 2654435761ULL + 88172645463325252ULL; }
        }
        else file = argv[i];
    }
    args[nargs] = NULL;
    if (!file) { fprintf(stderr, "usage: bcdump [--trace] FILE\n"); return 2; }

    /* our own output goes to the original stdout; the program's prints are captured */
    out = fdopen(dup(1), "w");

#ifdef NEVER_VERIF
    nev_verif_func_meta = meta_hook;
#endif
    program * prog = program_new();
    int ret = nev_compile_file(file, prog);
    fprintf(out, "COMPILE %d\n", ret);
    if (ret != 0) { fflush(out); program_delete(prog); return 0; }

    module * m = prog->module_value;
    fprintf(out, "CODE %u ENTRY %u\n", m->code_size, m->code_entry);
    for (unsigned a = 0; a < m->code_size; a++)
    {
        bytecode * bc = m->code_arr + a;
        int w[4] = { 0, 0, 0, 0 };
        size_t off = (size_t)((char *)&bc->int_t - (char *)bc);
        size_t n = sizeof(bytecode) - off; if (n > 16) n = 16;
        memcpy(w, (char *)bc + off, n);
        if (!nocode) fprintf(out, "I %u %d %d %d %d %d\n", bc->addr, (int)bc->type, w[0], w[1], w[2], w[3]);
    }
    fprintf(out, "EXCTAB %u\n", m->exctab_value->count);
    for (unsigned e = 0; e < m->exctab_value->count; e++)
        fprintf(out, "X %u %u\n", m->exctab_value->tab[e].block_addr, m->exctab_value->tab[e].handler_addr);
    fprintf(out, "FUNCS %u\n", nmetas);
    for (unsigned k = 0; k < nmetas; k++)
        fprintf(out, "F %u %u %u %d %s\n", metas[k].addr, metas[k].params, metas[k].freevars, metas[k].ffi, metas[k].name);
    fprintf(out, "STRTAB %u\n", m->strtab_size);
    for (unsigned s = 0; s < m->strtab_size; s++)
    {
        const char * str = m->strtab_array[s] ? m->strtab_array[s] : "";
        fprintf(out, "S %u %zu ", s, strlen(str));
        for (const unsigned char * c = (const unsigned char *)str; *c; c++) fprintf(out, "%02x", *c);
        fprintf(out, "\n");
    }
    {
        functab * ft = m->functab_value; unsigned cnt = 0;
        for (unsigned e = 0; e < ft->size; e++) if (ft->entries[e].type != 0) cnt++;
        fprintf(out, "FUNCTAB %u\n", cnt);
        for (unsigned e = 0; e < ft->size; e++)
            if (ft->entries[e].type != 0)
                fprintf(out, "T %u %d %u %s\n", ft->entries[e].func_addr, ft->entries[e].entry_type,
                        ft->entries[e].params_count, ft->entries[e].id ? ft->entries[e].id : "?");
    }
    fflush(out);

    fprintf(out, "GCTAGS %d %d %d\n", (int)GC_MEM_IP, (int)GC_MEM_ADDR, (int)GC_MEM_STACK);
    if (trace)
    {
        ret = nev_prepare_argc_argv(prog, entry, nargs, args);
        fprintf(out, "PREPARE %d\n", ret);
        if (ret == 0)
        {
            /* capture the program's stdout in a temp file */
            char tmpl[] = "/var/tmp/bcdump.XXXXXX";
            int tfd = mkstemp(tmpl);
            unlink(tmpl);   /* the fd keeps it alive; nothing is left behind if the run exits or dies */
            fflush(stdout);
            int saved = dup(1);
            dup2(tfd, 1);
            object result = { 0 };
            vm * machine = vm_new(mem, stack);
#ifdef NEVER_VERIF
            nev_verif_step_hook = step_hook;
            nev_verif_gc_decide = gc_decide;
            nev_verif_gc_after = gc_after;
#endif
            ret = nev_execute(prog, machine, &result);
            fflush(stdout);
            dup2(saved, 1); close(saved);
            lseek(tfd, 0, SEEK_SET);
            fprintf(out, "OUT ");
            { unsigned char b[4096]; ssize_t k; while ((k = read(tfd, b, sizeof b)) > 0) for (ssize_t j = 0; j < k; j++) fprintf(out, "%02x", b[j]); }
            fprintf(out, "\n");
            close(tfd);
            if (peak_only) fprintf(out, "PEAK sp=%d maxdepth=%d steps=%lu collections=%u gcroots_mismatch=%u\n", peak_sp, peak_frames, steps, gc_count, gc_boundary_mismatch);
            if (ret == 0)
            {
                switch (result.type)
                {
                case OBJECT_INT: fprintf(out, "END 0 int %d steps=%lu\n", result.int_value, steps); break;
                case OBJECT_LONG: fprintf(out, "END 0 long %lld steps=%lu\n", result.long_value, steps); break;
                case OBJECT_FLOAT: { unsigned b; memcpy(&b, &result.float_value, 4); fprintf(out, "END 0 float %u steps=%lu\n", b, steps); break; }
                case OBJECT_DOUBLE: { unsigned long long b; memcpy(&b, &result.double_value, 8); fprintf(out, "END 0 double %llu steps=%lu\n", b, steps); break; }
                default: fprintf(out, "END 0 other %d steps=%lu\n", (int)result.type, steps); break;
                }
            }
            else fprintf(out, "END %d exc %d steps=%lu\n", ret, (int)machine->exception, steps);
            fprintf(out, "FINAL sp=%d fp=%d pp=%d gc=%u\n", machine->sp, machine->fp, machine->pp, gc_count);
            vm_delete(machine);
        }
    }
    fflush(out);
    program_delete(prog);
    free(metas);
    return 0;
}
