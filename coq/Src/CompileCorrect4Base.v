(* Src/CompileCorrect4Base.v — the closure part of compile correctness, machine side: what the code that
   Src/Compile4.v emits for nested functions DOES on VM/ValueVM4.v.  Closed lemmas (no axioms):

     capture_run        the captured cells of a closure are pushed, each the SAME address the enclosing
                        frame / environment vector holds (no copy)
     closure_run        FUNC_OBJ; LINE; captures; GLOBAL_VEC n; ID_FUNC_ADDR f  leaves ONE new function
                        object HFun v (address of f) whose fresh vector v holds exactly those addresses
     run_code_run       the knot of a run of sibling functions: ALLOC k; (closure; REWRITE j)*  fills the
                        k slot cells in place; a closure that captured a LATER sibling's slot (while it
                        still held the nil function) sees that sibling's function afterwards
     callee resolution  step_call_closure: CALL through a function object enters its code with gp = its
                        vector;  step_id_global: ID_GLOBAL i reads the i-th captured address;
                        step_copyglob_self: COPYGLOB; ID_FUNC_ADDR f makes a function object with the
                        running function's own vector (recursion of a nested function)
   and the three C08 facts on the machine:
     C08_cells_outlive_activation   RET / RETHROW / SLIDE / CLEAR_STACK (everything that ends an
                        activation or drops its slots) leave the heap untouched, and no instruction ever
                        shortens it or changes a cell other than the target of OP_ASS_INT / REWRITE: what a
                        closure captured stays where it is after the definer returned
     C08_fresh_environment          every closure creation allocates a vector (and function object) at an
                        address that did not exist before: two activations of the definer — two runs of
                        closure_code — give different vectors
     C08_write_visible_to_holders   an assignment through one holder of a captured cell (ID_GLOBAL i under
                        vector v1; …; OP_ASS_INT) is what any other holder (ID_GLOBAL j under v2 with
                        v2[j] = v1[i]) reads.
   The simulation with Src/Eval.v (env_match with captured slots, body_spec over closure environments,
   compile_program_correct_F4) is NOT here: see the header of Properties/Properties_C02c.v for what is
   missing. *)
From Coq Require Import ZArith List Bool Lia.
From NV Require Import Gen.Opcodes Verifier.Effect Src.Syntax Src.Eval VM.ValueVM4 Src.Compile4.
Import ListNotations.
Local Open Scope Z_scope.

(* ---- code embedded at an offset ---------------------------------------------------------- *)

Definition code_at (prog : list rinstr) (pc : nat) (c : list rinstr) : Prop :=
  exists pre post, prog = pre ++ c ++ post /\ length pre = pc.

Lemma code_at_app_l : forall prog pc c1 c2, code_at prog pc (c1 ++ c2) -> code_at prog pc c1.
Proof.
  intros prog pc c1 c2 (pre & post & E & Hl). exists pre, (c2 ++ post).
  rewrite E, <- app_assoc. auto.
Qed.

Lemma code_at_app_r : forall prog pc c1 c2, code_at prog pc (c1 ++ c2) ->
  code_at prog (pc + length c1)%nat c2.
Proof.
  intros prog pc c1 c2 (pre & post & E & Hl). exists (pre ++ c1), post.
  rewrite E, <- !app_assoc, app_length. split; [reflexivity | lia].
Qed.

Lemma code_at_cons : forall prog pc i c, code_at prog pc (i :: c) ->
  nth_error prog pc = Some i /\ code_at prog (S pc) c.
Proof.
  intros prog pc i c (pre & post & E & Hl). split.
  - rewrite E, nth_error_app2 by lia. replace (pc - length pre)%nat with 0%nat by lia. reflexivity.
  - exists (pre ++ [i]), post. rewrite E, <- app_assoc, app_length. simpl. split; [reflexivity | lia].
Qed.

Lemma code_at_head : forall prog pc i c, code_at prog pc (i :: c) -> nth_error prog pc = Some i.
Proof. intros. eapply code_at_cons; eauto. Qed.

Lemma code_at_tail : forall prog pc i c, code_at prog pc (i :: c) -> code_at prog (S pc) c.
Proof. intros. eapply code_at_cons; eauto. Qed.

(* ---- runs -------------------------------------------------------------------------------- *)

Lemma star_one : forall X prog s s', step X prog s = SNext s' -> star X prog s s'.
Proof. intros. eapply star_step; eauto. apply star_refl. Qed.

Lemma star_trans : forall X prog s1 s2 s3, star X prog s1 s2 -> star X prog s2 s3 -> star X prog s1 s3.
Proof. induction 1; intros; auto. eapply star_step; eauto. Qed.

Lemma zn_nonneg : forall z, 0 <= z -> zn z = Some (Z.to_nat z).
Proof. intros z H. unfold zn. destruct (z <? 0) eqn:E; [apply Z.ltb_lt in E; lia | reflexivity]. Qed.

Section Steps.
Variable X : xinfo.
Variable prog : list rinstr.

Local Notation step := (ValueVM4.step X prog).
Local Notation star := (ValueVM4.star X prog).

(* ---- one instruction ---------------------------------------------------------------------- *)

Lemma step_nop : forall ip stk h o fr op a b,
  nth_error prog ip = Some (ins op a b) ->
  op = BYTECODE_FUNC_OBJ \/ op = BYTECODE_LINE \/ op = BYTECODE_LABEL \/ op = BYTECODE_FUNC_DEF ->
  step (mkst ip stk h o fr) = SNext (mkst (S ip) stk h o fr).
Proof.
  intros ip stk h o fr op a b H Hop. unfold ValueVM4.step. simpl. rewrite H.
  destruct Hop as [-> | [-> | [-> | ->]]]; reflexivity.
Qed.

Lemma step_id_local : forall ip stk h o fr L i a,
  nth_error prog ip = Some (ins BYTECODE_ID_LOCAL L i) -> i <= L ->
  nth_error stk (Z.to_nat (L - i)) = Some a ->
  step (mkst ip stk h o fr) = SNext (mkst (S ip) (a :: stk) h o fr).
Proof.
  intros. unfold ValueVM4.step. simpl. rewrite H. simpl. rewrite zn_nonneg by lia. rewrite H1. reflexivity.
Qed.

(* ID_GLOBAL i: the i-th address of the vector gp points to — the cell itself, not a copy *)
Lemma step_id_global : forall ip stk h o fr i l a,
  nth_error prog ip = Some (ins BYTECODE_ID_GLOBAL (Z.of_nat i) 0) ->
  nth_error h (r_gp fr) = Some (HVec l) -> nth_error l i = Some a ->
  step (mkst ip stk h o fr) = SNext (mkst (S ip) (a :: stk) h o fr).
Proof.
  intros. unfold ValueVM4.step. simpl. rewrite H. simpl. rewrite zn_nonneg by lia.
  rewrite Nat2Z.id, H0, H1. reflexivity.
Qed.

Lemma step_copyglob : forall ip stk h o fr a b,
  nth_error prog ip = Some (ins BYTECODE_COPYGLOB a b) ->
  step (mkst ip stk h o fr) = SNext (mkst (S ip) (r_gp fr :: stk) h o fr).
Proof. intros. unfold ValueVM4.step. simpl. rewrite H. reflexivity. Qed.

Lemma step_global_vec : forall ip top stk h o fr,
  nth_error prog ip = Some (ins BYTECODE_GLOBAL_VEC (Z.of_nat (length top)) 0) ->
  step (mkst ip (top ++ stk) h o fr) =
  SNext (mkst (S ip) (length h :: stk) (h ++ [HVec (rev top)]) o fr).
Proof.
  intros. unfold ValueVM4.step. simpl. rewrite H. simpl. rewrite zn_nonneg by lia. rewrite Nat2Z.id.
  rewrite app_length.
  replace (Nat.leb (length top) (length top + length stk)) with true
    by (symmetry; apply Nat.leb_le; lia).
  rewrite skipn_app, skipn_all, Nat.sub_diag, firstn_app, firstn_all, Nat.sub_diag. simpl.
  rewrite app_nil_r. reflexivity.
Qed.

Lemma step_id_func_addr : forall ip v stk h o fr k w,
  nth_error prog ip = Some (ins BYTECODE_ID_FUNC_ADDR (Z.of_nat k) w) ->
  step (mkst ip (v :: stk) h o fr) =
  SNext (mkst (S ip) (length h :: stk) (h ++ [HFun v (nth k (x_ftab X) 0%nat)]) o fr).
Proof.
  intros. unfold ValueVM4.step. simpl. rewrite H. simpl. rewrite zn_nonneg by lia.
  rewrite Nat2Z.id. reflexivity.
Qed.

Lemma step_alloc : forall ip stk h o fr k,
  nth_error prog ip = Some (ins BYTECODE_ALLOC (Z.of_nat k) 0) ->
  step (mkst ip stk h o fr) =
  SNext (mkst (S ip) (rev (seq (length h) k) ++ stk) (h ++ repeat (HFun 0 0) k) o fr).
Proof.
  intros. unfold ValueVM4.step. simpl. rewrite H. simpl. rewrite zn_nonneg by lia.
  rewrite Nat2Z.id. reflexivity.
Qed.

(* REWRITE j: the function object on top is copied INTO the cell of slot j; the cell keeps its address *)
Lemma step_rewrite : forall ip f stk h o fr j vec addr tgt,
  nth_error prog ip = Some (ins BYTECODE_REWRITE (Z.of_nat j) 0) ->
  nth_error h f = Some (HFun vec addr) -> nth_error (f :: stk) j = Some tgt -> (tgt < length h)%nat ->
  step (mkst ip (f :: stk) h o fr) = SNext (mkst (S ip) stk (list_upd h tgt (HFun vec addr)) o fr).
Proof.
  intros. unfold ValueVM4.step. simpl. rewrite H. simpl. rewrite zn_nonneg by lia.
  rewrite Nat2Z.id, H0, H1.
  replace (Nat.ltb tgt (length h)) with true by (symmetry; apply Nat.ltb_lt; exact H2). reflexivity.
Qed.

(* CALL through a function object (with a MARK pending): the callee runs with gp = the object's vector *)
Lemma step_call_closure : forall ip f args ret fpo gpo w1 w2 below h o fr vec addr,
  nth_error prog ip = Some (ins0 BYTECODE_CALL) ->
  nth_error h f = Some (HFun vec addr) -> addr <> 0%nat ->
  r_fp fr = (length below + 5)%nat ->
  step (mkst ip (f :: args ++ ret :: fpo :: gpo :: w1 :: w2 :: below) h o fr) =
  SNext (mkst addr args h o
           {| r_fp := 0; r_gp := vec; r_exc := r_exc fr;
              r_frames := {| f_ret := ret; f_fp := fpo; f_gp := gpo; f_below := below; f_exc := r_exc fr |}
                          :: r_frames fr |}).
Proof.
  intros. unfold ValueVM4.step. simpl. rewrite H. simpl. rewrite H0.
  destruct (Nat.eqb addr 0) eqn:E0; [apply Nat.eqb_eq in E0; congruence|].
  rewrite H2. replace (Nat.eqb (length below + 5) 0) with false by (symmetry; apply Nat.eqb_neq; lia).
  rewrite app_length. simpl length.
  replace (Nat.leb (length below + 5) (length args + S (S (S (S (S (length below))))))) with true
    by (symmetry; apply Nat.leb_le; lia).
  replace (length args + S (S (S (S (S (length below))))) - (length below + 5))%nat with (length args) by lia.
  rewrite skipn_app, skipn_all, Nat.sub_diag, firstn_app, firstn_all, Nat.sub_diag. simpl.
  rewrite app_nil_r. reflexivity.
Qed.

(* ---- the captured cells ----------------------------------------------------------------------- *)

(* where the closure maker finds the cell of the free variable y: a slot of the running frame (level L
   at the first capture) or an entry of the running function's own vector gl *)
Definition resolves (fc : fctx) (L : Z) (ce : cenv) (stk gl : list nat) (y : ident) (a : nat) : Prop :=
  match clookup y ce with
  | Some i => i <= L /\ nth_error stk (Z.to_nat (L - i)) = Some a
  | None => self_is (fc_self fc) y = false /\ nth_error gl (Z.to_nat (gpos y (fc_fvs fc) 0)) = Some a
  end.
(* (not the running nested function's own name: the repaired emitter captures that one by COPYGLOB;
   ID_FUNC_ADDR — a new function object, Compile4.capture — which these lemmas do not cover) *)

Lemma gpos_nonneg : forall y l i, 0 <= i -> 0 <= gpos y l i.
Proof. intros y l. induction l as [|z t IH]; intros i Hi; simpl; [lia|]. destruct (N.eqb y z); [lia|]. apply IH. lia. Qed.

Lemma capture_run : forall FT fc ce stk gl h o fr L l addrs,
  gl = [] \/ nth_error h (r_gp fr) = Some (HVec gl) ->
  Forall2 (resolves fc L ce stk gl) l addrs ->
  forall pushed pc,
  code_at prog pc (capture FT fc (L + Z.of_nat (length pushed)) ce l) ->
  star (mkst pc (pushed ++ stk) h o fr)
       (mkst (pc + length l) (rev addrs ++ pushed ++ stk) h o fr).
Proof.
  intros FT fc ce stk gl h o fr L l addrs Hgp HF. induction HF as [|y a l addrs Hy HF IH]; intros pushed pc Hc.
  - simpl. rewrite Nat.add_0_r. apply star_refl.
  - cbn [capture] in Hc.
    assert (Ecap : (match clookup y ce with
                    | Some i => [ins BYTECODE_ID_LOCAL (L + Z.of_nat (length pushed)) i]
                    | None => if self_is (fc_self fc) y
                              then [ins0 BYTECODE_COPYGLOB; ins BYTECODE_ID_FUNC_ADDR (fidx FT y) 0]
                              else [ins BYTECODE_ID_GLOBAL (gpos y (fc_fvs fc) 0) 0]
                    end) = [match clookup y ce with
                            | Some i => ins BYTECODE_ID_LOCAL (L + Z.of_nat (length pushed)) i
                            | None => ins BYTECODE_ID_GLOBAL (gpos y (fc_fvs fc) 0) 0
                            end]).
    { unfold resolves in Hy. destruct (clookup y ce); [reflexivity|]. rewrite (proj1 Hy). reflexivity. }
    rewrite Ecap in Hc. clear Ecap. cbn [app] in Hc.
    apply code_at_cons in Hc. destruct Hc as [Hi Hc].
    assert (Hstep : ValueVM4.step X prog (mkst pc (pushed ++ stk) h o fr) =
                    SNext (mkst (S pc) (a :: pushed ++ stk) h o fr)).
    { unfold resolves in Hy. destruct (clookup y ce) as [i|].
      - destruct Hy as [Hle Hn]. eapply step_id_local; [exact Hi | lia |].
        replace (Z.to_nat (L + Z.of_nat (length pushed) - i)) with (length pushed + Z.to_nat (L - i))%nat by lia.
        rewrite nth_error_app2 by lia. replace (length pushed + Z.to_nat (L - i) - length pushed)%nat
          with (Z.to_nat (L - i)) by lia. exact Hn.
      - destruct Hy as [_ Hy]. assert (Hg := gpos_nonneg y (fc_fvs fc) 0 ltac:(lia)).
        destruct Hgp as [-> | Hgp]; [destruct (Z.to_nat _); discriminate Hy|].
        eapply step_id_global with (i := Z.to_nat (gpos y (fc_fvs fc) 0)); [| exact Hgp | exact Hy].
        rewrite Z2Nat.id by lia. exact Hi. }
    eapply star_step; [exact Hstep|].
    specialize (IH (a :: pushed) (S pc)).
    replace (L + Z.of_nat (length (a :: pushed))) with (L + Z.of_nat (length pushed) + 1) in IH
      by (simpl length; lia).
    specialize (IH Hc). simpl length. replace (pc + S (length l))%nat with (S pc + length l)%nat by lia.
    simpl rev. rewrite <- app_assoc. exact IH.
Qed.

Lemma capture_length : forall FT fc ce stk gl L0 l addrs, Forall2 (resolves fc L0 ce stk gl) l addrs ->
  forall L, length (capture FT fc L ce l) = length l.
Proof.
  intros FT fc ce stk gl L0 l addrs HF. induction HF as [|y a l addrs Hy HF IH]; intros L; [reflexivity|].
  cbn [capture]. rewrite app_length, IH. unfold resolves in Hy.
  destruct (clookup y ce); [reflexivity|]. rewrite (proj1 Hy). reflexivity.
Qed.

(* func_emit_native: one new vector holding the captured ADDRESSES, one new function object *)
Lemma closure_run : forall FT TL fc ce stk gl h o fr L g addrs pc k,
  gl = [] \/ nth_error h (r_gp fr) = Some (HVec gl) ->
  Forall2 (resolves fc L ce stk gl) (fvs_fd TL g) addrs ->
  fidx FT (fd_name g) = Z.of_nat k ->
  code_at prog pc (closure_code FT TL fc L ce g) ->
  star (mkst pc stk h o fr)
       (mkst (pc + length (closure_code FT TL fc L ce g)) (S (length h) :: stk)
             (h ++ [HVec addrs; HFun (length h) (nth k (x_ftab X) 0%nat)]) o fr).
Proof.
  intros FT TL fc ce stk gl h o fr L g addrs pc k Hgp HF Hk Hc.
  assert (Elen : length (closure_code FT TL fc L ce g) = (4 + length (fvs_fd TL g))%nat).
  { unfold closure_code. simpl length. rewrite app_length, (capture_length _ _ _ _ _ _ _ _ HF). simpl. lia. }
  rewrite Elen. clear Elen.
  unfold closure_code in *. set (fv := fvs_fd TL g) in *.
  apply code_at_cons in Hc. destruct Hc as [H0 Hc]. apply code_at_cons in Hc. destruct Hc as [H1 Hc].
  assert (Hc1 := code_at_app_l _ _ _ _ Hc). assert (Hc2 := code_at_app_r _ _ _ _ Hc).
  rewrite (capture_length _ _ _ _ _ _ _ _ HF) in Hc2.
  apply code_at_cons in Hc2. destruct Hc2 as [H2 Hc2]. apply code_at_head in Hc2.
  eapply star_step; [eapply step_nop; [exact H0 | tauto]|].
  eapply star_step; [eapply step_nop; [exact H1 | tauto]|].
  eapply star_trans.
  { apply (capture_run FT fc ce stk gl h o fr L fv addrs Hgp HF [] (S (S pc))). simpl. rewrite Z.add_0_r. exact Hc1. }
  simpl app.
  assert (Hlen : length addrs = length fv).
  { clear -HF. induction HF; simpl; congruence. }
  eapply star_step.
  { apply (step_global_vec (S (S pc) + length fv) (rev addrs) stk h o fr).
    rewrite rev_length, Hlen. exact H2. }
  rewrite rev_involutive.
  eapply star_step.
  { apply (step_id_func_addr (S (S (S pc) + length fv)) (length h) stk (h ++ [HVec addrs]) o fr k 0).
    rewrite <- Hk. exact Hc2. }
  rewrite app_length. simpl length. rewrite <- app_assoc. simpl app.
  replace (length h + 1)%nat with (S (length h)) by lia.
  replace (pc + (4 + length fv))%nat with (S (S (S (S pc) + length fv)))%nat by lia.
  apply star_refl.
Qed.

End Steps.

(* ---- a run of sibling functions: ALLOC k; (closure; REWRITE j)* ------------------------------------ *)

(* the code after ALLOC, for an abstract closure maker *)
Fixpoint run_code_f (cf : fdef -> list rinstr) (fds : list fdef) (pend : nat) : list rinstr :=
  match fds with
  | [] => []
  | fd :: t => cf fd ++ ins BYTECODE_REWRITE (Z.of_nat pend) 0 :: run_code_f cf t (pend - 1)
  end.

(* seq_func_emit as Compile4.compile_items_f unrolls it *)
Lemma compile_items_pending : forall cx cxl cf L ce t,
  compile_items_f cx cxl cf L ce (length (run_funcs t)) t =
  run_code_f (cf L ce) (run_funcs t) (length (run_funcs t)) ++ compile_items_f cx cxl cf L ce 0%nat (run_rest t).
Proof.
  intros cx cxl cf L ce t. induction t as [|it t IH].
  - reflexivity.
  - destruct it as [x e | x e | fd | e]; try reflexivity.
    cbn [run_funcs run_rest length compile_items_f run_code_f].
    replace (S (length (run_funcs t)) - 1)%nat with (length (run_funcs t)) by lia.
    rewrite IH, <- app_assoc. reflexivity.
Qed.

Lemma compile_items_run : forall cx cxl cf L ce fd t,
  compile_items_f cx cxl cf L ce 0%nat (IFunc fd :: t) =
  let fds := fd :: run_funcs t in
  let k := length fds in
  let ce' := func_cenv fds (L + 1) ce in
  let L' := L + Z.of_nat k in
  ins BYTECODE_ALLOC (Z.of_nat k) 0 :: run_code_f (cf L' ce') fds k ++
  compile_items_f cx cxl cf L' ce' 0%nat (run_rest t).
Proof.
  intros. cbn [compile_items_f]. cbv zeta. cbn [run_code_f length].
  replace (S (length (run_funcs t)) - 1)%nat with (length (run_funcs t)) by lia.
  rewrite compile_items_pending, <- app_assoc. reflexivity.
Qed.

Lemma nth_error_rev_seq : forall a n i, (i < n)%nat ->
  nth_error (rev (seq a n)) i = Some (a + n - 1 - i)%nat.
Proof.
  intros a n i H. rewrite (nth_error_nth' _ 0%nat) by (rewrite rev_length, seq_length; exact H).
  rewrite rev_nth by (rewrite seq_length; exact H). rewrite seq_length, seq_nth by lia. f_equal. lia.
Qed.

Lemma nth_error_list_upd_same : forall {A} (l : list A) i v, (i < length l)%nat ->
  nth_error (list_upd l i v) i = Some v.
Proof.
  intros A l. induction l as [|x t IH]; intros i v H; simpl in *; [lia|].
  destruct i; [reflexivity|]. apply IH. lia.
Qed.

Lemma nth_error_list_upd_other : forall {A} (l : list A) i j v, i <> j ->
  nth_error (list_upd l i v) j = nth_error l j.
Proof.
  intros A l. induction l as [|x t IH]; intros i j v H; simpl; [destruct i; reflexivity|].
  destruct i, j; simpl; try reflexivity; try congruence. apply IH. congruence.
Qed.

Lemma list_upd_length : forall {A} (l : list A) i v, length (list_upd l i v) = length l.
Proof. intros A l. induction l as [|x t IH]; intros i v; simpl; [destruct i; reflexivity|]. destruct i; simpl; auto. Qed.

Section Steps2.
Variable X : xinfo.
Variable prog : list rinstr.
Variables (FT TL : list ident) (fc : fctx).

Local Notation star := (ValueVM4.star X prog).
Local Notation faddr k := (nth k (x_ftab X) 0%nat).

(* slot s, s+1, … hold the functions fds: function object with the right code address and a vector (allocated
   after the slots: at or above `lim`) of the captured addresses *)
Fixpoint filled (H : list hcell) (lim s : nat) (addrss : list (list nat)) (ks : list nat) : Prop :=
  match addrss, ks with
  | ad :: at_, k :: kt =>
      (exists v, nth_error H s = Some (HFun v (faddr k)) /\ nth_error H v = Some (HVec ad) /\ (lim <= v)%nat) /\
      filled H lim (S s) at_ kt
  | [], [] => True
  | _, _ => False
  end.

(* the knot.  s0 = the first slot's address (the heap length before ALLOC), k slots, Sk = the stack during
   the run (slots on top), every closure resolves its captures against Sk — where the siblings' names are
   the slot cells, whatever they hold at that moment *)
Lemma run_code_run : forall ce gl o fr L Sk s0 k h0,
  gl = [] \/ nth_error h0 (r_gp fr) = Some (HVec gl) -> s0 = length h0 ->
  forall rest addrss ks s H pc,
  (s + length rest = s0 + k)%nat -> (s0 <= s)%nat -> (s0 + k <= length H)%nat ->
  (forall a, (a < s0)%nat -> nth_error H a = nth_error h0 a) ->
  (forall i, (i < k)%nat -> nth_error Sk i = Some (s0 + k - 1 - i)%nat) ->
  Forall2 (fun fd addrs => Forall2 (resolves fc L ce Sk gl) (fvs_fd TL fd) addrs) rest addrss ->
  Forall2 (fun fd kk => fidx FT (fd_name fd) = Z.of_nat kk) rest ks ->
  code_at prog pc (run_code_f (closure_code FT TL fc L ce) rest (length rest)) ->
  exists H',
    star (mkst pc Sk H o fr)
         (mkst (pc + length (run_code_f (closure_code FT TL fc L ce) rest (length rest))) Sk H' o fr) /\
    (length H <= length H')%nat /\
    (forall a, (a < s)%nat -> nth_error H' a = nth_error H a) /\
    (forall a, (s0 + k <= a < length H)%nat -> nth_error H' a = nth_error H a) /\
    filled H' (s0 + k) s addrss ks.
Proof.
  intros ce gl o fr L Sk s0 k h0 Hgp Es0 rest.
  induction rest as [|fd rest IH]; intros addrss ks s H pc Hs Hs0 Hlen Hpre HS HF HK Hc.
  - inversion HF; inversion HK; subst. exists H. simpl. rewrite Nat.add_0_r.
    repeat split; auto. apply star_refl.
  - inversion HF as [|? ad ? at_ Had HFt]; inversion HK as [|? kk ? kt Hkk HKt]; subst.
    cbn [run_code_f length] in *. replace (S (length rest) - 1)%nat with (length rest) in * by lia.
    assert (Hc1 := code_at_app_l _ _ _ _ Hc). assert (Hc2 := code_at_app_r _ _ _ _ Hc).
    apply code_at_cons in Hc2. destruct Hc2 as [Hrw Hc3].
    assert (HgpH : gl = [] \/ nth_error H (r_gp fr) = Some (HVec gl)).
    { destruct Hgp as [Hgp | Hgp]; [left; exact Hgp | right]. rewrite Hpre; [exact Hgp|]. apply nth_error_Some. congruence. }
    assert (R1 := closure_run X prog FT TL fc ce Sk gl H o fr L fd ad pc kk HgpH Had Hkk Hc1).
    set (H1 := H ++ [HVec ad; HFun (length H) (faddr kk)]) in *.
    set (pc1 := (pc + length (closure_code FT TL fc L ce fd))%nat) in *.
    assert (Htgt : nth_error (S (length H) :: Sk) (S (length rest)) = Some s).
    { simpl. rewrite HS by lia. f_equal. lia. }
    assert (HH1 : nth_error H1 (S (length H)) = Some (HFun (length H) (faddr kk))).
    { unfold H1. rewrite nth_error_app2 by lia. replace (S (length H) - length H)%nat with 1%nat by lia. reflexivity. }
    assert (Hlen1 : length H1 = (length H + 2)%nat) by (unfold H1; rewrite app_length; reflexivity).
    assert (R2 := step_rewrite X prog pc1 (S (length H)) Sk H1 o fr (S (length rest)) (length H) (faddr kk) s
                    Hrw HH1 Htgt ltac:(lia)).
    set (H2 := list_upd H1 s (HFun (length H) (faddr kk))) in *.
    assert (Hlen2 : length H2 = (length H + 2)%nat) by (unfold H2; rewrite list_upd_length; exact Hlen1).
    destruct (IH at_ kt (S s) H2 (S pc1)) as (H' & Hst & Hl' & Hlow & Hhigh & Hfill); auto; try lia.
    { intros a Ha. unfold H2. rewrite nth_error_list_upd_other by lia. unfold H1.
      rewrite nth_error_app1 by lia. apply Hpre. exact Ha. }
    exists H'. split; [|split; [|split; [|split]]].
    + eapply star_trans; [exact R1|]. eapply star_step; [exact R2|].
      replace (pc + length (closure_code FT TL fc L ce fd ++
                 ins BYTECODE_REWRITE (Z.of_nat (S (length rest))) 0 ::
                 run_code_f (closure_code FT TL fc L ce) rest (length rest)))%nat
        with (S pc1 + length (run_code_f (closure_code FT TL fc L ce) rest (length rest)))%nat.
      * exact Hst.
      * rewrite app_length. cbn [length]. unfold pc1. lia.
    + lia.
    + intros a Ha. rewrite Hlow by lia. unfold H2. rewrite nth_error_list_upd_other by lia.
      unfold H1. apply nth_error_app1. lia.
    + intros a Ha. rewrite Hhigh by lia. unfold H2. rewrite nth_error_list_upd_other by lia.
      unfold H1. apply nth_error_app1. lia.
    + simpl. split; [|exact Hfill]. exists (length H). split; [|split; [|lia]].
      * rewrite Hlow by lia. unfold H2. apply nth_error_list_upd_same. lia.
      * rewrite Hhigh by lia. unfold H2. rewrite nth_error_list_upd_other by lia. unfold H1.
        rewrite nth_error_app2 by lia. rewrite Nat.sub_diag. reflexivity.
Qed.

(* the whole run, from the ALLOC: the slots are the k new cells s0 … s0+k-1 on top of the stack, the heap
   below s0 is untouched, slot i holds function i with a vector of the addresses its captures resolve to — a
   sibling's name resolves to the sibling's SLOT CELL (func_cenv), also for a sibling that is filled later *)
Theorem sibling_run : forall ce gl stk h o fr L fds addrss ks pc,
  gl = [] \/ nth_error h (r_gp fr) = Some (HVec gl) ->
  let k := length fds in
  let Sk := rev (seq (length h) k) ++ stk in
  Forall2 (fun fd addrs => Forall2 (resolves fc L ce Sk gl) (fvs_fd TL fd) addrs) fds addrss ->
  Forall2 (fun fd kk => fidx FT (fd_name fd) = Z.of_nat kk) fds ks ->
  code_at prog pc (ins BYTECODE_ALLOC (Z.of_nat k) 0 :: run_code_f (closure_code FT TL fc L ce) fds k) ->
  exists H',
    star (mkst pc stk h o fr)
         (mkst (pc + S (length (run_code_f (closure_code FT TL fc L ce) fds k))) Sk H' o fr) /\
    (forall a, (a < length h)%nat -> nth_error H' a = nth_error h a) /\
    filled H' (length h + k) (length h) addrss ks.
Proof.
  intros ce gl stk h o fr L fds addrss ks pc Hgp k Sk HF HK Hc.
  apply code_at_cons in Hc. destruct Hc as [Ha Hc].
  assert (R0 := step_alloc X prog pc stk h o fr k Ha). fold Sk in R0.
  set (H0 := h ++ repeat (HFun 0 0) k) in *.
  destruct (run_code_run ce gl o fr L Sk (length h) k h Hgp eq_refl fds addrss ks (length h) H0 (S pc))
    as (H' & Hst & Hl & Hlow & Hhigh & Hfill); auto; try (unfold k; lia).
  - unfold H0. rewrite app_length, repeat_length. lia.
  - intros a Ha'. unfold H0. apply nth_error_app1. exact Ha'.
  - intros i Hi. unfold Sk. rewrite nth_error_app1 by (rewrite rev_length, seq_length; exact Hi).
    rewrite nth_error_rev_seq by exact Hi. reflexivity.
  - exists H'. split; [|split].
    + eapply star_step; [exact R0|].
      replace (pc + S (length (run_code_f (closure_code FT TL fc L ce) fds k)))%nat
        with (S pc + length (run_code_f (closure_code FT TL fc L ce) fds (length fds)))%nat by (unfold k; lia).
      exact Hst.
    + intros a Ha'. rewrite Hlow by exact Ha'. unfold H0. apply nth_error_app1. exact Ha'.
    + exact Hfill.
Qed.

(* the vectors of a filled run, as a list *)
Lemma filled_vecs : forall addrss ks H lim s,
  filled H lim s addrss ks ->
  exists vs, length vs = length addrss /\
    forall j ad kk, nth_error addrss j = Some ad -> nth_error ks j = Some kk ->
      exists v, nth_error vs j = Some v /\ nth_error H (s + j) = Some (HFun v (faddr kk)) /\
                nth_error H v = Some (HVec ad).
Proof.
  induction addrss as [|a0 at_ IH]; intros ks H lim s HF; destruct ks as [|k0 kt]; simpl in HF; try contradiction.
  - exists []. split; [reflexivity|]. intros j ad kk Ha. destruct j; discriminate Ha.
  - destruct HF as [(v & H1 & H2 & _) HF]. destruct (IH kt H lim (S s) HF) as (vs & Hl & Hvs).
    exists (v :: vs). split; [simpl; congruence|]. intros j ad kk Ha Hk. destruct j as [|j]; simpl in Ha, Hk.
    + inversion Ha; inversion Hk; subst. exists v. rewrite Nat.add_0_r. auto.
    + destruct (Hvs j ad kk Ha Hk) as (v' & A & B & C). exists v'. replace (s + S j)%nat with (S s + j)%nat by lia. auto.
Qed.

(* ---- the repaired emitter: a closure made in the code of a NAMED nested function f may capture f itself:
        COPYGLOB; ID_FUNC_ADDR f — one new function object per such closure (the free variables of a function
        are pairwise different) ------------------------------------------------------------------------- *)

Lemma copyglob_self_run : forall ip stk h o fr k w,
  code_at prog ip [ins0 BYTECODE_COPYGLOB; ins BYTECODE_ID_FUNC_ADDR (Z.of_nat k) w] ->
  star (mkst ip stk h o fr)
       (mkst (S (S ip)) (length h :: stk) (h ++ [HFun (r_gp fr) (faddr k)]) o fr).
Proof.
  intros ip stk h o fr k w Hc. apply code_at_cons in Hc. destruct Hc as [H0 Hc]. apply code_at_head in Hc.
  eapply star_step; [eapply step_copyglob; exact H0|].
  eapply star_step; [eapply step_id_func_addr; exact Hc|]. apply star_refl.
Qed.

Definition selfcap (ce : cenv) (l : list ident) : bool :=
  existsb (fun y => match clookup y ce with Some _ => false | None => self_is (fc_self fc) y end) l.

(* hl = the length of the heap when the captures of the closure start: the address of the copy *)
Definition resolves_s (L : Z) (ce : cenv) (stk gl : list nat) (hl : nat) (y : ident) (a : nat) : Prop :=
  match clookup y ce with
  | Some i => i <= L /\ nth_error stk (Z.to_nat (L - i)) = Some a
  | None => if self_is (fc_self fc) y then a = hl
            else nth_error gl (Z.to_nat (gpos y (fc_fvs fc) 0)) = Some a
  end.

Lemma resolves_s_ns : forall L ce stk gl hl l addrs, selfcap ce l = false ->
  Forall2 (resolves_s L ce stk gl hl) l addrs -> Forall2 (resolves fc L ce stk gl) l addrs.
Proof.
  intros L ce stk gl hl l addrs Hs HF. induction HF as [|y a l addrs Hy HF IH]; constructor.
  - unfold selfcap in Hs. cbn [existsb] in Hs. apply orb_false_iff in Hs. destruct Hs as [Hs _].
    unfold resolves_s in Hy. unfold resolves.
    destruct (clookup y ce); [exact Hy|]. rewrite Hs in Hy. split; [exact Hs | exact Hy].
  - apply IH. unfold selfcap in Hs. cbn [existsb] in Hs. apply orb_false_iff in Hs. exact (proj2 Hs).
Qed.

Lemma capture_app : forall ce l1 l2 L,
  capture FT fc L ce (l1 ++ l2) = capture FT fc L ce l1 ++ capture FT fc (L + Z.of_nat (length l1)) ce l2.
Proof.
  intros ce l1 l2. induction l1 as [|y t IH]; intros L.
  - simpl. rewrite Z.add_0_r. reflexivity.
  - cbn [app capture]. rewrite IH, <- app_assoc. do 3 f_equal. cbn [length]. lia.
Qed.

Lemma selfcap_split : forall ce l, selfcap ce l = true -> NoDup l ->
  exists l1 y l2, l = l1 ++ y :: l2 /\ clookup y ce = None /\ self_is (fc_self fc) y = true /\
                  selfcap ce l1 = false /\ selfcap ce l2 = false.
Proof.
  intros ce l Hs Hnd. unfold selfcap in Hs. apply existsb_exists in Hs. destruct Hs as (y & Hin & Hy).
  destruct (clookup y ce) eqn:Ecl; [discriminate|].
  apply in_split in Hin. destruct Hin as (l1 & l2 & ->). exists l1, y, l2.
  split; [reflexivity|]. split; [exact Ecl|]. split; [exact Hy|].
  apply NoDup_remove_2 in Hnd.
  assert (Hno : forall l0, (forall z, In z l0 -> In z (l1 ++ l2)) -> selfcap ce l0 = false).
  { intros l0 Hsub. destruct (selfcap ce l0) eqn:E; [|reflexivity]. exfalso.
    unfold selfcap in E. apply existsb_exists in E. destruct E as (z & Hz & Hz').
    destruct (clookup z ce); [discriminate|]. unfold self_is in Hy, Hz'.
    destruct (fc_self fc) as [f|]; [|discriminate]. apply N.eqb_eq in Hy, Hz'. subst.
    apply Hnd. apply Hsub. exact Hz. }
  split; apply Hno; intros z Hz; apply in_or_app; auto.
Qed.

Lemma capture_run_s : forall ce stk gl h o fr L l addrs ks,
  NoDup l -> (forall y, self_is (fc_self fc) y = true -> clookup y ce = None -> fidx FT y = Z.of_nat ks) ->
  gl = [] \/ nth_error h (r_gp fr) = Some (HVec gl) ->
  Forall2 (resolves_s L ce stk gl (length h)) l addrs ->
  forall pushed pc,
  code_at prog pc (capture FT fc (L + Z.of_nat (length pushed)) ce l) ->
  star (mkst pc (pushed ++ stk) h o fr)
       (mkst (pc + length (capture FT fc (L + Z.of_nat (length pushed)) ce l)) (rev addrs ++ pushed ++ stk)
             (h ++ if selfcap ce l then [HFun (r_gp fr) (faddr ks)] else []) o fr).
Proof.
  intros ce stk gl h o fr L l addrs ks Hnd Hks Hgp HF pushed pc Hc.
  destruct (selfcap ce l) eqn:Hs.
  2:{ pose proof (resolves_s_ns _ _ _ _ _ _ _ Hs HF) as HF'.
      rewrite (capture_length FT fc ce stk gl L l addrs HF'), app_nil_r.
      exact (capture_run X prog FT fc ce stk gl h o fr L l addrs Hgp HF' pushed pc Hc). }
  destruct (selfcap_split ce l Hs Hnd) as (l1 & y & l2 & -> & Ecl & Ey & Hs1 & Hs2).
  apply Forall2_app_inv_l in HF. destruct HF as (a1 & a2' & HF1 & HF2 & ->).
  inversion HF2 as [|? a ? a2 Hy HF2']; subst. clear HF2.
  unfold resolves_s in Hy. rewrite Ecl, Ey in Hy. subst a.
  pose proof (resolves_s_ns _ _ _ _ _ _ _ Hs1 HF1) as HF1'.
  pose proof (resolves_s_ns _ _ _ _ _ _ _ Hs2 HF2') as HF2''.
  rewrite capture_app in Hc |- *. cbn [capture] in Hc |- *. rewrite Ecl, Ey, (Hks y Ey Ecl) in Hc |- *.
  rewrite !app_length. cbn [length app] in Hc |- *.
  rewrite (capture_length FT fc ce stk gl L l1 a1 HF1'), (capture_length FT fc ce stk gl L l2 a2 HF2'').
  assert (Hc1 := code_at_app_l _ _ _ _ Hc). assert (Hc2 := code_at_app_r _ _ _ _ Hc).
  rewrite (capture_length FT fc ce stk gl L l1 a1 HF1') in Hc2.
  eapply star_trans; [exact (capture_run X prog FT fc ce stk gl h o fr L l1 a1 Hgp HF1' pushed pc Hc1)|].
  eapply star_trans.
  { apply (copyglob_self_run (pc + length l1) (rev a1 ++ pushed ++ stk) h o fr ks 0).
    apply (code_at_app_l prog (pc + length l1)
             [ins0 BYTECODE_COPYGLOB; ins BYTECODE_ID_FUNC_ADDR (Z.of_nat ks) 0]
             (capture FT fc (L + Z.of_nat (length pushed) + Z.of_nat (length l1) + 1) ce l2)).
    exact Hc2. }
  assert (Hgp' : gl = [] \/ nth_error (h ++ [HFun (r_gp fr) (faddr ks)]) (r_gp fr) = Some (HVec gl)).
  { destruct Hgp as [Hgp | Hgp]; [left; exact Hgp | right]. rewrite nth_error_app1; [exact Hgp|]. apply nth_error_Some. congruence. }
  pose proof (capture_run X prog FT fc ce stk gl (h ++ [HFun (r_gp fr) (faddr ks)]) o fr L l2 a2 Hgp' HF2''
                (length h :: rev a1 ++ pushed) (S (S (pc + length l1)))) as R.
  assert (Hlen1 : length a1 = length l1) by (clear -HF1; induction HF1; simpl; congruence).
  replace (L + Z.of_nat (length (length h :: rev a1 ++ pushed)))
    with (L + Z.of_nat (length pushed) + Z.of_nat (length l1) + 1) in R
    by (cbn [length]; rewrite app_length, rev_length, Hlen1; lia).
  assert (Hc3 := code_at_app_r prog (pc + length l1)
             [ins0 BYTECODE_COPYGLOB; ins BYTECODE_ID_FUNC_ADDR (Z.of_nat ks) 0] _ Hc2).
  cbn [length] in Hc3. replace (pc + length l1 + 2)%nat with (S (S (pc + length l1))) in Hc3 by lia.
  specialize (R Hc3).
  replace (pc + (length l1 + (2 + length l2)))%nat with (S (S (pc + length l1)) + length l2)%nat by lia.
  rewrite rev_app_distr. cbn [rev]. rewrite <- !app_assoc. cbn [app].
  cbn [app] in R. rewrite <- app_assoc in R. exact R.
Qed.

Lemma closure_run_s : forall ce stk gl h o fr L g addrs pc k ks,
  NoDup (fvs_fd TL g) -> (forall y, self_is (fc_self fc) y = true -> clookup y ce = None -> fidx FT y = Z.of_nat ks) ->
  gl = [] \/ nth_error h (r_gp fr) = Some (HVec gl) ->
  Forall2 (resolves_s L ce stk gl (length h)) (fvs_fd TL g) addrs ->
  fidx FT (fd_name g) = Z.of_nat k ->
  code_at prog pc (closure_code FT TL fc L ce g) ->
  let cps := if selfcap ce (fvs_fd TL g) then [HFun (r_gp fr) (faddr ks)] else [] in
  star (mkst pc stk h o fr)
       (mkst (pc + length (closure_code FT TL fc L ce g)) (S (length h + length cps) :: stk)
             (h ++ cps ++ [HVec addrs; HFun (length h + length cps) (faddr k)]) o fr).
Proof.
  intros ce stk gl h o fr L g addrs pc k ks Hnd Hks Hgp HF Hk Hc cps.
  unfold closure_code in *. set (fv := fvs_fd TL g) in *.
  set (cap := capture FT fc L ce fv) in *.
  apply code_at_cons in Hc. destruct Hc as [H0 Hc]. apply code_at_cons in Hc. destruct Hc as [H1 Hc].
  assert (Hc1 := code_at_app_l _ _ _ _ Hc). assert (Hc2 := code_at_app_r _ _ _ _ Hc).
  apply code_at_cons in Hc2. destruct Hc2 as [H2 Hc2]. apply code_at_head in Hc2.
  eapply star_step; [eapply step_nop; [exact H0 | tauto]|].
  eapply star_step; [eapply step_nop; [exact H1 | tauto]|].
  eapply star_trans.
  { pose proof (capture_run_s ce stk gl h o fr L fv addrs ks Hnd Hks Hgp HF [] (S (S pc))) as R.
    change (L + Z.of_nat (length (@nil nat))) with (L + 0) in R. rewrite Z.add_0_r in R. apply R. exact Hc1. }
  fold cap. fold cps. cbn [app].
  assert (Hlen : length addrs = length fv) by (clear -HF; induction HF; simpl; congruence).
  eapply star_step.
  { apply (step_global_vec X prog (S (S pc) + length cap) (rev addrs) stk (h ++ cps) o fr).
    rewrite rev_length, Hlen. exact H2. }
  rewrite rev_involutive.
  eapply star_step.
  { apply (step_id_func_addr X prog (S (S (S pc) + length cap)) (length (h ++ cps)) stk ((h ++ cps) ++ [HVec addrs]) o fr k 0).
    rewrite <- Hk. exact Hc2. }
  match goal with |- ValueVM4.star _ _ ?a ?b => assert (E : a = b); [|rewrite E; apply star_refl] end.
  f_equal.
  - cbn [length]. rewrite app_length. cbn [length]. lia.
  - rewrite !app_length. cbn [length]. f_equal. lia.
  - rewrite app_length, <- !app_assoc. reflexivity.
Qed.

(* a run of sibling functions whose closures may capture the running function: the heap grows by 2 or 3 cells
   per closure; the addresses of the copies are the heap lengths at the start of each closure *)
Definition grow (ce : cenv) (fd : fdef) : nat := if selfcap ce (fvs_fd TL fd) then 3%nat else 2%nat.

Fixpoint rrP (P : nat -> ident -> nat -> Prop) (ce : cenv) (hl : nat) (rest : list fdef) (addrss : list (list nat)) : Prop :=
  match rest, addrss with
  | fd :: t, ad :: at_ => Forall2 (P hl) (fvs_fd TL fd) ad /\ rrP P ce (hl + grow ce fd) t at_
  | [], [] => True
  | _, _ => False
  end.

Definition rr (L : Z) (ce : cenv) (Sk gl : list nat) : nat -> list fdef -> list (list nat) -> Prop :=
  rrP (resolves_s L ce Sk gl) ce.

Lemma rrP_imp : forall (P Q : nat -> ident -> nat -> Prop) ce, (forall hl y a, P hl y a -> Q hl y a) ->
  forall rest hl addrss, rrP P ce hl rest addrss -> rrP Q ce hl rest addrss.
Proof.
  intros P Q ce HPQ rest. induction rest as [|fd t IH]; intros hl addrss H; destruct addrss as [|ad at_]; simpl in *; auto.
  destruct H as [H1 H2]. split; [|apply IH; exact H2].
  clear -HPQ H1. induction H1; constructor; auto.
Qed.

(* the heap length at the start of closure j *)
Fixpoint hl_at (ce : cenv) (hl : nat) (rest : list fdef) (j : nat) : nat :=
  match j, rest with
  | S j', fd :: t => hl_at ce (hl + grow ce fd) t j'
  | _, _ => hl
  end.

Fixpoint filled_s (H : list hcell) (lim s hl : nat) (ce : cenv) (gp kself : nat) (rest : list fdef)
  (addrss : list (list nat)) (ks : list nat) : Prop :=
  match rest, addrss, ks with
  | fd :: t, ad :: at_, k :: kt =>
      (exists v, nth_error H s = Some (HFun v (faddr k)) /\ nth_error H v = Some (HVec ad) /\ (lim <= v)%nat) /\
      (selfcap ce (fvs_fd TL fd) = true -> nth_error H hl = Some (HFun gp (faddr kself)) /\ (lim <= hl)%nat) /\
      filled_s H lim (S s) (hl + grow ce fd) ce gp kself t at_ kt
  | [], [], [] => True
  | _, _, _ => False
  end.

Lemma run_code_run_s : forall ce gl o fr L Sk s0 k h0 kself,
  (forall y, self_is (fc_self fc) y = true -> clookup y ce = None -> fidx FT y = Z.of_nat kself) ->
  gl = [] \/ nth_error h0 (r_gp fr) = Some (HVec gl) -> s0 = length h0 ->
  forall rest addrss ks s H pc,
  (forall fd, In fd rest -> NoDup (fvs_fd TL fd)) ->
  (s + length rest = s0 + k)%nat -> (s0 <= s)%nat -> (s0 + k <= length H)%nat ->
  (forall a, (a < s0)%nat -> nth_error H a = nth_error h0 a) ->
  (forall i, (i < k)%nat -> nth_error Sk i = Some (s0 + k - 1 - i)%nat) ->
  rr L ce Sk gl (length H) rest addrss ->
  Forall2 (fun fd kk => fidx FT (fd_name fd) = Z.of_nat kk) rest ks ->
  code_at prog pc (run_code_f (closure_code FT TL fc L ce) rest (length rest)) ->
  exists H',
    star (mkst pc Sk H o fr)
         (mkst (pc + length (run_code_f (closure_code FT TL fc L ce) rest (length rest))) Sk H' o fr) /\
    (length H <= length H')%nat /\
    (forall a, (a < s)%nat -> nth_error H' a = nth_error H a) /\
    (forall a, (s0 + k <= a < length H)%nat -> nth_error H' a = nth_error H a) /\
    filled_s H' (s0 + k) s (length H) ce (r_gp fr) kself rest addrss ks.
Proof.
  intros ce gl o fr L Sk s0 k h0 kself Hks Hgp Es0 rest.
  induction rest as [|fd rest IH]; intros addrss ks s H pc Hnd Hs Hs0 Hlen Hpre HS HF HK Hc.
  - destruct addrss; [|contradiction]. inversion HK; subst. exists H. simpl. rewrite Nat.add_0_r.
    repeat split; auto. apply star_refl.
  - destruct addrss as [|ad at_]; [contradiction|]. unfold rr in HF. cbn [rrP] in HF. destruct HF as [Had HFt].
    fold (rr L ce Sk gl) in HFt.
    inversion HK as [|? kk ? kt Hkk HKt]; subst.
    cbn [run_code_f length] in *. replace (S (length rest) - 1)%nat with (length rest) in * by lia.
    assert (Hc1 := code_at_app_l _ _ _ _ Hc). assert (Hc2 := code_at_app_r _ _ _ _ Hc).
    apply code_at_cons in Hc2. destruct Hc2 as [Hrw Hc3].
    assert (HgpH : gl = [] \/ nth_error H (r_gp fr) = Some (HVec gl)).
    { destruct Hgp as [Hgp | Hgp]; [left; exact Hgp | right]. rewrite Hpre; [exact Hgp|]. apply nth_error_Some. congruence. }
    assert (R1 := closure_run_s ce Sk gl H o fr L fd ad pc kk kself (Hnd fd (or_introl eq_refl)) Hks HgpH Had Hkk Hc1).
    cbv zeta in R1.
    set (cps := if selfcap ce (fvs_fd TL fd) then [HFun (r_gp fr) (faddr kself)] else []) in *.
    set (n := length cps) in *.
    assert (Hgrow : grow ce fd = (n + 2)%nat) by (unfold grow, n, cps; destruct (selfcap ce (fvs_fd TL fd)); reflexivity).
    set (H1 := H ++ cps ++ [HVec ad; HFun (length H + n) (faddr kk)]) in *.
    set (pc1 := (pc + length (closure_code FT TL fc L ce fd))%nat) in *.
    assert (Htgt : nth_error (S (length H + n) :: Sk) (S (length rest)) = Some s).
    { simpl. rewrite HS by lia. f_equal. lia. }
    assert (Hlen1 : length H1 = (length H + n + 2)%nat) by (unfold H1; rewrite !app_length; fold n; simpl; lia).
    assert (HH1 : nth_error H1 (S (length H + n)) = Some (HFun (length H + n) (faddr kk))).
    { unfold H1. rewrite app_assoc, nth_error_app2 by (rewrite app_length; fold n; lia).
      rewrite app_length. fold n. replace (S (length H + n) - (length H + n))%nat with 1%nat by lia. reflexivity. }
    assert (HHv : nth_error H1 (length H + n) = Some (HVec ad)).
    { unfold H1. rewrite app_assoc, nth_error_app2 by (rewrite app_length; fold n; lia).
      rewrite app_length. fold n. rewrite Nat.sub_diag. reflexivity. }
    assert (R2 := step_rewrite X prog pc1 (S (length H + n)) Sk H1 o fr (S (length rest)) (length H + n) (faddr kk) s
                    Hrw HH1 Htgt ltac:(lia)).
    set (H2 := list_upd H1 s (HFun (length H + n) (faddr kk))) in *.
    assert (Hlen2 : length H2 = (length H + grow ce fd)%nat) by (unfold H2; rewrite list_upd_length, Hlen1, Hgrow; lia).
    rewrite <- Hlen2 in HFt.
    destruct (IH at_ kt (S s) H2 (S pc1)) as (H' & Hst & Hl' & Hlow & Hhigh & Hfill); auto; try lia.
    { intros g Hg. apply Hnd. right. exact Hg. }
    { intros a Ha. unfold H2. rewrite nth_error_list_upd_other by lia. unfold H1.
      rewrite nth_error_app1 by lia. apply Hpre. exact Ha. }
    exists H'. split; [|split; [|split; [|split]]].
    + eapply star_trans; [exact R1|]. eapply star_step; [exact R2|].
      replace (pc + length (closure_code FT TL fc L ce fd ++
                 ins BYTECODE_REWRITE (Z.of_nat (S (length rest))) 0 ::
                 run_code_f (closure_code FT TL fc L ce) rest (length rest)))%nat
        with (S pc1 + length (run_code_f (closure_code FT TL fc L ce) rest (length rest)))%nat.
      * exact Hst.
      * rewrite app_length. cbn [length]. unfold pc1. lia.
    + lia.
    + intros a Ha. rewrite Hlow by lia. unfold H2. rewrite nth_error_list_upd_other by lia.
      unfold H1. apply nth_error_app1. lia.
    + intros a Ha. rewrite Hhigh by lia. unfold H2. rewrite nth_error_list_upd_other by lia.
      unfold H1. apply nth_error_app1. lia.
    + cbn [filled_s]. split; [|split].
      * exists (length H + n)%nat. split; [|split; [|lia]].
        -- rewrite Hlow by lia. unfold H2. apply nth_error_list_upd_same. lia.
        -- rewrite Hhigh by lia. unfold H2. rewrite nth_error_list_upd_other by lia. exact HHv.
      * intros Esc. split; [|lia]. rewrite Hhigh by (rewrite Hlen2, Hgrow; lia).
        unfold H2. rewrite nth_error_list_upd_other by lia. unfold H1, cps. rewrite Esc.
        rewrite nth_error_app2 by lia. rewrite Nat.sub_diag. reflexivity.
      * rewrite Hlen2 in Hfill. exact Hfill.
Qed.

Theorem sibling_run_s : forall ce gl stk h o fr L fds addrss ks pc kself,
  (forall y, self_is (fc_self fc) y = true -> clookup y ce = None -> fidx FT y = Z.of_nat kself) ->
  (forall fd, In fd fds -> NoDup (fvs_fd TL fd)) ->
  gl = [] \/ nth_error h (r_gp fr) = Some (HVec gl) ->
  let k := length fds in
  let Sk := rev (seq (length h) k) ++ stk in
  rr L ce Sk gl (length h + k) fds addrss ->
  Forall2 (fun fd kk => fidx FT (fd_name fd) = Z.of_nat kk) fds ks ->
  code_at prog pc (ins BYTECODE_ALLOC (Z.of_nat k) 0 :: run_code_f (closure_code FT TL fc L ce) fds k) ->
  exists H',
    star (mkst pc stk h o fr)
         (mkst (pc + S (length (run_code_f (closure_code FT TL fc L ce) fds k))) Sk H' o fr) /\
    (forall a, (a < length h)%nat -> nth_error H' a = nth_error h a) /\
    filled_s H' (length h + k) (length h) (length h + k) ce (r_gp fr) kself fds addrss ks.
Proof.
  intros ce gl stk h o fr L fds addrss ks pc kself Hks Hnd Hgp k Sk HF HK Hc.
  apply code_at_cons in Hc. destruct Hc as [Ha Hc].
  assert (R0 := step_alloc X prog pc stk h o fr k Ha). fold Sk in R0.
  set (H0 := h ++ repeat (HFun 0 0) k) in *.
  assert (HlenH0 : length H0 = (length h + k)%nat) by (unfold H0; rewrite app_length, repeat_length; reflexivity).
  rewrite <- HlenH0 in HF.
  destruct (run_code_run_s ce gl o fr L Sk (length h) k h kself Hks Hgp eq_refl fds addrss ks (length h) H0 (S pc))
    as (H' & Hst & Hl & Hlow & Hhigh & Hfill); auto; try (unfold k; lia).
  - intros a Ha'. unfold H0. apply nth_error_app1. exact Ha'.
  - intros i Hi. unfold Sk. rewrite nth_error_app1 by (rewrite rev_length, seq_length; exact Hi).
    rewrite nth_error_rev_seq by exact Hi. reflexivity.
  - exists H'. split; [|split].
    + eapply star_step; [exact R0|].
      replace (pc + S (length (run_code_f (closure_code FT TL fc L ce) fds k)))%nat
        with (S pc + length (run_code_f (closure_code FT TL fc L ce) fds (length fds)))%nat by (unfold k; lia).
      exact Hst.
    + intros a Ha'. rewrite Hlow by exact Ha'. unfold H0. apply nth_error_app1. exact Ha'.
    + rewrite HlenH0 in Hfill. exact Hfill.
Qed.

(* the facts about function j of a filled run *)
Lemma run_facts : forall (P : nat -> ident -> nat -> Prop) ce gp kself rest addrss ks H lim s hl,
  rrP P ce hl rest addrss -> filled_s H lim s hl ce gp kself rest addrss ks ->
  forall j fd, nth_error rest j = Some fd ->
    exists ad kk v, nth_error addrss j = Some ad /\ nth_error ks j = Some kk /\
      Forall2 (P (hl_at ce hl rest j)) (fvs_fd TL fd) ad /\
      nth_error H (s + j) = Some (HFun v (faddr kk)) /\ nth_error H v = Some (HVec ad) /\ (lim <= v)%nat /\
      (selfcap ce (fvs_fd TL fd) = true ->
       nth_error H (hl_at ce hl rest j) = Some (HFun gp (faddr kself)) /\ (lim <= hl_at ce hl rest j)%nat).
Proof.
  intros P ce gp kself rest. induction rest as [|g t IH]; intros addrss ks H lim s hl Hr Hf j fd Hj.
  - destruct j; discriminate Hj.
  - destruct addrss as [|ad at_]; [contradiction|]. destruct ks as [|kk kt]; [contradiction|].
    destruct Hr as [Had Hr]. cbn [filled_s] in Hf. destruct Hf as ((v & V1 & V2 & V3) & Hcp & Hf).
    destruct j as [|j]; simpl in Hj.
    + inversion Hj; subst g. exists ad, kk, v. cbn [hl_at]. rewrite Nat.add_0_r. repeat split; auto; apply Hcp; assumption.
    + destruct (IH at_ kt H lim (S s) _ Hr Hf j fd Hj) as (ad' & kk' & v' & A & B & C & D & E & F & G).
      exists ad', kk', v'. cbn [hl_at]. replace (s + S j)%nat with (S s + j)%nat by lia. repeat split; auto; apply G; assumption.
Qed.

Lemma filled_s_filled : forall rest H lim s hl ce gp kself addrss ks,
  filled_s H lim s hl ce gp kself rest addrss ks -> filled H lim s addrss ks.
Proof.
  induction rest as [|fd t IH]; intros H lim s hl ce gp kself addrss ks Hf;
    destruct addrss as [|ad at_]; destruct ks as [|k kt]; simpl in *; try contradiction; auto.
  destruct Hf as (A & _ & B). split; [exact A | eapply IH; exact B].
Qed.

(* the copies of a run: (address, the cell cf of the running function's closure) *)
Fixpoint cps_of (cf : nat) (ce : cenv) (hl : nat) (rest : list fdef) : list (nat * nat) :=
  match rest with
  | [] => []
  | fd :: t => (if selfcap ce (fvs_fd TL fd) then [(hl, cf)] else []) ++ cps_of cf ce (hl + grow ce fd) t
  end.

Lemma cps_of_in : forall cf ce rest hl j fd, nth_error rest j = Some fd -> selfcap ce (fvs_fd TL fd) = true ->
  In (hl_at ce hl rest j, cf) (cps_of cf ce hl rest).
Proof.
  intros cf ce rest. induction rest as [|g t IH]; intros hl j fd Hj Hs; [destruct j; discriminate|].
  destruct j as [|j]; simpl in Hj.
  - inversion Hj; subst g. cbn [cps_of hl_at]. rewrite Hs. left. reflexivity.
  - cbn [cps_of hl_at]. apply in_or_app. right. eapply IH; eauto.
Qed.

Lemma cps_of_inv : forall cf ce rest hl a c, In (a, c) (cps_of cf ce hl rest) ->
  c = cf /\ exists j fd, nth_error rest j = Some fd /\ selfcap ce (fvs_fd TL fd) = true /\ a = hl_at ce hl rest j.
Proof.
  intros cf ce rest. induction rest as [|g t IH]; intros hl a c Hin; [destruct Hin|].
  cbn [cps_of] in Hin. apply in_app_or in Hin. destruct Hin as [Hin | Hin].
  - destruct (selfcap ce (fvs_fd TL g)) eqn:Es; [|destruct Hin]. destruct Hin as [Hin | []]. inversion Hin; subst.
    split; [reflexivity|]. exists 0%nat, g. auto.
  - destruct (IH _ _ _ Hin) as (-> & j & fd & A & B & C). split; [reflexivity|]. exists (S j), fd. auto.
Qed.

Lemma cps_of_nil : forall cf ce rest hl, (forall fd, In fd rest -> selfcap ce (fvs_fd TL fd) = false) ->
  cps_of cf ce hl rest = [].
Proof.
  intros cf ce rest. induction rest as [|g t IH]; intros hl H; [reflexivity|].
  cbn [cps_of]. rewrite (H g (or_introl eq_refl)). simpl. apply IH. intros fd Hf. apply H. right. exact Hf.
Qed.

End Steps2.

(* ---- recursion of a nested function, the three C08 facts ---------------------------------------- *)

Section C08.
Variable X : xinfo.
Variable prog : list rinstr.

Local Notation step := (ValueVM4.step X prog).
Local Notation star := (ValueVM4.star X prog).

(* expr_id_func_nest_emit: a function value of the running nested function — a NEW function object with the
   vector the function itself runs under *)
Lemma step_copyglob_self : forall ip stk h o fr k w,
  code_at prog ip [ins0 BYTECODE_COPYGLOB; ins BYTECODE_ID_FUNC_ADDR (Z.of_nat k) w] ->
  star (mkst ip stk h o fr)
       (mkst (S (S ip)) (length h :: stk) (h ++ [HFun (r_gp fr) (nth k (x_ftab X) 0%nat)]) o fr).
Proof.
  intros ip stk h o fr k w Hc. apply code_at_cons in Hc. destruct Hc as [H0 Hc]. apply code_at_head in Hc.
  eapply star_step; [eapply step_copyglob; exact H0|].
  eapply star_step; [eapply step_id_func_addr; exact Hc|]. apply star_refl.
Qed.

(* what one instruction does to the heap: nothing, an extension at the end, or — OP_ASS_INT and REWRITE
   only — an update of one existing cell *)
Lemma step_heap_shape : forall s s', step s = SNext s' ->
  v_heap s' = v_heap s \/
  (exists l, v_heap s' = v_heap s ++ l) \/
  (exists a v i, v_heap s' = list_upd (v_heap s) a v /\ nth_error prog (v_ip s) = Some i /\
                 (r_op i = BYTECODE_OP_ASS_INT \/ r_op i = BYTECODE_REWRITE)).
Proof.
  intros s s' H. unfold ValueVM4.step in H.
  destruct (nth_error prog (v_ip s)) as [i|] eqn:Ei; [|discriminate].
  destruct (r_op i) eqn:Eop; try discriminate;
  repeat match type of H with
         | context [match ?x with _ => _ end] => destruct x eqn:?; try discriminate
         end;
  inversion H; subst; cbn [v_heap mkst];
  try (left; reflexivity);
  try (right; left; eexists; reflexivity);
  try (right; right; do 3 eexists; split; [reflexivity | split; [reflexivity | tauto]]).
Qed.

Lemma step_heap_grows : forall s s', step s = SNext s' -> (length (v_heap s) <= length (v_heap s'))%nat.
Proof.
  intros s s' H. destruct (step_heap_shape s s' H) as [E | [(l & E) | (a & v & i & E & _)]]; rewrite E.
  - lia.
  - rewrite app_length. lia.
  - rewrite list_upd_length. lia.
Qed.

Lemma star_heap_grows : forall s s', star s s' -> (length (v_heap s) <= length (v_heap s'))%nat.
Proof. induction 1 as [s | s s1 s2 Hs _ IH]; [lia|]. apply step_heap_grows in Hs. lia. Qed.

(* C08 (1): captured cells outlive the activation that made them.  No instruction frees or moves a cell:
   the heap never shrinks, a cell changes only as the target of OP_ASS_INT / REWRITE — and the instructions
   that END an activation or drop its slots (RET, RETHROW, SLIDE, CLEAR_STACK) do not touch the heap at all:
   the addresses a closure's vector holds stay valid, with their contents, after the definer returned *)
Theorem C08_cells_outlive_activation : forall s s', step s = SNext s' ->
  (length (v_heap s) <= length (v_heap s'))%nat /\
  (forall a c, nth_error (v_heap s) a = Some c ->
     nth_error (v_heap s') a = Some c \/
     exists i, nth_error prog (v_ip s) = Some i /\
               (r_op i = BYTECODE_OP_ASS_INT \/ r_op i = BYTECODE_REWRITE)) /\
  (forall i, nth_error prog (v_ip s) = Some i ->
     r_op i = BYTECODE_RET \/ r_op i = BYTECODE_RETHROW \/ r_op i = BYTECODE_SLIDE \/
     r_op i = BYTECODE_CLEAR_STACK \/ r_op i = BYTECODE_CALL \/ r_op i = BYTECODE_MARK ->
     v_heap s' = v_heap s).
Proof.
  intros s s' H. split; [apply step_heap_grows; exact H|]. split.
  - intros a c Ha. destruct (step_heap_shape s s' H) as [E | [(l & E) | (a' & v & i & E & Hi & Hop)]].
    + left. rewrite E. exact Ha.
    + left. rewrite E. rewrite nth_error_app1; [exact Ha|]. apply nth_error_Some. congruence.
    + right. exists i. split; assumption.
  - intros i Hi Hop. unfold ValueVM4.step in H. rewrite Hi in H.
    destruct Hop as [E | [E | [E | [E | [E | E]]]]]; rewrite E in H;
    repeat match type of H with
           | context [match ?x with _ => _ end] => destruct x eqn:?; try discriminate
           end;
    inversion H; subst; reflexivity.
Qed.

(* C08 (2): distinct activations have distinct environments.  A closure's vector (and function object) is
   allocated at the END of the heap (closure_run: addresses length h and length h + 1, which did not exist);
   the heap only grows along a run: a vector made later never coincides with one made earlier, nor with any
   cell that existed — e.g. the variables an earlier activation of the definer captured *)
Theorem C08_fresh_environment : forall s1 s2, star s1 s2 ->
  forall v1, (v1 < length (v_heap s1))%nat ->
  v1 <> length (v_heap s2) /\ nth_error (v_heap s2) (length (v_heap s2)) = None.
Proof.
  intros s1 s2 Hst v1 Hv. apply star_heap_grows in Hst. split; [lia|].
  apply nth_error_None. lia.
Qed.

(* C08 (3): a write through a captured variable is visible to every holder.  Holder 1 assigns (ID_GLOBAL i
   under its vector, or ID_LOCAL in the definer — any way to get the address al on the stack — then
   OP_ASS_INT); holder 2 (any vector l2 with l2[j] = al, running later) reads the new payload through
   ID_GLOBAL j: the cell is shared, the vectors hold its address *)
Theorem C08_write_visible_to_holders : forall ip ip2 ar al rest stk2 h o o2 fr fr2 z l2 j,
  nth_error prog ip = Some (ins0 BYTECODE_OP_ASS_INT) ->
  hint h ar = Some z -> (al < length h)%nat ->
  nth_error h (r_gp fr2) = Some (HVec l2) -> nth_error l2 j = Some al -> r_gp fr2 <> al ->
  nth_error prog ip2 = Some (ins BYTECODE_ID_GLOBAL (Z.of_nat j) 0) ->
  let h' := list_upd h al (HInt z) in
  step (mkst ip (ar :: al :: rest) h o fr) = SNext (mkst (S ip) (al :: rest) h' o fr) /\
  step (mkst ip2 stk2 h' o2 fr2) = SNext (mkst (S ip2) (al :: stk2) h' o2 fr2) /\
  hint h' al = Some z.
Proof.
  intros ip ip2 ar al rest stk2 h o o2 fr fr2 z l2 j Hi Hz Hal Hv Hj Hne Hi2 h'. split; [|split].
  - unfold ValueVM4.step. simpl. rewrite Hi. simpl. rewrite Hz.
    replace (Nat.ltb al (length h)) with true by (symmetry; apply Nat.ltb_lt; exact Hal). reflexivity.
  - eapply step_id_global; [exact Hi2 | | exact Hj].
    unfold h'. rewrite nth_error_list_upd_other by congruence. exact Hv.
  - unfold hint, h'. rewrite nth_error_list_upd_same by exact Hal. reflexivity.
Qed.

End C08.
