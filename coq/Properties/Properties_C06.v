(* C06 — ill-typed programs are rejected.
   "A program that violates a static rule of the language is never accepted: assigning to a `let`
    binding or non-`var` parameter, calling with the wrong number or kinds of arguments, using an
    undefined name or attribute, combining incompatible types in an operator, a non-bool condition,
    returning the wrong kind of value, a `match` that omits an enumerator without `else`, or an
    unknown exception name.  Compilation fails and a diagnostic naming the offence is reported at
    the offending line."

   Only statements here; every proof is `exact <lemma>` into Src/TypecheckSpec.v, Src/Mutations.v,
   Src/TypecheckMatch.v.  The model (Src/Types.v, Src/Typecheck.v: tc_program, mirrors
   front/typecheck.c for the core AST of Src/Syntax.v; Src/TypecheckMatch.v: match
   exhaustiveness, exception names, attribute names) is tied to the tree by checks/c06.py: the
   extracted tc_program and the tree's compiler judge the same generated programs and mutants.
   The line of the diagnostic is not part of the model (the AST carries no lines): it is checked
   on the real compiler against the line of the mutated node.

   Quantifier of the property: for all well-typed programs P and all single-fault mutations m of
   the rule catalogue, compile(m(P)) = diagnosed error.  `mutant_rejected` is that statement for
   the model: MutP r P P' ranges over every operator of the catalogue (Mutations.BaseE / BaseI /
   the MF_ret_* cases) applied at every syntactic position (the congruence cases: operands,
   branches, loop bodies, arguments, array elements, block items after any prefix, nested
   functions, lambdas, catch clauses, the catch-all clause).  Catalogue operator -> rule:
     AssignToLet / AssignToParam / AssignToFunc (BI_assign_const), AssignToTemp   RAssignConst
     VarFromConst (BI_var_from_const)                                          RVarInitConst
     AssignType                                                                RAssignType
     WrongArgCount (drop / add), WrongArgKind (literal), print                 RArgs
     WrongArgCount on record constructors                                      RRecordArgs
     NotCallable                                                               RNotCallable
     UndefinedName                                                             RUndefined
     UndefinedAttr (position beyond the record), AttrOnNonRecord               RAttr
     BadOperator (binary arithmetic/comparison/bit/logic operand, unary)       ROperator
     NonBoolCond (?: if while do for)                                          RCond
     BranchMismatch                                                            RBranches
     WrongReturnKind (function body, catch clause)                             RReturn
     BadIndex                                                                  RIndex
   Not covered by a theorem (exercised by the harness only): WrongArgKind with a function-typed
   argument of a near-miss type, ConstToVarParam (a CONST block passed to a var parameter),
   ArrayElemKind, WrongArgKind on record constructors, Redefine, BadOperator on == / !=. *)
From Coq Require Import NArith ZArith List Bool.
From NV Require Import Src.Syntax Src.Types Src.Typecheck Src.TypecheckSpec Src.Mutations
  Src.TypecheckMatch.
Import ListNotations.

(* ---- the checker accepts exactly the well-typed programs ---------------------------------------- *)

(* a program accepted by the model checker satisfies every rule of the declarative judgment
   (TypecheckSpec.HasType / ItemsOk / FunOk): no rule violation is ever accepted *)
Theorem typecheck_sound : forall p, tc_program p = OK -> WellTyped p.
Proof. exact TypecheckSpec.typecheck_sound. Qed.
Print Assumptions typecheck_sound.

Theorem typecheck_complete : forall p, WellTyped p -> tc_program p = OK.
Proof. exact TypecheckSpec.typecheck_complete. Qed.
Print Assumptions typecheck_complete.

(* ---- every single-fault mutant is rejected with the rule of the operator ------------------------ *)

Theorem mutant_rejected : forall r p p', WellTyped p -> MutP r p p' -> tc_program p' = Error r.
Proof. exact Mutations.mutant_rejected. Qed.
Print Assumptions mutant_rejected.

(* the same at the level of one expression / item list / function in any environment: the fault
   may sit arbitrarily deep *)
Theorem mutant_rejected_at_depth : forall R,
  (forall r G e e', MutE R r G e e' -> forall b, tc_expr R G e = Ok b -> tc_expr R G e' = Err r) /\
  (forall r G inrun last l l', MutI R r G inrun last l l' ->
     forall b, tc_items (tc_expr R) (tc_fdef R) G inrun last l = Ok b ->
               tc_items (tc_expr R) (tc_fdef R) G inrun last l' = Err r) /\
  (forall r G lam fd fd', MutF R r G lam fd fd' ->
     tc_fdef R G lam fd = Ok tt -> tc_fdef R G lam fd' = Err r).
Proof. exact Mutations.mut_rejected_all. Qed.
Print Assumptions mutant_rejected_at_depth.

(* constness: assigning to any name visible at the site whose constness is not VAR (a let name,
   a non-var parameter, a function name, of this or of an enclosing function) is rejected *)
Theorem assign_to_const_rejected : forall R G x t k inrun last rest,
  lookup x G = Some (t, k) -> k <> KVar ->
  tc_items (tc_expr R) (tc_fdef R) G inrun last (IExpr (EAssign (EVar x) (EVar x)) :: rest) = Err RAssignConst.
Proof. exact Mutations.assign_to_const_rejected. Qed.
Print Assumptions assign_to_const_rejected.

(* ---- surface rules -------------------------------------------------------------------------------- *)

Theorem match_check_sound : forall n arms,
  match_check n arms = OK -> existsb is_else arms = true \/ forall k, k < n -> In (GItem k) arms.
Proof. exact TypecheckMatch.match_check_sound. Qed.
Print Assumptions match_check_sound.

(* a `match` without else that omits an enumerator is rejected *)
Theorem match_omitting_enumerator_rejected : forall n arms k,
  match_check n arms = OK -> existsb is_else arms = false -> k < n ->
  match_check n (drop_enumerator k arms) = Error RMatch.
Proof. exact TypecheckMatch.match_drop_rejected. Qed.
Print Assumptions match_omitting_enumerator_rejected.

Theorem unknown_exception_rejected : forall k, length exn_table <= k -> catch_name_check k = Error RException.
Proof. exact TypecheckMatch.unknown_exception_rejected. Qed.
Print Assumptions unknown_exception_rejected.

Theorem unknown_attribute_rejected : forall names a, ~ In a names -> attr_check names a = Err RAttr.
Proof. exact TypecheckMatch.unknown_attribute_rejected. Qed.
Print Assumptions unknown_attribute_rejected.

(* ---- the hypotheses are satisfiable ---------------------------------------------------------------- *)
Local Open Scope N_scope.

(*  func f(a : int, var b : int) -> int       (idents: f=1 a=2 b=3 x=4 g=5, main=0)
    {
        let x = a + 1;
        let g = let func () -> int { while (b < x) { b = b + x }; x };
        g()
    }
    func main() -> int { f(1, 2) }                                                            *)
Definition ex_lambda : fdef :=
  FDef 6 [] TInt
       [IExpr (EWhile (EBin Lt (EVar 3) (EVar 4)) (EBlock [IExpr (EAssign (EVar 3) (EBin Add (EVar 3) (EVar 4)))]));
        IExpr (EVar 4)] [] None.
Definition ex_f (lam : fdef) : fdef :=
  FDef 1 [(2, false, TInt); (3, true, TInt)] TInt
       [ILet 4 (EBin Add (EVar 2) (EInt 1)); ILet 5 (ELambda lam); IExpr (ECall (EVar 5) [])] [] None.
Definition ex_main : fdef := FDef 0 [] TInt [IExpr (ECall (EVar 1) [EInt 1; EInt 2])] [] None.
Definition ex_prog (lam : fdef) : program := {| p_recs := []; p_funcs := [ex_f lam; ex_main]; p_main := 0 |}.

Example ex_accepted : tc_program (ex_prog ex_lambda) = OK.
Proof. vm_compute. reflexivity. Qed.

Example ex_well_typed : WellTyped (ex_prog ex_lambda).
Proof. apply typecheck_sound. exact ex_accepted. Qed.

(* the mutant: `x = x` (x is a let of the enclosing function, captured by the closure) inserted in
   the body of the loop inside the lambda *)
Definition ex_lambda_mut : fdef :=
  FDef 6 [] TInt
       [IExpr (EWhile (EBin Lt (EVar 3) (EVar 4))
                      (EBlock [IExpr (EAssign (EVar 4) (EVar 4));
                               IExpr (EAssign (EVar 3) (EBin Add (EVar 3) (EVar 4)))]));
        IExpr (EVar 4)] [] None.

Example ex_mutant_applies : MutP RAssignConst (ex_prog ex_lambda) (ex_prog ex_lambda_mut).
Proof.
  eapply (MP RAssignConst (ex_prog ex_lambda) [] (ex_f ex_lambda) (ex_f ex_lambda_mut) [ex_main]);
    [reflexivity | reflexivity | vm_compute; reflexivity |].
  eapply MF_body; [vm_compute; reflexivity|].
  eapply MI_let_skip; [vm_compute; reflexivity | vm_compute; reflexivity |].
  eapply MI_let_here. apply ME_lambda.
  eapply MF_body; [vm_compute; reflexivity|].
  eapply MI_expr_here. apply ME_while_b. apply ME_block.
  eapply MI_insert. eapply BI_assign_const; [vm_compute; reflexivity | discriminate].
Qed.

Example ex_mutant_rejected : tc_program (ex_prog ex_lambda_mut) = Error RAssignConst.
Proof. exact (mutant_rejected _ _ _ ex_well_typed ex_mutant_applies). Qed.

Example ex_mutant_rejected_computed : tc_program (ex_prog ex_lambda_mut) = Error RAssignConst.
Proof. vm_compute. reflexivity. Qed.

Example ex_match : match_check 3 [GItem 2; GItem 0; GItem 1] = OK /\
                   match_check 3 (drop_enumerator 1 [GItem 2; GItem 0; GItem 1]) = Error RMatch /\
                   match_check 3 [GItem 2; GElse] = OK.
Proof. repeat split. Qed.
