(* Proofs about the library handle cache model DlCacheModel.v (no axioms).

   The cache refines an association map (first binding wins): for EVERY hash function, every
   initial size >= 1, every sequence of dlcache_get_handle / dlcache_lookup operations of any
   length, the model never aborts (the give-up branches are unreachable) and returns exactly what
   the association list returns (dlcache_refines_map).  Consequences: a cached name keeps the
   handle stored when it was added (handle_stable), a miss followed by a successful dlopen caches
   that handle (get_handle_caches), a name never added is not found (never_added_not_found),
   count = occupied slots <= size*3/4 < size in every reachable state (reachable_inv), resize
   preserves the map (resize_preserves_map, entry_resize_preserves_map).

   Direct use of dlcache_add_dl with duplicate names: every pair lands in the table and a lookup
   returns *one of* the handles added under that name (add_dl_sequences); "the first one wins" is
   FALSE once the table grows (dup_first_wins_refuted, a vm_compute witness with the real hash).
   dlcache_new(0) divides by zero (dlcache_new_size0_refuted). *)
From Coq Require Import List Arith NArith Bool Lia Permutation.
From NV Require Import Hash.OpenTabModel Hash.OpenTabProofs Hash.DlCacheModel.
Import ListNotations.

Section DlCacheProofs.
  Variable name : Type.
  Variable name_eqb : name -> name -> bool.
  Variable hash : name -> N.
  Variable V : Type.
  Hypothesis name_eqb_spec : forall a b, name_eqb a b = true <-> a = b.

  Notation dlcache := (dlcache name V).
  Notation contents := (contents name V).
  Notation nocc := (nocc name V).
  Notation slot_at := (slot_at name V).
  Notation tab_inv := (tab_inv name hash V).
  Notation dlcache_new := (dlcache_new name name_eqb hash V).
  Notation dlcache_add_dl := (dlcache_add_dl name name_eqb hash V).
  Notation dlcache_lookup := (dlcache_lookup name name_eqb hash V).
  Notation dlcache_resize := (dlcache_resize name name_eqb hash V).
  Notation dlcache_get_handle := (dlcache_get_handle name name_eqb hash V).
  Notation tab_lookup := (tab_lookup name name_eqb hash V).
  Notation step := (step name name_eqb hash V).
  Notation run := (run name name_eqb hash V).
  Notation run_adds := (run_adds name name_eqb hash V).
  Notation afind := (afind name name_eqb V).
  Notation astep := (astep name name_eqb V).
  Notation arun := (arun name name_eqb V).
  Notation op := (op name V).
  Notation amap := (amap name V).

  (* ---- association lists ---------------------------------------------------------------------- *)
  Lemma name_eqb_refl : forall a, name_eqb a a = true.
  Proof. intros. apply name_eqb_spec. reflexivity. Qed.

  Lemma afind_Some_In : forall (m : amap) n v, afind m n = Some v -> In (n, v) m.
  Proof.
    induction m as [|[k h] t IH]; simpl; intros n v H; [discriminate|].
    destruct (name_eqb k n) eqn:E.
    - apply name_eqb_spec in E. injection H as ->. left. congruence.
    - right. apply IH. assumption.
  Qed.

  Lemma afind_None_notin : forall (m : amap) n, afind m n = None -> ~ In n (map fst m).
  Proof.
    induction m as [|[k h] t IH]; simpl; intros n H; [tauto|].
    destruct (name_eqb k n) eqn:E; [discriminate|].
    intros [F|F].
    - subst. rewrite name_eqb_refl in E. discriminate.
    - eapply IH; eassumption.
  Qed.

  Lemma notin_afind_None : forall (m : amap) n, ~ In n (map fst m) -> afind m n = None.
  Proof.
    intros m n H. destruct (afind m n) eqn:E; [|reflexivity].
    exfalso. apply H. apply afind_Some_In in E. apply (in_map fst) in E. assumption.
  Qed.

  Lemma In_afind_Some : forall (m : amap) n v, NoDup (map fst m) -> In (n, v) m -> afind m n = Some v.
  Proof.
    induction m as [|[k h] t IH]; simpl; intros n v Hnd Hin; [tauto|].
    inversion Hnd as [|x l Hx Hnd']; subst.
    destruct Hin as [Hin|Hin].
    - injection Hin as -> ->. rewrite name_eqb_refl. reflexivity.
    - destruct (name_eqb k n) eqn:E.
      + apply name_eqb_spec in E. subst. exfalso. apply Hx. apply (in_map fst) in Hin. assumption.
      + apply IH; assumption.
  Qed.

  Lemma afind_app_keep : forall (m : amap) n v x, afind m n = Some v -> afind (m ++ x) n = Some v.
  Proof.
    induction m as [|[k h] t IH]; simpl; intros n v x H; [discriminate|].
    destruct (name_eqb k n); [assumption|]. apply IH. assumption.
  Qed.

  Lemma afind_app_new : forall (m : amap) n v, afind m n = None -> afind (m ++ [(n, v)]) n = Some v.
  Proof.
    induction m as [|[k h] t IH]; simpl; intros n v H.
    - rewrite name_eqb_refl. reflexivity.
    - destruct (name_eqb k n); [discriminate|]. apply IH. assumption.
  Qed.

  Lemma afind_app_other : forall (m : amap) n k v, name_eqb k n = false -> afind (m ++ [(k, v)]) n = afind m n.
  Proof.
    induction m as [|[k' h] t IH]; simpl; intros n k v H.
    - rewrite H. reflexivity.
    - destruct (name_eqb k' n); [reflexivity|]. apply IH. assumption.
  Qed.

  (* ---- the refinement relation -------------------------------------------------------------------- *)
  Definition refines (c : dlcache) (m : amap) : Prop :=
    tab_inv c /\ NoDup (map fst m) /\ Permutation (contents (t_entries c)) m.

  (* what a lookup needs: not full, probe chains intact *)
  Definition tab_wf (c : dlcache) : Prop :=
    0 < t_size c /\ length (t_entries c) = t_size c /\
    chain name hash V (t_entries c) (t_size c) /\ nocc (t_entries c) < t_size c.

  Lemma tab_inv_wf : forall c : dlcache, tab_inv c -> tab_wf c.
  Proof.
    intros c Hinv. pose proof (tab_inv_not_full name hash V c Hinv) as Hfree.
    destruct Hinv as [Hsz [Hlen [Hch _]]]. repeat split; assumption.
  Qed.

  Lemma present_lookup : forall (c : dlcache) n v,
      tab_wf c -> In (n, v) (contents (t_entries c)) ->
      exists i v', tab_lookup c n = Hit i /\ slot_at (t_entries c) i = Some (n, v') /\
                   In (n, v') (contents (t_entries c)).
  Proof.
    intros c n v [Hsz [Hlen [Hch _]]] Hin.
    apply (proj1 (In_contents name V _ _)) in Hin. destruct Hin as [i Hi].
    destruct (lookup_present name name_eqb hash V name_eqb_spec (t_entries c) (t_size c) i n v Hsz Hlen Hch Hi)
      as [i' [v' [Hl Hs]]].
    exists i', v'. split; [assumption|]. split; [assumption|].
    apply (proj2 (In_contents name V _ _)). exists i'. assumption.
  Qed.

  Lemma absent_lookup : forall (c : dlcache) n,
      tab_wf c -> ~ In n (map fst (contents (t_entries c))) -> tab_lookup c n = Miss.
  Proof.
    intros c n [Hsz [Hlen [_ Hfree]]] Hn.
    apply (lookup_absent name name_eqb hash V name_eqb_spec); try assumption.
    intros i v Hs. apply Hn. apply (in_map fst (contents (t_entries c)) (n, v)).
    apply (proj2 (In_contents name V _ _)). exists i. assumption.
  Qed.

  Lemma lookup_refines_wf : forall (c : dlcache) (m : amap) n,
      tab_wf c -> NoDup (map fst m) -> Permutation (contents (t_entries c)) m ->
      dlcache_lookup c n = afind m n.
  Proof.
    intros c m n Hinv Hnd Hp.
    unfold DlCacheModel.dlcache_lookup, OpenTabModel.tab_lookup_val, OpenTabModel.lookup_val.
    destruct (afind m n) as [v|] eqn:E.
    - apply afind_Some_In in E.
      destruct (present_lookup c n v Hinv) as [i [v' [Hl [Hs Hin]]]].
      { eapply Permutation_in; [apply Permutation_sym; exact Hp|assumption]. }
      unfold OpenTabModel.tab_lookup in Hl. rewrite Hl, Hs.
      assert (afind m n = Some v') as E'.
      { apply In_afind_Some; [assumption|]. eapply Permutation_in; eassumption. }
      assert (afind m n = Some v) as E'' by (apply In_afind_Some; assumption).
      congruence.
    - apply afind_None_notin in E.
      assert (tab_lookup c n = Miss) as Hl.
      { apply absent_lookup; [assumption|]. intros F. apply E.
        eapply Permutation_in; [apply Permutation_map; exact Hp|assumption]. }
      unfold OpenTabModel.tab_lookup in Hl. rewrite Hl. reflexivity.
  Qed.

  Lemma lookup_refines : forall (c : dlcache) (m : amap) n,
      refines c m -> dlcache_lookup c n = afind m n.
  Proof.
    intros c m n [Hinv [Hnd Hp]]. apply lookup_refines_wf; try assumption. apply tab_inv_wf. assumption.
  Qed.

  Lemma refines_add : forall (c : dlcache) (m : amap) n h,
      refines c m -> afind m n = None ->
      exists c', dlcache_add_dl c n h = Ok c' /\ refines c' (m ++ [(n, h)]).
  Proof.
    intros c m n h [Hinv [Hnd Hp]] Hnone.
    destruct (tab_add_ok name name_eqb hash V c n h Hinv) as [c' [Ha [Hinv' [Hp' _]]]].
    exists c'. split; [exact Ha|]. split; [assumption|]. split.
    - apply (Permutation_NoDup (l := map fst ((n, h) :: m))).
      + apply Permutation_map. apply Permutation_cons_append.
      + simpl. constructor; [apply afind_None_notin; assumption|assumption].
    - eapply perm_trans; [exact Hp'|].
      eapply perm_trans; [apply perm_skip; exact Hp|]. apply Permutation_cons_append.
  Qed.

  Lemma step_sim : forall (c : dlcache) (m : amap) o,
      refines c m ->
      exists c', step c o = Ok (c', snd (astep m o)) /\ refines c' (fst (astep m o)).
  Proof.
    intros c m [n dl|n] Href; simpl.
    - pose proof (lookup_refines c m n Href) as Hl.
      unfold DlCacheModel.dlcache_lookup, OpenTabModel.tab_lookup_val, OpenTabModel.lookup_val in Hl.
      unfold DlCacheModel.dlcache_get_handle, OpenTabModel.tab_lookup.
      destruct Href as [Hinv [Hnd Hp]].
      destruct (afind m n) as [v|] eqn:E.
      + apply afind_Some_In in E.
        destruct (present_lookup c n v (tab_inv_wf c Hinv)) as [i [v' [Hh [Hs _]]]].
        { eapply Permutation_in; [apply Permutation_sym; exact Hp|assumption]. }
        unfold OpenTabModel.tab_lookup in Hh. rewrite Hh in *. rewrite Hs in *.
        exists c. simpl. split; [congruence|]. split; [assumption|split; assumption].
      + assert (tab_lookup c n = Miss) as Hm.
        { apply absent_lookup; [apply tab_inv_wf; assumption|]. intros F. apply afind_None_notin in E. apply E.
          eapply Permutation_in; [apply Permutation_map; exact Hp|assumption]. }
        unfold OpenTabModel.tab_lookup in Hm. rewrite Hm.
        destruct dl as [h|]; simpl.
        * destruct (refines_add c m n h) as [c' [Ha Hr]]; [split; [assumption|split; assumption]|assumption|].
          rewrite Ha. exists c'. split; [reflexivity|assumption].
        * exists c. split; [reflexivity|]. split; [assumption|split; assumption].
    - exists c. split; [|assumption]. rewrite (lookup_refines c m n Href). reflexivity.
  Qed.

  Lemma run_sim : forall ops (c : dlcache) (m : amap),
      refines c m ->
      exists c', run c ops = Ok (c', snd (arun m ops)) /\ refines c' (fst (arun m ops)).
  Proof.
    induction ops as [|o rest IH]; intros c m Href; simpl.
    - exists c. split; [reflexivity|assumption].
    - destruct (step_sim c m o Href) as [c1 [Hs Hr1]]. rewrite Hs.
      destruct (astep m o) as [m1 r] eqn:Ea. simpl in *.
      destruct (IH c1 m1 Hr1) as [c2 [Hrun Hr2]]. rewrite Hrun.
      destruct (arun m1 rest) as [m2 rs] eqn:Er. simpl in *.
      exists c2. split; [reflexivity|assumption].
  Qed.

  Lemma new_refines : forall size host,
      1 <= size -> exists c, dlcache_new size host = Ok c /\ refines c (amap_of_host name V host).
  Proof.
    intros size host Hsz. unfold DlCacheModel.dlcache_new.
    assert (refines (mk_tab size 0 (entry_new name V size)) []) as H0.
    { split; [apply tab_inv_new; lia|]. split; [constructor|]. simpl.
      rewrite contents_entry_new. constructor. }
    destruct host as [[n h]|]; simpl.
    - destruct (refines_add _ [] n h H0 eq_refl) as [c [Ha Hr]]. exists c. split; assumption.
    - eexists. split; [reflexivity|assumption].
  Qed.

  (* ---- the theorems ------------------------------------------------------------------------------- *)
  (* every sequence of get_handle / lookup operations, of any length, from dlcache_new(size >= 1) *)
  Theorem dlcache_refines_map : forall size host ops,
      1 <= size ->
      exists c0 c,
        dlcache_new size host = Ok c0 /\
        run c0 ops = Ok (c, snd (arun (amap_of_host name V host) ops)) /\
        forall n, dlcache_lookup c n = afind (fst (arun (amap_of_host name V host) ops)) n.
  Proof.
    intros size host ops Hsz.
    destruct (new_refines size host Hsz) as [c0 [Hn Hr0]].
    destruct (run_sim ops c0 _ Hr0) as [c [Hrun Hr]].
    exists c0, c. repeat split; try assumption.
    intros n. apply lookup_refines. assumption.
  Qed.

  Definition reachable (c : dlcache) : Prop :=
    exists size host ops c0 rs, 1 <= size /\ dlcache_new size host = Ok c0 /\ run c0 ops = Ok (c, rs).

  Lemma reachable_refines : forall c, reachable c -> exists m, refines c m.
  Proof.
    intros c [size [host [ops [c0 [rs [Hsz [Hn Hrun]]]]]]].
    destruct (new_refines size host Hsz) as [c0' [Hn' Hr0]].
    rewrite Hn in Hn'. injection Hn' as <-.
    destruct (run_sim ops c0 _ Hr0) as [c' [Hrun' Hr]].
    rewrite Hrun in Hrun'. injection Hrun' as <- _.
    eexists. eassumption.
  Qed.

  Lemma run_app : forall ops1 ops2 (c c1 c2 : dlcache) rs1 rs2,
      run c ops1 = Ok (c1, rs1) -> run c1 ops2 = Ok (c2, rs2) -> run c (ops1 ++ ops2) = Ok (c2, rs1 ++ rs2).
  Proof.
    induction ops1 as [|o rest IH]; simpl; intros ops2 c c1 c2 rs1 rs2 H1 H2.
    - injection H1 as <- <-. assumption.
    - destruct (step c o) as [[c' r]| | |]; try discriminate.
      destruct (run c' rest) as [[c'' rs]| | |] eqn:E; try discriminate.
      injection H1 as <- <-. rewrite (IH ops2 c' c'' c2 rs rs2 E H2). reflexivity.
  Qed.

  (* the give-up branches (assert(0) in add, `return NULL` after size+1 probes in lookup) and the
     division by zero are unreachable: every operation on a reachable cache succeeds *)
  Theorem reachable_step_total : forall c o,
      reachable c -> exists c' r, step c o = Ok (c', r) /\ reachable c'.
  Proof.
    intros c o Hreach. destruct (reachable_refines c Hreach) as [m Hr].
    destruct (step_sim c m o Hr) as [c' [Hs _]].
    exists c', (snd (astep m o)). split; [assumption|].
    destruct Hreach as [size [host [ops [c0 [rs [Hsz [Hn Hrun]]]]]]].
    exists size, host, (ops ++ [o]), c0, (rs ++ [snd (astep m o)]). repeat split; try assumption.
    eapply run_app; [eassumption|]. simpl. rewrite Hs. reflexivity.
  Qed.

  Theorem lookup_never_gives_up : forall c n,
      reachable c ->
      tab_lookup c n = Miss \/ exists i h, tab_lookup c n = Hit i /\ slot_at (t_entries c) i = Some (n, h).
  Proof.
    intros c n Hreach. destruct (reachable_refines c Hreach) as [m [Hinv _]].
    pose proof (tab_inv_not_full name hash V c Hinv) as Hfree.
    destruct Hinv as [Hsz [Hlen _]].
    destruct (lookup_total name name_eqb hash V name_eqb_spec (t_entries c) (t_size c) n Hsz Hlen Hfree)
      as [H|[i [k [v [Hl [Hs Hk]]]]]].
    - left. assumption.
    - right. subst k. exists i, v. split; assumption.
  Qed.

  Theorem add_never_gives_up : forall c n h,
      reachable c -> exists es, entry_add name name_eqb hash V false (t_entries c) (t_size c) n h = AddOk es.
  Proof.
    intros c n h Hreach. destruct (reachable_refines c Hreach) as [m [Hinv _]].
    pose proof (tab_inv_not_full name hash V c Hinv) as Hfree.
    destruct Hinv as [Hsz [Hlen _]].
    destruct (add_blind_ok name name_eqb hash V (t_entries c) (t_size c) n h Hsz Hlen Hfree) as [k [_ [_ [_ Ha]]]].
    eexists. exact Ha.
  Qed.

  (* count = number of occupied slots <= size*3/4 < size, whenever an operation starts *)
  Theorem reachable_inv : forall c,
      reachable c ->
      1 <= t_size c /\ length (t_entries c) = t_size c /\
      t_count c = nocc (t_entries c) /\ t_count c <= t_size c * 3 / 4 /\ t_size c * 3 / 4 < t_size c.
  Proof.
    intros c Hreach. destruct (reachable_refines c Hreach) as [m [[Hsz [Hlen [_ [Hc Hle]]]] _]].
    repeat split; try assumption. apply three_quarters_lt. assumption.
  Qed.

  (* a miss followed by a successful dlopen caches exactly that handle *)
  Theorem get_handle_caches : forall c n h,
      reachable c -> dlcache_lookup c n = None ->
      exists c', dlcache_get_handle c n (Some h) = Ok (c', Some h) /\ dlcache_lookup c' n = Some h /\ reachable c'.
  Proof.
    intros c n h Hreach Hnone. destruct (reachable_refines c Hreach) as [m Hr].
    destruct (step_sim c m (OGet n (Some h)) Hr) as [c' [Hs Hr']].
    rewrite (lookup_refines c m n Hr) in Hnone. simpl in Hs, Hr'. rewrite Hnone in Hs, Hr'. simpl in Hs, Hr'.
    exists c'. split; [assumption|]. split.
    - rewrite (lookup_refines c' _ n Hr'). apply afind_app_new. assumption.
    - destruct (reachable_step_total c (OGet n (Some h)) Hreach) as [c'' [r [Hs' Hreach']]].
      simpl in Hs'. rewrite Hs in Hs'. injection Hs' as <- _. assumption.
  Qed.

  (* a failing dlopen caches nothing *)
  Theorem get_handle_failed_dlopen : forall c n,
      reachable c -> dlcache_lookup c n = None -> dlcache_get_handle c n None = Ok (c, None).
  Proof.
    intros c n Hreach Hnone. destruct (reachable_refines c Hreach) as [m Hr].
    destruct (step_sim c m (OGet n None) Hr) as [c' [Hs Hr']].
    rewrite (lookup_refines c m n Hr) in Hnone. simpl in Hs. rewrite Hnone in Hs. simpl in Hs.
    unfold DlCacheModel.dlcache_get_handle in *.
    destruct (OpenTabModel.tab_lookup name name_eqb hash V c n); try discriminate; try assumption.
    - injection Hs as <- Hx. rewrite Hx. reflexivity.
    - reflexivity.
    - reflexivity.
  Qed.

  Lemma astep_keeps : forall (m : amap) o n h, afind m n = Some h -> afind (fst (astep m o)) n = Some h.
  Proof.
    intros m [k dl|k] n h H; simpl; [|assumption].
    destruct (afind m k) eqn:E; simpl; [assumption|].
    destruct dl; simpl; [|assumption]. apply afind_app_keep. assumption.
  Qed.

  Lemma arun_keeps : forall ops (m : amap) n h, afind m n = Some h -> afind (fst (arun m ops)) n = Some h.
  Proof.
    induction ops as [|o rest IH]; simpl; intros m n h H; [assumption|].
    pose proof (astep_keeps m o n h H) as H1.
    destruct (astep m o) as [m1 r]. destruct (arun m1 rest) as [m2 rs] eqn:E. simpl in *.
    specialize (IH m1 n h H1). rewrite E in IH. assumption.
  Qed.

  (* once a name yields a handle it yields the same handle after any further operations (growth
     of the table included): the handle stored when the name was first added *)
  Theorem handle_stable : forall c n h ops,
      reachable c -> dlcache_lookup c n = Some h ->
      exists c' rs, run c ops = Ok (c', rs) /\ dlcache_lookup c' n = Some h.
  Proof.
    intros c n h ops Hreach Hl. destruct (reachable_refines c Hreach) as [m Hr].
    destruct (run_sim ops c m Hr) as [c' [Hrun Hr']].
    exists c', (snd (arun m ops)). split; [assumption|].
    rewrite (lookup_refines c' _ n Hr'). apply arun_keeps.
    rewrite <- (lookup_refines c m n Hr). assumption.
  Qed.

  Lemma arun_absent : forall ops (m : amap) n,
      afind m n = None -> ~ In n (added_names name V ops) -> afind (fst (arun m ops)) n = None.
  Proof.
    induction ops as [|o rest IH]; simpl; intros m n H Hn; [assumption|].
    assert (afind (fst (astep m o)) n = None /\ ~ In n (added_names name V rest)) as [H1 Hn1].
    { destruct o as [k dl|k]; simpl in *; [|split; assumption].
      destruct (afind m k) eqn:E; simpl.
      - split; [assumption|]. destruct dl; [simpl in Hn; tauto|assumption].
      - destruct dl as [v|]; simpl in *; [|split; assumption].
        split; [|tauto]. rewrite afind_app_other; [assumption|].
        destruct (name_eqb k n) eqn:F; [|reflexivity]. apply name_eqb_spec in F. tauto. }
    destruct (astep m o) as [m1 r]. destruct (arun m1 rest) as [m2 rs] eqn:E. simpl in *.
    specialize (IH m1 n H1 Hn1). rewrite E in IH. assumption.
  Qed.

  (* a name that is neither the host entry nor the subject of a successful get_handle is not found *)
  Theorem never_added_not_found : forall size host ops c0 c rs n,
      1 <= size -> dlcache_new size host = Ok c0 -> run c0 ops = Ok (c, rs) ->
      (forall h, host <> Some (n, h)) -> ~ In n (added_names name V ops) ->
      dlcache_lookup c n = None.
  Proof.
    intros size host ops c0 c rs n Hsz Hn Hrun Hhost Hnot.
    destruct (dlcache_refines_map size host ops Hsz) as [c0' [c' [Hn' [Hrun' Hl]]]].
    rewrite Hn in Hn'. injection Hn' as <-. rewrite Hrun in Hrun'. injection Hrun' as <- _.
    rewrite Hl. apply arun_absent; [|assumption].
    destruct host as [[k h]|]; simpl; [|reflexivity].
    destruct (name_eqb k n) eqn:E; [|reflexivity].
    apply name_eqb_spec in E. subst. exfalso. apply (Hhost h). reflexivity.
  Qed.

  (* ---- resize preserves the map (the lemma a wrong field in the rehash loop breaks) ------------------- *)
  Theorem entry_resize_preserves_map : forall (old : entries name V) size',
      nocc old < size' ->
      exists new,
        entry_resize name name_eqb hash V false old (entry_new name V size') size' = AddOk new /\
        length new = size' /\
        Permutation (contents new) (contents old) /\
        (NoDup (map fst (contents old)) ->
         forall n, lookup_val name name_eqb hash V new size' n = afind (contents old) n).
  Proof.
    intros old size' Hfree.
    assert (0 < size') as Hsz by lia.
    destruct (entry_resize_ok name name_eqb hash V old (entry_new name V size') size') as [new [Hr [Hl [Hc Hp]]]];
      try assumption.
    - apply length_entry_new.
    - apply chain_entry_new.
    - unfold OpenTabModel.nocc at 1. rewrite contents_entry_new. simpl. assumption.
    - rewrite contents_entry_new, app_nil_r in Hp.
      exists new. repeat split; try assumption.
      intros Hnd n.
      change (lookup_val name name_eqb hash V new size' n)
        with (dlcache_lookup (mk_tab size' (nocc new) new) n).
      apply lookup_refines_wf; cbn [t_size t_count t_entries]; try assumption.
      repeat split; cbn [t_size t_count t_entries]; try assumption.
      unfold OpenTabModel.nocc in *. rewrite (Permutation_length Hp). assumption.
  Qed.

  Theorem dlcache_resize_preserves_map : forall c : dlcache,
      0 < t_size c -> length (t_entries c) = t_size c ->
      exists c',
        dlcache_resize c = Ok c' /\
        Permutation (contents (t_entries c')) (contents (t_entries c)) /\
        t_count c' = t_count c /\
        (t_size c * 3 / 4 < t_count c ->
         t_size c' = t_size c * 2 /\
         (NoDup (map fst (contents (t_entries c))) ->
          forall n, dlcache_lookup c' n = afind (contents (t_entries c)) n)) /\
        (t_count c <= t_size c * 3 / 4 -> c' = c).
  Proof.
    intros c Hsz Hlen. unfold DlCacheModel.dlcache_resize, OpenTabModel.tab_resize.
    destruct (t_size c * 3 / 4 <? t_count c) eqn:E.
    - apply Nat.ltb_lt in E.
      destruct (entry_resize_preserves_map (t_entries c) (t_size c * 2)) as [new [Hr [Hl [Hp Hlk]]]].
      { pose proof (nocc_le_length name V (t_entries c)). lia. }
      rewrite Hr. eexists. split; [reflexivity|]. cbn [t_size t_count t_entries].
      split; [assumption|]. split; [reflexivity|]. split.
      + intros _. split; [reflexivity|]. intros Hnd n. apply Hlk. assumption.
      + intros F. lia.
    - apply Nat.ltb_ge in E. exists c. split; [reflexivity|]. split; [apply Permutation_refl|].
      split; [reflexivity|]. split; [intros F; lia|reflexivity].
  Qed.

  (* ---- dlcache_add_dl used directly, duplicate names allowed ---------------------------------------- *)
  Lemma run_adds_ok : forall l (c : dlcache),
      tab_inv c ->
      exists c', run_adds c l = Ok c' /\ tab_inv c' /\
                 Permutation (contents (t_entries c')) (contents (t_entries c) ++ l).
  Proof.
    induction l as [|[n h] t IH]; intros c Hinv; simpl.
    - exists c. rewrite app_nil_r. split; [reflexivity|]. split; [assumption|apply Permutation_refl].
    - destruct (tab_add_ok name name_eqb hash V c n h Hinv) as [c1 [Ha [Hinv1 [Hp1 _]]]].
      unfold DlCacheModel.dlcache_add_dl. rewrite Ha.
      destruct (IH c1 Hinv1) as [c' [Hr [Hinv' Hp']]].
      exists c'. split; [assumption|]. split; [assumption|].
      eapply perm_trans; [exact Hp'|].
      eapply perm_trans; [apply Permutation_app_tail; exact Hp1|].
      simpl. apply Permutation_middle.
  Qed.

  Lemma lookup_some_pair : forall (c : dlcache) n,
      tab_wf c ->
      match dlcache_lookup c n with
      | Some h => In (n, h) (contents (t_entries c))
      | None => ~ In n (map fst (contents (t_entries c)))
      end.
  Proof.
    intros c n Hwf. pose proof Hwf as [Hsz [Hlen [Hch Hfree]]].
    unfold DlCacheModel.dlcache_lookup, OpenTabModel.tab_lookup_val, OpenTabModel.lookup_val.
    destruct (lookup_total name name_eqb hash V name_eqb_spec (t_entries c) (t_size c) n Hsz Hlen Hfree)
      as [H|[i [k [v [Hl [Hs Hk]]]]]].
    - rewrite H. intros F. apply in_map_iff in F. destruct F as [[k v] [Hk Hin]]. simpl in Hk. subst k.
      destruct (present_lookup c n v Hwf Hin) as [i [v' [Hh _]]].
      unfold OpenTabModel.tab_lookup in Hh. congruence.
    - rewrite Hl, Hs. subst k. apply (proj2 (In_contents name V _ _)). exists i. assumption.
  Qed.

  (* every pair is stored; a lookup yields ONE OF the handles added under the name (which one: see
     dup_first_wins_refuted in the instance below); the invariant and the absence of give-ups hold *)
  Theorem add_dl_sequences : forall size host l,
      1 <= size ->
      exists c0 c,
        dlcache_new size host = Ok c0 /\ run_adds c0 l = Ok c /\
        Permutation (contents (t_entries c)) (amap_of_host name V host ++ l) /\
        t_count c = length (amap_of_host name V host ++ l) /\
        t_count c <= t_size c * 3 / 4 /\
        forall n, match dlcache_lookup c n with
                  | Some h => In (n, h) (amap_of_host name V host ++ l)
                  | None => ~ In n (map fst (amap_of_host name V host ++ l))
                  end.
  Proof.
    intros size host l Hsz.
    destruct (new_refines size host Hsz) as [c0 [Hn [Hinv0 [_ Hp0]]]].
    destruct (run_adds_ok l c0 Hinv0) as [c [Hr [Hinv Hp]]].
    assert (Permutation (contents (t_entries c)) (amap_of_host name V host ++ l)) as HP.
    { eapply perm_trans; [exact Hp|]. apply Permutation_app_tail. assumption. }
    exists c0, c. split; [assumption|]. split; [assumption|]. split; [assumption|].
    pose proof Hinv as [_ [_ [_ [Hc Hle]]]].
    split; [rewrite Hc; unfold OpenTabModel.nocc; apply Permutation_length; assumption|].
    split; [assumption|].
    intros n. pose proof (lookup_some_pair c n (tab_inv_wf c Hinv)) as H.
    destruct (dlcache_lookup c n) as [h|].
    - eapply Permutation_in; eassumption.
    - intros F. apply H. eapply Permutation_in; [apply Permutation_map; apply Permutation_sym; exact HP|assumption].
  Qed.

  (* distinct names: the table is exactly the association list of the pairs added *)
  Theorem adds_distinct_refine : forall size host l,
      1 <= size -> NoDup (map fst (amap_of_host name V host ++ l)) ->
      exists c0 c,
        dlcache_new size host = Ok c0 /\ run_adds c0 l = Ok c /\
        forall n, dlcache_lookup c n = afind (amap_of_host name V host ++ l) n.
  Proof.
    intros size host l Hsz Hnd.
    destruct (new_refines size host Hsz) as [c0 [Hn [Hinv0 [_ Hp0]]]].
    destruct (run_adds_ok l c0 Hinv0) as [c [Hr [Hinv Hp]]].
    exists c0, c. split; [assumption|]. split; [assumption|].
    intros n. apply lookup_refines_wf; [apply tab_inv_wf; assumption|assumption|].
    eapply perm_trans; [exact Hp|]. apply Permutation_app_tail. assumption.
  Qed.

  (* size 0: `hash % 0` *)
  Theorem dlcache_new_size0_refuted : forall p, dlcache_new 0 (Some p) = DivZero.
  Proof. intros [n h]. reflexivity. Qed.

End DlCacheProofs.

(* ---- the instance run by the extracted driver: C strings, the real hash --------------------------- *)
Lemma cname_eqb_spec : forall a b, cname_eqb a b = true <-> a = b.
Proof.
  induction a as [|x a IH]; destruct b as [|y b]; simpl; split; intros H; try discriminate; try reflexivity.
  - apply andb_true_iff in H. destruct H as [H1 H2]. apply N.eqb_eq in H1. apply IH in H2. congruence.
  - injection H as -> ->. rewrite N.eqb_refl. simpl. apply IH. reflexivity.
Qed.

Definition name_host : cname := [104; 111; 115; 116]%N.     (* "host" *)
Definition name_b : cname := [98]%N.                         (* "b": hash_string % 4 = 3 *)
Definition name_c : cname := [99]%N.                         (* "c" *)

(* dlcache_add_dl called twice with the same name: the first handle is returned until the table
   grows; the rehash walks the old array in index order, the second copy had wrapped around to a
   lower index, so after the growth the SECOND handle is returned.  Not reachable through
   dlcache_get_handle (which looks the name up first). *)
Theorem dup_first_wins_refuted :
  exists c0 c1 c2,
    dl_new 2 (Some (name_host, 1%N)) = Ok c0 /\
    run_adds cname cname_eqb hash_string N c0 [(name_b, 10%N); (name_b, 20%N)] = Ok c1 /\
    dlcache_lookup cname cname_eqb hash_string N c1 name_b = Some 10%N /\
    dl_add_dl c1 name_c 30%N = Ok c2 /\
    dlcache_lookup cname cname_eqb hash_string N c2 name_b = Some 20%N.
Proof.
  do 3 eexists. vm_compute. repeat split; reflexivity.
Qed.
