(* Correspondence harness for the collector model (engine E1, property C09).

   run gen <seed> <ncases> <outdir> [profile [first]]
        writes <outdir>/case<i>.hist (operation history) and <outdir>/case<i>.exp (the
        model's canonical dump after gc_new and after every operation), i = first ..
        first+ncases-1 (first defaults to 0); prints the input distribution as JSON on
        stdout.  profile: mixed (default) | tiny | boundary | long
        (boundary: case i uses heap size 2 + i mod 299, i.e. every size 2..300 in turn)
   run gen <seed> <ncases> <outdir> large|largesmall <first> <K>
        heaps around and above 2^16 cells (largesmall: the same generator on heaps of a few
        hundred cells).  The extracted model is quadratic in the heap size (list append per
        allocation: minutes for one 70000-cell history), so these histories are generated and
        predicted by the imperative reference allocator `sim` below, in SPARSE dump mode; the
        check cross-validates `sim` against the extracted model on the largesmall histories.
   run replay [--sim] [--sparse <K>] <hist> [<outhist>]
        re-runs an existing history through the model (--sim: through the reference
        allocator): operations that are rejected are dropped, the "!oom" markers are
        recomputed; prints the dump of the normalised history on stdout and (optionally)
        writes the normalised history to <outhist>.

   Sparse dump mode (--sparse K): a block is the full canonical dump when its index is 0, a
   multiple of K, the last one, a collect/run operation or the operation right before a
   collect/run; every other block is
        @ <index> <operation text>
        ret <n> | oom-expected free=<head>
        ~ <free head> <w_index> <wb_top[0]> <wb_top[1]>

   The generator drives the *extracted* model (Gcmodel.step) to decide which operations are
   valid: an operation is emitted only when step answers SOk or SOom.

   History format (one operation per line, tokens separated by one blank):
     size <n>
     alloc sc <kind> <len> <p>...          kind in 1..6,8 ; kind 6 (STRING): payload = bytes
     alloc strref <r> | alloc vecref <r> | alloc arrref <r>
     alloc vec <len> <e>...
     alloc arr <ndims> <d>... <nelems> <e>...
     alloc func <vec> <ip>
     setvec <a> <i> <v> | setarr <a> <i> <v> | append <a> <v>
     setref str|vec|arr <a> <r>
     setfuncvec <a> <v>
     setsc <kind> <a> <len> <p>...
     collect <nslots> <slot>...           slot = a<addr> | i<num> | s<num> | u<num>
     run <gv> <nslots> <slot>...
   an alloc line ends with " !oom" when the model answers SOom for it. *)

module M = Gcmodel

(* ---------- conversions ------------------------------------------------------------ *)
let rec pos_of_int i =
  if i <= 1 then M.XH
  else if i land 1 = 0 then M.XO (pos_of_int (i lsr 1))
  else M.XI (pos_of_int (i lsr 1))
let n_of_int i = if i <= 0 then M.N0 else M.Npos (pos_of_int i)
let rec int_of_pos = function
  | M.XH -> 1
  | M.XO p -> 2 * int_of_pos p
  | M.XI p -> 2 * int_of_pos p + 1
let int_of_n = function M.N0 -> 0 | M.Npos p -> int_of_pos p
let nl l = List.map n_of_int l
let il l = List.map int_of_n l

(* ---------- PRNG: splitmix64 ------------------------------------------------------- *)
type rng = { mutable s : int64 }
let rng_make seed = { s = Int64.of_int seed }
let next64 r =
  r.s <- Int64.add r.s 0x9E3779B97F4A7C15L;
  let z = r.s in
  let z = Int64.mul (Int64.logxor z (Int64.shift_right_logical z 30)) 0xBF58476D1CE4E5B9L in
  let z = Int64.mul (Int64.logxor z (Int64.shift_right_logical z 27)) 0x94D049BB133111EBL in
  Int64.logxor z (Int64.shift_right_logical z 31)
(* uniform in [0, n) *)
let rint r n =
  if n <= 1 then 0
  else Int64.to_int (Int64.rem (Int64.shift_right_logical (next64 r) 2) (Int64.of_int n))
let rrange r lo hi = lo + rint r (hi - lo + 1)
let chance r pct = rint r 100 < pct
let pick r (a : 'a array) = a.(rint r (Array.length a))
let pickl r l = List.nth l (rint r (List.length l))
let shuffle r (a : 'a array) =
  for i = Array.length a - 1 downto 1 do
    let j = rint r (i + 1) in
    let t = a.(i) in a.(i) <- a.(j); a.(j) <- t
  done

(* ---------- history operations ----------------------------------------------------- *)
type hobj =
  | Sc of int * int list
  | StrRef of int
  | Vec of int list
  | VecRef of int
  | Arr of int list * int list
  | ArrRef of int
  | Func of int * int

type slot = SA of int | SI of int | SS of int | SU of int

type hop =
  | HAlloc of hobj
  | HSetVec of int * int * int
  | HSetArr of int * int * int
  | HAppend of int * int
  | HSetRef of int * int * int        (* 0 = str, 1 = vec, 2 = arr ; holder ; target *)
  | HSetFuncVec of int * int
  | HSetSc of int * int * int list    (* kind ; holder ; payload *)
  | HCollect of slot list
  | HRun of int * slot list

let is_collection_op = function HCollect _ | HRun _ -> true | _ -> false

let obj_to_model = function
  | Sc (k, p) -> M.OScalar (n_of_int k, nl p)
  | StrRef r -> M.OStrRef (n_of_int r)
  | Vec l -> M.OVec (nl l)
  | VecRef r -> M.OVecRef (n_of_int r)
  | Arr (d, l) -> M.OArr (nl d, nl l)
  | ArrRef r -> M.OArrRef (n_of_int r)
  | Func (v, ip) -> M.OFunc (n_of_int v, n_of_int ip)

let obj_of_model = function
  | M.OScalar (k, p) -> Sc (int_of_n k, il p)
  | M.OStrRef r -> StrRef (int_of_n r)
  | M.OVec l -> Vec (il l)
  | M.OVecRef r -> VecRef (int_of_n r)
  | M.OArr (d, l) -> Arr (il d, il l)
  | M.OArrRef r -> ArrRef (int_of_n r)
  | M.OFunc (v, ip) -> Func (int_of_n v, int_of_n ip)

let roots_of_slots sl =
  List.fold_right (fun s acc -> match s with SA a -> a :: acc | _ -> acc) sl []

let ints l = String.concat " " (List.map string_of_int l)
(* dump lines: every item is preceded by one blank (no trailing blanks, empty lists print nothing) *)
let sp l =
  let b = Buffer.create 64 in
  List.iter (fun i -> Buffer.add_char b ' '; Buffer.add_string b (string_of_int i)) l;
  Buffer.contents b
let cnt_ints l = if l = [] then string_of_int 0 else Printf.sprintf "%d %s" (List.length l) (ints l)

let render_obj = function
  | Sc (k, p) -> Printf.sprintf "sc %d %s" k (cnt_ints p)
  | StrRef r -> Printf.sprintf "strref %d" r
  | Vec l -> Printf.sprintf "vec %s" (cnt_ints l)
  | VecRef r -> Printf.sprintf "vecref %d" r
  | Arr (d, l) -> Printf.sprintf "arr %s %s" (cnt_ints d) (cnt_ints l)
  | ArrRef r -> Printf.sprintf "arrref %d" r
  | Func (v, ip) -> Printf.sprintf "func %d %d" v ip

let render_slot = function
  | SA a -> Printf.sprintf "a%d" a
  | SI a -> Printf.sprintf "i%d" a
  | SS a -> Printf.sprintf "s%d" a
  | SU a -> Printf.sprintf "u%d" a
let render_slots sl =
  if sl = [] then "0"
  else Printf.sprintf "%d %s" (List.length sl) (String.concat " " (List.map render_slot sl))

let refname = [| "str"; "vec"; "arr" |]

let render = function
  | HAlloc o -> "alloc " ^ render_obj o
  | HSetVec (a, i, v) -> Printf.sprintf "setvec %d %d %d" a i v
  | HSetArr (a, i, v) -> Printf.sprintf "setarr %d %d %d" a i v
  | HAppend (a, v) -> Printf.sprintf "append %d %d" a v
  | HSetRef (w, a, r) -> Printf.sprintf "setref %s %d %d" refname.(w) a r
  | HSetFuncVec (a, v) -> Printf.sprintf "setfuncvec %d %d" a v
  | HSetSc (k, a, p) -> Printf.sprintf "setsc %d %d %s" k a (cnt_ints p)
  | HCollect sl -> "collect " ^ render_slots sl
  | HRun (gv, sl) -> Printf.sprintf "run %d %s" gv (render_slots sl)

(* ---------- applying an operation to the model ------------------------------------- *)
type verdict = VOk of M.gc * int | VOom | VReject of string

let valid_kind k = (k >= 1 && k <= 6) || k = 8

let prod l = List.fold_left (fun a b -> a * b) 1 l

(* things the model does not look at but the C API depends on *)
let precheck (g : M.gc) (h : hop) : string option =
  let obj_at a = M.tget g.M.g_obj (n_of_int a) in
  match h with
  | HAlloc (Sc (k, p)) ->
    if not (valid_kind k) then Some "scalar kind"
    else if k <> 6 && List.length p <> 1 then Some "scalar payload length"
    else if k = 6 && List.exists (fun c -> c < 1 || c > 255) p then Some "string byte"
    else None
  | HAlloc (Arr (d, l)) ->
    if d = [] then Some "array without dimension"
    else if prod d <> List.length l then Some "array dims/elements mismatch"
    else None
  | HSetRef (w, a, _) ->
    (match obj_at a, w with
     | Some (M.OStrRef _), 0 | Some (M.OVecRef _), 1 | Some (M.OArrRef _), 2 -> None
     | _ -> Some "setref holder kind")
  | HSetSc (k, a, p) ->
    (match obj_at a with
     | Some (M.OScalar (k', _)) when int_of_n k' = k ->
       if k <> 6 && List.length p <> 1 then Some "scalar payload length"
       else if k = 6 && List.exists (fun c -> c < 1 || c > 255) p then Some "string byte"
       else None
     | _ -> Some "setsc holder kind")
  | _ -> None

let to_model = function
  | HAlloc o -> M.OpAlloc (obj_to_model o)
  | HSetVec (a, i, v) -> M.OpSetVec (n_of_int a, n_of_int i, n_of_int v)
  | HSetArr (a, i, v) -> M.OpSetArr (n_of_int a, n_of_int i, n_of_int v)
  | HAppend (a, v) -> M.OpAppend (n_of_int a, n_of_int v)
  | HSetRef (_, a, r) -> M.OpSetRef (n_of_int a, n_of_int r)
  | HSetFuncVec (a, v) -> M.OpSetFuncVec (n_of_int a, n_of_int v)
  | HSetSc (_, a, p) -> M.OpSetScalar (n_of_int a, nl p)
  | HCollect sl -> M.OpCollect (nl (roots_of_slots sl))
  | HRun (gv, sl) -> M.OpRun (nl (roots_of_slots sl), n_of_int gv)

let apply (g : M.gc) (h : hop) : verdict =
  match precheck g h with
  | Some why -> VReject why
  | None ->
    match M.step g (to_model h) with
    | M.SOk (g', r) -> VOk (g', int_of_n r)
    | M.SOom -> VOom
    | M.SReject -> VReject "reject"
    | M.SFuel -> VReject "fuel"
    | M.SBad -> VReject "bad"

(* ---------- canonical dump --------------------------------------------------------- *)
type snap = {
  size : int;
  objs : hobj option array;      (* index = cell *)
  cur : int list;                (* current allocated-list, in order *)
  nfree : int;                   (* size - 1 - number of cells holding an object *)
}

let take_snap (g : M.gc) : snap =
  let size = int_of_n g.M.g_size in
  let objs = Array.make size None in
  let na = ref 0 in
  for i = 0 to size - 1 do
    match M.tget g.M.g_obj (n_of_int i) with
    | Some o -> objs.(i) <- Some (obj_of_model o); if i > 0 then incr na
    | None -> ()
  done;
  { size; objs; cur = il (M.cur_list g); nfree = size - 1 - !na }

let dump_obj b i o =
  let p = Printf.bprintf in
  match o with
  | Sc (k, pl) -> p b "c %d sc %d :%s\n" i k (sp pl)
  | StrRef r -> p b "c %d strref %d\n" i r
  | Vec l -> p b "c %d vec %d :%s\n" i (List.length l) (sp l)
  | VecRef r -> p b "c %d vecref %d\n" i r
  | Arr (d, l) -> p b "c %d arr %d%s :%s\n" i (List.length d) (sp d) (sp l)
  | ArrRef r -> p b "c %d arrref %d\n" i r
  | Func (v, ip) -> p b "c %d func %d %d\n" i v ip

(* what a full dump shows, independent of who computed it *)
type view = {
  v_free : int;
  v_chain : int list option;       (* None: cycle / overrun *)
  v_w : int;
  v_l0 : int list;
  v_l1 : int list;
  v_marks : int list;
  v_objs : hobj option array;
}

let view_of_model (g : M.gc) (s : snap) : view =
  let marks = ref [] in
  for i = s.size - 1 downto 0 do
    if M.tget g.M.g_mark (n_of_int i) then marks := i :: !marks
  done;
  { v_free = int_of_n g.M.g_free;
    v_chain = (match M.free_list g with Some l -> Some (il l) | None -> None);
    v_w = (if g.M.g_w then 1 else 0); v_l0 = il g.M.g_l0; v_l1 = il g.M.g_l1;
    v_marks = !marks; v_objs = s.objs }

(* head: "@ <index> <op text>" ; res: the line describing the result *)
let dump_view (b : Buffer.t) (v : view) (idx : int) (text : string) (res : string) =
  let p = Printf.bprintf in
  p b "@ %d %s\n%s\n" idx text res;
  (match v.v_chain with
   | Some l -> p b "free %d :%s\n" v.v_free (sp l)
   | None -> p b "free %d : !overrun\n" v.v_free);
  p b "w %d\n" v.v_w;
  p b "L0 %d :%s\n" (List.length v.v_l0) (sp v.v_l0);
  p b "L1 %d :%s\n" (List.length v.v_l1) (sp v.v_l1);
  p b "marks :%s\n" (sp v.v_marks);
  Array.iteri (fun i o -> match o with Some o -> dump_obj b i o | None -> ()) v.v_objs

let dump (b : Buffer.t) (g : M.gc) (s : snap) (idx : int) (text : string) (res : string) =
  dump_view b (view_of_model g s) idx text res

let dump_sparse (b : Buffer.t) (fhead, w, t0, t1) (idx : int) (text : string) (res : string) =
  Printf.bprintf b "@ %d %s\n%s\n~ %d %d %d %d\n" idx text res fhead w t0 t1

(* ---------- parsing a history file ------------------------------------------------- *)
exception Bad_format of string
let bad fmt = Printf.ksprintf (fun s -> raise (Bad_format s)) fmt

let max_num = 1 lsl 53

let parse_int lineno tok =
  let ok = String.length tok > 0 && String.length tok <= 16 &&
           (let r = ref true in String.iter (fun c -> if c < '0' || c > '9' then r := false) tok; !r) in
  if not ok then bad "line %d: not a number: %S" lineno tok;
  let v = int_of_string tok in
  if v > max_num then bad "line %d: number too large: %S" lineno tok;
  v

let parse_line lineno (line : string) : hop * bool =
  let toks = List.filter (fun s -> s <> "") (String.split_on_char ' ' (String.trim line)) in
  let toks, oom =
    match List.rev toks with
    | "!oom" :: rest -> List.rev rest, true
    | _ -> toks, false in
  let num = parse_int lineno in
  (* take a counted list <n> <x1> ... <xn> *)
  let counted toks =
    match toks with
    | [] -> bad "line %d: missing count" lineno
    | c :: rest ->
      let c = num c in
      if c > 1000000 then bad "line %d: count too large" lineno;
      let rec go k acc rest =
        if k = 0 then List.rev acc, rest
        else match rest with
          | [] -> bad "line %d: too few items" lineno
          | x :: r -> go (k - 1) (x :: acc) r in
      go c [] rest in
  let nums l = List.map num l in
  let slot tok =
    if String.length tok < 2 then bad "line %d: bad slot %S" lineno tok;
    let v = num (String.sub tok 1 (String.length tok - 1)) in
    match tok.[0] with
    | 'a' -> SA v | 'i' -> SI v | 's' -> SS v | 'u' -> SU v
    | _ -> bad "line %d: bad slot %S" lineno tok in
  let fin rest = if rest <> [] then bad "line %d: trailing tokens" lineno in
  let h =
    match toks with
    | "alloc" :: "sc" :: k :: rest ->
      let p, rest = counted rest in fin rest; HAlloc (Sc (num k, nums p))
    | [ "alloc"; "strref"; r ] -> HAlloc (StrRef (num r))
    | [ "alloc"; "vecref"; r ] -> HAlloc (VecRef (num r))
    | [ "alloc"; "arrref"; r ] -> HAlloc (ArrRef (num r))
    | "alloc" :: "vec" :: rest ->
      let l, rest = counted rest in fin rest; HAlloc (Vec (nums l))
    | "alloc" :: "arr" :: rest ->
      let d, rest = counted rest in
      let l, rest = counted rest in
      fin rest; HAlloc (Arr (nums d, nums l))
    | [ "alloc"; "func"; v; ip ] -> HAlloc (Func (num v, num ip))
    | [ "setvec"; a; i; v ] -> HSetVec (num a, num i, num v)
    | [ "setarr"; a; i; v ] -> HSetArr (num a, num i, num v)
    | [ "append"; a; v ] -> HAppend (num a, num v)
    | [ "setref"; w; a; r ] ->
      let w = (match w with "str" -> 0 | "vec" -> 1 | "arr" -> 2
                          | _ -> bad "line %d: setref str|vec|arr" lineno) in
      HSetRef (w, num a, num r)
    | [ "setfuncvec"; a; v ] -> HSetFuncVec (num a, num v)
    | "setsc" :: k :: a :: rest ->
      let p, rest = counted rest in fin rest; HSetSc (num k, num a, nums p)
    | "collect" :: rest ->
      let s, rest = counted rest in fin rest; HCollect (List.map slot s)
    | "run" :: gv :: rest ->
      let s, rest = counted rest in fin rest; HRun (num gv, List.map slot s)
    | _ -> bad "line %d: unknown operation: %S" lineno line in
  (match h with
   | HAlloc _ -> ()
   | _ -> if oom then bad "line %d: !oom on a non-alloc line" lineno);
  h, oom

let read_lines path =
  let ic = open_in path in
  let rec go acc =
    match input_line ic with
    | l -> go (l :: acc)
    | exception End_of_file -> close_in ic; List.rev acc in
  go []

let max_heap = 1 lsl 22

let parse_history path : int * hop list =
  let lines = read_lines path in
  (* tail-recursive throughout: histories of the large profile have > 10^5 lines *)
  let _, rev =
    List.fold_left (fun (i, acc) l ->
        let t = String.trim l in
        (i + 1, if t = "" || t.[0] = '#' then acc else (i + 1, l) :: acc)) (0, []) lines in
  match List.rev rev with
  | [] -> bad "empty history"
  | (n0, first) :: rest ->
    let size =
      match String.split_on_char ' ' (String.trim first) with
      | [ "size"; n ] -> parse_int n0 n
      | _ -> bad "line %d: expected 'size <n>'" n0 in
    if size < 2 || size > max_heap then bad "size out of range (2..%d): %d" max_heap size;
    size, List.rev (List.rev_map (fun (i, l) -> fst (parse_line i l)) rest)

(* ---------- imperative reference allocator ------------------------------------------
   The same functions as GC/GCModel.v (and gc.c), on arrays.  Used ONLY for heaps that are too
   large for the extracted model; bin/check C09 compares it with the extracted model on the
   `largesmall` histories in every run. *)
type sim = {
  z_size : int;
  z_obj : hobj option array;
  z_next : int array;
  z_mark : Bytes.t;
  z_list : int array array;
  z_top : int array;
  mutable z_w : int;
  mutable z_free : int;
}

let sim_new size =
  let next = Array.make size 0 in
  for i = 1 to size - 1 do next.(i) <- i + 1 done;
  next.(size - 1) <- 0;
  { z_size = size; z_obj = Array.make size None; z_next = next; z_mark = Bytes.make size '\000';
    z_list = [| Array.make size 0; Array.make size 0 |]; z_top = [| 0; 0 |]; z_w = 0; z_free = 1 }

type rverdict = ROk of int | ROom | RRej of string

let z_obj_at z a = if a >= 0 && a < z.z_size then z.z_obj.(a) else None
let z_ref_ok z want r = r = 0 || (match z_obj_at z r with Some o -> want o | None -> false)
let z_any _ = true
let z_is_vec = function Vec _ -> true | _ -> false
let z_is_arr = function Arr _ -> true | _ -> false
let z_is_str = function Sc (6, _) -> true | _ -> false
let z_obj_ok z = function
  | Sc _ -> true
  | StrRef r -> z_ref_ok z z_is_str r
  | Vec l -> List.for_all (z_ref_ok z z_any) l
  | VecRef r -> z_ref_ok z z_is_vec r
  | Arr (_, l) -> List.for_all (z_ref_ok z z_any) l
  | ArrRef r -> z_ref_ok z z_is_arr r
  | Func (v, _) -> z_ref_ok z z_is_vec v

let rec z_list_set l i v =
  match l, i with
  | [], _ -> None
  | _ :: t, 0 -> Some (v :: t)
  | h :: t, _ -> (match z_list_set t (i - 1) v with Some t' -> Some (h :: t') | None -> None)

(* gc_mark / gc_mark_vec / gc_mark_arr with an explicit stack (the set of marked cells does not
   depend on the visiting order) *)
let z_mark_from z (root : int) =
  let stack = ref [ root ] in
  let marked a = Bytes.get z.z_mark a <> '\000' in
  let set a = Bytes.set z.z_mark a '\001' in
  let push_all l = List.iter (fun c -> stack := c :: !stack) l in
  (* gc_mark_vec / gc_mark_arr *)
  let mark_container a =
    if a <> 0 && not (marked a) then begin
      set a;
      match z.z_obj.(a) with
      | Some (Vec l) | Some (Arr (_, l)) -> push_all l
      | _ -> failwith "sim: container expected (heap not closed)"
    end in
  while !stack <> [] do
    (match !stack with
     | [] -> ()
     | a :: rest ->
       stack := rest;
       if a <> 0 then
         match z.z_obj.(a) with
         | None -> ()
         | Some (Sc _) -> set a
         | Some (StrRef r) -> if not (marked a) then begin set a; stack := r :: !stack end
         | Some (Vec _) | Some (Arr _) -> mark_container a
         | Some (VecRef r) | Some (ArrRef r) -> set a; mark_container r
         | Some (Func (v, _)) -> set a; mark_container v)
  done

let z_mark_access z roots =
  List.iter (fun r -> if r > 0 && Bytes.get z.z_mark r = '\000' then z_mark_from z r) roots

let z_sweep z =
  let w = z.z_w in
  let b = 1 - w in
  for i = 0 to z.z_top.(w) - 1 do
    let idx = z.z_list.(w).(i) in
    if Bytes.get z.z_mark idx = '\000' && z.z_obj.(idx) <> None then begin
      z.z_obj.(idx) <- None;
      z.z_next.(idx) <- z.z_free;
      z.z_free <- idx
    end else if Bytes.get z.z_mark idx <> '\000' then begin
      Bytes.set z.z_mark idx '\000';
      z.z_list.(b).(z.z_top.(b)) <- idx;
      z.z_top.(b) <- z.z_top.(b) + 1
    end
  done;
  z.z_top.(w) <- 0;
  z.z_w <- b

let sim_precheck z (h : hop) : string option =
  match h with
  | HAlloc (Sc (k, p)) ->
    if not (valid_kind k) then Some "scalar kind"
    else if k <> 6 && List.length p <> 1 then Some "scalar payload length"
    else if k = 6 && List.exists (fun c -> c < 1 || c > 255) p then Some "string byte"
    else None
  | HAlloc (Arr (d, l)) ->
    if d = [] then Some "array without dimension"
    else if prod d <> List.length l then Some "array dims/elements mismatch"
    else None
  | HSetRef (w, a, _) ->
    (match z_obj_at z a, w with
     | Some (StrRef _), 0 | Some (VecRef _), 1 | Some (ArrRef _), 2 -> None
     | _ -> Some "setref holder kind")
  | HSetSc (k, a, p) ->
    (match z_obj_at z a with
     | Some (Sc (k', _)) when k' = k ->
       if k <> 6 && List.length p <> 1 then Some "scalar payload length"
       else if k = 6 && List.exists (fun c -> c < 1 || c > 255) p then Some "string byte"
       else None
     | _ -> Some "setsc holder kind")
  | _ -> None

let sim_apply z (h : hop) : rverdict =
  match sim_precheck z h with
  | Some why -> RRej why
  | None ->
    let rej = RRej "reject" in
    match h with
    | HAlloc o ->
      if not (z_obj_ok z o) then rej
      else if z.z_free = 0 then ROom
      else begin
        let loc = z.z_free in
        z.z_obj.(loc) <- Some o;
        z.z_free <- z.z_next.(loc);
        z.z_list.(z.z_w).(z.z_top.(z.z_w)) <- loc;
        z.z_top.(z.z_w) <- z.z_top.(z.z_w) + 1;
        ROk loc
      end
    | HSetVec (a, i, v) ->
      (match z_obj_at z a with
       | Some (Vec l) when z_ref_ok z z_any v ->
         (match z_list_set l i v with Some l' -> z.z_obj.(a) <- Some (Vec l'); ROk 0 | None -> rej)
       | _ -> rej)
    | HSetArr (a, i, v) ->
      (match z_obj_at z a with
       | Some (Arr (d, l)) when z_ref_ok z z_any v ->
         (match z_list_set l i v with Some l' -> z.z_obj.(a) <- Some (Arr (d, l')); ROk 0 | None -> rej)
       | _ -> rej)
    | HAppend (a, v) ->
      (match z_obj_at z a with
       | Some (Arr ([ d0 ], l)) when z_ref_ok z z_any v ->
         z.z_obj.(a) <- Some (Arr ([ d0 + 1 ], List.rev (v :: List.rev l))); ROk 0
       | _ -> rej)
    | HSetRef (_, a, r) ->
      (match z_obj_at z a with
       | Some (StrRef _) when z_ref_ok z z_is_str r -> z.z_obj.(a) <- Some (StrRef r); ROk 0
       | Some (VecRef _) when z_ref_ok z z_is_vec r -> z.z_obj.(a) <- Some (VecRef r); ROk 0
       | Some (ArrRef _) when z_ref_ok z z_is_arr r -> z.z_obj.(a) <- Some (ArrRef r); ROk 0
       | _ -> rej)
    | HSetFuncVec (a, v) ->
      (match z_obj_at z a with
       | Some (Func (_, ip)) when z_ref_ok z z_is_vec v -> z.z_obj.(a) <- Some (Func (v, ip)); ROk 0
       | _ -> rej)
    | HSetSc (_, a, p) ->
      (match z_obj_at z a with
       | Some (Sc (k, _)) -> z.z_obj.(a) <- Some (Sc (k, p)); ROk 0
       | _ -> rej)
    | HCollect sl ->
      let roots = roots_of_slots sl in
      if List.for_all (z_ref_ok z z_any) roots then begin
        z_mark_access z roots; z_sweep z; ROk 0
      end else rej
    | HRun (gv, sl) ->
      let roots = roots_of_slots sl in
      if List.for_all (z_ref_ok z z_any) roots && z_ref_ok z z_any gv then begin
        if not (5 * z.z_top.(z.z_w) < 4 * z.z_size) then begin
          z_mark_access z roots;
          if gv > 0 then z_mark_from z gv;
          z_sweep z
        end;
        ROk 0
      end else rej

let view_of_sim z : view =
  let chain =
    let rec go a n acc =
      if a = 0 then Some (List.rev acc)
      else if n = 0 || a < 0 || a >= z.z_size then None
      else go z.z_next.(a) (n - 1) (a :: acc) in
    go z.z_free z.z_size [] in
  let lst k = Array.to_list (Array.sub z.z_list.(k) 0 z.z_top.(k)) in
  let marks = ref [] in
  for i = z.z_size - 1 downto 0 do if Bytes.get z.z_mark i <> '\000' then marks := i :: !marks done;
  { v_free = z.z_free; v_chain = chain; v_w = z.z_w; v_l0 = lst 0; v_l1 = lst 1;
    v_marks = !marks; v_objs = z.z_obj }

(* ---------- a machine = something that executes operations and can be observed --------- *)
type machine = {
  m_apply : hop -> rverdict;
  m_view : unit -> view;
  m_summary : unit -> int * int * int * int;      (* free head, w, top0, top1 *)
}

let model_machine size : machine =
  let g = ref (M.gc_new (n_of_int size)) in
  { m_apply = (fun h ->
        match apply !g h with
        | VOk (g', r) -> g := g'; ROk r
        | VOom -> ROom
        | VReject why -> RRej why);
    m_view = (fun () -> view_of_model !g (take_snap !g));
    m_summary = (fun () ->
        (int_of_n !g.M.g_free, (if !g.M.g_w then 1 else 0), List.length !g.M.g_l0, List.length !g.M.g_l1)) }

let sim_machine size : machine =
  let z = sim_new size in
  { m_apply = sim_apply z;
    m_view = (fun () -> view_of_sim z);
    m_summary = (fun () -> (z.z_free, z.z_w, z.z_top.(0), z.z_top.(1))) }

(* ---------- replay ----------------------------------------------------------------- *)
(* pass 1: which operations are accepted (and which allocations are out of memory) *)
let accepted (mk : int -> machine) size (ops : hop list) : (hop * bool) array =
  let m = mk size in
  let k = ref 0 in
  let acc = ref [] in
  List.iter (fun h ->
      incr k;
      match m.m_apply h with
      | RRej why -> Printf.eprintf "dropped op %d (%s): %s\n" !k why (render h)
      | ROom -> acc := (h, true) :: !acc
      | ROk _ -> acc := (h, false) :: !acc) ops;
  Array.of_list (List.rev !acc)

(* pass 2: dump.  sparse = 0: a full dump after every operation *)
let run_dump (mk : int -> machine) size (ops : (hop * bool) array) (sparse : int)
    (b : Buffer.t) (hb : Buffer.t) =
  let m = mk size in
  let n = Array.length ops in
  Printf.bprintf hb "size %d\n" size;
  dump_view b (m.m_view ()) 0 (Printf.sprintf "new %d" size) "ret 0";
  Array.iteri (fun j (h, _) ->
      let idx = j + 1 in
      let v = m.m_apply h in
      let text = render h ^ (match v with ROom -> " !oom" | _ -> "") in
      let res = (match v with
          | ROk r -> Printf.sprintf "ret %d" r
          | ROom -> "oom-expected free=0"
          | RRej why -> failwith ("operation rejected in the second pass: " ^ why)) in
      Printf.bprintf hb "%s\n" text;
      let full = sparse <= 0 || idx mod sparse = 0 || idx = n || is_collection_op h
                 || (idx < n && is_collection_op (fst ops.(idx))) in
      if full then dump_view b (m.m_view ()) idx text res
      else dump_sparse b (m.m_summary ()) idx text res) ops

let replay ~sim ~sparse path outhist =
  let size, ops = parse_history path in
  let mk = if sim then sim_machine else model_machine in
  let acc = accepted mk size ops in
  let b = Buffer.create 65536 and hb = Buffer.create 4096 in
  run_dump mk size acc sparse b hb;
  print_string (Buffer.contents b);
  match outhist with
  | Some p -> let oc = open_out p in output_string oc (Buffer.contents hb); close_out oc
  | None -> ()

(* ---------- statistics ------------------------------------------------------------- *)
let tbl_incr (t : (string, int) Hashtbl.t) k n =
  Hashtbl.replace t k (n + (try Hashtbl.find t k with Not_found -> 0))
let st_ops : (string, int) Hashtbl.t = Hashtbl.create 32
let st_kinds : (string, int) Hashtbl.t = Hashtbl.create 32
let st_misc : (string, int) Hashtbl.t = Hashtbl.create 32
let st_sizes : (string, int) Hashtbl.t = Hashtbl.create 32
let st_lens : (string, int) Hashtbl.t = Hashtbl.create 32
let st_styles : (string, int) Hashtbl.t = Hashtbl.create 32
let st_macros : (string, int) Hashtbl.t = Hashtbl.create 32
let misc k = tbl_incr st_misc k 1

let op_name = function
  | HAlloc _ -> "alloc" | HSetVec _ -> "setvec" | HSetArr _ -> "setarr" | HAppend _ -> "append"
  | HSetRef _ -> "setref" | HSetFuncVec _ -> "setfuncvec" | HSetSc _ -> "setsc"
  | HCollect _ -> "collect" | HRun _ -> "run"
let kind_name = function
  | Sc (k, _) -> (match k with 1 -> "int" | 2 -> "long" | 3 -> "float" | 4 -> "double"
                             | 5 -> "char" | 6 -> "string" | 8 -> "c_ptr" | _ -> "sc?")
  | StrRef _ -> "string_ref" | Vec _ -> "vec" | VecRef _ -> "vec_ref" | Arr _ -> "array"
  | ArrRef _ -> "array_ref" | Func _ -> "func"

let size_bucket n =
  if n <= 5 then string_of_int n
  else if n <= 8 then "6-8" else if n <= 16 then "9-16" else if n <= 32 then "17-32"
  else if n <= 64 then "33-64" else if n <= 128 then "65-128" else if n <= 256 then "129-256"
  else if n <= 300 then "257-300" else if n < 65535 then "301-65534"
  else if n <= 65538 then string_of_int n else if n <= 131072 then "65539-131072" else ">131072"
let len_bucket n =
  if n <= 20 then "10-20" else if n <= 50 then "21-50" else if n <= 100 then "51-100"
  else if n <= 200 then "101-200" else if n <= 500 then "201-500" else if n <= 1000 then "501-1000"
  else if n <= 2000 then "1001-2000" else if n <= 5000 then "2001-5000" else if n <= 10000 then "5001-10000"
  else if n <= 100000 then "10001-100000" else ">100000"

let json_of_tbl t =
  let l = Hashtbl.fold (fun k v acc -> (k, v) :: acc) t [] in
  let l = List.sort compare l in
  "{" ^ String.concat ", " (List.map (fun (k, v) -> Printf.sprintf "%S: %d" k v) l) ^ "}"

(* ---------- generator -------------------------------------------------------------- *)
type gst = {
  r : rng;
  mutable g : M.gc;
  mutable sn : snap;
  mutable roots : int list;
  mutable nops : int;
  target : int;
  hist : Buffer.t;
  exp : Buffer.t;
  p_root : int;                 (* percent: a fresh structure is added to the root set *)
  mutable freed_colls : int;
  mutable kept_colls : int;
}

let over st = st.nops >= st.target

let is_collection = function HCollect _ | HRun _ -> true | _ -> false

(* propose an operation: it is emitted iff the model accepts it (SOk / SOom) *)
let emit (st : gst) (h : hop) : int option =
  if over st then None
  else
    match apply st.g h with
    | VReject why ->
      misc "proposals_rejected_by_model";
      (* never expected: the mark ran out of fuel / read an object through the wrong accessor *)
      if why = "fuel" then misc "model_fuel";
      if why = "bad" then misc "model_bad";
      None
    | VOom ->
      st.nops <- st.nops + 1;
      let text = render h ^ " !oom" in
      Printf.bprintf st.hist "%s\n" text;
      dump st.exp st.g st.sn st.nops text "oom-expected free=0";
      tbl_incr st_ops "alloc" 1; misc "oom"; None
    | VOk (g', ret) ->
      st.nops <- st.nops + 1;
      let text = render h in
      st.g <- g'; st.sn <- take_snap g';
      Printf.bprintf st.hist "%s\n" text;
      dump st.exp st.g st.sn st.nops text (Printf.sprintf "ret %d" ret);
      tbl_incr st_ops (op_name h) 1;
      (match h with HAlloc o -> tbl_incr st_kinds (kind_name o) 1 | _ -> ());
      if is_collection h then
        (* cells that were not passed as roots may be gone now *)
        st.roots <- List.filter (fun a -> a > 0 && a < st.sn.size && st.sn.objs.(a) <> None) st.roots;
      Some ret

let allocated (st : gst) : int array = Array.of_list st.sn.cur
let cells_where (st : gst) pred : int array =
  Array.of_list (List.filter (fun a -> match st.sn.objs.(a) with Some o -> pred o | None -> false) st.sn.cur)
let is_vec = function Vec _ -> true | _ -> false
let is_arr = function Arr _ -> true | _ -> false
let is_arr1 = function Arr ([ _ ], _) -> true | _ -> false
let is_str = function Sc (6, _) -> true | _ -> false

(* a reference to store: nil or any allocated cell *)
let any_ref st =
  let a = allocated st in
  if Array.length a = 0 || chance st.r 15 then 0 else pick st.r a
let ref_where st pred =
  let a = cells_where st pred in
  if Array.length a = 0 || chance st.r 10 then 0 else pick st.r a

let add_root st a = st.roots <- a :: st.roots
let maybe_root st a = if chance st.r st.p_root then add_root st a

let scalar_kinds = [| 1; 2; 3; 4; 5; 6; 8 |]
let rand_payload st k =
  match k with
  | 1 -> [ (if chance st.r 20 then 2147483647 - rint st.r 3 else rint st.r 100000) ]
  | 2 -> [ (if chance st.r 20 then (1 lsl 52) + rint st.r 1000 else rint st.r 1000000) ]
  | 3 -> [ rint st.r 100000 ]
  | 4 -> [ (if chance st.r 20 then (1 lsl 40) + rint st.r 1000 else rint st.r 1000000) ]
  | 5 -> [ rint st.r 128 ]
  | 6 -> List.init (rint st.r 9) (fun _ -> if chance st.r 90 then rrange st.r 97 122 else rrange st.r 1 255)
  | _ -> [ rint st.r (1 lsl 40) ]
let rand_scalar st = let k = pick st.r scalar_kinds in Sc (k, rand_payload st k)

let alloc st o = emit st (HAlloc o)

(* --- macros: every one returns unit; they stop silently at out-of-memory / budget ----- *)
let ( >>= ) o f = match o with Some x -> f x | None -> ()

let m_scalar st = alloc st (rand_scalar st) >>= maybe_root st

let m_string_ref st =
  let target =
    if chance st.r 60 then alloc st (Sc (6, rand_payload st 6))
    else Some (ref_where st is_str) in
  target >>= fun s ->
  alloc st (StrRef s) >>= fun r ->
  maybe_root st r;
  if chance st.r 20 then ignore (emit st (HSetRef (0, r, ref_where st is_str)))

let m_vec st =
  let n = (if chance st.r 10 then 0 else rrange st.r 1 5) in
  alloc st (Vec (List.init n (fun _ -> any_ref st))) >>= maybe_root st

let m_vecref st =
  let target = if chance st.r 50 then alloc st (Vec [ any_ref st ]) else Some (ref_where st is_vec) in
  target >>= fun v ->
  alloc st (VecRef v) >>= fun r ->
  maybe_root st r;
  if chance st.r 20 then ignore (emit st (HSetRef (1, r, ref_where st is_vec)))

let m_list st =
  let k = rrange st.r 1 8 in
  let rec go i prev =
    if i = 0 then (if prev <> 0 then maybe_root st prev)
    else
      alloc st (Sc (1, [ i ])) >>= fun x ->
      match alloc st (Vec [ x; prev ]) with
      | Some c -> go (i - 1) c
      | None -> if prev <> 0 then maybe_root st prev in
  go k 0

let rec build_tree st depth : int option =
  if depth = 0 || chance st.r 25 then alloc st (rand_scalar st)
  else begin
    let arity = rrange st.r 1 3 in
    let kids = List.init arity (fun _ -> match build_tree st (depth - 1) with Some a -> a | None -> 0) in
    if chance st.r 30 then alloc st (Arr ([ arity ], kids)) else alloc st (Vec kids)
  end
let m_tree st = build_tree st (rrange st.r 1 3) >>= maybe_root st

let m_cycle1 st =
  alloc st (Vec [ 0 ]) >>= fun v ->
  ignore (emit st (HSetVec (v, 0, v)));
  maybe_root st v

let m_cycle2 st =
  alloc st (Vec [ 0; any_ref st ]) >>= fun a ->
  alloc st (Vec [ a ]) >>= fun b ->
  ignore (emit st (HSetVec (a, 0, b)));
  if chance st.r st.p_root then add_root st (if chance st.r 50 then a else b)

let m_cycle_func st =
  alloc st (Vec [ 0; any_ref st ]) >>= fun v ->
  alloc st (Func (v, rint st.r 5000)) >>= fun f ->
  ignore (emit st (HSetVec (v, 0, f)));
  if chance st.r st.p_root then add_root st (if chance st.r 60 then f else v)

let m_closure st =
  let n = rrange st.r 0 4 in
  let cells = List.init n (fun _ ->
      if chance st.r 50 then (match alloc st (rand_scalar st) with Some a -> a | None -> 0)
      else any_ref st) in
  alloc st (Vec cells) >>= fun env ->
  alloc st (Func (env, rint st.r 5000)) >>= fun f ->
  if chance st.r 30 then begin
    (* a table of functions sharing the environment *)
    match alloc st (Func (env, rint st.r 5000)) with
    | Some f2 -> alloc st (Vec [ f; f2 ]) >>= maybe_root st
    | None -> maybe_root st f
  end else maybe_root st f;
  if chance st.r 15 then ignore (emit st (HSetFuncVec (f, ref_where st is_vec)))

let m_arr st =
  let k = (if chance st.r 10 then 0 else rrange st.r 1 6) in
  let elems = List.init k (fun _ ->
      if chance st.r 60 then (match alloc st (rand_scalar st) with Some a -> a | None -> 0)
      else any_ref st) in
  alloc st (Arr ([ k ], elems)) >>= fun a ->
  if chance st.r 60 then (alloc st (ArrRef a) >>= maybe_root st) else maybe_root st a

let m_arr_md st =
  let nd = rrange st.r 2 3 in
  let d = List.init nd (fun _ -> if chance st.r 8 then 0 else rrange st.r 1 3) in
  let elems = List.init (prod d) (fun _ -> any_ref st) in
  alloc st (Arr (d, elems)) >>= fun a ->
  if chance st.r 50 then (alloc st (ArrRef a) >>= maybe_root st) else maybe_root st a

let m_arrref st =
  alloc st (ArrRef (ref_where st is_arr)) >>= fun r ->
  maybe_root st r;
  if chance st.r 30 then ignore (emit st (HSetRef (2, r, ref_where st is_arr)))

let m_append st =
  let a1 = cells_where st is_arr1 in
  if Array.length a1 > 0 then begin
    let a = pick st.r a1 in
    for _ = 1 to rrange st.r 1 3 do
      let v = if chance st.r 50 then (match alloc st (rand_scalar st) with Some x -> x | None -> 0)
        else any_ref st in
      ignore (emit st (HAppend (a, v)))
    done
  end else m_arr st

let m_mutate st =
  match rint st.r 7 with
  | 0 | 1 ->
    let vs = cells_where st (function Vec (_ :: _) -> true | _ -> false) in
    if Array.length vs > 0 then begin
      let a = pick st.r vs in
      let n = (match st.sn.objs.(a) with Some (Vec l) -> List.length l | _ -> 1) in
      ignore (emit st (HSetVec (a, rint st.r n, any_ref st)))
    end
  | 2 | 6 ->
    let vs = cells_where st (function Arr (_, _ :: _) -> true | _ -> false) in
    if Array.length vs > 0 then begin
      let a = pick st.r vs in
      let n = (match st.sn.objs.(a) with Some (Arr (_, l)) -> List.length l | _ -> 1) in
      ignore (emit st (HSetArr (a, rint st.r n, any_ref st)))
    end
  | 3 ->
    let hs = cells_where st (function StrRef _ | VecRef _ | ArrRef _ -> true | _ -> false) in
    if Array.length hs > 0 then begin
      let a = pick st.r hs in
      match st.sn.objs.(a) with
      | Some (StrRef _) -> ignore (emit st (HSetRef (0, a, ref_where st is_str)))
      | Some (VecRef _) -> ignore (emit st (HSetRef (1, a, ref_where st is_vec)))
      | Some (ArrRef _) -> ignore (emit st (HSetRef (2, a, ref_where st is_arr)))
      | _ -> ()
    end
  | 4 ->
    let fs = cells_where st (function Func _ -> true | _ -> false) in
    if Array.length fs > 0 then ignore (emit st (HSetFuncVec (pick st.r fs, ref_where st is_vec)))
  | _ ->
    let ss = cells_where st (function Sc _ -> true | _ -> false) in
    if Array.length ss > 0 then begin
      let a = pick st.r ss in
      match st.sn.objs.(a) with
      | Some (Sc (k, _)) -> ignore (emit st (HSetSc (k, a, rand_payload st k)))
      | _ -> ()
    end

let m_roots st =
  (match rint st.r 7 with
   | 0 | 1 | 2 ->   (* drop one *)
     (match st.roots with
      | [] -> ()
      | l -> let k = rint st.r (List.length l) in
        st.roots <- List.filteri (fun i _ -> i <> k) l)
   | 3 -> st.roots <- List.filter (fun _ -> chance st.r 50) st.roots
   | 4 -> if chance st.r 40 then st.roots <- []
   | 5 -> let a = allocated st in if Array.length a > 0 then add_root st (pick st.r a)
   | _ -> (match st.roots with [] -> () | l -> add_root st (pickl st.r l)));
  misc "root_set_changes"

(* the stack handed to the collector: ADDR slots for the roots (with duplicates and nil
   entries) and non-ADDR slots holding arbitrary numbers, which must be ignored *)
let mk_stack st (roots : int list) : slot list =
  let sl = ref (List.map (fun a -> SA a) roots) in
  let garbage = Array.of_list (List.filter (fun a -> not (List.mem a roots)) st.sn.cur) in
  (match roots with
   | [] -> ()
   | l -> for _ = 1 to (if chance st.r 40 then rrange st.r 1 3 else 0) do sl := SA (pickl st.r l) :: !sl done);
  for _ = 1 to (if chance st.r 40 then rrange st.r 1 2 else 0) do sl := SA 0 :: !sl done;
  let n_other = if chance st.r 60 then rrange st.r 1 4 else 0 in
  for _ = 1 to n_other do
    let v =
      if Array.length garbage > 0 && chance st.r 60 then pick st.r garbage
      else (match rint st.r 4 with
          | 0 -> rint st.r (st.sn.size + 3)
          | 1 -> 0
          | 2 -> 1000000 + rint st.r 1000
          | _ -> rint st.r 50) in
    sl := (match rint st.r 5 with 0 | 1 -> SI v | 2 | 3 -> SS v | _ -> SU v) :: !sl
  done;
  let a = Array.of_list !sl in
  shuffle st.r a;
  Array.to_list a

let root_subset st =
  if chance st.r 75 then st.roots
  else List.filter (fun _ -> chance st.r 60) st.roots

let note_collection st before_top =
  (* called after a collection that really ran *)
  let after = List.length st.sn.cur in
  if after < before_top then begin misc "collections_freed_ge1"; st.freed_colls <- st.freed_colls + 1 end;
  if after >= 1 then begin misc "collections_retained_ge1"; st.kept_colls <- st.kept_colls + 1 end;
  if after = 0 then misc "collections_emptied_heap";
  if after = before_top then misc "collections_freed_nothing"

let m_collect st =
  let before = List.length st.sn.cur in
  let rs = root_subset st in
  if rs = [] then misc "collect_with_no_roots";
  match emit st (HCollect (mk_stack st rs)) with
  | Some _ -> note_collection st before
  | None -> ()

let threshold size = (4 * size + 4) / 5          (* least top with 5*top >= 4*size *)

let m_run st =
  let before = List.length st.sn.cur in
  let size = st.sn.size in
  let rs = root_subset st in
  let gv =
    match rint st.r 10 with
    | 0 | 1 | 2 -> 0
    | 3 | 4 | 5 | 6 ->
      let rv = List.filter (fun a -> match st.sn.objs.(a) with Some (Vec _) -> true | _ -> false) st.roots in
      if rv = [] then ref_where st is_vec else pickl st.r rv
    | _ -> any_ref st in
  let trig = 5 * before >= 4 * size in
  match emit st (HRun (gv, mk_stack st rs)) with
  | Some _ ->
    if trig then begin misc "run_triggered"; note_collection st before end
    else misc "run_below_threshold";
    if before = threshold size then misc "run_at_threshold";
    if before = threshold size - 1 then misc "run_one_below_threshold"
  | None -> ()

(* bring the allocated-list to exactly threshold-1, run (nothing may happen), allocate one
   more cell, run again (must collect) *)
let m_boundary st =
  let size = st.sn.size in
  let t = threshold size in
  if t <= size - 1 then begin
    if List.length st.sn.cur >= t then (if chance st.r 50 then m_collect st else m_run st);
    let guard = ref (size + 2) in
    while not (over st) && !guard > 0 && List.length st.sn.cur < t - 1 && st.sn.nfree > 0 do
      decr guard;
      (match rint st.r 4 with
       | 0 -> m_vec st
       | _ -> m_scalar st)
    done;
    if List.length st.sn.cur = t - 1 then begin
      m_run st;
      (alloc st (rand_scalar st) >>= maybe_root st);
      if List.length st.sn.cur = t then m_run st
    end
  end else begin
    (* heaps of 2..4 cells can never reach the trigger: run stays without effect *)
    m_scalar st; m_run st
  end

let m_fill_oom st =
  let guard = ref (st.sn.size + 2) in
  while not (over st) && !guard > 0 && st.sn.nfree > 0 do
    decr guard;
    (match rint st.r 5 with
     | 0 -> m_vec st
     | 1 -> m_cycle1 st
     | _ -> m_scalar st)
  done;
  if st.sn.nfree = 0 then begin
    for _ = 1 to rrange st.r 1 3 do
      ignore (alloc st (if chance st.r 50 then rand_scalar st else Vec [ any_ref st ]))
    done;
    if chance st.r 30 then m_roots st;
    if chance st.r 80 then begin
      (if chance st.r 70 then m_collect st else m_run st);
      (* continue allocating in the space that was freed *)
      for _ = 1 to rrange st.r 1 4 do m_scalar st done
    end
  end

(* cells that were just freed are handed out again, as other kinds *)
let m_realloc_kinds st =
  m_collect st;
  let n = min st.sn.nfree (rrange st.r 2 7) in
  for i = 1 to n do
    match (i + rint st.r 3) mod 7 with
    | 0 -> m_scalar st
    | 1 -> m_vec st
    | 2 -> m_string_ref st
    | 3 -> m_closure st
    | 4 -> m_arr st
    | 5 -> m_vecref st
    | _ -> m_arrref st
  done

(* operations that are (very likely) invalid: they must be filtered by the model *)
let m_bogus st =
  let size = st.sn.size in
  let free_cell =
    let rec find i = if i >= size then 0 else if st.sn.objs.(i) = None then i else find (i + 1) in
    find 1 in
  let h =
    match rint st.r 8 with
    | 0 -> HAlloc (Vec [ (if free_cell > 0 then free_cell else size + 1) ])
    | 1 -> HSetVec (any_ref st, 99, 0)
    | 2 -> HAlloc (VecRef (ref_where st (fun o -> not (is_vec o))))
    | 3 -> HCollect [ SA (if free_cell > 0 then free_cell else size + 5) ]
    | 4 -> HAlloc (Func (ref_where st (fun o -> not (is_vec o)), 1))
    | 5 -> HAppend (ref_where st (fun o -> not (is_arr1 o)), 0)
    | 6 -> HAlloc (StrRef (ref_where st (fun o -> not (is_str o))))
    | _ -> HSetRef (rint st.r 3, any_ref st, any_ref st) in
  misc "bogus_proposals";
  match apply st.g h with
  | VReject _ -> misc "bogus_rejected"
  | _ -> ignore (emit st h)      (* happened to be valid (e.g. a nil reference) *)

let macros : (string * (gst -> unit)) array = [|
  "scalar", m_scalar; "string_ref", m_string_ref; "vec", m_vec; "vecref", m_vecref;
  "list", m_list; "tree", m_tree; "cycle1", m_cycle1; "cycle2", m_cycle2;
  "cycle_func", m_cycle_func; "closure", m_closure; "arr", m_arr; "arr_md", m_arr_md;
  "arrref", m_arrref; "append", m_append; "mutate", m_mutate; "roots", m_roots;
  "collect", m_collect; "run", m_run; "boundary", m_boundary; "fill_oom", m_fill_oom;
  "realloc_kinds", m_realloc_kinds; "bogus", m_bogus |]

(* weight vectors, in the order of [macros] *)
let styles : (string * int array) array = [|
  (*            sc sr ve vr li tr c1 c2 cf cl ar am af ap mu ro co ru bo fo rk bg *)
  "general",  [| 8; 4; 6; 3; 4; 4; 3; 3; 3; 5; 4; 2; 2; 4; 8; 8; 6; 5; 2; 1; 2; 1 |];
  "churn",    [| 20; 3; 8; 2; 3; 2; 2; 2; 2; 3; 3; 1; 1; 2; 3; 10; 12; 6; 2; 2; 4; 1 |];
  "survivors",[| 6; 3; 5; 3; 5; 5; 3; 3; 3; 5; 4; 2; 2; 3; 6; 3; 10; 5; 2; 1; 3; 1 |];
  "oom",      [| 10; 2; 6; 1; 3; 3; 2; 2; 2; 3; 3; 1; 1; 2; 3; 8; 4; 3; 2; 12; 3; 1 |];
  "boundary", [| 6; 2; 4; 1; 2; 2; 1; 1; 1; 2; 2; 1; 1; 1; 3; 8; 3; 12; 14; 2; 2; 1 |];
  "structures",[| 2; 4; 4; 4; 8; 8; 5; 5; 6; 8; 6; 4; 4; 6; 12; 8; 7; 4; 1; 1; 3; 1 |];
|]

let pick_weighted r (w : int array) =
  let tot = Array.fold_left ( + ) 0 w in
  let x = ref (rint r tot) and res = ref 0 in
  (try Array.iteri (fun i wi -> if !x < wi then (res := i; raise Exit) else x := !x - wi) w
   with Exit -> ());
  !res

let tiny_sizes = [| 2; 3; 4; 5; 8 |]
let mult5_sizes = [| 5; 10; 15; 20; 25; 40; 50; 100; 150; 200; 300 |]

let choose_size r profile i =
  match profile with
  | "tiny" -> pick r tiny_sizes
  | "boundary" -> 2 + (i mod 299)                    (* every size 2..300 in turn *)
  | _ ->
    let x = rint r 100 in
    if x < 30 then pick r tiny_sizes
    else if x < 40 then pick r mult5_sizes
    else if x < 50 then rrange r 6 12
    else if x < 72 then rrange r 13 40
    else if x < 90 then rrange r 41 120
    else rrange r 121 300

(* log-uniform in [lo, hi] *)
let log_uniform r lo hi =
  let l = log (float_of_int lo) and h = log (float_of_int hi +. 1.0) in
  let u = float_of_int (rint r 1000000) /. 1000000.0 in
  max lo (min hi (int_of_float (exp (l +. u *. (h -. l)))))

let choose_len r profile size =
  match profile with
  | "boundary" -> min 2000 (size + 30 + rint r 40)
  | "long" -> log_uniform r 2000 10000
  | "tiny" -> log_uniform r 10 400
  | _ ->
    (* volume of the dumps ~ ops * cells: long histories mostly on small heaps *)
    let hi = if size <= 16 then 2000 else if size <= 64 then 1200 else if size <= 128 then 600 else 300 in
    if chance r 4 then log_uniform r (hi / 2) 2000 else log_uniform r 10 hi

let gen_case (r : rng) profile i outdir : unit =
  let size = choose_size r profile i in
  let target = choose_len r profile size in
  let style_i = if profile = "boundary" then 4 else rint r (Array.length styles) in
  let sname, weights = styles.(style_i) in
  let p_root = (match sname with
      | "churn" -> rrange r 5 30 | "survivors" -> rrange r 60 95 | _ -> rrange r 15 80) in
  let g = M.gc_new (n_of_int size) in
  let st = { r; g; sn = take_snap g; roots = []; nops = 0; target;
             hist = Buffer.create 4096; exp = Buffer.create 65536; p_root;
             freed_colls = 0; kept_colls = 0 } in
  Printf.bprintf st.hist "size %d\n" size;
  dump st.exp st.g st.sn 0 (Printf.sprintf "new %d" size) "ret 0";
  let guard = ref (target * 20 + 200) in
  while not (over st) && !guard > 0 do
    decr guard;
    let full = st.sn.nfree = 0 in
    let mi =
      if full && chance st.r 88 then
        (let x = rint st.r 10 in if x < 6 then 16 (* collect *) else if x < 8 then 15 (* roots *) else 17 (* run *))
      else pick_weighted st.r weights in
    let name, f = macros.(mi) in
    tbl_incr st_macros name 1;
    f st
  done;
  tbl_incr st_sizes (size_bucket size) 1;
  tbl_incr st_lens (len_bucket st.nops) 1;
  tbl_incr st_styles sname 1;
  if size mod 5 = 0 then misc "heap_size_multiple_of_5" else misc "heap_size_not_multiple_of_5";
  if st.freed_colls >= 1 && st.kept_colls >= 1 then misc "histories_with_freeing_and_retaining_collection";
  misc "histories";
  tbl_incr st_misc "ops_total" st.nops;
  let w path b = let oc = open_out path in Buffer.output_buffer oc b; close_out oc in
  w (Filename.concat outdir (Printf.sprintf "case%d.hist" i)) st.hist;
  w (Filename.concat outdir (Printf.sprintf "case%d.exp" i)) st.exp

(* ---------- large heaps (profile large / largesmall) --------------------------------
   Generated and predicted with the reference allocator `sim`; see the header. *)
let large_sizes = [| 70000; 65537; 131100; 65536; 65538; 100000; 65535; 66000; 90000; 140000 |]
let small_sizes = [| 257; 300; 511; 640; 200; 333; 65; 1000 |]

type lst = {
  lr : rng;
  z : sim;
  mutable lops : hop list;               (* reversed *)
  mutable ln : int;
  mutable alive : int array;             (* cells allocated since the last collection + survivors *)
  mutable nalive : int;
  mutable lroots : int list;
  mutable rootvec : int;                 (* a vector that is always passed as a root *)
  mutable stuck : bool;                  (* an allocation answered out of memory *)
}

let ltop l = l.z.z_top.(l.z.z_w)

let lpush_alive l a =
  if l.nalive >= Array.length l.alive then begin
    let na = Array.make (2 * Array.length l.alive + 16) 0 in
    Array.blit l.alive 0 na 0 l.nalive; l.alive <- na
  end;
  l.alive.(l.nalive) <- a; l.nalive <- l.nalive + 1

let lemit l (h : hop) : int option =
  match sim_apply l.z h with
  | RRej _ -> misc "proposals_rejected_by_model"; None
  | ROom ->
    l.lops <- h :: l.lops; l.ln <- l.ln + 1; l.stuck <- true;
    tbl_incr st_ops "alloc" 1; misc "oom"; None
  | ROk r ->
    l.lops <- h :: l.lops; l.ln <- l.ln + 1;
    tbl_incr st_ops (op_name h) 1;
    (match h with HAlloc o -> tbl_incr st_kinds (kind_name o) 1; lpush_alive l r | _ -> ());
    Some r

(* allocate only while the allocated-list is shorter than [limit] *)
let lalloc l limit o = if ltop l >= limit then None else lemit l (HAlloc o)

let lref l =
  if l.nalive = 0 || chance l.lr 10 then 0
  else begin
    let a = l.alive.(rint l.lr l.nalive) in
    if l.z.z_obj.(a) <> None then a else 0
  end
let lref_where l pred =
  (* a few random probes; nil if none fits *)
  let rec go k =
    if k = 0 || l.nalive = 0 then 0
    else let a = l.alive.(rint l.lr l.nalive) in
      match l.z.z_obj.(a) with Some o when pred o -> a | _ -> go (k - 1) in
  go 12

let lpayload r k =
  match k with
  | 1 -> [ (if chance r 10 then 2147483647 - rint r 3 else rint r 100000) ]
  | 2 -> [ (if chance r 10 then (1 lsl 52) + rint r 1000 else rint r 1000000) ]
  | 3 -> [ rint r 100000 ]
  | 4 -> [ rint r 1000000 ]
  | 5 -> [ rint r 128 ]
  | 6 -> List.init (rint r 6) (fun _ -> rrange r 97 122)
  | _ -> [ rint r (1 lsl 40) ]
let lscalar r = let k = pick r scalar_kinds in Sc (k, lpayload r k)

let lattach l x =
  if l.rootvec <> 0 && x <> 0 then ignore (lemit l (HSetVec (l.rootvec, rint l.lr 8, x)))

let lbulk l limit =
  let r = l.lr in
  let size = l.z.z_size in
  let maxw = max 4 (min 400 (size / 30)) in
  let keep x = if chance r 25 then lattach l x in
  let guard = ref (4 * size + 100) in
  while ltop l < limit && not l.stuck && !guard > 0 do
    decr guard;
    let x = rint r 100 in
    if x < 55 then ignore (lalloc l limit (lscalar r))
    else if x < 63 then begin
      match lalloc l limit (Sc (6, lpayload r 6)) with
      | Some s -> (match lalloc l limit (StrRef s) with Some h -> keep h | None -> ())
      | None -> ()
    end else if x < 71 then begin
      (* short list (the C mark is recursive: depth stays small) *)
      let rec go i prev =
        if i = 0 then prev
        else match lalloc l limit (Sc (1, [ i ])) with
          | None -> prev
          | Some v -> (match lalloc l limit (Vec [ v; prev ]) with Some c -> go (i - 1) c | None -> prev) in
      keep (go (rrange r 2 40) 0)
    end else if x < 76 then begin
      let f = rrange r 3 maxw in
      match lalloc l limit (Vec (List.init f (fun _ -> lref l))) with
      | Some v -> keep v; if chance r 30 then (match lalloc l limit (VecRef v) with Some h -> keep h | None -> ())
      | None -> ()
    end else if x < 81 then begin
      let n = rrange r 0 (maxw / 4) in
      match lalloc l limit (Arr ([ n ], List.init n (fun _ -> lref l))) with
      | Some a ->
        ignore (lemit l (HAppend (a, lref l)));
        if chance r 50 then ignore (lemit l (HAppend (a, lref l)));
        (match lalloc l limit (ArrRef a) with Some h -> keep h | None -> keep a)
      | None -> ()
    end else if x < 85 then begin
      match lalloc l limit (Vec (List.init (rrange r 0 4) (fun _ -> lref l))) with
      | Some env -> (match lalloc l limit (Func (env, rint r 5000)) with Some f -> keep f | None -> ())
      | None -> ()
    end else if x < 89 then begin
      match lalloc l limit (Vec [ 0; lref l ]) with
      | Some a ->
        if chance r 50 then ignore (lemit l (HSetVec (a, 0, a)))
        else (match lalloc l limit (Func (a, 7)) with
            | Some f -> ignore (lemit l (HSetVec (a, 0, f))); keep f
            | None -> ());
        keep a
      | None -> ()
    end else if x < 92 then begin
      let d = [ rrange r 1 4; rrange r 0 5 ] in
      match lalloc l limit (Arr (d, List.init (prod d) (fun _ -> lref l))) with
      | Some a -> keep a
      | None -> ()
    end else if x < 96 then begin
      match rint r 4 with
      | 0 -> let a = lref_where l (function Sc _ -> true | _ -> false) in
        (match l.z.z_obj.(a) with Some (Sc (k, _)) when a <> 0 -> ignore (lemit l (HSetSc (k, a, lpayload r k))) | _ -> ())
      | 1 -> let a = lref_where l (function Vec (_ :: _) -> true | _ -> false) in
        (match l.z.z_obj.(a) with
         | Some (Vec v) when a <> 0 -> ignore (lemit l (HSetVec (a, rint r (min 8 (List.length v)), lref l)))
         | _ -> ())
      | 2 -> let a = lref_where l (function VecRef _ -> true | _ -> false) in
        if a <> 0 then ignore (lemit l (HSetRef (1, a, lref_where l z_is_vec)))
      | _ -> let a = lref_where l (function Func _ -> true | _ -> false) in
        if a <> 0 then ignore (lemit l (HSetFuncVec (a, lref_where l z_is_vec)))
    end else lattach l (lref l)
  done

let lstack l (roots : int list) : slot list =
  let r = l.lr in
  let sl = ref (List.map (fun a -> SA a) roots) in
  (match roots with [] -> () | rs -> if chance r 50 then sl := SA (pickl r rs) :: !sl);
  if chance r 50 then sl := SA 0 :: !sl;
  for _ = 1 to rrange r 0 4 do
    let v = if l.nalive > 0 && chance r 70 then l.alive.(rint r l.nalive) else rint r (l.z.z_size + 5) in
    sl := (match rint r 3 with 0 -> SI v | 1 -> SS v | _ -> SU v) :: !sl
  done;
  let a = Array.of_list !sl in
  shuffle r a; Array.to_list a

let lcollect l (h : hop) =
  let before = ltop l in
  (match lemit l h with
   | Some _ ->
     let after = ltop l in
     if after < before then misc "collections_freed_ge1";
     if after >= 1 then misc "collections_retained_ge1";
     if after = 0 then misc "collections_emptied_heap";
     (* survivors are the new population *)
     l.nalive <- 0;
     for i = 0 to after - 1 do lpush_alive l l.z.z_list.(l.z.z_w).(i) done;
     l.lroots <- List.filter (fun a -> l.z.z_obj.(a) <> None) l.lroots;
     if l.rootvec <> 0 && l.z.z_obj.(l.rootvec) = None then l.rootvec <- 0;
     l.stuck <- false
   | None -> ())

let new_rootvec l limit =
  match lalloc l limit (Vec [ 0; 0; 0; 0; 0; 0; 0; 0 ]) with
  | Some v -> l.rootvec <- v; l.lroots <- v :: l.lroots
  | None -> ()

let gen_large (r : rng) small i outdir sparse : unit =
  let size = if small then pick r small_sizes else large_sizes.(i mod Array.length large_sizes) in
  let z = sim_new size in
  let l = { lr = r; z; lops = []; ln = 0; alive = Array.make 1024 0; nalive = 0; lroots = [];
            rootvec = 0; stuck = false } in
  let t = threshold size in
  (* phase 0: a root set *)
  new_rootvec l (size - 1);
  for _ = 1 to 3 do
    match lalloc l (size - 1) (lscalar r) with Some a -> l.lroots <- a :: l.lroots | None -> ()
  done;
  (* phase 1: bulk allocation up to one below the trigger of gc_run, run (nothing happens),
     one more cell, run (collects) *)
  lbulk l (t - 1);
  if ltop l = t - 1 then begin
    misc "run_one_below_threshold"; misc "run_below_threshold";
    ignore (lemit l (HRun (0, lstack l l.lroots)));
    ignore (lalloc l size (lscalar r));
    if ltop l = t then begin
      misc "run_at_threshold"; misc "run_triggered";
      lcollect l (HRun ((if chance r 50 then l.rootvec else 0), lstack l l.lroots))
    end
  end;
  (* containers and a root stack with more than 2^16 entries (largesmall: size/3): the last 8
     slots are the ONLY references to 8 fresh cells, so an index that wraps loses them *)
  let wide = if small then max 16 (size / 3) else 65536 + 8 in
  let fresh n = List.init n (fun _ -> match lalloc l (size - 1) (lscalar r) with Some a -> a | None -> 0) in
  (* the population before any of the fresh tail cells exists: none of the three bodies
     mentions a tail cell of another container *)
  let body =
    let n0 = l.nalive in
    List.init (wide - 8) (fun j -> if n0 = 0 then 0 else l.alive.(j mod n0)) in
  let with_tail b tail = List.rev_append (List.rev b) tail in
  let bigvec = (let tail = fresh 8 in match lalloc l (size - 1) (Vec (with_tail body tail)) with Some v -> v | None -> 0) in
  let bigarr =
    (match lalloc l (size - 1) (Arr ([ wide - 8 ], body)) with
     | Some a -> List.iter (fun x -> ignore (lemit l (HAppend (a, x)))) (fresh 8); a
     | None -> 0) in
  let stack_tail = fresh 8 in
  let stack_body = List.map (fun a -> SA a) body in
  misc "containers_wider_than_2^16_or_scaled";
  (* phase 2: allocate again, in the cells that were just freed, until out of memory *)
  lbulk l (size - 1);
  for _ = 1 to 3 do
    ignore (lemit l (HAlloc (if chance r 50 then lscalar r else Vec [ lref l ])))
  done;
  (* phase 3a: only the wide containers (and the cells kept for 3b) as roots: their last 8
     elements are reachable through slots >= 2^16 only;
     phase 3b: a root stack with more than 2^16 slots, the last 8 hold roots found nowhere else
     (the containers themselves are garbage now) *)
  lcollect l (HCollect (lstack l (List.filter (fun a -> a <> 0) ([ bigvec; bigarr ] @ stack_tail))));
  lcollect l (HCollect (with_tail stack_body (List.map (fun a -> SA a) stack_tail)));
  misc "root_stack_wider_than_2^16_or_scaled";
  (* phase 3c: collect with (almost) no roots *)
  (match rint r 3 with
   | 0 -> misc "collect_with_no_roots"; lcollect l (HCollect (lstack l []))
   | 1 -> misc "run_triggered"; lcollect l (HRun (0, lstack l []))
   | _ -> lcollect l (HCollect (lstack l (match l.lroots with a :: _ -> [ a ] | [] -> []))));
  (* phase 4: a new population, a collection that keeps part of it, a few more cells *)
  new_rootvec l (size - 1);
  lbulk l (min (size - 1) (ltop l + max 20 (min 3000 (size / 10))));
  lcollect l (HCollect (lstack l l.lroots));
  lbulk l (min (size - 1) (ltop l + 10));
  (* write history + expected (sparse) dump *)
  let ops = Array.of_list (List.rev_map (fun h -> (h, false)) l.lops) in
  let b = Buffer.create (1 lsl 20) and hb = Buffer.create (1 lsl 16) in
  run_dump sim_machine size ops sparse b hb;
  tbl_incr st_sizes (size_bucket size) 1;
  tbl_incr st_lens (len_bucket l.ln) 1;
  tbl_incr st_styles (if small then "largesmall" else "large") 1;
  if size mod 5 = 0 then misc "heap_size_multiple_of_5" else misc "heap_size_not_multiple_of_5";
  misc "histories";
  tbl_incr st_misc "ops_total" l.ln;
  let w path b = let oc = open_out path in Buffer.output_buffer oc b; close_out oc in
  w (Filename.concat outdir (Printf.sprintf "case%d.hist" i)) hb;
  w (Filename.concat outdir (Printf.sprintf "case%d.exp" i)) b

let gen seed ncases outdir profile first sparse =
  (try Unix.mkdir outdir 0o755 with Unix.Unix_error (Unix.EEXIST, _, _) -> ());
  let r = rng_make seed in
  for i = first to first + ncases - 1 do
    match profile with
    | "large" -> gen_large r false i outdir sparse
    | "largesmall" -> gen_large r true i outdir sparse
    | _ -> gen_case r profile i outdir
  done;
  Printf.printf "{\"seed\": %d, \"profile\": %S, \"ops\": %s, \"object_kinds\": %s, \"events\": %s, \"heap_sizes\": %s, \"history_lengths\": %s, \"styles\": %s, \"macros\": %s}\n"
    seed profile (json_of_tbl st_ops) (json_of_tbl st_kinds) (json_of_tbl st_misc)
    (json_of_tbl st_sizes) (json_of_tbl st_lens) (json_of_tbl st_styles) (json_of_tbl st_macros)

let usage () =
  prerr_endline "usage: run gen <seed> <ncases> <outdir> [mixed|tiny|boundary|long [first]]\n       run gen <seed> <ncases> <outdir> large|largesmall <first> <K>\n       run replay [--sim] [--sparse <K>] <hist> [<outhist>]";
  exit 2

let () =
  try
    let small_profiles = [ "mixed"; "tiny"; "boundary"; "long" ] in
    match Array.to_list Sys.argv with
    | [ _; "gen"; seed; n; outdir ] -> gen (int_of_string seed) (int_of_string n) outdir "mixed" 0 0
    | [ _; "gen"; seed; n; outdir; profile ] ->
      if not (List.mem profile small_profiles) then usage ();
      gen (int_of_string seed) (int_of_string n) outdir profile 0 0
    | [ _; "gen"; seed; n; outdir; profile; first ] ->
      if not (List.mem profile small_profiles) then usage ();
      gen (int_of_string seed) (int_of_string n) outdir profile (int_of_string first) 0
    | [ _; "gen"; seed; n; outdir; profile; first; k ] ->
      if not (List.mem profile [ "large"; "largesmall" ]) || int_of_string k < 1 then usage ();
      gen (int_of_string seed) (int_of_string n) outdir profile (int_of_string first) (int_of_string k)
    | _ :: "replay" :: rest ->
      let rec opts sim sparse = function
        | "--sim" :: tl -> opts true sparse tl
        | "--sparse" :: k :: tl -> opts sim (int_of_string k) tl
        | [ h ] -> replay ~sim ~sparse h None
        | [ h; o ] -> replay ~sim ~sparse h (Some o)
        | _ -> usage () in
      opts false 0 rest
    | _ -> usage ()
  with
  | Bad_format s -> Printf.eprintf "history format error: %s\n" s; exit 2
  | Failure s -> Printf.eprintf "error: %s\n" s; exit 2
  | Sys_error s -> Printf.eprintf "error: %s\n" s; exit 2
