"""Shared glue for the arithmetic checks (C11, C10) and the table generator:
batch execution of probe programs through harness drivers (nevrun / dumpops), parsing of
their output, Never literal syntax for exact bit patterns.  Unverified glue (DESIGN §8)."""
import concurrent.futures
import os
import struct
import subprocess
from decimal import Decimal

# ---------------------------------------------------------------- literals ------------

INT_MIN, INT_MAX = -2 ** 31, 2 ** 31 - 1
LONG_MIN, LONG_MAX = -2 ** 63, 2 ** 63 - 1


def f32_of_bits(b):
    return struct.unpack("<f", struct.pack("<I", b & 0xFFFFFFFF))[0]


def f64_of_bits(b):
    return struct.unpack("<d", struct.pack("<Q", b & 0xFFFFFFFFFFFFFFFF))[0]


def bits_of_f32(x):
    return struct.unpack("<I", struct.pack("<f", x))[0]


def bits_of_f64(x):
    return struct.unpack("<Q", struct.pack("<d", x))[0]


def exact_decimal(x):
    """Exact decimal expansion DIGITS.DIGITS of a finite non-negative binary value."""
    s = format(Decimal(x), "f")
    if "." not in s:
        s += ".0"
    return s


def is_finite32(b):
    return (b >> 23) & 0xFF != 0xFF


def is_finite64(b):
    return (b >> 52) & 0x7FF != 0x7FF


def is_nan32(b):
    return (b >> 23) & 0xFF == 0xFF and b & 0x7FFFFF != 0


def is_nan64(b):
    return (b >> 52) & 0x7FF == 0x7FF and b & 0xFFFFFFFFFFFFF != 0


def canon32(b):
    return 0x7FC00000 if is_nan32(b) else b


def canon64(b):
    return 0x7FF8000000000000 if is_nan64(b) else b


def lit_int(z):
    """scanner.l: {DIGIT}+ via %d, 0x{HEX}+ via %x (any 32-bit pattern)."""
    assert INT_MIN <= z <= INT_MAX
    return str(z) if z >= 0 else "0x%08X" % (z & 0xFFFFFFFF)


def lit_long(z):
    assert LONG_MIN <= z <= LONG_MAX
    return "%dL" % z if z >= 0 else "0x%016XL" % (z & 0xFFFFFFFFFFFFFFFF)


def lit_float_pos(b):
    """{DIGIT}+"."{DIGIT}+[fF]* ; only finite values with the sign bit clear."""
    assert b >> 31 == 0 and is_finite32(b)
    return exact_decimal(f32_of_bits(b)) + "f"


def lit_double_pos(b):
    assert b >> 63 == 0 and is_finite64(b)
    return exact_decimal(f64_of_bits(b)) + "d"


# ---------------------------------------------------------------- batches -------------

def parse_output(text):
    """-> dict id -> {lines, outcome, detail, status, code}"""
    res = {}
    cur = None
    for line in text.split("\n"):
        if line.startswith("@@BEGIN "):
            cur = {"lines": [], "outcome": None, "detail": "", "status": None, "code": None}
            res[line[8:].strip()] = cur
        elif cur is None:
            continue
        elif line.startswith("@@CODE "):
            cur["code"] = []
        elif line.startswith("@@OUTCOME "):
            parts = line.split(" ", 3)
            cur["outcome"] = parts[2] if len(parts) > 2 else ""
            cur["detail"] = parts[3].strip() if len(parts) > 3 else ""
        elif line.startswith("@@END "):
            cur["status"] = line.split("status=", 1)[1].strip() if "status=" in line else "?"
            cur = None
        elif cur["code"] is not None and (line.startswith("K ") or line.startswith("I ")):
            cur["code"].append(line.rstrip("\r"))
        else:
            cur["lines"].append(line.rstrip("\r"))
    return res


def _run_chunk(driver, path, timeout):
    try:
        p = subprocess.run([driver, "--batch", path], stdout=subprocess.PIPE,
                           stderr=subprocess.DEVNULL, timeout=timeout, text=True, errors="replace")
        return p.stdout
    except subprocess.TimeoutExpired as e:
        so = e.stdout
        return so.decode(errors="replace") if isinstance(so, bytes) else (so or "")


def run_batch(driver, progs, workdir, tag, jobs=16, timeout=600):
    """progs: list of (id, header_extra, source).  Runs them in `jobs` parallel driver
    invocations; returns dict id -> parsed record (missing ids: driver died)."""
    os.makedirs(workdir, exist_ok=True)
    jobs = max(1, min(jobs, (len(progs) + 199) // 200 or 1))
    chunks = [progs[i::jobs] for i in range(jobs)]
    paths = []
    for i, ch in enumerate(chunks):
        path = os.path.join(workdir, "%s.%02d.batch" % (tag, i))
        with open(path, "w") as f:
            for pid, extra, src in ch:
                f.write("@@@ %s%s\n%s\n" % (pid, (" " + extra) if extra else "", src))
        paths.append(path)
    out = {}
    with concurrent.futures.ThreadPoolExecutor(max_workers=jobs) as ex:
        for text in ex.map(lambda p: _run_chunk(driver, p, timeout), paths):
            out.update(parse_output(text))
    for p in paths:
        try:
            os.remove(p)
        except OSError:
            pass
    return out


def classify_run(rec):
    """Outcome of a nevrun record, canonicalised:
       ('val', type, payload) | ('fault', name) | ('compile_error',) | ('crash', how)"""
    if rec is None:
        return ("crash", "driver-lost")
    oc = rec["outcome"]
    if oc == "RESULT":
        parts = rec["detail"].split()
        t = parts[0]
        if t in ("int", "long", "char"):
            return ("val", t, int(parts[1]))
        if t == "float":
            return ("val", t, canon32(int(parts[1], 16)))
        if t == "double":
            return ("val", t, canon64(int(parts[1], 16)))
        return ("val", t, parts[1] if len(parts) > 1 else "")
    if oc == "EXEC_ERROR":
        txt = "\n".join(rec["lines"])
        for name in ("division_by_zero", "nil_pointer", "index_out_of_bounds", "invalid",
                     "overflow", "underflow", "inexact", "wrong_array_size"):
            if "unhandled %s exception" % name in txt:
                return ("fault", name)
        return ("fault", "?")
    if oc == "COMPILE_ERROR":
        txt = "\n".join(rec["lines"])
        if "division by zero" in txt:
            return ("compile_error", "division by zero")
        return ("compile_error", "other")
    if oc in ("PREPARE_ERROR",):
        return ("compile_error", "prepare")
    st = rec["status"] or "?"
    txt = "\n".join(rec["lines"])
    if "FPE" in txt or st == "signal 8":
        return ("crash", "sigfpe")
    if "Assertion" in txt or st == "signal 6":
        where = ""
        for l in rec["lines"]:
            if "Assertion" in l:
                where = l.split(":")[1].strip() if l.count(":") > 1 else ""
                where = os.path.basename(where)
                break
        return ("crash", "assert:" + where)
    return ("crash", "status=" + st)


def program_text(rec):
    """stdout text of the program itself (diagnostics of the compiler/VM removed)."""
    out = []
    for l in rec["lines"]:
        if l.startswith("<stdin>:") or l.startswith("unhandled ") or l.startswith("machine:") or l.startswith("\t"):
            continue
        out.append(l)
    return "\n".join(out).strip("\n")
