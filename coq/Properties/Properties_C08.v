(* C08 — lexical scoping, closures keep their cells: theorems on the reference evaluator
   (Src/Eval.v), for ALL programs / expressions / environments / stores.  Only statements
   here; every proof is `exact <lemma>` into Src/Alpha.v, Src/AlphaSubst.v, Src/EvalProps.v.
   (The compiler half of C08 -- stage 3 of compile_correct -- is stated elsewhere, staged.) *)
From Coq Require Import ZArith NArith List Bool.
From NV Require Import Src.Syntax Src.Eval Src.EvalLemmas Src.EvalProps Src.Alpha Src.AlphaSubst.
Import ListNotations.

(* ---- scoping is a function of the text alone: injective renamings -------------------- *)

(* the observable outcome of a whole program (result scalar / exception, print trace) is
   invariant under every injective renaming of all identifiers *)
Theorem rename_invariance : forall rho : ident -> ident,
  (forall x y, rho x = rho y -> x = y) ->
  forall fuel p args,
    observe (run_program fuel (rename_program rho p) args) = observe (run_program fuel p args).
Proof. exact Alpha.rename_invariance. Qed.
Print Assumptions rename_invariance.

(* the simulation behind it: same result cell, store renamed inside function values only *)
Theorem eval_rename : forall rho : ident -> ident,
  (forall x y, rho x = rho y -> x = y) ->
  forall genv k e st x,
    eval (rename_env rho genv) k (rename_env rho e) (rename_state rho st) (rename_expr rho x) =
    ren_res rho (eval genv k e st x).
Proof. exact Alpha.eval_rename. Qed.
Print Assumptions eval_rename.

(* ---- alpha-conversion of one binder (capture-avoiding substitution) ------------------- *)

(* `let x = a; rest`  ==  `let y = a; rest[x:=y]`  when y does not occur in rest.
   res_rel: equal result, equal output/arrays/records, cells equal except that function
   values created in `rest` hold y where they held x (cell_rel / cfg in Src/AlphaSubst.v). *)
Theorem alpha_fresh_binder : forall x y genv k e st a rest last,
  all_list (nin_item y) rest ->
  res_rel x y (eval_items genv k e st (ILet x a :: rest) last)
              (eval_items genv k e st (ILet y a :: subst_var x y rest) last) /\
  res_rel x y (eval_items genv k e st (IVar x a :: rest) last)
              (eval_items genv k e st (IVar y a :: subst_var x y rest) last).
Proof. exact AlphaSubst.alpha_fresh_binder. Qed.
Print Assumptions alpha_fresh_binder.

Theorem alpha_fresh_binder_in_block : forall x y genv pre k e st a rest last,
  all_list (nin_item y) rest ->
  res_rel x y (eval_items genv k e st (pre ++ ILet x a :: rest) last)
              (eval_items genv k e st (pre ++ ILet y a :: subst_var x y rest) last) /\
  res_rel x y (eval_items genv k e st (pre ++ IVar x a :: rest) last)
              (eval_items genv k e st (pre ++ IVar y a :: subst_var x y rest) last).
Proof. exact AlphaSubst.alpha_fresh_binder_in_block. Qed.
Print Assumptions alpha_fresh_binder_in_block.

(* the general simulation: any term in the scope of the renamed binder *)
Theorem eval_subst_rel : forall x y genv k s on E1 E2 st1 st2 t,
  cfg x y s on E1 E2 -> (s = true -> nin_expr y t) -> st_rel x y st1 st2 ->
  res_rel x y (eval genv k E1 st1 t) (eval genv k E2 st2 (sub_expr x y on t)).
Proof. exact AlphaSubst.eval_subst_rel. Qed.
Print Assumptions eval_subst_rel.

(* related results agree on everything observable *)
Theorem res_rel_observable : forall x y p1 p2, res_rel x y p1 p2 ->
  fst p1 = fst p2 /\ out (snd p1) = out (snd p2) /\
  arrs (snd p1) = arrs (snd p2) /\ recs (snd p1) = recs (snd p2) /\
  length (cells (snd p1)) = length (cells (snd p2)) /\
  (forall c, get_int (snd p1) c = get_int (snd p2) c) /\
  (forall c, get_bool (snd p1) c = get_bool (snd p2) c) /\
  (forall c a, get_cell (snd p1) c = Some (CArr a) <-> get_cell (snd p2) c = Some (CArr a)) /\
  (forall c r, get_cell (snd p1) c = Some (CRec r) <-> get_cell (snd p2) c = Some (CRec r)).
Proof. exact AlphaSubst.res_rel_observable. Qed.
Print Assumptions res_rel_observable.

(* outside the scope of the binder the substitution is the identity *)
Theorem subst_outside_scope_is_identity : forall x y,
  (forall t, sub_expr x y false t = t) /\ (forall i, sub_item x y false i = i) /\
  (forall fd, sub_fdef x y false fd = fd).
Proof. exact AlphaSubst.sub_false_id. Qed.
Print Assumptions subst_outside_scope_is_identity.

(* ---- closures keep their cells -------------------------------------------------------- *)

Theorem closure_captures_cells : forall genv,
  (forall k e st fd,
     eval genv (S k) e st (ELambda fd) = (ROk (length (cells st)), with_new_cell st (CFun fd e))) /\
  (forall k e st f args cs st1 cf st2 fd cenv penv,
     args_rtl genv k e args st cs st1 -> eval genv k e st1 f = (ROk cf, st2) ->
     get_cell st2 cf = Some (CFun fd cenv) -> bind_params (fd_params fd) cs = Some penv ->
     eval genv (S k) e st (ECall f args) = call_body genv k (penv ++ cenv) st2 fd).
Proof. exact EvalProps.closure_captures_cells. Qed.
Print Assumptions closure_captures_cells.

(* adjacent function items of a block are bound together (the typechecker declares such a run
   together, the emitter allocates all their slots first): one new cell per function, in order,
   each holding the closure over the SAME environment e', which binds every function of the run *)
Theorem func_run_captures_env : forall genv k e st fd rest last,
  let fds := fd :: run_funcs rest in
  let c0 := length (cells st) in
  let e' := func_env fds c0 e in
  exists st1,
    eval_items genv (S k) e st (IFunc fd :: rest) last =
      eval_items genv k e' st1 (run_rest rest) (Some (length (run_funcs rest) + c0)) /\
    (forall i f, nth_error fds i = Some f -> get_cell st1 (c0 + i) = Some (CFun f e')) /\
    (forall c', c' < c0 -> get_cell st1 c' = get_cell st c') /\
    length (cells st1) = c0 + length fds /\
    arrs st1 = arrs st /\ recs st1 = recs st /\ out st1 = out st.
Proof. exact EvalProps.func_run_captures_env. Qed.
Print Assumptions func_run_captures_env.

(* in e' the i-th function of the run denotes the i-th new cell (unless a later function of the
   run has its name); every other name keeps its meaning *)
Theorem func_run_names : forall fds c e,
  (forall i f, nth_error fds i = Some f ->
     (forall j g, i < j -> nth_error fds j = Some g -> fd_name g <> fd_name f) ->
     lookup (fd_name f) (func_env fds c e) = Some (c + i)) /\
  (forall x, (forall f, In f fds -> fd_name f <> x) -> lookup x (func_env fds c e) = lookup x e).
Proof. exact EvalProps.func_run_names. Qed.
Print Assumptions func_run_names.

(* the special case of a function item that is not followed by another function item *)
Theorem func_item_captures_env : forall genv k e st fd rest last,
  run_funcs rest = [] ->
  let c := length (cells st) in
  let e' := (fd_name fd, c) :: e in
  exists st1,
    eval_items genv (S k) e st (IFunc fd :: rest) last = eval_items genv k e' st1 rest (Some c) /\
    get_cell st1 c = Some (CFun fd e') /\
    (forall c', c' <> c -> get_cell st1 c' = get_cell st c') /\
    arrs st1 = arrs st /\ recs st1 = recs st /\ out st1 = out st.
Proof. exact EvalProps.func_item_captures_env. Qed.
Print Assumptions func_item_captures_env.

Theorem closure_var_denotes_captured_cell : forall genv k ps cs penv cenv x c st,
  bind_params ps cs = Some penv -> (forall p, In p ps -> fst (fst p) <> x) ->
  lookup x cenv = Some c ->
  eval genv (S k) (penv ++ cenv) st (EVar x) = (ROk c, st).
Proof. exact EvalProps.closure_var_denotes_captured_cell. Qed.
Print Assumptions closure_var_denotes_captured_cell.

Theorem distinct_activations_distinct_cells : forall genv k1 k2 e1 e2 st1 st1' st2 st2' z1 z2 c1 c2,
  eval genv k1 e1 st1 (EInt z1) = (ROk c1, st1') ->
  st_le st1' st2 ->
  eval genv k2 e2 st2 (EInt z2) = (ROk c2, st2') ->
  c1 < c2 /\ c1 = length (cells st1) /\ c2 = length (cells st2) /\
  get_cell st2 c2 = None /\ get_cell st2' c1 <> None.
Proof. exact EvalProps.distinct_activations_distinct_cells. Qed.
Print Assumptions distinct_activations_distinct_cells.

Theorem var_item_binds_new_cell : forall genv k e st x z rest last,
  eval_items genv (S (S k)) e st (IVar x (EInt z) :: rest) last =
  eval_items genv (S k) ((x, length (cells st)) :: e) (with_new_cell st (CInt (wrap32 z))) rest
             (Some (length (cells st))).
Proof. exact EvalProps.var_item_binds_new_cell. Qed.
Print Assumptions var_item_binds_new_cell.

(* st_le st st' := |cells st| <= |cells st'|, arrs/recs st are prefixes of arrs/recs st',
   out st is a suffix of out st' (out is most-recent-first) *)
Theorem store_monotone : forall genv k e st x r st',
  eval genv k e st x = (r, st') -> st_le st st'.
Proof. exact EvalProps.store_monotone. Qed.
Print Assumptions store_monotone.

Theorem store_monotone_items : forall genv k e st l last r st',
  eval_items genv k e st l last = (r, st') -> st_le st st'.
Proof. exact EvalProps.store_monotone_items. Qed.
Print Assumptions store_monotone_items.

Theorem store_monotone_handlers : forall genv k e st ex cs call r st',
  handlers genv k e st ex cs call = (r, st') -> st_le st st'.
Proof. exact EvalProps.store_monotone_handlers. Qed.
Print Assumptions store_monotone_handlers.

Theorem cells_only_grow : forall genv k e st x r st',
  eval genv k e st x = (r, st') -> length (cells st) <= length (cells st').
Proof. exact EvalProps.cells_only_grow. Qed.
Print Assumptions cells_only_grow.

Theorem cells_keep_index : forall genv k e st x r st' c,
  eval genv k e st x = (r, st') -> get_cell st c <> None -> get_cell st' c <> None.
Proof. exact EvalProps.cells_keep_index. Qed.
Print Assumptions cells_keep_index.

Theorem objects_keep_index : forall genv k e st x r st' i l,
  eval genv k e st x = (r, st') ->
  (nth_error (arrs st) i = Some l -> nth_error (arrs st') i = Some l) /\
  (nth_error (recs st) i = Some l -> nth_error (recs st') i = Some l).
Proof. exact EvalProps.objects_keep_index. Qed.
Print Assumptions objects_keep_index.

(* ---- the statements apply to real programs -------------------------------------------- *)
Local Open Scope N_scope.

(* func mk() -> () -> int { var n = 0; func inc() -> int { n = n + 1 } inc }
   func main() -> int { let c = mk(); c(); c(); c() }          -- a counter that outlives mk *)
Definition f_mk : fdef :=
  FDef 1 [] (TFun [] TInt)
    [IVar 3 (EInt 0);
     IFunc (FDef 4 [] TInt [IExpr (EAssign (EVar 3) (EBin Add (EVar 3) (EInt 1)))] [] None);
     IExpr (EVar 4)] [] None.
Definition prog_counter : program :=
  {| p_recs := [];
     p_funcs := [f_mk;
                 FDef 2 [] TInt [ILet 5 (ECall (EVar 1) []); IExpr (ECall (EVar 5) []);
                                 IExpr (ECall (EVar 5) []); IExpr (ECall (EVar 5) [])] [] None];
     p_main := 2 |}.
Example ex_counter_outlives_definer : run_program 30 prog_counter [] = OResult (CInt 3) [].
Proof. vm_compute. reflexivity. Qed.

(* two activations of mk have distinct cells: c1(); c1(); c2()  yields 1, and
   print(c1()) afterwards shows 3 *)
Definition prog_two_counters : program :=
  {| p_recs := [];
     p_funcs := [f_mk;
                 FDef 2 [] TInt [ILet 5 (ECall (EVar 1) []); ILet 6 (ECall (EVar 1) []);
                                 IExpr (ECall (EVar 5) []); IExpr (ECall (EVar 5) []);
                                 IExpr (EPrint (ECall (EVar 6) []));
                                 IExpr (EPrint (ECall (EVar 5) []))] [] None];
     p_main := 2 |}.
Example ex_two_counters : run_program 30 prog_two_counters [] = OResult (CInt 3) [1; 3]%Z.
Proof. vm_compute. reflexivity. Qed.

(* shadowing: let x = 1; let f = lambda() { x }; let x = 2; f() + 10 * x   = 21 *)
Definition prog_shadow : program :=
  {| p_recs := [];
     p_funcs := [FDef 2 [] TInt
                   [ILet 3 (EInt 1);
                    ILet 4 (ELambda (FDef 0 [] TInt [IExpr (EVar 3)] [] None));
                    ILet 3 (EInt 2);
                    IExpr (EBin Add (ECall (EVar 4) []) (EBin Mul (EInt 10) (EVar 3)))] [] None];
     p_main := 2 |}.
Definition shift100 (n : ident) : ident := n + 100.
Example shift100_inj : forall x y, shift100 x = shift100 y -> x = y.
Proof. unfold shift100. intros x y H. apply (proj1 (N.add_cancel_r x y 100) H). Qed.

Example ex_shadow : run_program 30 prog_shadow [] = OResult (CInt 21) [].
Proof. vm_compute. reflexivity. Qed.
Example ex_shadow_renamed_really_differs : rename_program shift100 prog_shadow <> prog_shadow.
Proof. vm_compute. discriminate. Qed.
Example ex_shadow_renamed_by_theorem :
  observe (run_program 30 (rename_program shift100 prog_shadow) []) = ObsInt 21 [].
Proof. rewrite (Alpha.rename_invariance shift100 shift100_inj). vm_compute. reflexivity. Qed.
Example ex_shadow_renamed_by_computation :
  run_program 30 (rename_program shift100 prog_shadow) [] = OResult (CInt 21) [].
Proof. vm_compute. reflexivity. Qed.

(* injectivity is necessary: merging the names 4 (f) and 3 (x) changes the meaning *)
Example ex_noninjective_renaming_changes_meaning :
  let merge := fun n : ident => if N.eqb n 4 then 3 else n in
  observe (run_program 30 (rename_program merge prog_shadow) []) <>
  observe (run_program 30 prog_shadow []).
Proof. vm_compute. discriminate. Qed.

(* alpha-conversion: let x = 1; func g() -> int { x }; x = x + 1; let x = 7 (inner binder);
   g() + x      with x := 3 renamed to the fresh 9: the inner binder and what follows are kept *)
Definition alpha_rest : list item :=
  [IFunc (FDef 4 [] TInt [IExpr (EVar 3)] [] None);
   IExpr (EAssign (EVar 3) (EBin Add (EVar 3) (EInt 1)));
   ILet 3 (EInt 7);
   IExpr (EBin Add (ECall (EVar 4) []) (EVar 3))].
Example ex_subst_var :
  subst_var 3 9 alpha_rest =
  [IFunc (FDef 4 [] TInt [IExpr (EVar 9)] [] None);
   IExpr (EAssign (EVar 9) (EBin Add (EVar 9) (EInt 1)));
   ILet 3 (EInt 7);
   IExpr (EBin Add (ECall (EVar 4) []) (EVar 3))].
Proof. vm_compute. reflexivity. Qed.
Example ex_alpha_hypothesis_holds : all_list (nin_item 9) alpha_rest.
Proof. cbv; repeat split; discriminate. Qed.
Example ex_alpha_both_sides :
  let r1 := eval_items [] 30 [] empty_state (ILet 3 (EInt 1) :: alpha_rest) None in
  let r2 := eval_items [] 30 [] empty_state (ILet 9 (EInt 1) :: subst_var 3 9 alpha_rest) None in
  fst r1 = fst r2 /\ (exists c, fst r1 = ROk c /\ get_cell (snd r1) c = Some (CInt 9)
                                /\ get_cell (snd r2) c = Some (CInt 9)) /\
  snd r1 <> snd r2.      (* the stores differ: the closure g holds 9 instead of 3 *)
Proof.
  vm_compute. split; [reflexivity|]. split; [eexists; repeat split; reflexivity|]. discriminate.
Qed.

(* ---- for-in loops: every iteration has a loop variable of its own ----------------------- *)
From NV Require Import Src.EvalForIn.
From Coq Require Import Sorted.

(* one iteration over a range: the loop variable is bound to a BRAND-NEW cell (it did not exist
   before) holding the current value; no other cell, array, record or output changes; the loop
   continues with the next value *)
Theorem forin_range_step_fresh_cell : forall st s,
  is_range s ->
  match forin_step st s with
  | LsDone => match s with LUp z zb => (zb < z)%Z | LDown z zb => (z < zb)%Z | LArr _ _ => False end
  | LsFault _ => False
  | LsBind c st1 s' =>
    exists z zb, (s = LUp z zb /\ (z <= zb)%Z /\ s' = LUp (wrap32 (z + 1)) zb \/
                  s = LDown z zb /\ (zb <= z)%Z /\ s' = LDown (wrap32 (z - 1)) zb) /\
    c = length (cells st) /\ get_cell st c = None /\
    st1 = with_new_cell st (CInt z) /\ get_cell st1 c = Some (CInt z) /\
    (forall c', c' <> c -> get_cell st1 c' = get_cell st c')
  end.
Proof. exact EvalForIn.forin_range_step_fresh_cell. Qed.
Print Assumptions forin_range_step_fresh_cell.

(* distinct iterations => distinct cells: the cells bound to the loop variable by the iterations
   of a range loop (ascending or descending, whatever the body does) are strictly increasing,
   hence pairwise different, and none of them existed when the loop started *)
Theorem forin_range_cells_distinct : forall genv k x e body n s st, is_range s ->
  let cs := forin_cells (fun c st' => eval genv k ((x, c) :: e) st' body) n s st in
  StronglySorted lt cs /\ NoDup cs /\ Forall (fun c => get_cell st c = None) cs.
Proof. exact EvalForIn.forin_range_cells_distinct. Qed.
Print Assumptions forin_range_cells_distinct.

(* a function value created in iteration k keeps iteration k's cell: it stores the environment
   (x -> c) :: e of that iteration, and whenever it is called later (any store, any arguments,
   during or after the loop) the loop variable's name denotes that same cell c *)
Theorem forin_closure_reads_own_cell : forall genv k x c e st fd,
  eval genv (S k) ((x, c) :: e) st (ELambda fd) =
    (ROk (length (cells st)), with_new_cell st (CFun fd ((x, c) :: e))) /\
  forall k' cs penv st',
    bind_params (fd_params fd) cs = Some penv ->
    (forall p, In p (fd_params fd) -> fst (fst p) <> x) ->
    eval genv (S k') (penv ++ (x, c) :: e) st' (EVar x) = (ROk c, st').
Proof. exact EvalForIn.forin_closure_reads_own_cell. Qed.
Print Assumptions forin_closure_reads_own_cell.

(* over an array the loop variable IS the element cell (no new cell, no copy), read through the
   iterable's cell at the start of every iteration *)
Theorem forin_arr_step_shares_cell : forall st ca i ar elems,
  get_cell st ca = Some (CArr (Some ar)) -> nth_error (arrs st) ar = Some elems ->
  forin_step st (LArr ca i) =
  match nth_error elems i with
  | Some c => LsBind c st (LArr ca (S i))
  | None => LsDone
  end.
Proof. exact EvalForIn.forin_arr_step_shares_cell. Qed.
Print Assumptions forin_arr_step_shares_cell.

(* var fs = [f0, f0, f0]; for (i in [3 .. 1]) { fs[i - 1] = let func () -> int { i } };
   print(fs[0]()); print(fs[1]()); print(fs[2]())       prints 1 2 3: three cells, not one counter *)
Definition prog_forin_closures (a b : Z) : program :=
  let f0 := ELambda (FDef 9%N [] TInt [IExpr (EInt 0)] [] None) in
  let cap := ELambda (FDef 9%N [] TInt [IExpr (EVar 2%N)] [] None) in
  let call i := EPrint (ECall (EIndex (EVar 1%N) (EInt i)) []) in
  {| p_recs := [];
     p_funcs := [FDef 7%N [] TInt
        [IVar 1%N (EArrLit [f0; f0; f0] (TFun [] TInt));
         IExpr (EForInRange 2%N (EInt a) (EInt b)
                  (EAssign (EIndex (EVar 1%N) (EBin Sub (EVar 2%N) (EInt 1))) cap));
         IExpr (call 0%Z); IExpr (call 1%Z); IExpr (call 2%Z)] [] None];
     p_main := 7%N |}.
Example ex_forin_closures_down : run_program 40 (prog_forin_closures 3 1) [] = OResult (CInt 3) [1; 2; 3]%Z.
Proof. vm_compute. reflexivity. Qed.
Example ex_forin_closures_up : run_program 40 (prog_forin_closures 1 3) [] = OResult (CInt 3) [1; 2; 3]%Z.
Proof. vm_compute. reflexivity. Qed.
