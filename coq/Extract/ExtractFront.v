(* Extraction of the front-end slices for the C05 harness: the outcome classifier (oracle of the
   search), the print_msg arithmetic (run against ASan's verdict) and the include-stack walk
   (run against the real scanner).  ExtrOcamlBasic only; N/Z/positive/nat stay datatypes and
   are converted by harness/ocaml/front/frontrun.ml. *)
From Coq Require Import ExtrOcamlBasic.
Require Import NV.Gen.FrontConsts NV.Front.Outcome NV.Front.MsgBuf NV.Front.UseStack.

Extraction "frontmodel.ml" classify_bytes within_buffer msg_safe_all msg_overflow_witness
  first_overflow_body walk_main use_run u_init MSG_BUF_SIZE MAX_USE_DEPTH USE_STACK_SIZE.
