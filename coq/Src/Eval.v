(* Reference evaluator for the modelled core of Never, written from the language rules
   (DESIGN.md Appendix B), structurally unlike the compiler + VM:
     - names are bound to cells; binding never copies (let/var/parameters/record fields/array
       elements all share the cell their initialiser evaluates to); `a + 0` makes a fresh cell;
     - assignment copies the payload of the right cell into the left cell and yields the left
       cell; the left side is evaluated first;
     - binary operands left to right; call / record constructor / array literal arguments right
       to left, then the function expression;  && and || short-circuit;
     - int is 32-bit two's complement with wrap-around, / and % truncate;
     - == and != also compare a reference (record, array, function value) with nil: the result
       tells whether the reference is nil; two non-nil references are not comparable;
     - a maximal run of adjacent function items of a block is declared together: every function
       of the run sees all of them (and itself), whatever their order;
     - a fault (zero divisor, index out of bounds, nil record) unwinds to the first matching
       catch clause of the innermost active function that has one; an exception raised inside a
       clause is offered to the later clauses of the same function only.
   Big-step, with explicit fuel (RFuel when exhausted).

   for-in loops (measured on the unchanged tree with `never -f`, and read in front/parser.y
   `TOK_FOR '(' TOK_ID TOK_IN expr ')' expr`, front/tcforin.c, front/emit.c expr_forin_*_emit):
     - the iterable must be a one-dimensional range, array or slice (a string is rejected by
       expr_forin_check_type); the modelled core has ranges only in this position
       (EForInRange) and arrays (EForInArr); slices are outside the core (over a slice the loop
       variable is the element cell of the underlying array, like over an array);
     - the iterable is evaluated first and once.  The two bounds of a range `[a .. b]` are
       evaluated right to left (b, then a) and copied: assigning to a variable that occurs in a
       bound inside the body does not change the loop;
     - range: if a < b the loop runs a, a+1, .., b, otherwise a, a-1, .., b (so both bounds are
       inclusive, a = b gives one iteration, and there is no empty range).  Every iteration
       binds the loop variable to a FRESH cell holding the current value (OP_DUP_INT), so a
       function value created in the body captures a cell of its own; the hidden counter is
       stepped with OP_INC_INT / OP_DEC_INT after the body: 32-bit wrap-around, so a range that
       ends at 2147483647 (ascending) or -2147483648 (descending) never terminates;
       the loop variable is CONST (`i = ..` and `var z = i` are rejected);
     - array: iteration k (k = 0, 1, ..) re-reads the array reference in the CELL the iterable
       evaluated to (ID_DIM_LOCAL / ARRAYREF_DEREF on that slot), stops when k is not below its
       present length, and binds the loop variable to the k-th ELEMENT CELL itself: no copy; an
       assignment to the loop variable is an assignment to the element (allowed iff the array
       expression is VAR: the variable has the constness of the iterable); assigning another
       array to the iterated variable in the body redirects the remaining iterations;
     - the loop variable lives in a scope of its own around the body (a block body may
       re-declare the name); it shadows outer bindings during the body only;
     - the value of the loop is a fresh int 0 (TEMP); the body may have any type;
     - a fault in the body (or in the iterable) leaves the loop at once and unwinds as usual.
   The number of iterations is bounded by the fuel of the loop expression; each iteration's body
   runs with that fuel. *)
From Coq Require Import ZArith List Bool.
From NV Require Import Src.Syntax.
Import ListNotations.
Local Open Scope Z_scope.

Definition wrap32 (z : Z) : Z := (z + 2147483648) mod 4294967296 - 2147483648.

Inductive cellval :=
| CInt (z : Z)
| CBool (b : bool)
| CFun (fd : fdef) (env : list (ident * nat))
| CArr (a : option nat)            (* reference to an array object; None = nil *)
| CRec (r : option nat).           (* reference to a record object; None = nil *)

Record state := {
  cells : list cellval;
  arrs : list (list nat);          (* array objects: element cells *)
  recs : list (list nat);          (* record objects: field cells *)
  out : list Z                     (* numbers printed so far, most recent first *)
}.

Inductive res := ROk (c : nat) | RExc (e : exn) | RFuel | RStuck.

Definition env := list (ident * nat).

Fixpoint lookup (x : ident) (e : env) : option nat :=
  match e with
  | [] => None
  | (y, c) :: t => if N.eqb x y then Some c else lookup x t
  end.

Definition alloc (st : state) (v : cellval) : nat * state :=
  (length (cells st),
   {| cells := cells st ++ [v]; arrs := arrs st; recs := recs st; out := out st |}).

Fixpoint list_upd {A} (l : list A) (i : nat) (v : A) : list A :=
  match l, i with
  | [], _ => []
  | _ :: t, O => v :: t
  | h :: t, S j => h :: list_upd t j v
  end.

Definition set_cell (st : state) (c : nat) (v : cellval) : state :=
  {| cells := list_upd (cells st) c v; arrs := arrs st; recs := recs st; out := out st |}.

Definition get_cell (st : state) (c : nat) : option cellval := nth_error (cells st) c.

Definition new_arr (st : state) (elems : list nat) : nat * state :=
  (length (arrs st),
   {| cells := cells st; arrs := arrs st ++ [elems]; recs := recs st; out := out st |}).

Definition new_rec (st : state) (flds : list nat) : nat * state :=
  (length (recs st),
   {| cells := cells st; arrs := arrs st; recs := recs st ++ [flds]; out := out st |}).

Definition print_num (st : state) (z : Z) : state :=
  {| cells := cells st; arrs := arrs st; recs := recs st; out := z :: out st |}.

(* arithmetic on 32-bit ints; None = division_by_zero *)
Definition int_binop (op : binop) (a b : Z) : option cellval :=
  match op with
  | Add => Some (CInt (wrap32 (a + b)))
  | Sub => Some (CInt (wrap32 (a - b)))
  | Mul => Some (CInt (wrap32 (a * b)))
  | Div => if b =? 0 then None else Some (CInt (wrap32 (Z.quot a b)))
  | Mod => if b =? 0 then None else Some (CInt (wrap32 (Z.rem a b)))
  | Lt => Some (CBool (a <? b))
  | Le => Some (CBool (a <=? b))
  | Gt => Some (CBool (b <? a))
  | Ge => Some (CBool (b <=? a))
  | Eq => Some (CBool (a =? b))
  | Ne => Some (CBool (negb (a =? b)))
  | BAnd => Some (CInt (wrap32 (Z.land a b)))
  | BOr => Some (CInt (wrap32 (Z.lor a b)))
  | BXor => Some (CInt (wrap32 (Z.lxor a b)))
  | Shl => Some (CInt (wrap32 (Z.shiftl a b)))
  | Shr => Some (CInt (wrap32 (Z.shiftr a b)))
  | And | Or => None
  end.

Fixpoint bind_params (ps : list (ident * bool * ty)) (cs : list nat) : option env :=
  match ps, cs with
  | [], [] => Some []
  | (x, _, _) :: pt, c :: ct =>
      match bind_params pt ct with Some e => Some ((x, c) :: e) | None => None end
  | _, _ => None
  end.

Definition exn_eqb (a b : exn) : bool :=
  match a, b with
  | ExDivision, ExDivision | ExArrSize, ExArrSize | ExIndexOob, ExIndexOob
  | ExInvalid, ExInvalid | ExOverflow, ExOverflow | ExUnderflow, ExUnderflow
  | ExInexact, ExInexact | ExNil, ExNil | ExFfi, ExFfi => true
  | _, _ => false
  end.

(* == / != with nil.  `nil` evaluates to a cell holding CRec None.  A reference is a record,
   array or function value; Some true = it is nil.  (front/typecheck.c expr_eq_check_type admits
   a reference operand only against the literal nil; the emitter picks OP_EQ_*_NIL /
   OP_EQ_NIL_* / OP_EQ_NIL, whose handlers compare the reference with nil_ptr.) *)
Definition ref_is_nil (v : cellval) : option bool :=
  match v with
  | CArr None | CRec None => Some true
  | CArr (Some _) | CRec (Some _) | CFun _ _ => Some false
  | CInt _ | CBool _ => None
  end.

(* the value of `v1 == v2` / `v1 != v2` on two references at least one of which is nil *)
Definition nil_cmp (op : binop) (o1 o2 : option cellval) : option bool :=
  match o1, o2 with
  | Some v1, Some v2 =>
    match ref_is_nil v1, ref_is_nil v2 with
    | Some n1, Some n2 =>
      if n1 || n2 then
        match op with
        | Eq => Some (n1 && n2)
        | Ne => Some (negb (n1 && n2))
        | _ => None
        end
      else None
    | _, _ => None
    end
  | _, _ => None
  end.

(* runs of adjacent function items (front/typecheck.c seq_list_check_type declares them
   together; the emitter allocates their slots first and then stores the closures) *)
Fixpoint run_funcs (l : list item) : list fdef :=
  match l with IFunc fd :: t => fd :: run_funcs t | _ => [] end.
Fixpoint run_rest (l : list item) : list item :=
  match l with IFunc _ :: t => run_rest t | _ => l end.

(* the functions of a run get the cells c, c+1, ... in order; later names shadow earlier ones
   (the typechecker rejects two functions of the same name in one block anyway) *)
Fixpoint func_env (fds : list fdef) (c : nat) (e : env) : env :=
  match fds with
  | [] => e
  | fd :: t => func_env t (S c) ((fd_name fd, c) :: e)
  end.

Definition add_cells (st : state) (vs : list cellval) : state :=
  {| cells := cells st ++ vs; arrs := arrs st; recs := recs st; out := out st |}.

(* ---- for-in loops ---------------------------------------------------------------------- *)

(* what remains to be iterated *)
Inductive lsrc :=
| LUp (z zb : Z)               (* ascending range: next value z, last value zb *)
| LDown (z zb : Z)             (* descending range *)
| LArr (ca : nat) (i : nat).   (* the cell holding the array reference, next index *)

Inductive lstep :=
| LsDone
| LsFault (r : res)
| LsBind (c : nat) (st : state) (next : lsrc).   (* cell of the loop variable for this iteration *)

Definition forin_step (st : state) (s : lsrc) : lstep :=
  match s with
  | LUp z zb =>
    if z <=? zb then let (c, st1) := alloc st (CInt z) in LsBind c st1 (LUp (wrap32 (z + 1)) zb)
    else LsDone
  | LDown z zb =>
    if zb <=? z then let (c, st1) := alloc st (CInt z) in LsBind c st1 (LDown (wrap32 (z - 1)) zb)
    else LsDone
  | LArr ca i =>
    match get_cell st ca with
    | Some (CArr None) => LsFault (RExc ExNil)
    | Some (CArr (Some ar)) =>
      match nth_error (arrs st) ar with
      | Some elems =>
        match nth_error elems i with
        | Some c => LsBind c st (LArr ca (S i))
        | None => LsDone
        end
      | None => LsFault RStuck
      end
    | _ => LsFault RStuck
    end
  end.

(* `ev c st` runs the body with the loop variable bound to cell c; at most n iterations *)
Fixpoint forin_loop (ev : nat -> state -> res * state) (n : nat) (s : lsrc) (st : state)
  : res * state :=
  match n with
  | O => (RFuel, st)
  | S n' =>
    match forin_step st s with
    | LsDone => let (c, st') := alloc st (CInt 0) in (ROk c, st')
    | LsFault r => (r, st)
    | LsBind c st1 s' =>
      match ev c st1 with
      | (ROk _, st2) => forin_loop ev n' s' st2
      | r => r
      end
    end
  end.

(* the direction of a range loop is fixed by the two bounds at entry *)
Definition range_src (za zb : Z) : lsrc := if za <? zb then LUp za zb else LDown za zb.

Section Eval.
Variable genv : env.     (* top-level functions: name -> cell holding CFun fd [] *)

Definition lookup_var (x : ident) (e : env) : option nat :=
  match lookup x e with Some c => Some c | None => lookup x genv end.

Fixpoint eval (fuel : nat) (e : env) (st : state) (x : expr) {struct fuel} : res * state :=
  match fuel with
  | O => (RFuel, st)
  | S k =>
    (* right-to-left evaluation of an argument list; result in source order *)
    let eval_args :=
      fix go (l : list expr) (st : state) : (option (list nat) * res) * state :=
        match l with
        | [] => ((Some [], ROk 0%nat), st)
        | a :: t =>
          match go t st with
          | ((Some cs, _), st1) =>
            match eval k e st1 a with
            | (ROk c, st2) => ((Some (c :: cs), ROk 0%nat), st2)
            | (r, st2) => ((None, r), st2)
            end
          | r => r
          end
        end in
    let get_int (st : state) (c : nat) : option Z :=
      match get_cell st c with Some (CInt z) => Some z | _ => None end in
    let get_bool (st : state) (c : nat) : option bool :=
      match get_cell st c with Some (CBool b) => Some b | _ => None end in
    let fresh (st : state) (v : cellval) : res * state :=
      let (c, st') := alloc st v in (ROk c, st') in
    match x with
    | EInt z => fresh st (CInt (wrap32 z))
    | EBool b => fresh st (CBool b)
    | EVar v => match lookup_var v e with Some c => (ROk c, st) | None => (RStuck, st) end
    | ENeg a =>
      match eval k e st a with
      | (ROk c, st1) => match get_int st1 c with Some z => fresh st1 (CInt (wrap32 (- z))) | None => (RStuck, st1) end
      | r => r end
    | ENot a =>
      match eval k e st a with
      | (ROk c, st1) => match get_bool st1 c with Some b => fresh st1 (CBool (negb b)) | None => (RStuck, st1) end
      | r => r end
    | EBNot a =>
      match eval k e st a with
      | (ROk c, st1) => match get_int st1 c with Some z => fresh st1 (CInt (wrap32 (Z.lnot z))) | None => (RStuck, st1) end
      | r => r end
    | EBin And a b =>
      match eval k e st a with
      | (ROk c, st1) =>
        match get_bool st1 c with
        | Some false => fresh st1 (CBool false)
        | Some true =>
          match eval k e st1 b with
          | (ROk c2, st2) => match get_bool st2 c2 with Some v => fresh st2 (CBool v) | None => (RStuck, st2) end
          | r => r end
        | None => (RStuck, st1) end
      | r => r end
    | EBin Or a b =>
      match eval k e st a with
      | (ROk c, st1) =>
        match get_bool st1 c with
        | Some true => fresh st1 (CBool true)
        | Some false =>
          match eval k e st1 b with
          | (ROk c2, st2) => match get_bool st2 c2 with Some v => fresh st2 (CBool v) | None => (RStuck, st2) end
          | r => r end
        | None => (RStuck, st1) end
      | r => r end
    | EBin op a b =>
      match eval k e st a with
      | (ROk c1, st1) =>
        match eval k e st1 b with
        | (ROk c2, st2) =>
          match get_int st2 c1, get_int st2 c2 with
          | Some z1, Some z2 =>
            match int_binop op z1 z2 with
            | Some v => fresh st2 v
            | None => (RExc ExDivision, st2)
            end
          | _, _ =>
            (* == and != on bool *)
            match op, get_bool st2 c1, get_bool st2 c2 with
            | Eq, Some b1, Some b2 => fresh st2 (CBool (Bool.eqb b1 b2))
            | Ne, Some b1, Some b2 => fresh st2 (CBool (negb (Bool.eqb b1 b2)))
            | _, _, _ =>
              (* == and != of a reference and nil *)
              match nil_cmp op (get_cell st2 c1) (get_cell st2 c2) with
              | Some b => fresh st2 (CBool b)
              | None => (RStuck, st2)
              end
            end
          end
        | r => r end
      | r => r end
    | ECond c a b =>
      match eval k e st c with
      | (ROk cc, st1) =>
        match get_bool st1 cc with
        | Some true => eval k e st1 a
        | Some false => eval k e st1 b
        | None => (RStuck, st1) end
      | r => r end
    | EIf c a =>
      match eval k e st c with
      | (ROk cc, st1) =>
        match get_bool st1 cc with
        | Some true => eval k e st1 a
        | Some false => fresh st1 (CInt 0)
        | None => (RStuck, st1) end
      | r => r end
    | EAssign lhs rhs =>
      match eval k e st lhs with
      | (ROk cl, st1) =>
        match eval k e st1 rhs with
        | (ROk cr, st2) =>
          match get_cell st2 cr with
          | Some v => (ROk cl, set_cell st2 cl v)
          | None => (RStuck, st2) end
        | r => r end
      | r => r end
    | ECall f args =>
      match eval_args args st with
      | ((Some cs, _), st1) =>
        match eval k e st1 f with
        | (ROk cf, st2) =>
          match get_cell st2 cf with
          | Some (CFun fd cenv) =>
            match bind_params (fd_params fd) cs with
            | Some penv =>
              let fenv := penv ++ cenv in
              match eval_items k fenv st2 (fd_body fd) None with
              | (RExc ex, st3) => handlers k fenv st3 ex (fd_catches fd) (fd_catch_all fd)
              | r => r
              end
            | None => (RStuck, st2) end
          | _ => (RStuck, st2) end
        | r => r end
      | ((None, r), st1) => (r, st1)
      end
    | EBlock items => eval_items k e st items None
    | EWhile c body =>
      match eval k e st c with
      | (ROk cc, st1) =>
        match get_bool st1 cc with
        | Some true =>
          match eval k e st1 body with
          | (ROk _, st2) => eval k e st2 (EWhile c body)
          | r => r end
        | Some false => fresh st1 (CInt 0)
        | None => (RStuck, st1) end
      | r => r end
    | EDoWhile body c =>
      match eval k e st body with
      | (ROk _, st1) =>
        match eval k e st1 c with
        | (ROk cc, st2) =>
          match get_bool st2 cc with
          | Some true => eval k e st2 (EDoWhile body c)
          | Some false => fresh st2 (CInt 0)
          | None => (RStuck, st2) end
        | r => r end
      | r => r end
    | EFor init cond incr body =>
      match eval k e st init with
      | (ROk _, st1) => eval k e st1 (EWhile cond (EBlock [IExpr body; IExpr incr]))
      | r => r end
    | EForInRange x a b body =>
      match eval k e st b with
      | (ROk cb, st1) =>
        match eval k e st1 a with
        | (ROk ca, st2) =>
          match get_int st2 ca, get_int st2 cb with
          | Some za, Some zb =>
            forin_loop (fun c s => eval k ((x, c) :: e) s body) k (range_src za zb) st2
          | _, _ => (RStuck, st2) end
        | r => r end
      | r => r end
    | EForInArr x arr body =>
      match eval k e st arr with
      | (ROk ca, st1) => forin_loop (fun c s => eval k ((x, c) :: e) s body) k (LArr ca 0) st1
      | r => r end
    | ELambda fd => fresh st (CFun fd e)
    | EArrLit es _ =>
      match eval_args es st with
      | ((Some cs, _), st1) =>
        let (a, st2) := new_arr st1 cs in fresh st2 (CArr (Some a))
      | ((None, r), st1) => (r, st1)
      end
    | EIndex a i =>
      match eval k e st a with
      | (ROk ca, st1) =>
        match eval k e st1 i with
        | (ROk ci, st2) =>
          match get_cell st2 ca, get_int st2 ci with
          | Some (CArr None), Some _ => (RExc ExNil, st2)
          | Some (CArr (Some ar)), Some z =>
            match nth_error (arrs st2) ar with
            | Some elems =>
              if (z <? 0) || (Z.of_nat (length elems) <=? z) then (RExc ExIndexOob, st2)
              else match nth_error elems (Z.to_nat z) with
                   | Some c => (ROk c, st2)
                   | None => (RStuck, st2) end
            | None => (RStuck, st2) end
          | _, _ => (RStuck, st2) end
        | r => r end
      | r => r end
    | ERecNew _ args =>
      match eval_args args st with
      | ((Some cs, _), st1) =>
        let (r, st2) := new_rec st1 cs in fresh st2 (CRec (Some r))
      | ((None, r), st1) => (r, st1)
      end
    | ERecNil _ => fresh st (CRec None)
    | EField a _ fld =>
      match eval k e st a with
      | (ROk ca, st1) =>
        match get_cell st1 ca with
        | Some (CRec None) => (RExc ExNil, st1)
        | Some (CRec (Some r)) =>
          match nth_error (recs st1) r with
          | Some flds => match nth_error flds fld with Some c => (ROk c, st1) | None => (RStuck, st1) end
          | None => (RStuck, st1) end
        | _ => (RStuck, st1) end
      | r => r end
    | EPrint a =>
      match eval k e st a with
      | (ROk c, st1) =>
        match get_int st1 c with
        | Some z => fresh (print_num st1 z) (CInt z)
        | None => (RStuck, st1) end
      | r => r end
    end
  end

(* the items of a block, in order; `last` = the cell of the last item evaluated so far *)
with eval_items (fuel : nat) (e : env) (st : state) (items : list item) (last : option nat)
     {struct fuel} : res * state :=
  match fuel with
  | O => (RFuel, st)
  | S k =>
    match items with
    | [] => match last with Some c => (ROk c, st) | None => (RStuck, st) end
    | ILet x a :: t | IVar x a :: t =>
      match eval k e st a with
      | (ROk c, st1) => eval_items k ((x, c) :: e) st1 t (Some c)
      | r => r end
    | IFunc fd :: t =>
      (* the maximal run of adjacent function items starting here: one new cell per function,
         each holding the closure over the common environment e' that binds all of them *)
      let fds := fd :: run_funcs t in
      let c0 := length (cells st) in
      let e' := func_env fds c0 e in
      eval_items k e' (add_cells st (map (fun f => CFun f e') fds)) (run_rest t)
                 (Some (length (run_funcs t) + c0)%nat)
    | IExpr a :: t =>
      match eval k e st a with
      | (ROk c, st1) => eval_items k e st1 t (Some c)
      | r => r end
    end
  end

(* catch clauses of one function: first matching clause among those remaining *)
with handlers (fuel : nat) (e : env) (st : state) (ex : exn)
              (cs : list (exn * list item)) (call : option (list item))
     {struct fuel} : res * state :=
  match fuel with
  | O => (RFuel, st)
  | S k =>
    match cs with
    | (ex', body) :: t =>
      if exn_eqb ex ex' then
        match eval_items k e st body None with
        | (RExc ex2, st1) => handlers k e st1 ex2 t call
        | r => r end
      else handlers k e st ex t call
    | [] =>
      match call with
      | Some body => eval_items k e st body None
      | None => (RExc ex, st)
      end
    end
  end.

End Eval.

(* ---- whole programs -------------------------------------------------------------- *)

Definition empty_state : state := {| cells := []; arrs := []; recs := []; out := [] |}.

(* top-level functions live in cells 0..n-1, in declaration order *)
Fixpoint global_env (fs : list fdef) (i : nat) : env :=
  match fs with
  | [] => []
  | f :: t => (fd_name f, i) :: global_env t (S i)
  end.

Definition init_state (p : program) : state :=
  {| cells := map (fun f => CFun f []) (p_funcs p); arrs := []; recs := []; out := [] |}.

Inductive outcome :=
| OResult (v : cellval) (printed : list Z)
| OUnhandled (e : exn) (printed : list Z)
| OFuel
| OStuck.

(* entry arguments are ints (the embedding API passes ints/floats/strings; the model covers
   int parameters) *)
Definition run_program (fuel : nat) (p : program) (args : list Z) : outcome :=
  let genv := global_env (p_funcs p) 0 in
  let st0 := init_state p in
  let '(argcells, st1) :=
    fold_left (fun acc z => let '(cs, st) := acc in
                            let (c, st') := alloc st (CInt (wrap32 z)) in (cs ++ [c], st'))
              args ([], st0) in
  match lookup (p_main p) genv with
  | None => OStuck
  | Some cm =>
    match get_cell st1 cm with
    | Some (CFun fd cenv) =>
      match bind_params (fd_params fd) argcells with
      | Some penv =>
        let r := match eval_items genv fuel penv st1 (fd_body fd) None with
                 | (RExc ex, st2) => handlers genv fuel penv st2 ex (fd_catches fd) (fd_catch_all fd)
                 | r => r end in
        match r with
        | (ROk c, st2) => match get_cell st2 c with
                          | Some v => OResult v (rev (out st2))
                          | None => OStuck end
        | (RExc ex, st2) => OUnhandled ex (rev (out st2))
        | (RFuel, _) => OFuel
        | (RStuck, _) => OStuck
        end
      | None => OStuck end
    | _ => OStuck end
  end.
