(* Mem/TraceMonitor.v — allocation-trace semantics and an executable monitor for it (C16).

   An event is one call of an allocator entry point made by code of libnev.a between
   program_new() and the end of program_delete()/vm_delete(); blocks are named by numbers
   (the driver renumbers pointers in order of first appearance, 0 = NULL).

       Malloc p n | Calloc p n | Strdup p     the call returned block p
       Realloc old new n                      realloc(old, n) returned new
       Free p                                 free(p)

   Meaning of an event = a block it releases (must be live) and a block it acquires (must
   not be live), following C: free(NULL) does nothing, realloc(NULL, n) is malloc(n), a NULL
   result acquires nothing (realloc(p, 0) -> NULL releases p).

   Declarative semantics: [step]/[run] over sets of live blocks given as predicates;
   [balanced tr] = the trace can be executed from the empty set (so every free/realloc hits a
   block live at that moment and every allocation returns a block not live at that moment)
   and ends with no live block.  The monitor keeps the live set in a total map and reports
   the first offending event or the blocks still live at the end.  Definitions only; the
   proofs are in TraceMonitorProofs.v. *)
From Coq Require Import NArith Bool List.
From NV Require Import Base.TMap.
Import ListNotations.
Local Open Scope N_scope.

Inductive event :=
| Malloc (p n : N)
| Calloc (p n : N)
| Realloc (old new n : N)
| Strdup (p : N)
| Free (p : N).

Definition nz (p : N) : option N := if p =? 0 then None else Some p.

Definition rel (e : event) : option N :=
  match e with
  | Free p => nz p
  | Realloc old _ _ => nz old
  | _ => None
  end.

Definition acq (e : event) : option N :=
  match e with
  | Malloc p _ | Calloc p _ | Strdup p => nz p
  | Realloc _ new _ => nz new
  | Free _ => None
  end.

(* ---- declarative semantics --------------------------------------------------------- *)
Definition lset := N -> Prop.
Definition lempty : lset := fun _ => False.
Definition ladd (L : lset) (p : N) : lset := fun q => q = p \/ L q.
Definition ldel (L : lset) (p : N) : lset := fun q => q <> p /\ L q.

Definition release (L : lset) (o : option N) : lset :=
  match o with Some p => ldel L p | None => L end.
Definition acquire (L : lset) (o : option N) : lset :=
  match o with Some p => ladd L p | None => L end.
Definition may_release (L : lset) (o : option N) : Prop :=
  match o with Some p => L p | None => True end.
Definition may_acquire (L : lset) (o : option N) : Prop :=
  match o with Some p => ~ L p | None => True end.

Inductive step : lset -> event -> lset -> Prop :=
| step_intro L e :
    may_release L (rel e) ->                        (* no double free / free of unknown / realloc of dead *)
    may_acquire (release L (rel e)) (acq e) ->      (* the allocator never hands out a live block *)
    step L e (acquire (release L (rel e)) (acq e)).

Inductive run : lset -> list event -> lset -> Prop :=
| run_nil L : run L [] L
| run_cons L e L1 tr L2 : step L e L1 -> run L1 tr L2 -> run L (e :: tr) L2.

Definition balanced (tr : list event) : Prop :=
  exists L, run lempty tr L /\ forall q, ~ L q.

(* ---- the monitor --------------------------------------------------------------------- *)
Inductive merror :=
| DoubleFree (p : N)       (* free of a block that was allocated and already released *)
| FreeUnknown (p : N)      (* free of a block never seen in the trace *)
| ReallocDead (p : N)      (* realloc of a block that is not live *)
| AllocLive (p : N).       (* an allocation returned a block that is still live *)

Inductive mverdict :=
| Accept
| Reject (pos : nat) (err : merror)
| Leak (blocks : list N).            (* never empty *)

Record mstate := {
  m_live : tmap bool;
  m_seen : tmap bool;
  m_ids : list N            (* every block ever acquired, once, newest first *)
}.

Definition m_init : mstate := {| m_live := tm_init false; m_seen := tm_init false; m_ids := [] |}.

Definition m_kill (s : mstate) (p : N) : mstate :=
  {| m_live := tset (m_live s) p false; m_seen := m_seen s; m_ids := m_ids s |}.

Definition m_acquire (s : mstate) (o : option N) : mstate + merror :=
  match o with
  | None => inl s
  | Some p =>
    if tget (m_live s) p then inr (AllocLive p)
    else inl {| m_live := tset (m_live s) p true; m_seen := tset (m_seen s) p true;
                m_ids := if tget (m_seen s) p then m_ids s else p :: m_ids s |}
  end.

Definition rel_error (s : mstate) (e : event) (p : N) : merror :=
  match e with
  | Free _ => if tget (m_seen s) p then DoubleFree p else FreeUnknown p
  | _ => ReallocDead p
  end.

Definition mstep (s : mstate) (e : event) : mstate + merror :=
  match rel e with
  | Some o => if tget (m_live s) o then m_acquire (m_kill s o) (acq e) else inr (rel_error s e o)
  | None => m_acquire s (acq e)
  end.

Fixpoint mrun (s : mstate) (tr : list event) (pos : nat) : mstate + (nat * merror) :=
  match tr with
  | [] => inl s
  | e :: r => match mstep s e with
              | inl s' => mrun s' r (S pos)
              | inr err => inr (pos, err)
              end
  end.

(* oldest first; rev_append because List.rev is quadratic and traces hold 10^5 blocks *)
Definition leaked (s : mstate) : list N := filter (fun p => tget (m_live s) p) (rev_append (m_ids s) []).

Definition monitor (tr : list event) : mverdict :=
  match mrun m_init tr 0 with
  | inr (pos, err) => Reject pos err
  | inl s => match leaked s with [] => Accept | l => Leak l end
  end.
