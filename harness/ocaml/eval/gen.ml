(* gen — type-directed random generator of well-typed, terminating Never programs over the
   language of Src/Syntax.v.

   Well-typedness includes the const/var discipline of front/typecheck.c (comb_const): every
   expression is CONST, VAR or TEMP; `var x = e` and passing e to a `var` parameter need e not
   CONST; the left side of `=` must be VAR.  The generator tracks that class (type k below).

   Termination by construction:
     - loops are counted: the counter is a fresh `var` which only the loop template assigns;
       elsewhere it can only be read as an operand of an arithmetic/comparison operator or as an
       index (so no alias of its cell is ever created);
     - recursion happens only through the recursion templates: f(n, ..) tests n <= 0 and calls
       f(n - 1, ..); n is a non-var parameter with the same protection; callers pass a bounded
       non-negative first argument; such functions are never used as first-class values;
     - apart from that a function body refers only to functions defined before it, and cells
       whose type contains a function type are never assigned by the random part (only the idioms
       do it: id_loopcap / id_forin with call-free lambdas, id_rebind with closures of `adder` /
       `counter` makers that call nothing), so the call graph through function values is well founded;
     - a cost estimate (loop bounds multiply) keeps the work of a program within a budget; the
       driver additionally runs the evaluator under a wall-clock limit.

   Constructs the real compiler rejects or crashes on although the evaluator defines them are
   avoided (see `forbid` below and the notes in checks/parts/evaldiff.py):
     - a block must end with an expression item;
     - no rebinding of a name within one block; a parameter may not be called like its function;
     - a name captured by a closure of a block may not be bound LATER in the same block (the
       pinned compiler aborts: "unknown freevar x during emit" — reported as a C08 finding;
       profile weight `late_shadow` re-enables it);
     - consecutive nested functions are mutually visible in Never AND in the evaluator (Eval.v
       func_env): `it_func` items come, with weight sib_fwd, as a run [A; B] in which the earlier A
       was generated with the later B in scope (forward reference; B never sees A, so the call
       graph stays well founded); mutual recursion between siblings comes from Idioms.id_siblings.
       A later sibling still never takes a name that an earlier one uses freely: the earlier body
       was generated (and typed) for the outer binding of that name;
     - divisors are never a compile-time constant 0 (rejected by the compiler); INT_MIN / -1 is
       generated (wraps since 7c75cd1); shift counts are 0..31. *)
open Evalmodel
open Conv
module IS = Uniq.IS

type k = KC | KV | KT
type binder = BLet | BVar | BParam | BVarParam | BFunc

type vinfo = {
  vn : int; vty : ty; vb : binder;
  prot : bool;                       (* loop counter / recursion measure *)
  lvl : int;                         (* function nesting level of the binder *)
  fcost : int;                       (* named functions: estimated cost of one call *)
  measure : int option;              (* recursion templates: largest allowed first argument *)
  selfref : bool;                    (* function under construction *)
  firstclass : bool;                 (* may be used as a value *)
  fvars : bool list;                 (* named functions: which parameters are `var` *)
}

type recf = { rf : vinfo; rn : vinfo; mutable sites : int }

type env = {
  vars : vinfo list;
  lvl : int;
  mult : int;
  budget : int;
  block : int list;                  (* names bound in the current block *)
  forbid : IS.t;                     (* names that may not be bound in the current block *)
  sib : IS.t;                        (* names used freely by the nested functions directly before this point:
                                        an adjacent following function may not take them (adjacent nested
                                        functions are mutually visible: the earlier body would see the new
                                        function instead of the binding it was generated and typed for) *)
  loopd : int;
  recf : recf option;
}

type st = {
  rng : Rng.t;
  w : (string, int) Hashtbl.t;
  mutable next : int;
  mutable recs : (int * ty list) list;
  mutable used : int list;
  mutable cost : int;
  mutable nodes : int;
  mutable top : fdef list;           (* helper top-level functions, reverse order *)
  mutable marker : int;
  mutable markers : int list;        (* numbers printed by catch clauses when they run *)
  flags : (string, int) Hashtbl.t;
  mutable shadowing : int;           (* binders that reuse a visible name *)
  mutable tracer : vinfo option;
  mutable btracer : vinfo option;
  mutable want : vinfo option;       (* the later sibling of the function under construction: calls to it are favoured *)
}

(* ---- profiles ---------------------------------------------------------------------------- *)
let defaults = [
  "nrecs_max", 2; "nfuncs_min", 1; "nfuncs_max", 3; "depth", 3; "main_items", 5; "block_items", 2;
  "budget_main", 2500; "budget_fn", 200; "esc", 150; "unk", 40; "max_nodes", 450;
  "fault", 4; "shadow", 0; "late_shadow", 0; "print", 5; "dump", 60; "catch", 10; "varparam", 20;
  "tail_lo", 40; "tail_hi", 250; "nilp", 3; "big_lit", 30; "main_bool", 10;
  (* int forms *)
  "i_lit", 22; "i_var", 34; "i_neg", 4; "i_bnot", 3; "i_arith", 30; "i_divmod", 7; "i_bit", 7;
  "i_shift", 4; "i_cond", 7; "i_call", 12; "i_fcall", 6; "i_index", 8; "i_field", 8; "i_assign", 5;
  "i_block", 3; "i_applam", 2; "i_if", 1; "i_loop", 1;
  (* bool forms *)
  "b_lit", 8; "b_var", 15; "b_cmp", 45; "b_andor", 14; "b_not", 8; "b_eq", 4; "b_cond", 4; "b_src", 10;
  (* other types *)
  "x_var", 45; "x_new", 30; "x_src", 25;
  (* items *)
  "it_let", 22; "it_var", 24; "it_func", 6; "it_assign", 24; "it_print", 8; "it_call", 7; "it_if", 6;
  "it_loop", 7; "it_expr", 3;
  (* types of bindings / parameters *)
  "t_int", 55; "t_bool", 10; "t_rec", 10; "t_arr", 10; "t_fun", 8;
  "rf_fun", 5; "rf_rec", 15; "rf_arr", 10;
  (* function kinds *)
  "f_plain", 75; "f_rec", 20; "f_tail", 5;
  (* idioms: percent chance each per main *)
  "id_counter", 0; "id_adder", 0; "id_loopcap", 0; "id_reccap", 0; "id_compose", 0;
  "id_alias", 0; "id_catch", 0; "id_shadow", 0; "id_order", 0; "id_tail", 0; "id_agg", 0; "id_mutual", 0;
  "id_pipe", 0; "pp_pipe", 0; "id_shadow2", 0; "id_shadow3", 0; "id_deepcap", 0;
  "id_repeat", 1;
  (* adjacent nested functions: percent of the it_func items that come as a forward-referencing run *)
  "sib_fwd", 30; "id_siblings", 0;
  (* == / != between a reference (record, array, function value) and nil *)
  "b_nil", 2;
  (* exceptions and environments / frames / heap *)
  "id_catchcap", 0; "id_tempcall", 0;
  (* for-in loops: idiom family, and percent of the random loops that are for-in loops *)
  "id_forin", 0; "forin", 35; "id_rebind", 0;
]

let profiles = [
  "arith", ["depth", 6; "i_arith", 50; "i_divmod", 16; "i_bit", 16; "i_shift", 10; "i_neg", 8; "i_bnot", 6;
            "i_lit", 30; "big_lit", 60; "fault", 6; "nfuncs_max", 2; "it_print", 14; "main_items", 6;
            "t_int", 80; "t_rec", 3; "t_arr", 3; "t_fun", 2; "i_call", 6; "catch", 15];
  "order", ["id_order", 100; "id_repeat", 3; "print", 25; "i_assign", 12; "i_call", 20; "it_print", 15;
            "b_andor", 30; "depth", 4; "fault", 3];
  "alias", ["id_rebind", 35; "id_forin", 25; "id_alias", 100; "id_repeat", 4; "i_var", 50; "it_assign", 40; "it_var", 35; "it_let", 25;
            "t_rec", 18; "t_arr", 18; "varparam", 50; "dump", 95; "i_cond", 14; "i_assign", 10; "nrecs_max", 3;
            "x_var", 60; "i_block", 6];
  "closure", ["id_rebind", 60; "id_forin", 60; "id_siblings", 55; "id_catchcap", 55; "id_tempcall", 55; "sib_fwd", 45; "b_nil", 5; "id_deepcap", 75; "id_shadow3", 45; "id_counter", 70; "id_adder", 50; "id_loopcap", 40; "id_reccap", 50; "id_compose", 40;
              "it_func", 22; "t_fun", 25; "i_fcall", 18; "i_applam", 6; "rf_fun", 30; "nfuncs_max", 4;
              "depth", 3; "dump", 70];
  "shadow", ["id_forin", 30; "id_siblings", 45; "id_catchcap", 20; "sib_fwd", 45; "shadow", 65; "id_shadow", 80; "id_shadow2", 60; "id_shadow3", 85; "id_deepcap", 35; "it_func", 16; "it_let", 30; "it_var", 30; "i_block", 10;
             "i_applam", 6; "t_fun", 14; "dump", 80; "block_items", 3; "i_fcall", 10; "catch", 15];
  "loops", ["id_forin", 85; "id_repeat", 2; "id_tempcall", 25; "it_loop", 30; "i_loop", 4; "id_loopcap", 20; "main_items", 6; "dump", 80; "fault", 4;
            "t_arr", 16; "i_index", 14];
  "records", ["b_nil", 16; "t_rec", 35; "id_agg", 80; "nrecs_max", 3; "i_field", 25; "fault", 12; "nilp", 15;
              "x_new", 40; "rf_rec", 25; "dump", 80; "catch", 20];
  "arrays", ["id_forin", 35; "b_nil", 16; "t_fun", 12; "t_arr", 35; "id_agg", 80; "i_index", 25; "fault", 14; "it_loop", 14; "dump", 80; "catch", 20;
             "rf_arr", 25];
  "catch", ["id_forin", 25; "id_catchcap", 45; "id_catch", 100; "id_repeat", 3; "catch", 60; "fault", 22; "nilp", 12; "nfuncs_min", 2; "nfuncs_max", 4;
            "i_call", 22; "it_call", 14; "it_loop", 10; "t_rec", 14; "t_arr", 14; "it_func", 10];
  "tailrec", ["id_tail", 100; "f_tail", 0; "f_rec", 30; "id_mutual", 40; "budget_main", 7000; "tail_lo", 150; "tail_hi", 400;
              "nfuncs_max", 2; "main_items", 3; "depth", 2];
  "pipe", ["pp_pipe", 65; "id_pipe", 100; "id_repeat", 2; "i_call", 25; "i_fcall", 10; "it_call", 14; "it_func", 14; "t_fun", 14;
           "id_tail", 25; "id_order", 40; "f_rec", 25; "tail_lo", 30; "tail_hi", 120; "nfuncs_min", 2; "nfuncs_max", 4];
  "mix", ["id_rebind", 15; "id_forin", 25; "id_siblings", 15; "id_catchcap", 15; "id_tempcall", 15; "sib_fwd", 40; "b_nil", 5; "pp_pipe", 8; "id_pipe", 10; "id_deepcap", 15; "id_shadow3", 15; "id_counter", 15; "id_adder", 10; "id_loopcap", 10; "id_reccap", 10; "id_compose", 10; "id_alias", 25;
          "id_catch", 25; "id_shadow", 15; "id_shadow2", 10; "id_order", 20; "id_agg", 20; "shadow", 15; "catch", 20; "fault", 8;
          "it_func", 10; "t_fun", 12];
]

let profile_names = List.map fst profiles

let make_st (rng : Rng.t) (profile : string) (overrides : (string * int) list) : st =
  let w = Hashtbl.create 97 in
  List.iter (fun (k, v) -> Hashtbl.replace w k v) defaults;
  (match List.assoc_opt profile profiles with
   | Some l -> List.iter (fun (k, v) -> Hashtbl.replace w k v) l
   | None -> failwith ("unknown profile " ^ profile));
  List.iter (fun (k, v) -> Hashtbl.replace w k v) overrides;
  { rng; w; next = 0; recs = []; used = []; cost = 0; nodes = 0; top = []; marker = 900000; markers = [];
    flags = Hashtbl.create 17; shadowing = 0; tracer = None; btracer = None; want = None }

let w st key = try Hashtbl.find st.w key with Not_found -> 0
let flag st key = Hashtbl.replace st.flags key (1 + (try Hashtbl.find st.flags key with Not_found -> 0))
let pct st key = Rng.pct st.rng (w st key)

(* ---- small helpers ----------------------------------------------------------------------- *)
let ev n = EVar (n_of_int n)
let ei k = EInt (z_of_int k)
let fresh_unique st = st.next <- st.next + 1; st.used <- st.next :: st.used; st.next

let mkv ?(prot = false) ?(fcost = 0) ?(measure = None) ?(selfref = false) ?(firstclass = false) ?(fvars = [])
    vn vty vb lvl =
  { vn; vty; vb; prot; lvl; fcost; measure; selfref; firstclass; fvars }

let k_of_binder = function BLet | BParam -> KC | BVar | BVarParam -> KV | BFunc -> KT

let resolve env n = List.find_opt (fun v -> v.vn = n) env.vars
let visible env =
  let seen = Hashtbl.create 16 in
  List.filter (fun v -> if Hashtbl.mem seen v.vn then false else (Hashtbl.add seen v.vn (); true)) env.vars

let fields st r = try List.assoc r st.recs with Not_found -> []

let rec fun_free st seen = function
  | TInt | TBool -> true
  | TFun _ -> false
  | TArr t -> fun_free st seen t
  | TRec r -> let r = int_of_n r in List.mem r seen || List.for_all (fun_free st (r :: seen)) (fields st r)

let tick st env = st.cost <- st.cost + env.mult; st.nodes <- st.nodes + 1
let over st env = st.cost > env.budget || st.nodes > w st "max_nodes"

(* Names that may not be bound later in the current block because an earlier closure of the block
   captures them: the pinned compiler aborts ("unknown freevar") only when the captured binding
   belongs to the SAME function as the block (direct capture).  A name bound in an enclosing
   function or at top level (transitively captured) may be re-bound later — that compiles and must
   keep its lexical meaning. *)
let late_forbidden env (names : IS.t) : IS.t =
  IS.filter (fun n -> match resolve env n with
      | Some (v : vinfo) -> v.lvl = env.lvl
      | None -> false) names

let sib_after env (its : item list) : IS.t =
  List.fold_left (fun s it -> match it with
      | IFunc fd -> IS.union s (Uniq.free_of_fdef ~named:true fd)
      | _ -> IS.empty) env.sib its

(* a new binder name for the current block *)
let new_name ?(avoid = []) st env =
  let ok n = not (List.mem n env.block) && not (IS.mem n env.forbid) && not (List.mem n avoid) in
  let pool = List.filter ok st.used in
  if pool <> [] && pct st "shadow" then begin
    let n = Rng.pick st.rng pool in
    (match resolve env n with Some _ -> st.shadowing <- st.shadowing + 1 | None -> ());
    n
  end else fresh_unique st

let bind env v = { env with vars = v :: env.vars; block = v.vn :: env.block }

let interesting = [| 0; 1; 2; 3; 5; 7; 8; 10; 15; 16; 31; 32; 63; 64; 100; 127; 128; 255; 256; 1000; 4095; 32767;
                     32768; 65535; 65536; 46340; 46341; 1000000; 16777216; 1073741823; 1073741824;
                     2147483646; 2147483647 |]

(* negative literals are printed as -n (INT_MIN as -2147483647 - 1) *)
let negatives = [| -1; -1; -2; -3; -7; -128; -32768; -65536; -2147483647; -2147483648; -2147483648 |]

let gen_lit st =
  let big = w st "big_lit" in
  Rng.weighted st.rng [ 100 - big, (fun () -> Rng.int st.rng 11); big / 2 + 1, (fun () -> Rng.int st.rng 1000);
                        big, (fun () -> Rng.pick_arr st.rng interesting);
                        big / 4, (fun () -> Rng.pick_arr st.rng negatives) ] ()

let fun_pool = [ TFun ([TInt], TInt); TFun ([], TInt); TFun ([TInt; TInt], TInt); TFun ([TInt], TBool);
                 TFun ([TBool], TInt); TFun ([TInt], TFun ([TInt], TInt)); TFun ([TInt; TInt; TInt], TInt);
                 TFun ([TInt; TBool], TInt) ]

let rand_elem_type st =
  Rng.weighted st.rng [ 70, TInt; 10, TBool;
                        (if st.recs <> [] then 20 else 0), (match st.recs with [] -> TInt | l -> TRec (n_of_int (fst (Rng.pick st.rng l)))) ]

let rand_type ?(allow_fun = true) st =
  Rng.weighted st.rng [
    w st "t_int", (fun () -> TInt);
    w st "t_bool", (fun () -> TBool);
    (if st.recs <> [] then w st "t_rec" else 0), (fun () -> TRec (n_of_int (fst (Rng.pick st.rng st.recs))));
    w st "t_arr", (fun () -> TArr (rand_elem_type st));
    (if allow_fun then w st "t_fun" else 0), (fun () -> Rng.pick st.rng fun_pool) ] ()

let is_arith = function Add | Sub | Mul -> true | _ -> false

(* ---- expressions --------------------------------------------------------------------------- *)
let rec gen_expr st env ty d ~op : expr * k =
  tick st env;
  let rec_site =
    match env.recf with
    | Some r when r.sites > 0 && d > 0
                  && (match r.rf.vty with TFun (_, t) -> t = ty | _ -> false)
                  && Rng.pct st.rng 35 -> rec_call st env r d
    | _ -> None in
  match rec_site with
  | Some e -> (e, KC)
  | None ->
    if d <= 0 || over st env then gen_leaf st env ty ~op
    else match ty with
      | TInt -> gen_int st env d ~op
      | TBool -> gen_bool st env d ~op
      | _ -> gen_other st env ty d ~op

(* the recursive call of a recursion template: f(n - 1, args) while n still is the measure *)
and rec_call st env r d : expr option =
  let same a b = match a, b with Some x, Some y -> x == y | _ -> false in
  if not (same (resolve env r.rn.vn) (Some r.rn)) || not (same (resolve env r.rf.vn) (Some r.rf)) then None
  else begin
    r.sites <- r.sites - 1;
    let ptys = match r.rf.vty with TFun (a, _) -> a | _ -> [] in
    let rest = List.tl ptys and rvars = List.tl r.rf.fvars in
    let env' = { env with recf = None } in
    let args = List.map2 (fun t isvar ->
        if isvar then gen_nonconst st env' t (min d 2) else fst (gen_expr st env' t (min (d - 1) 2) ~op:false)) rest rvars in
    flag st "rec_call";
    Some (ECall (ev r.rf.vn, EBin (Sub, ev r.rn.vn, ei 1) :: args))
  end

and read_var v ~op : expr * k =
  if v.prot && not op then (EBin (Add, ev v.vn, ei 0), KT) else (ev v.vn, k_of_binder v.vb)

and vars_of env ty = List.filter (fun v -> v.vty = ty && v.vb <> BFunc) (visible env)

and gen_leaf st env ty ~op : expr * k =
  match ty with
  | TInt ->
    let vs = vars_of env TInt in
    if vs <> [] && Rng.pct st.rng 60 then read_var (Rng.pick st.rng vs) ~op else (ei (gen_lit st), KT)
  | TBool ->
    let vs = vars_of env TBool in
    if vs <> [] && Rng.pct st.rng 50 then read_var (Rng.pick st.rng vs) ~op
    else if Rng.pct st.rng 50 then (EBool (Rng.bool st.rng), KT)
    else
      let a, _ = gen_leaf st env TInt ~op:true and b, _ = gen_leaf st env TInt ~op:true in
      (EBin (Rng.pick st.rng [Lt0; Le; Gt0; Ge; Eq0; Ne], a, b), KT)
  | TFun (args, ret) ->
    let vs = fun_values env ty in
    if vs <> [] && Rng.pct st.rng 60 then (let v = Rng.pick st.rng vs in (ev v.vn, k_of_binder v.vb))
    else gen_lambda st env args ret 0
  | TArr t ->
    let vs = vars_of env ty in
    if vs <> [] && Rng.pct st.rng 70 then read_var (Rng.pick st.rng vs) ~op
    else
      let n = Rng.range st.rng 2 4 in
      (EArrLit (List.init n (fun _ -> fst (gen_leaf_elem st env t)), t), KT)
  | TRec r ->
    let vs = vars_of env ty in
    if vs <> [] && Rng.pct st.rng 70 then read_var (Rng.pick st.rng vs) ~op
    else (new_record st env (int_of_n r) 0, KT)

and gen_leaf_elem st env t =
  match t with
  | TRec r -> (new_record st env (int_of_n r) 0, KT)
  | _ -> gen_leaf st env t ~op:false

(* values usable where a function of type ty is expected *)
and fun_values env ty =
  List.filter (fun v -> v.vty = ty && (v.vb <> BFunc || (v.firstclass && not v.selfref))) (visible env)

and new_record st env r d : expr =
  let args = List.map (fun t ->
      match t with
      | TRec r' when d <= 0 || Rng.pct st.rng 50 ->
        let vs = vars_of env t in
        if vs <> [] && Rng.pct st.rng 40 then ev (Rng.pick st.rng vs).vn else ERecNil r'
      | _ -> fst (gen_expr st env t (d - 1) ~op:false)) (fields st r) in
  ERecNew (n_of_int r, args)

and gen_lambda st env args ret d : expr * k =
  let saved = st.cost in
  st.cost <- 0;
  let names = List.fold_left (fun acc _ -> new_name ~avoid:acc st { env with block = []; forbid = IS.empty; sib = IS.empty } :: acc) [] args in
  let names = List.rev names in
  let params = List.map2 (fun n t -> mkv n t BParam (env.lvl + 1)) names args in
  let env' = { vars = List.rev_append (List.rev params) env.vars; lvl = env.lvl + 1; mult = 1;
               budget = w st "esc"; block = []; forbid = IS.empty; sib = IS.empty; loopd = 0; recf = None } in
  let body, _ = gen_block st env' ret d ~items:(if d > 0 then Rng.int st.rng 2 else 0) in
  let catches, call = gen_catches st env' ret (min d 1) in
  st.cost <- saved + 1;
  flag st "lambda";
  (ELambda (FDef (n_of_int (fresh_unique st),
                  List.map2 (fun n t -> ((n_of_int n, false), t)) names args, ret, body, catches, call)), KT)

and gen_nonconst st env ty d : expr =
  let e, k = gen_expr st env ty d ~op:false in
  if k <> KC then e
  else match ty with
    | TInt when Rng.pct st.rng 40 -> EBin (Add, e, ei 0)
    | _ ->
      (* a conditional is TEMP and still denotes the cell of the chosen branch *)
      let c, _ = gen_expr st env TBool (min d 1) ~op:true in
      let e2, _ = gen_leaf st env ty ~op:false in
      if Rng.bool st.rng then ECond (c, e, e2) else ECond (c, e2, e)

and gen_divisor st env d : expr =
  let vs = List.filter (fun v -> not v.prot || true) (vars_of env TInt) in
  let sub () = fst (gen_expr st env TInt (d - 1) ~op:true) in
  if vs <> [] && pct st "fault" then begin
    flag st "maybe_zero_divisor";
    let v = Rng.pick st.rng vs in
    let base = if Rng.bool st.rng then ev v.vn else EBin (Rng.pick st.rng [Add; Sub; BXor], ev v.vn, sub ()) in
    EBin (BAnd, base, ei (Rng.pick st.rng [1; 3; 7; 15; 255]))
  end else
    Rng.weighted st.rng [
      40, (fun () -> ei (1 + Rng.int st.rng 12));
      15, (fun () -> ei (let k = gen_lit st in if k = 0 then 1 else k));
      30, (fun () -> EBin (Add, EBin (BAnd, sub (), ei (Rng.pick st.rng [1; 3; 7; 255; 65535])), ei (1 + Rng.int st.rng 3)));
      12, (fun () -> ENeg (EBin (Add, EBin (BAnd, sub (), ei (Rng.pick st.rng [3; 7; 255])), ei (2 + Rng.int st.rng 3))));
      (* -1 and any odd number: INT_MIN / -1 and INT_MIN % -1 wrap (since 7c75cd1) *)
      6, (fun () -> ei (-1));
      8, (fun () -> EBin (BOr, sub (), ei 1)) ] ()

and gen_index st env d : expr =
  let sub () = fst (gen_expr st env TInt (d - 1) ~op:true) in
  if pct st "fault" then begin
    flag st "maybe_oob_index";
    Rng.weighted st.rng [ 25, (fun () -> ENeg (ei 1)); 25, (fun () -> ei (Rng.range st.rng 2 6));
                          30, (fun () -> EBin (BAnd, sub (), ei 7)); 20, (fun () -> sub ()) ] ()
  end else
    Rng.weighted st.rng [ 35, (fun () -> ei 0); 35, (fun () -> ei 1);
                          30, (fun () -> EBin (BAnd, sub (), ei 1)) ] ()

and gen_int st env d ~op : expr * k =
  if pct st "print" then (EPrint (fst (gen_int st env (d - 1) ~op:false)), KT)
  else begin
    let sub () = fst (gen_expr st env TInt (d - 1) ~op:true) in
    let vs = vars_of env TInt in
    let choices = [
      w st "i_lit", (fun () -> (ei (gen_lit st), KT));
      (if vs <> [] then w st "i_var" else 0), (fun () -> read_var (Rng.pick st.rng vs) ~op);
      w st "i_neg", (fun () -> (ENeg (sub ()), KT));
      w st "i_bnot", (fun () -> (EBNot (sub ()), KT));
      w st "i_arith", (fun () -> let a = sub () in let b = sub () in (EBin (Rng.pick st.rng [Add; Sub; Mul; Add; Sub], a, b), KT));
      w st "i_divmod", (fun () -> let a = sub () in (EBin (Rng.pick st.rng [Div; Mod], a, gen_divisor st env d), KT));
      w st "i_bit", (fun () -> let a = sub () in let b = sub () in (EBin (Rng.pick st.rng [BAnd; BOr; BXor], a, b), KT));
      w st "i_shift", (fun () ->
          let a = sub () in
          let c = if Rng.bool st.rng then ei (Rng.int st.rng 32) else EBin (BAnd, sub (), ei 31) in
          (EBin (Rng.pick st.rng [Shl; Shr], a, c), KT));
      w st "i_applam", (fun () -> gen_applam st env d);
      w st "i_if", (fun () ->
          let c, _ = gen_expr st env TBool (d - 1) ~op:true in
          let b, _ = gen_block st env TInt (d - 1) ~items:(Rng.int st.rng 2) in
          (EIf (c, EBlock b), KC));
      (if env.loopd < 2 then w st "i_loop" else 0), (fun () ->
          match gen_loop st env (d - 1) with
          | [IVar (i, z); IExpr l] -> (EBlock [IVar (i, z); IExpr l], KC)
          | [IExpr l] -> (l, KT)
          | _ -> (ei 0, KT));
    ] @ sources st env TInt d ~op in
    Rng.weighted st.rng choices ()
  end

and gen_applam st env d : expr * k =
  let args = Rng.pick st.rng [[TInt]; [TInt; TInt]; []; [TBool]] in
  let lam, _ = gen_lambda st env args TInt (d - 1) in
  let actual = List.map (fun t -> fst (gen_expr st env t (d - 1) ~op:false)) args in
  st.cost <- st.cost + env.mult * w st "unk";
  flag st "applied_lambda";
  (ECall (lam, actual), KC)

and gen_bool st env d ~op : expr * k =
  let subi () = fst (gen_expr st env TInt (d - 1) ~op:true) in
  let subb () = fst (gen_expr st env TBool (d - 1) ~op:true) in
  let vs = vars_of env TBool in
  let choices = [
    w st "b_lit", (fun () -> (EBool (Rng.bool st.rng), KT));
    (if vs <> [] then w st "b_var" else 0), (fun () -> read_var (Rng.pick st.rng vs) ~op);
    w st "b_cmp", (fun () -> let a = subi () in let b = subi () in (EBin (Rng.pick st.rng [Lt0; Le; Gt0; Ge; Eq0; Ne], a, b), KT));
    w st "b_andor", (fun () -> let a = subb () in let b = subb () in (EBin (Rng.pick st.rng [And; Or], a, b), KT));
    w st "b_not", (fun () -> (ENot (subb ()), KT));
    w st "b_eq", (fun () -> let a = subb () in let b = subb () in (EBin (Rng.pick st.rng [Eq0; Ne], a, b), KT));
    w st "b_nil", (fun () -> (gen_nilcmp st env d, KT));
  ] @ List.map (fun (wt, f) -> (wt * w st "b_src" / 30, f)) (sources st env TBool d ~op) in
  Rng.weighted st.rng choices ()

(* `x == nil`, `nil != x`, ... on a record, an array or a function value (the type checker admits a
   reference operand of == / != only against the literal nil); the operand is a variable, a named
   function, a field / element / call result or a fresh object; rarely nil itself *)
and gen_nilcmp st env d : expr =
  let refvar (v : vinfo) = match v.vty with
    | TRec _ | TArr _ -> v.vb <> BFunc
    | TFun _ -> v.vb <> BFunc || (v.firstclass && not v.selfref)
    | _ -> false in
  let cands = List.filter refvar (visible env) in
  let nil_of = function TRec r -> ERecNil r | _ -> ERecNil (n_of_int 0) in
  let x, ty =
    if cands <> [] && Rng.pct st.rng 60 then (let v = Rng.pick st.rng cands in (ev v.vn, v.vty))
    else if Rng.pct st.rng 6 then (ERecNil (n_of_int 0), TInt)
    else
      let ty = Rng.weighted st.rng [
          (if st.recs <> [] then 40 else 0), (fun () -> TRec (n_of_int (fst (Rng.pick st.rng st.recs))));
          30, (fun () -> TArr (rand_elem_type st));
          25, (fun () -> Rng.pick st.rng fun_pool) ] () in
      (fst (gen_expr st env ty (d - 1) ~op:false), ty) in
  flag st "nil_compare";
  let op = Rng.pick st.rng [Eq0; Ne] in
  if Rng.bool st.rng then EBin (op, x, nil_of ty) else EBin (op, nil_of ty, x)

and gen_other st env ty d ~op : expr * k =
  let vs = match ty with TFun _ -> fun_values env ty | _ -> vars_of env ty in
  let choices = [
    (if vs <> [] then w st "x_var" else 0), (fun () ->
        let v = Rng.pick st.rng vs in
        match ty with TFun _ -> (ev v.vn, k_of_binder v.vb) | _ -> read_var v ~op);
    w st "x_new", (fun () ->
        match ty with
        | TFun (args, ret) -> gen_lambda st env args ret (d - 1)
        | TArr t ->
          let n = Rng.range st.rng 2 5 in
          (EArrLit (List.init n (fun _ -> fst (gen_expr st env t (d - 1) ~op:false)), t), KT)
        | TRec r -> (new_record st env (int_of_n r) d, KT)
        | _ -> gen_leaf st env ty ~op);
  ] @ List.map (fun (wt, f) -> (wt * w st "x_src" / 30, f)) (sources st env ty d ~op) in
  Rng.weighted st.rng choices ()

(* forms available at every type: calls, fields, elements, conditionals, blocks, assignment *)
and sources st env ty d ~op : (int * (unit -> expr * k)) list =
  let vis = visible env in
  let named = List.filter (fun v ->
      v.vb = BFunc && not v.selfref
      && (match v.vty with TFun (_, r) -> r = ty | _ -> false)
      && st.cost + env.mult * v.fcost <= env.budget) vis in
  let fvals = List.filter (fun v ->
      v.vb <> BFunc && (match v.vty with TFun (_, r) -> r = ty | _ -> false)) vis in
  let unk_ok = st.cost + env.mult * w st "unk" <= env.budget in
  let recvars = List.filter (fun v ->
      match v.vty with
      | TRec r -> List.exists (fun t -> t = ty) (fields st (int_of_n r))
      | _ -> false) (List.filter (fun v -> v.vb <> BFunc) vis) in
  let arrvars = List.filter (fun v -> v.vty = TArr ty && v.vb <> BFunc) vis in
  let lv = if fun_free st [] ty then 1 else 0 in
  let want = match st.want with
    | Some v when (match v.vty with TFun (_, r) -> r = ty | _ -> false)
                  && (match resolve env v.vn with Some v' -> v' == v | None -> false)
                  && st.cost + env.mult * v.fcost <= env.budget -> [v]
    | _ -> [] in
  [
    (if want <> [] then 45 else 0), (fun () -> gen_call st env (List.hd want) d);
    (if named <> [] then w st "i_call" else 0), (fun () -> gen_call st env (Rng.pick st.rng named) d);
    (if fvals <> [] && unk_ok then w st "i_fcall" else 0), (fun () ->
        let v = Rng.pick st.rng fvals in
        let args = match v.vty with TFun (a, _) -> a | _ -> [] in
        let actual = List.map (fun t -> fst (gen_expr st env t (d - 1) ~op:false)) args in
        st.cost <- st.cost + env.mult * w st "unk";
        flag st "firstclass_call";
        (ECall (ev v.vn, actual), KC));
    (if unk_ok && d >= 2 then w st "i_fcall" / 3 else 0), (fun () ->
        (* callee is itself an expression: call result, field, element *)
        let cands = List.filter (function TFun (_, r) -> r = ty | _ -> false) fun_pool in
        match cands with
        | [] -> gen_leaf st env ty ~op
        | _ ->
          let ft = Rng.pick st.rng cands in
          let args = match ft with TFun (a, _) -> a | _ -> [] in
          let actual = List.map (fun t -> fst (gen_expr st env t (d - 2) ~op:false)) args in
          let f, _ = gen_expr st env ft (d - 1) ~op:false in
          st.cost <- st.cost + env.mult * w st "unk";
          flag st "computed_callee";
          (ECall (f, actual), KC));
    (if recvars <> [] then w st "i_field" else 0), (fun () ->
        let v = Rng.pick st.rng recvars in
        let r = match v.vty with TRec r -> int_of_n r | _ -> 0 in
        let idx = List.filter (fun i -> List.nth (fields st r) i = ty) (List.init (List.length (fields st r)) (fun i -> i)) in
        (EField (ev v.vn, n_of_int r, nat_of_int (Rng.pick st.rng idx)), KV));
    (if arrvars <> [] then w st "i_index" else 0), (fun () ->
        let v = Rng.pick st.rng arrvars in
        let i = gen_index st env d in
        (EIndex (ev v.vn, i), if k_of_binder v.vb = KC then KC else KV));
    (if d >= 2 then w st "i_index" / 4 else 0), (fun () ->
        let a, ka = gen_expr st env (TArr ty) (d - 1) ~op:false in
        (EIndex (a, gen_index st env d), if ka = KC then KC else KV));
    w st "i_cond", (fun () ->
        let c, _ = gen_expr st env TBool (d - 1) ~op:true in
        let a, _ = gen_expr st env ty (d - 1) ~op in
        let b, _ = gen_expr st env ty (d - 1) ~op in
        if Rng.pct st.rng 25 then
          (ECond (c, EBlock (fst (gen_block st env ty (d - 1) ~items:1)), EBlock [IExpr b]), KT)
        else (ECond (c, a, b), KT));
    lv * w st "i_assign", (fun () ->
        match gen_assign st env ty (d - 1) with
        | Some ek -> ek
        | None -> gen_leaf st env ty ~op);
    w st "i_block", (fun () ->
        let items, k = gen_block st env ty (d - 1) ~items:(1 + Rng.int st.rng 2) in
        (EBlock items, k));
  ]

and gen_call st env (f : vinfo) d : expr * k =
  let ptys = match f.vty with TFun (a, _) -> a | _ -> [] in
  let fvars = if f.fvars = [] then List.map (fun _ -> false) ptys else f.fvars in
  let args = List.mapi (fun i (t, isvar) ->
      match f.measure with
      | Some bound when i = 0 ->
        if bound <= 8 && Rng.pct st.rng 40 then
          let m = if bound >= 7 then 7 else if bound >= 3 then 3 else 1 in
          EBin (BAnd, fst (gen_expr st env TInt (d - 1) ~op:true), ei m)
        else ei (if bound > 8 then Rng.range st.rng (bound / 2) bound else Rng.range st.rng 0 bound)
      | _ ->
        if isvar then gen_nonconst st env t (d - 1)
        else match t with
          | TRec r when pct st "nilp" -> ERecNil r
          | _ -> fst (gen_expr st env t (d - 1) ~op:false)) (List.combine ptys fvars) in
  st.cost <- st.cost + env.mult * f.fcost;
  flag st "named_call";
  (ECall (ev f.vn, args), KC)

and gen_lvalue st env ty d : expr option =
  let vis = List.filter (fun v -> v.vb <> BFunc) (visible env) in
  let direct = List.filter (fun v -> v.vty = ty && (v.vb = BVar || v.vb = BVarParam) && not v.prot) vis in
  let recvars = List.filter (fun v ->
      match v.vty with TRec r -> List.mem ty (fields st (int_of_n r)) | _ -> false) vis in
  let arrvars = List.filter (fun v -> v.vty = TArr ty && (v.vb = BVar || v.vb = BVarParam)) vis in
  let choices = [
    (if direct <> [] then 50 else 0), (fun () -> ev (Rng.pick st.rng direct).vn);
    (if recvars <> [] then 25 else 0), (fun () ->
        let v = Rng.pick st.rng recvars in
        let r = match v.vty with TRec r -> int_of_n r | _ -> 0 in
        let fl = fields st r in
        let idx = List.filter (fun i -> List.nth fl i = ty) (List.init (List.length fl) (fun i -> i)) in
        EField (ev v.vn, n_of_int r, nat_of_int (Rng.pick st.rng idx)));
    (if arrvars <> [] then 25 else 0), (fun () ->
        let v = Rng.pick st.rng arrvars in EIndex (ev v.vn, gen_index st env d));
  ] in
  if List.for_all (fun (wt, _) -> wt = 0) choices then None else Some (Rng.weighted st.rng choices ())

and gen_assign st env ty d : (expr * k) option =
  if not (fun_free st [] ty) then None
  else match gen_lvalue st env ty d with
    | None -> None
    | Some l ->
      let r, k =
        match ty with
        | TRec r when pct st "nilp" -> flag st "nil_assigned"; (ERecNil r, KT)
        | _ -> gen_expr st env ty d ~op:false in
      flag st "assign";
      Some (EAssign (l, r), k)

(* ---- blocks and items ---------------------------------------------------------------------- *)
and gen_block st env ty d ~items : item list * k =
  let env0 = { env with block = []; forbid = IS.empty; sib = IS.empty } in
  gen_block_in st env0 ty d ~items

(* like gen_block but keeps env.block / env.forbid (the caller prepared them) *)
and gen_block_in st env ty d ~items : item list * k =
  let env', its = gen_items st env d ~items in
  let e, k = gen_expr st env' ty d ~op:false in
  (its @ [IExpr e], k)

(* n random items; returns them with the environment after them *)
and gen_items st env d ~items : env * item list =
  let rec go env n acc =
    if n <= 0 || over st env then (env, acc)
    else
      let its, env' = gen_item st env d in
      let env' = if w st "late_shadow" > 0 then env' else
          { env' with forbid = List.fold_left (fun s it -> IS.union s (late_forbidden env (Uniq.closure_free_of_item it))) env'.forbid its } in
      let env' = { env' with sib = sib_after env its } in
      go env' (n - 1) (List.rev_append its acc) in
  let env', acc = go env items [] in
  (env', List.rev acc)

and gen_binding st env d : item list * env =
  let ty = rand_type st in
  let isvar = Rng.pct st.rng (100 * w st "it_var" / (1 + w st "it_var" + w st "it_let")) in
  let e = if isvar then gen_nonconst st env ty d else fst (gen_expr st env ty d ~op:false) in
  (* the new name may not be one that a closure inside e captures (see `forbid`) *)
  let cf = if w st "late_shadow" > 0 then [] else (let acc = ref IS.empty in Uniq.closure_free_expr acc e; IS.elements (late_forbidden env !acc)) in
  let n = new_name ~avoid:cf st env in
  let v = mkv n ty (if isvar then BVar else BLet) env.lvl in
  ([if isvar then IVar (n_of_int n, e) else ILet (n_of_int n, e)], bind env v)

and gen_item st env d : item list * env =
  let stmt e = ([IExpr e], env) in
  let choices = [
    w st "it_let" + w st "it_var", (fun () -> gen_binding st env d);
    (if env.lvl < 3 then w st "it_func" else 0), (fun () ->
        if pct st "sib_fwd" then gen_func_run st env d
        else
          let fd, v = gen_named_func st env d in
          ([IFunc fd], bind env v));
    w st "it_assign", (fun () ->
        let ty = if Rng.pct st.rng 70 then TInt else rand_type ~allow_fun:false st in
        match gen_assign st env ty d with
        | Some (e, _) -> stmt e
        | None -> (match gen_assign st env TInt d with Some (e, _) -> stmt e | None -> gen_binding st env d));
    w st "it_print", (fun () -> stmt (EPrint (fst (gen_expr st env TInt d ~op:false))));
    w st "it_call", (fun () ->
        let fs = List.filter (fun v -> v.vb = BFunc && not v.selfref && st.cost + env.mult * v.fcost <= env.budget) (visible env) in
        if fs = [] then stmt (fst (gen_expr st env TInt d ~op:false))
        else stmt (fst (gen_call st env (Rng.pick st.rng fs) d)));
    w st "it_if", (fun () ->
        let c, _ = gen_expr st env TBool d ~op:true in
        let a, _ = gen_block st env TInt (d - 1) ~items:(1 + Rng.int st.rng 2) in
        if Rng.bool st.rng then stmt (EIf (c, EBlock a))
        else
          let b, _ = gen_block st env TInt (d - 1) ~items:(Rng.int st.rng 2) in
          stmt (ECond (c, EBlock a, EBlock b)));
    (if env.loopd < 2 && st.cost + env.mult * 30 <= env.budget then w st "it_loop" else 0), (fun () ->
        match gen_loop st env d with
        | [IVar (i, z); l] ->
          let v = mkv ~prot:true (int_of_n i) TInt BVar env.lvl in
          ([IVar (i, z); l], bind env v)
        | its -> (its, env));
    w st "it_expr", (fun () -> stmt (fst (gen_expr st env (rand_type ~allow_fun:false st) d ~op:false)));
  ] in
  Rng.weighted st.rng choices ()

(* a run [A; B] of adjacent nested functions with a forward reference: B (the later one) is
   generated first, without A in scope; A is generated with B in scope and may call it / use it as
   a value before B's item.  A's name may not be one that B uses freely. *)
and gen_func_run st env d : item list * env =
  let fdb, vb = gen_named_func st env d in
  let env_a = { (bind env vb) with sib = IS.add vb.vn (IS.union env.sib (Uniq.free_of_fdef ~named:true fdb)) } in
  let saved = st.want in
  st.want <- Some vb;
  let fda, va = gen_named_func st env_a d in
  st.want <- saved;
  if IS.mem vb.vn (Uniq.free_of_fdef ~named:true fda) then flag st "sibling_forward";
  ([IFunc fda; IFunc fdb], { (bind env_a va) with sib = env.sib })

(* [var i = start; loop] — the counter is bound in the enclosing block and protected *)
and gen_loop st env d : item list =
  if pct st "forin" then gen_forin st env d else
  let n = Rng.weighted st.rng [10, 0; 15, 1; 25, 2; 25, 3; 15, 4; 10, Rng.range st.rng 5 7] in
  let i = new_name st env in
  let vi = mkv ~prot:true i TInt BVar env.lvl in
  let down = Rng.pct st.rng 25 in
  let step = if Rng.pct st.rng 15 then 2 else 1 in
  let start = if down then n * step else 0 in
  let bound =
    if down then ei 0
    else if Rng.pct st.rng 20 then
      (* a bound computed from data, still at most n *)
      (* generated in the scope where it will stand: after the counter's binding *)
      EBin (BAnd, fst (gen_expr st { (bind env vi) with recf = None } TInt 1 ~op:true),
            ei (if n >= 7 then 7 else if n >= 3 then 3 else if n >= 1 then 1 else 0))
    else ei (n * step) in
  let cond = if down then EBin (Gt0, ev i, bound) else EBin (Lt0, ev i, bound) in
  let incr = EAssign (ev i, EBin ((if down then Sub else Add), ev i, ei step)) in
  let env_b = { (bind env vi) with mult = env.mult * (max 1 n); loopd = env.loopd + 1;
                                   block = []; forbid = IS.singleton i; sib = IS.empty } in
  let env_b = { env_b with recf = None } in
  let body, _ = gen_block_in st env_b TInt (min d 2) ~items:(1 + Rng.int st.rng 2) in
  flag st "loop";
  let kind = Rng.int st.rng 3 in
  let loop =
    match kind with
    | 0 -> EWhile (cond, EBlock (body @ [IExpr incr]))
    | 1 ->
      (* do-while runs the body at least once *)
      EDoWhile (EBlock (body @ [IExpr incr]), cond)
    | _ -> EFor (EAssign (ev i, ei start), cond, incr, EBlock body) in
  [IVar (n_of_int i, ei start); IExpr loop]

(* for (i in [a .. b]) body / for (x in [e1, .., en] : int) body: the loop variable is a constant of
   the body's scope only; small literal or masked bounds; both directions *)
and gen_forin st env d : item list =
  let n = Rng.weighted st.rng [15, 1; 25, 2; 25, 3; 20, 4; 15, Rng.range st.rng 5 7] in
  let i = new_name st env in
  let vi = mkv ~prot:true i TInt BLet env.lvl in
  let env_b = { (bind env vi) with mult = env.mult * (max 1 n); loopd = env.loopd + 1;
                                   block = []; forbid = IS.singleton i; sib = IS.empty; recf = None } in
  flag st "loop"; flag st "forin";
  if Rng.pct st.rng 75 then begin
    let down = Rng.pct st.rng 50 in
    let lo = Rng.pick st.rng [-3; -1; 0; 0; 1; 2; 10] in
    let f, t = if down then (lo + n - 1, lo) else (lo, lo + n - 1) in
    flag st (if down then "forin_down" else "forin_up");
    (* a bound computed from data: lo + (e &&& m) with m < n keeps the number of iterations <= n *)
    let masked k =
      let m = if n > 4 then 3 else if n > 2 then 1 else 0 in
      EBin (Add, ei k, EBin (BAnd, fst (gen_expr st { env with recf = None } TInt 1 ~op:true), ei m)) in
    let ef, et =
      if Rng.pct st.rng 25 then (if down then (masked lo, ei lo) else (ei lo, masked lo))
      else (ei f, ei t) in
    let body, _ = gen_block_in st env_b TInt (min d 2) ~items:(1 + Rng.int st.rng 2) in
    [IExpr (EForInRange (n_of_int i, ef, et, EBlock body))]
  end else begin
    let es = List.init n (fun _ -> ei (gen_lit st)) in
    flag st "forin_arr";
    let body, _ = gen_block_in st env_b TInt (min d 2) ~items:(1 + Rng.int st.rng 2) in
    [IExpr (EForInArr (n_of_int i, EArrLit (es, TInt), EBlock body))]
  end

(* ---- functions -------------------------------------------------------------------------------- *)
and gen_catches st env_f ret d : (exn * item list) list * item list option =
  if not (pct st "catch") then ([], None)
  else begin
    flag st "func_with_catch";
    let kinds = Rng.shuffle st.rng [ExDivision; ExIndexOob; ExNil; ExArrSize; ExInvalid] in
    let n = Rng.int st.rng 4 in
    let rec take k = function [] -> [] | x :: t -> if k <= 0 then [] else x :: take (k - 1) t in
    let handler () =
      st.marker <- st.marker + 1;
      let m = st.marker in
      let body, _ = gen_block st env_f ret d ~items:(Rng.int st.rng 2) in
      if Rng.pct st.rng 85 then (st.markers <- m :: st.markers; IExpr (EPrint (ei m)) :: body) else body in
    let cs = List.map (fun ex -> (ex, handler ())) (take n kinds) in
    let call = if n = 0 || Rng.pct st.rng 45 then Some (handler ()) else None in
    (cs, call)
  end

and gen_params st env_scope ~own ~n ~allow_fun : (int * bool * ty) list =
  let rec go k acc =
    if k <= 0 then List.rev acc
    else
      let t = rand_type ~allow_fun st in
      let isvar = (match t with TFun _ -> false | _ -> pct st "varparam") in
      let name = new_name ~avoid:(own :: List.map (fun (x, _, _) -> x) acc) st env_scope in
      go (k - 1) ((name, isvar, t) :: acc) in
  go n []

(* a named function (top-level when env.lvl = 0 and toplevel = true, else nested) *)
and gen_named_func ?(toplevel = false) ?kind st env d : fdef * vinfo =
  let kind = match kind with
    | Some k -> k
    | None -> Rng.weighted st.rng [w st "f_plain", `Plain; w st "f_rec", `Rec; w st "f_tail", `Tail] in
  let name = new_name ~avoid:(IS.elements env.sib) st env in
  let scope = { env with block = []; forbid = IS.empty; sib = IS.empty } in
  let ret = match kind with
    | `Tail -> TInt
    | `Rec -> Rng.weighted st.rng [70, TInt; 15, TBool; 15, rand_type ~allow_fun:false st]
    | `Plain -> rand_type st in
  let nparams = Rng.weighted st.rng [15, 0; 35, 1; 30, 2; 15, 3; 5, 4] in
  let extra = gen_params st scope ~own:name ~n:nparams ~allow_fun:true in
  let measure_name = match kind with
    | `Plain -> None
    | _ -> Some (new_name ~avoid:(name :: List.map (fun (x, _, _) -> x) extra) st scope) in
  let extra = match kind with
    | `Tail -> (* tail loops carry int accumulators *)
      let n = max 1 (min 3 (List.length extra)) in
      let names = List.map (fun (x, _, _) -> x) extra in
      let rec mk k acc names =
        if k <= 0 then List.rev acc
        else match names with
          | x :: t -> mk (k - 1) ((x, false, TInt) :: acc) t
          | [] -> let x = new_name ~avoid:(name :: (match measure_name with Some m -> [m] | None -> []) @ List.map (fun (x, _, _) -> x) acc) st scope in
            mk (k - 1) ((x, false, TInt) :: acc) [] in
      mk n [] names
    | _ -> extra in
  let params = (match measure_name with Some m -> [(m, false, TInt)] | None -> []) @ extra in
  let sites = match kind with `Rec -> Rng.weighted st.rng [75, 1; 25, 2] | _ -> 1 in
  let bound = match kind with
    | `Plain -> None
    | `Rec -> Some (if sites = 1 then Rng.range st.rng 2 7 else Rng.range st.rng 2 4)
    | `Tail -> Some (Rng.range st.rng (w st "tail_lo") (w st "tail_hi")) in
  let fty = TFun (List.map (fun (_, _, t) -> t) params, ret) in
  let fvars = List.map (fun (_, v, _) -> v) params in
  let self = mkv ~selfref:true ~measure:bound ~fvars name fty BFunc env.lvl in
  let pvs = List.map (fun (x, isvar, t) ->
      mkv ~prot:(Some x = measure_name) x t (if isvar then BVarParam else BParam) (env.lvl + 1)) params in
  let budget = if toplevel then w st "budget_fn" else w st "esc" in
  let env_f = { vars = List.rev_append pvs (self :: env.vars); lvl = env.lvl + 1; mult = 1; budget;
                block = []; forbid = IS.empty; sib = IS.empty; loopd = 0; recf = None } in
  let saved = st.cost in
  st.cost <- 0;
  let tailpos = ref false in
  let body =
    match kind, measure_name with
    | `Plain, _ | _, None -> fst (gen_block st env_f ret d ~items:(Rng.int st.rng (1 + w st "block_items")))
    | `Rec, Some m ->
      let mv = List.find (fun v -> v.vn = m) pvs in
      let env_b = { env_f with forbid = IS.singleton m } in
      (* a few items, then  n <= 0 ? base : <expression containing f(n - 1, ..)> *)
      let rec pre env n acc =
        if n <= 0 then (env, List.rev acc)
        else let its, env' = gen_binding st env (min d 2) in pre env' (n - 1) (List.rev_append its acc) in
      let env_b, items = pre env_b (Rng.int st.rng 2) [] in
      let base, _ = gen_expr st env_b ret (min d 2) ~op:false in
      let r = { rf = self; rn = mv; sites } in
      let env_r = { env_b with recf = Some r } in
      let call_in env = match rec_call st env r (max d 2) with Some e -> e | None -> base in
      let call () = call_in env_r in
      (* a self tail call in a function WITH catch clauses is compiled to a jump by the pinned compiler:
         the outer activations' clauses are lost (reported); such functions get no catch clauses *)
      let recexpr =
        match ret with
        | TInt ->
          Rng.weighted st.rng [
            30, (fun () -> let c = call () in EBin (Rng.pick st.rng [Add; Sub; Mul; BXor], c, fst (gen_expr st env_r TInt (min d 2) ~op:true)));
            20, (fun () -> let f = fst (gen_expr st env_r TInt (min d 2) ~op:true) in EBin (Rng.pick st.rng [Add; Sub], f, call ()));
            20, (fun () -> tailpos := true; call ());
            15, (fun () ->
                tailpos := true;
                (* the items of this block may not hide f or n: the call is its last item *)
                let env', its = gen_items st { env_r with block = []; forbid = IS.of_list [name; m]; sib = IS.empty; recf = None } 1 ~items:1 in
                (* `base` was generated for the scope before `its`: it cannot stand after them *)
                let last = match rec_call st { env' with recf = Some r } r (max d 2) with
                  | Some e -> e
                  | None -> fst (gen_expr st { env' with recf = None } TInt 1 ~op:false) in
                EBlock (its @ [IExpr last]));
            15, (fun () -> let c = call () in EBin (Add, c, fst (gen_expr st env_r TInt (max d 2) ~op:true))) ] ()
        | TBool when Rng.bool st.rng -> ENot (call ())
        | _ -> tailpos := true; call () in
      let guard = Rng.pick st.rng [EBin (Le, ev m, ei 0); EBin (Lt0, ev m, ei 1); ENot (EBin (Gt0, ev m, ei 0))] in
      let fin = if Rng.pct st.rng 30 then ECond (guard, EBlock [IExpr base], EBlock [IExpr recexpr])
        else ECond (guard, base, recexpr) in
      let per = max 1 st.cost in
      let b = match bound with Some b -> b | None -> 1 in
      let tot = if sites = 1 then per * (b + 1) else per * (1 lsl (b + 1)) in
      st.cost <- tot;
      items @ [IExpr fin]
    | `Tail, Some m ->
      let accs = List.filter (fun v -> v.vn <> m) pvs in
      let env_b = { env_f with forbid = IS.singleton m } in
      let small () =
        let a = Rng.pick st.rng accs in
        Rng.weighted st.rng [
          30, (fun () -> EBin (Rng.pick st.rng [Add; Sub; BXor], ev a.vn, ev m));
          25, (fun () -> EBin (Add, ev a.vn, ei (Rng.int st.rng 10)));
          20, (fun () -> ev (Rng.pick st.rng accs).vn);
          15, (fun () -> EBin (Rng.pick st.rng [Add; Sub; Mul], ev a.vn, ev (Rng.pick st.rng accs).vn));
          10, (fun () -> EBin (BAnd, EBin (Mul, ev a.vn, ei 31), ei 65535)) ] () in
      let args = List.map (fun _ -> small ()) accs in
      let call = ECall (ev name, EBin (Sub, ev m, ei 1) :: args) in
      let res = if Rng.bool st.rng then ev (Rng.pick st.rng accs).vn else small () in
      let guard = Rng.pick st.rng [EBin (Le, ev m, ei 0); EBin (Lt0, ev m, ei 1)] in
      let tailexpr =
        Rng.weighted st.rng [
          40, (fun () -> ECond (guard, res, call));
          20, (fun () -> ECond (ENot guard, call, res));
          20, (fun () -> ECond (guard, EBlock [IExpr res], EBlock [IExpr call]));
          20, (fun () ->
              let t = new_name ~avoid:(name :: List.map (fun v -> v.vn) pvs) st { env_b with block = [] } in
              let call' = ECall (ev name, EBin (Sub, ev m, ei 1) :: List.mapi (fun i a -> if i = 0 then ev t else a) args) in
              ECond (guard, res, EBlock [ILet (n_of_int t, small ()); IExpr call'])) ] () in
      flag st "tail_function";
      let b = match bound with Some b -> b | None -> 1 in
      st.cost <- 12 * (b + 1);
      [IExpr tailexpr] in
  let catches, call = match kind with
    | `Tail -> ([], None)
    | _ -> if !tailpos then ([], None) else gen_catches st env_f ret (min d 2) in
  let fcost = st.cost + 2 in
  st.cost <- saved;
  let firstclass = bound = None && List.for_all (fun b -> not b) fvars && fcost <= w st "esc"
                   && List.for_all (function TFun _ -> false | _ -> true) (List.map (fun (_, _, t) -> t) params) in
  let v = { self with selfref = false; fcost; firstclass } in
  if env.lvl > 0 then flag st "nested_func";
  (FDef (n_of_int name, List.map (fun (x, isvar, t) -> ((n_of_int x, isvar), t)) params, ret, body, catches, call), v)
