/* gcdrive — executes an operation history (format: harness/ocaml/gc/gcrun.ml) against the
 * collector of the tree (back/gc.c, linked from libnev.a) and prints, after gc_new and after
 * every operation, the same canonical dump as the extracted Coq model:
 *
 *   @ <index> <operation text>
 *   ret <n>                  | oom-expected free=<head>
 *   free <head> :<chain>     (walk of mem[].next from `free`; "!range(a)" / "!overrun" if broken)
 *   w <w_index>
 *   L0 <wb_top[0]> :<cells>
 *   L1 <wb_top[1]> :<cells>
 *   marks :<cells with mark != 0>
 *   c <cell> <kind> ...      one line per cell 0..size-1 holding an object
 *
 * A line starting with "!" reports that the driver refused to go on (the real heap does not
 * satisfy what the next call needs, e.g. the holder cell is empty); the last line of a
 * complete run is "# done" (printed after gc_delete).
 *
 *   gcdrive [--sparse <K>] <file.hist>
 *   gcdrive --oomprobe <size>
 *   gcdrive --triggerprobe
 *
 * --sparse K (large heaps): the full dump is printed only for block 0, every K-th block, the last
 * block, every collect/run and the operation right before a collect/run; the other blocks are
 *   @ <index> <operation text>
 *   ret <n> | oom-expected free=<head>
 *   ~ <free head> <w_index> <wb_top[0]> <wb_top[1]>
 *
 * --triggerprobe: the `wb_top < mem_size * 0.8` test of gc_run for heap sizes up to 2^32-1, on a
 * fake collector whose lists do not exist (a child process per probe: no collection = clean
 * return, collection = the child dies when gc_sweep_all reads the list).
 *
 * exit: 0 ok, 2 format error in the history, 3 stopped at a failed precondition.
 */
#include <ctype.h>
#include <errno.h>
#include <fcntl.h>
#include <limits.h>
#include <stdint.h>
#include <stdio.h>
#include <stdlib.h>
#include <string.h>
#include <sys/types.h>
#include <sys/wait.h>
#include <unistd.h>

#include "gc.h"
#include "object.h"

#define MAX_TOK 200100
#define MAX_SIZE (1u << 22)

static gc * G = NULL;
static int lineno = 0;

static void format_error(const char * what, const char * tok)
{
    fflush(stdout);
    fprintf(stderr, "gcdrive: format error, line %d: %s%s%s\n", lineno, what, tok ? ": " : "",
            tok ? tok : "");
    exit(2);
}

/* decimal, no sign, at most 2^53 */
static unsigned long long num(const char * tok)
{
    const char * p = tok;
    unsigned long long v = 0;
    if (tok == NULL || *tok == 0)
        format_error("missing number", NULL);
    if (strlen(tok) > 16)
        format_error("number too long", tok);
    for (; *p; p++)
    {
        if (*p < '0' || *p > '9')
            format_error("not a number", tok);
        v = v * 10 + (unsigned long long)(*p - '0');
    }
    if (v > (1ULL << 53))
        format_error("number too large", tok);
    return v;
}

static unsigned int num_u(const char * tok)
{
    unsigned long long v = num(tok);
    if (v > 0x7fffffffULL)
        format_error("value does not fit an unsigned int cell/index", tok);
    return (unsigned int)v;
}

/* ---------- canonical dump ---------------------------------------------------------- */
static void dump_cell(unsigned int i)
{
    object * o = G->mem[i].object_value;
    unsigned int k;
    switch (o->type)
    {
    case OBJECT_INT:
        printf("c %u sc 1 : %d\n", i, o->int_value);
        break;
    case OBJECT_LONG:
        printf("c %u sc 2 : %lld\n", i, o->long_value);
        break;
    case OBJECT_FLOAT:
        printf("c %u sc 3 : %lld\n", i, (long long)o->float_value);
        break;
    case OBJECT_DOUBLE:
        printf("c %u sc 4 : %lld\n", i, (long long)o->double_value);
        break;
    case OBJECT_CHAR:
        printf("c %u sc 5 : %d\n", i, (int)(unsigned char)o->char_value);
        break;
    case OBJECT_STRING:
        printf("c %u sc 6 :", i);
        if (o->string_value == NULL)
            printf(" !null");
        else
            for (k = 0; o->string_value[k]; k++)
                printf(" %d", (int)(unsigned char)o->string_value[k]);
        printf("\n");
        break;
    case OBJECT_C_PTR:
        printf("c %u sc 8 : %llu\n", i, (unsigned long long)(uintptr_t)o->c_ptr_value);
        break;
    case OBJECT_STRING_REF:
        printf("c %u strref %u\n", i, o->string_ref_value);
        break;
    case OBJECT_VEC:
        printf("c %u vec %u :", i, o->vec_value->size);
        for (k = 0; k < o->vec_value->size; k++)
            printf(" %u", o->vec_value->value[k]);
        printf("\n");
        break;
    case OBJECT_VEC_REF:
        printf("c %u vecref %u\n", i, o->vec_ref_value);
        break;
    case OBJECT_ARRAY:
        printf("c %u arr %u", i, o->arr_value->dims);
        for (k = 0; k < o->arr_value->dims; k++)
            printf(" %u", o->arr_value->dv[k].elems);
        printf(" :");
        for (k = 0; k < o->arr_value->elems; k++)
            printf(" %u", o->arr_value->value[k]);
        printf("\n");
        break;
    case OBJECT_ARRAY_REF:
        printf("c %u arrref %u\n", i, o->arr_ref_value);
        break;
    case OBJECT_FUNC:
        printf("c %u func %u %u\n", i, o->func_value->vec, o->func_value->addr);
        break;
    default:
        printf("c %u !unknown-type %d\n", i, (int)o->type);
        break;
    }
}

static void dump_state(void)
{
    unsigned int i, a, steps, l;

    printf("free %u :", G->free);
    for (a = G->free, steps = 0; a != 0; a = G->mem[a].next, steps++)
    {
        if (a >= G->mem_size)
        {
            printf(" !range(%u)", a);
            break;
        }
        if (steps >= G->mem_size)
        {
            printf(" !overrun");
            break;
        }
        printf(" %u", a);
    }
    printf("\nw %u\n", G->w_index);
    for (l = 0; l < 2; l++)
    {
        printf("L%u %u :", l, G->wb_top[l]);
        for (i = 0; i < G->wb_top[l]; i++)
        {
            if (i >= G->mem_size)
            {
                printf(" !overrun");
                break;
            }
            printf(" %u", G->wb_list[l][i]);
        }
        printf("\n");
    }
    printf("marks :");
    for (i = 0; i < G->mem_size; i++)
        if (G->mem[i].mark != 0)
            printf(" %u", i);
    printf("\n");
    for (i = 0; i < G->mem_size; i++)
        if (G->mem[i].object_value != NULL)
            dump_cell(i);
}

static void dump(int idx, const char * text, const char * res, int full)
{
    printf("@ %d %s\n%s\n", idx, text, res);
    if (full)
    {
        dump_state();
        fflush(stdout);
    }
    else
    {
        printf("~ %u %u %u %u\n", G->free, G->w_index, G->wb_top[0], G->wb_top[1]);
        if ((idx & 255) == 0)
            fflush(stdout);
    }
}

/* ---------- preconditions on the REAL heap ------------------------------------------ */
static void stop(const char * why, unsigned int a)
{
    printf("! precondition-failed line %d: %s (cell %u)\n", lineno, why, a);
    fflush(stdout);
    if (G != NULL)
        gc_delete(G);
    printf("# stopped\n");
    fflush(stdout);
    exit(3);
}

static object * holder(unsigned int a, object_type t, const char * what)
{
    if (a == 0 || a >= G->mem_size)
        stop("holder outside the heap", a);
    if (G->mem[a].object_value == NULL)
        stop("holder cell is empty in the real heap", a);
    if (G->mem[a].object_value->type != t)
        stop(what, a);
    return G->mem[a].object_value;
}

static unsigned int ref_in_range(unsigned int r)
{
    if (r >= G->mem_size)
        stop("reference outside the heap", r);
    return r;
}

/* ---------- tokens ------------------------------------------------------------------ */
static char * toks[MAX_TOK];
static int ntok;

static void split(char * line)
{
    char * p = line;
    ntok = 0;
    while (*p)
    {
        while (*p == ' ' || *p == '\t' || *p == '\r')
            *p++ = 0;
        if (!*p)
            break;
        if (ntok >= MAX_TOK)
            format_error("too many tokens", NULL);
        toks[ntok++] = p;
        while (*p && *p != ' ' && *p != '\t' && *p != '\r')
            p++;
    }
}

static const char * tok(int i)
{
    if (i >= ntok)
        format_error("too few tokens", NULL);
    return toks[i];
}

/* counted list starting at token *pos: <n> <x1> .. <xn>; returns n, advances *pos */
static unsigned int counted(int * pos)
{
    unsigned int n = num_u(tok(*pos));
    if (n > 200000 || *pos + 1 + (int)n > ntok)
        format_error("counted list longer than the line", tok(*pos));
    (*pos)++;
    return n;
}

static void no_more(int pos)
{
    if (pos != ntok)
        format_error("trailing tokens", toks[pos]);
}

/* ---------- operations -------------------------------------------------------------- */
static char resbuf[128];

static const char * ret_line(unsigned int r)
{
    snprintf(resbuf, sizeof resbuf, "ret %u", r);
    return resbuf;
}

static unsigned long long scalar_payload(unsigned int kind, int pos, unsigned int n, char ** strout)
{
    unsigned long long v = 0;
    unsigned int k;
    *strout = NULL;
    if (kind == 6)
    {
        char * s = (char *)malloc(n + 1);
        for (k = 0; k < n; k++)
        {
            unsigned long long c = num(tok(pos + (int)k));
            if (c < 1 || c > 255)
                format_error("string byte outside 1..255", tok(pos + (int)k));
            s[k] = (char)(unsigned char)c;
        }
        s[n] = 0;
        *strout = s;
        return 0;
    }
    if (n != 1)
        format_error("scalar payload must have one element", NULL);
    v = num(tok(pos));
    switch (kind)
    {
    case 1: if (v > INT_MAX) format_error("int payload too large", tok(pos)); break;
    case 3: if (v > (1ULL << 24)) format_error("float payload not exact", tok(pos)); break;
    case 5: if (v > 127) format_error("char payload outside 0..127", tok(pos)); break;
    case 2: case 4: case 8: break;
    default: format_error("scalar kind must be one of 1..6,8", NULL);
    }
    return v;
}

static int do_alloc(int oom, const char ** res)
{
    const char * what = tok(1);
    unsigned int a = 0, i;
    int pos;

    /* parse + validate completely before touching the heap */
    if (strcmp(what, "sc") == 0)
    {
        unsigned int kind = num_u(tok(2));
        unsigned int n;
        unsigned long long v;
        char * s;
        pos = 3;
        n = counted(&pos);
        v = scalar_payload(kind, pos, n, &s);
        no_more(pos + (int)n);
        if (oom || G->free == 0)
        {
            free(s);
            goto no_call;
        }
        switch (kind)
        {
        case 1: a = gc_alloc_int(G, (int)v); break;
        case 2: a = gc_alloc_long(G, (long long)v); break;
        case 3: a = gc_alloc_float(G, (float)v); break;
        case 4: a = gc_alloc_double(G, (double)v); break;
        case 5: a = gc_alloc_char(G, (char)v); break;
        case 6: a = gc_alloc_string(G, s); free(s); break;   /* gc_alloc_string copies */
        case 8: a = gc_alloc_c_ptr(G, (void *)(uintptr_t)v); break;
        }
    }
    else if (strcmp(what, "strref") == 0 || strcmp(what, "vecref") == 0 || strcmp(what, "arrref") == 0)
    {
        unsigned int r = num_u(tok(2));
        no_more(3);
        if (oom || G->free == 0)
            goto no_call;
        ref_in_range(r);
        if (what[0] == 's')
            a = gc_alloc_string_ref(G, r);
        else if (what[0] == 'v')
            a = gc_alloc_vec_ref(G, r);
        else
            a = gc_alloc_arr_ref(G, r);
    }
    else if (strcmp(what, "vec") == 0)
    {
        unsigned int n;
        pos = 2;
        n = counted(&pos);
        no_more(pos + (int)n);
        for (i = 0; i < n; i++)
            num_u(tok(pos + (int)i));
        if (oom || G->free == 0)
            goto no_call;
        for (i = 0; i < n; i++)
            ref_in_range(num_u(tok(pos + (int)i)));
        a = gc_alloc_vec(G, n);
        for (i = 0; i < n; i++)
            gc_set_vec(G, a, i, num_u(tok(pos + (int)i)));
    }
    else if (strcmp(what, "arr") == 0)
    {
        unsigned int nd, ne, dpos, epos;
        unsigned long long p = 1;
        object_arr_dim * dv;
        pos = 2;
        nd = counted(&pos);
        dpos = (unsigned int)pos;
        pos += (int)nd;
        ne = counted(&pos);
        epos = (unsigned int)pos;
        no_more(pos + (int)ne);
        if (nd == 0 || nd > 8)
            format_error("array needs 1..8 dimensions", NULL);
        for (i = 0; i < nd; i++)
        {
            p *= num_u(tok((int)(dpos + i)));
            if (p > 200000)
                format_error("array too large", NULL);
        }
        if (p != ne)
            format_error("array: product of dimensions differs from the number of elements", NULL);
        for (i = 0; i < ne; i++)
            num_u(tok((int)(epos + i)));
        if (oom || G->free == 0)
            goto no_call;
        for (i = 0; i < ne; i++)
            ref_in_range(num_u(tok((int)(epos + i))));
        dv = object_arr_dim_new(nd);
        for (i = 0; i < nd; i++)
        {
            dv[i].elems = num_u(tok((int)(dpos + i)));
            dv[i].mult = 0;
        }
        a = gc_alloc_arr(G, nd, dv);      /* takes ownership of dv */
        for (i = 0; i < ne; i++)
            gc_set_arr_elem(G, a, i, num_u(tok((int)(epos + i))));
    }
    else if (strcmp(what, "func") == 0)
    {
        unsigned int v = num_u(tok(2));
        unsigned int ip = num_u(tok(3));
        no_more(4);
        if (oom || G->free == 0)
            goto no_call;
        ref_in_range(v);
        a = gc_alloc_func(G, v, ip);
    }
    else
        format_error("unknown object kind", what);

    *res = ret_line(a);
    return 1;

no_call:
    /* gc_alloc_any would print "out of memory" and exit(1): see --oomprobe */
    if (oom)
    {
        snprintf(resbuf, sizeof resbuf, "oom-expected free=%u", G->free);
        *res = resbuf;
        return 1;
    }
    printf("! oom-unexpected line %d: the history expects this allocation to succeed but free == 0\n",
           lineno);
    fflush(stdout);
    gc_delete(G);
    printf("# stopped\n");
    fflush(stdout);
    exit(3);
}

static gc_stack * build_stack(int pos, unsigned int n)
{
    gc_stack * st = gc_stack_new((int)n);
    unsigned int i;
    for (i = 0; i < n; i++)
    {
        const char * t = tok(pos + (int)i);
        unsigned int v;
        if (strlen(t) < 2)
            format_error("bad stack slot", t);
        v = num_u(t + 1);
        switch (t[0])
        {
        case 'a':
            st[i].type = GC_MEM_ADDR;
            st[i].addr = v;
            break;
        case 'i':
            st[i].type = GC_MEM_IP;
            st[i].ip = v;
            break;
        case 's':
            st[i].type = GC_MEM_STACK;
            st[i].sp = (stack_ptr)v;
            break;
        case 'u':
            st[i].type = GC_MEM_UNKNOWN;
            st[i].addr = v;
            break;
        default:
            format_error("bad stack slot", t);
        }
    }
    /* only now (after the whole line is known to be well-formed) look at the heap */
    for (i = 0; i < n; i++)
        if (st[i].type == GC_MEM_ADDR && st[i].addr >= G->mem_size)
        {
            unsigned int bad = st[i].addr;
            gc_stack_delete(st);
            stop("root outside the heap", bad);
        }
    return st;
}

/* what follows in the history: 0 = nothing, 1 = a collect/run, 2 = another operation */
static int peek_next(const char * p)
{
    while (p != NULL && *p)
    {
        const char * e = strchr(p, '\n');
        const char * q = p;
        while (*q == ' ' || *q == '\t' || *q == '\r')
            q++;
        if (*q != 0 && *q != '\n' && *q != '#')
        {
            if (strncmp(q, "collect", 7) == 0 && (q[7] == ' ' || q[7] == '\n' || q[7] == 0))
                return 1;
            if (strncmp(q, "run", 3) == 0 && (q[3] == ' ' || q[3] == '\n' || q[3] == 0))
                return 1;
            return 2;
        }
        p = e ? e + 1 : NULL;
    }
    return 0;
}

static int sparse = 0;

static void run_history(const char * path)
{
    FILE * f = fopen(path, "rb");
    char * buf;
    long len;
    char * line;
    char * next;
    int idx = 0;
    int have_size = 0;

    if (f == NULL)
    {
        fprintf(stderr, "gcdrive: cannot open %s: %s\n", path, strerror(errno));
        exit(2);
    }
    fseek(f, 0, SEEK_END);
    len = ftell(f);
    fseek(f, 0, SEEK_SET);
    if (len < 0 || len > 512L * 1024 * 1024)
    {
        fprintf(stderr, "gcdrive: history too large\n");
        exit(2);
    }
    buf = (char *)malloc((size_t)len + 2);
    if (fread(buf, 1, (size_t)len, f) != (size_t)len)
    {
        fprintf(stderr, "gcdrive: cannot read %s\n", path);
        exit(2);
    }
    fclose(f);
    buf[len] = 0;
    if (strlen(buf) != (size_t)len)
    {
        fprintf(stderr, "gcdrive: format error: NUL byte in the history\n");
        exit(2);
    }

    for (line = buf; line != NULL && *line; line = next)
    {
        char * text;
        const char * res = "ret 0";
        int oom = 0;
        char * nl = strchr(line, '\n');
        if (nl)
        {
            *nl = 0;
            next = nl + 1;
        }
        else
            next = NULL;
        lineno++;
        /* trim */
        while (*line == ' ' || *line == '\t')
            line++;
        {
            size_t l = strlen(line);
            while (l > 0 && (line[l - 1] == ' ' || line[l - 1] == '\t' || line[l - 1] == '\r'))
                line[--l] = 0;
        }
        if (*line == 0 || *line == '#')
            continue;
        text = strdup(line);
        split(line);
        if (ntok == 0)
        {
            free(text);
            continue;
        }
        if (!have_size)
        {
            unsigned int size;
            if (ntok != 2 || strcmp(toks[0], "size") != 0)
                format_error("the first line must be 'size <n>'", NULL);
            size = num_u(toks[1]);
            if (size < 2 || size > MAX_SIZE)
                format_error("heap size outside 2..4194304", toks[1]);
            G = gc_new(size);
            have_size = 1;
            {
                char t[64];
                snprintf(t, sizeof t, "new %u", size);
                dump(0, t, "ret 0", 1);
            }
            free(text);
            continue;
        }
        if (strcmp(toks[ntok - 1], "!oom") == 0)
        {
            oom = 1;
            ntok--;
            if (ntok == 0 || strcmp(toks[0], "alloc") != 0)
                format_error("!oom on a line that is not an alloc", NULL);
        }
        idx++;
        if (strcmp(toks[0], "alloc") == 0)
        {
            do_alloc(oom, &res);
        }
        else if (strcmp(toks[0], "setvec") == 0)
        {
            unsigned int a = num_u(tok(1)), i = num_u(tok(2)), v = num_u(tok(3));
            object * o;
            no_more(4);
            o = holder(a, OBJECT_VEC, "holder is not a vector in the real heap");
            if (i >= o->vec_value->size)
                stop("vector index out of range in the real heap", a);
            gc_set_vec(G, a, i, ref_in_range(v));
        }
        else if (strcmp(toks[0], "setarr") == 0)
        {
            unsigned int a = num_u(tok(1)), i = num_u(tok(2)), v = num_u(tok(3));
            object * o;
            no_more(4);
            o = holder(a, OBJECT_ARRAY, "holder is not an array in the real heap");
            if (i >= o->arr_value->elems)
                stop("array index out of range in the real heap", a);
            gc_set_arr_elem(G, a, i, ref_in_range(v));
        }
        else if (strcmp(toks[0], "append") == 0)
        {
            unsigned int a = num_u(tok(1)), v = num_u(tok(2));
            object * o;
            no_more(3);
            o = holder(a, OBJECT_ARRAY, "holder is not an array in the real heap");
            if (o->arr_value->dims != 1)
                stop("append to an array that is not 1-dimensional in the real heap", a);
            gc_append_arr_elem(G, a, ref_in_range(v));
        }
        else if (strcmp(toks[0], "setref") == 0)
        {
            const char * w = tok(1);
            unsigned int a = num_u(tok(2)), r = num_u(tok(3));
            no_more(4);
            if (strcmp(w, "str") == 0)
            {
                holder(a, OBJECT_STRING_REF, "holder is not a string_ref in the real heap");
                gc_set_string_ref(G, a, ref_in_range(r));
            }
            else if (strcmp(w, "vec") == 0)
            {
                holder(a, OBJECT_VEC_REF, "holder is not a vec_ref in the real heap");
                gc_set_vec_ref(G, a, ref_in_range(r));
            }
            else if (strcmp(w, "arr") == 0)
            {
                holder(a, OBJECT_ARRAY_REF, "holder is not an array_ref in the real heap");
                gc_set_arr_ref(G, a, ref_in_range(r));
            }
            else
                format_error("setref str|vec|arr", w);
        }
        else if (strcmp(toks[0], "setfuncvec") == 0)
        {
            unsigned int a = num_u(tok(1)), v = num_u(tok(2));
            no_more(3);
            holder(a, OBJECT_FUNC, "holder is not a function in the real heap");
            gc_set_func_vec(G, a, ref_in_range(v));
        }
        else if (strcmp(toks[0], "setsc") == 0)
        {
            unsigned int kind = num_u(tok(1)), a = num_u(tok(2));
            int pos = 3;
            unsigned int n = counted(&pos);
            char * s;
            unsigned long long v = scalar_payload(kind, pos, n, &s);
            no_more(pos + (int)n);
            switch (kind)
            {
            case 1: holder(a, OBJECT_INT, "holder is not an int"); gc_set_int(G, a, (int)v); break;
            case 2: holder(a, OBJECT_LONG, "holder is not a long"); gc_set_long(G, a, (long long)v); break;
            case 3: holder(a, OBJECT_FLOAT, "holder is not a float"); gc_set_float(G, a, (float)v); break;
            case 4: holder(a, OBJECT_DOUBLE, "holder is not a double"); gc_set_double(G, a, (double)v); break;
            case 5: holder(a, OBJECT_CHAR, "holder is not a char"); gc_set_char(G, a, (char)v); break;
            case 6:
                if (a == 0 || a >= G->mem_size || G->mem[a].object_value == NULL ||
                    G->mem[a].object_value->type != OBJECT_STRING)
                {
                    free(s);
                    stop("holder is not a string", a);
                }
                gc_set_string(G, a, s);
                free(s);
                break;
            case 8: holder(a, OBJECT_C_PTR, "holder is not a c_ptr"); gc_set_c_ptr(G, a, (void *)(uintptr_t)v); break;
            }
        }
        else if (strcmp(toks[0], "collect") == 0)
        {
            int pos = 1;
            unsigned int n = counted(&pos);
            gc_stack * st;
            no_more(pos + (int)n);
            st = build_stack(pos, n);
            gc_run_omfalos(G, st, (int)n);
            gc_stack_delete(st);
        }
        else if (strcmp(toks[0], "run") == 0)
        {
            unsigned int gv = num_u(tok(1));
            int pos = 2;
            unsigned int n = counted(&pos);
            gc_stack * st;
            no_more(pos + (int)n);
            st = build_stack(pos, n);
            if (gv >= G->mem_size)
            {
                gc_stack_delete(st);
                stop("global vector outside the heap", gv);
            }
            gc_run(G, st, (int)n, gv);
            gc_stack_delete(st);
        }
        else
            format_error("unknown operation", toks[0]);
        {
            int pk = peek_next(next);
            int coll = strcmp(toks[0], "collect") == 0 || strcmp(toks[0], "run") == 0;
            dump(idx, text, res, sparse <= 0 || idx % sparse == 0 || coll || pk != 2);
        }
        free(text);
    }
    if (!have_size)
    {
        lineno = 0;
        format_error("empty history", NULL);
    }
    free(buf);
    gc_delete(G);
    G = NULL;
    printf("# done\n");
    fflush(stdout);
}

/* ---------- out-of-memory probe ------------------------------------------------------ */
/* globals: still reachable for LeakSanitizer when the child calls exit(1) inside gc_alloc_any */
static gc_mem * mem_copy;
static mem_ptr * l0;
static mem_ptr * l1;

static int oomprobe(unsigned int size)
{
    unsigned int i;
    gc copy;
    int pfd[2];
    pid_t pid;
    int status = 0;
    char err[256];
    ssize_t got, total = 0;
    int unchanged = 1;
    unsigned int a;

    G = gc_new(size);
    for (i = 1; i < size; i++)
    {
        if (G->free == 0)
        {
            printf("oomprobe size=%u: heap full after only %u allocations\n", size, i - 1);
            gc_delete(G);
            return 1;
        }
        gc_alloc_int(G, (int)i);
    }
    printf("oomprobe size=%u filled=%u free=%u top=%u\n", size, size - 1, G->free, G->wb_top[G->w_index]);
    copy = *G;
    mem_copy = (gc_mem *)malloc(size * sizeof(gc_mem));
    l0 = (mem_ptr *)malloc(size * sizeof(mem_ptr));
    l1 = (mem_ptr *)malloc(size * sizeof(mem_ptr));
    /* field by field: struct padding is not initialised by gc_new */
    for (i = 0; i < size; i++)
    {
        mem_copy[i].mark = G->mem[i].mark;
        mem_copy[i].object_value = G->mem[i].object_value;
        mem_copy[i].next = G->mem[i].next;
    }
    for (i = 0; i < G->wb_top[0]; i++) l0[i] = G->wb_list[0][i];
    for (i = 0; i < G->wb_top[1]; i++) l1[i] = G->wb_list[1][i];

    fflush(stdout);
    if (pipe(pfd) != 0)
    {
        perror("pipe");
        return 2;
    }
    pid = fork();
    if (pid < 0)
    {
        perror("fork");
        return 2;
    }
    if (pid == 0)
    {
        mem_ptr r;
        close(pfd[0]);
        dup2(pfd[1], 2);
        close(pfd[1]);
        r = gc_alloc_int(G, 12345);          /* expected: "out of memory", exit(1) */
        printf("child: gc_alloc_int returned %u on a full heap\n", r);
        fflush(stdout);
        _exit(0);
    }
    close(pfd[1]);
    for (;;)
    {
        char drain[256];
        if (total < (ssize_t)sizeof(err) - 1)
        {
            got = read(pfd[0], err + total, sizeof(err) - 1 - (size_t)total);
            if (got > 0)
                total += got;
        }
        else
            got = read(pfd[0], drain, sizeof drain);     /* keep the child from getting SIGPIPE */
        if (got <= 0)
            break;
    }
    err[total] = 0;
    close(pfd[0]);
    waitpid(pid, &status, 0);
    for (i = 0; i < (unsigned int)total; i++)
        if (err[i] == '\n' || err[i] == '\r')
            err[i] = '|';
    if (WIFEXITED(status))
        printf("child exit=%d stderr=\"%s\"\n", WEXITSTATUS(status), err);
    else
        printf("child signal=%d stderr=\"%s\"\n", WIFSIGNALED(status) ? WTERMSIG(status) : -1, err);

    if (copy.free != G->free || copy.mem_size != G->mem_size || copy.mem != G->mem ||
        copy.w_index != G->w_index || copy.wb_top[0] != G->wb_top[0] || copy.wb_top[1] != G->wb_top[1] ||
        copy.wb_list[0] != G->wb_list[0] || copy.wb_list[1] != G->wb_list[1])
        unchanged = 0;
    for (i = 0; unchanged && i < size; i++)
        if (mem_copy[i].mark != G->mem[i].mark || mem_copy[i].object_value != G->mem[i].object_value ||
            mem_copy[i].next != G->mem[i].next)
            unchanged = 0;
    for (i = 0; unchanged && i < G->wb_top[0]; i++) if (l0[i] != G->wb_list[0][i]) unchanged = 0;
    for (i = 0; unchanged && i < G->wb_top[1]; i++) if (l1[i] != G->wb_list[1][i]) unchanged = 0;
    for (i = 1; unchanged && i < size; i++)
        if (G->mem[i].object_value == NULL || G->mem[i].object_value->type != OBJECT_INT ||
            G->mem[i].object_value->int_value != (int)i)
            unchanged = 0;
    printf("parent-heap-unchanged %s\n", unchanged ? "yes" : "NO");

    /* the heap is usable again after a collection without roots */
    gc_run_omfalos(G, NULL, 0);
    a = G->free != 0 ? gc_alloc_int(G, 7) : 0;
    printf("after-collect free-cells-available %s alloc=%s\n", G->free != 0 || a != 0 ? "yes" : "NO",
           a != 0 ? "ok" : "NO");
    free(mem_copy);
    free(l0);
    free(l1);
    gc_delete(G);
    G = NULL;
    printf("# done\n");
    return 0;
}

/* ---------- trigger probe ------------------------------------------------------------- */
/* gc_run on a fake collector: wb_list == NULL, so a collection (gc_sweep_all reading the list)
 * kills the child; no collection returns at once. */
static int probe_one(unsigned int size, unsigned int top)
{
    pid_t pid;
    int status = 0;
    fflush(stdout);
    pid = fork();
    if (pid < 0)
        return -1;
    if (pid == 0)
    {
        gc fake;
        int devnull = open("/dev/null", O_WRONLY);
        if (devnull >= 0)
        {
            dup2(devnull, 2);
            close(devnull);
        }
        memset(&fake, 0, sizeof fake);
        fake.free = 0;
        fake.mem_size = size;
        fake.mem = NULL;
        fake.w_index = 0;
        fake.wb_top[0] = top;
        fake.wb_top[1] = 0;
        fake.wb_list[0] = NULL;
        fake.wb_list[1] = NULL;
        gc_run(&fake, NULL, 0, 0);
        _exit(fake.wb_top[0] == top && fake.w_index == 0 ? 0 : 7);
    }
    waitpid(pid, &status, 0);
    if (WIFEXITED(status) && WEXITSTATUS(status) == 0)
        return 0;              /* returned without collecting */
    return 1;                  /* went into the collection */
}

static int triggerprobe(void)
{
    static const unsigned int sizes[] = {
        5u, 10u, 65535u, 65536u, 65537u, 65540u, 1u << 20, (1u << 24) - 1, 1u << 24, (1u << 24) + 1,
        16777220u, 100000000u, 1000000005u, (1u << 31) - 1, 1u << 31, (1u << 31) + 1, 2147483650u,
        3000000000u, 3000000001u, 4294967290u, 4294967294u, 4294967295u };
    unsigned int k;
    int bad = 0;
    for (k = 0; k < sizeof sizes / sizeof sizes[0]; k++)
    {
        unsigned long long size = sizes[k];
        unsigned long long t = (4 * size + 4) / 5;       /* least top with 5*top >= 4*size */
        int below, at;
        if (t > 0xffffffffULL)
            continue;
        below = t > 0 ? probe_one(sizes[k], (unsigned int)(t - 1)) : 0;
        at = probe_one(sizes[k], (unsigned int)t);
        printf("trigger size=%u top=%llu:%s top=%llu:%s%s\n", sizes[k], t - 1, below == 0 ? "no" : "collect",
               t, at == 1 ? "collect" : "no", (below == 0 && at == 1) ? "" : " MISMATCH");
        if (!(below == 0 && at == 1))
            bad = 1;
    }
    printf(bad ? "# mismatch\n" : "# done\n");
    return 0;
}

int main(int argc, char ** argv)
{
    if (argc == 3 && strcmp(argv[1], "--oomprobe") == 0)
    {
        char * end = NULL;
        unsigned long size = strtoul(argv[2], &end, 10);
        if (end == NULL || *end != 0 || size < 2 || size > MAX_SIZE)
        {
            fprintf(stderr, "gcdrive: --oomprobe <size 2..4194304>\n");
            return 2;
        }
        return oomprobe((unsigned int)size);
    }
    if (argc == 2 && strcmp(argv[1], "--triggerprobe") == 0)
        return triggerprobe();
    if (argc == 4 && strcmp(argv[1], "--sparse") == 0)
    {
        char * end = NULL;
        long k = strtol(argv[2], &end, 10);
        if (end == NULL || *end != 0 || k < 1 || k > 100000000L)
        {
            fprintf(stderr, "gcdrive: --sparse <K >= 1>\n");
            return 2;
        }
        sparse = (int)k;
        run_history(argv[3]);
        return 0;
    }
    if (argc != 2 || argv[1][0] == '-')
    {
        fprintf(stderr, "usage: gcdrive [--sparse <K>] <file.hist> | gcdrive --oomprobe <size> | gcdrive --triggerprobe\n");
        return 2;
    }
    run_history(argv[1]);
    return 0;
}
