/* indexdrive — direct-call driver for C12 (and the exception-table search of C03a).
 *
 *   indexdrive FILE      reads one case per line, calls the tree's real functions and prints one
 *                        result line per case (same format as harness/ocaml/index/indexrun.ml
 *                        prints for the extracted model; checks/c12.py diffs the two).
 *
 * Cases (decimal numbers, `|` separates groups):
 *   M n1 .. nk                 object_arr_dim_mult                 -> M elems m1 .. mk
 *   F n1 .. nk                 object_arr_dim_fits (fix 1f9996a)   -> F 0|1   (F ? when the tree
 *                              has no such function: the symbol is weak, the driver still links)
 *   A n1 .. nk | i1 .. ik      object_arr_dim_mult, then
 *                              object_arr_dim_addr (i as unsigned) -> A addr oob
 *   D n1 m1 .. nk mk | i1..ik  object_arr_dim_addr on a given dv   -> D addr oob
 *   R a b c d                  vm_get_slice_range (res, oob preset 0) -> R res_from res_to oob
 *   CA s1 | s2                 object_arr_can_add   (s = `nil` or extents; arrays built with
 *   CM s1 | s2                 object_arr_can_mult   object_new_arr) -> CA 0|1, CM 0|1
 *   C n1 .. nk                 object_arr_dim_mult, object_arr_dim_copy -> C n1 m1 .. nk mk
 *   CD n1 m1 .. nk mk          object_arr_dim_copy on a given dv    -> CD n1 m1 .. nk mk
 *   CO n1 .. nk                object_new_arr, object_arr_copy      -> CO dims elems n1 m1 .. nk mk
 *   X b0 h0 b1 h1 .. | ip ..   exception_tab_new(2)/insert, then per ip exctab_search on
 *                              (tab, count) and exception_tab_search  -> X i:h | - ...
 *   XN ip ..                   exctab_search(NULL, 3, ip)              -> X - ...
 */
#define _GNU_SOURCE
#include <stdio.h>
#include <stdlib.h>
#include <string.h>
#include "object.h"
#include "vmexec.h"
#include "exctab.h"

#define MAXTOK 4096

/* since fix 1f9996a; weak so that the driver links against a tree without it */
extern char object_arr_dim_fits(unsigned int dims, object_arr_dim * dv) __attribute__((weak));

static char * toks[MAXTOK];
static int ntok;

static void split(char * line)
{
    ntok = 0;
    char * t = strtok(line, " \t\r\n");
    while (t && ntok < MAXTOK) { toks[ntok++] = t; t = strtok(NULL, " \t\r\n"); }
}

static unsigned int u(const char * s) { return (unsigned int)strtoll(s, NULL, 10); }
static int si(const char * s) { return (int)strtoll(s, NULL, 10); }

/* index of the first "|" at or after `from`, or ntok */
static int bar(int from) { int i; for (i = from; i < ntok; i++) if (!strcmp(toks[i], "|")) return i; return ntok; }

static object * mk_arr(int from, int to)
{
    if (to - from == 1 && !strcmp(toks[from], "nil")) return NULL;
    unsigned int dims = (unsigned int)(to - from), d;
    object_arr_dim * dv = object_arr_dim_new(dims ? dims : 1);
    for (d = 0; d < dims; d++) { dv[d].elems = u(toks[from + d]); dv[d].mult = 0; }
    /* object_new_arr would malloc elems * sizeof(mem_ptr): keep the descriptor only */
    object * obj = (object *)calloc(1, sizeof(object));
    object_arr * a = (object_arr *)calloc(1, sizeof(object_arr));
    a->dims = dims; a->dv = dv; a->value = NULL;
    object_arr_dim_mult(dims, dv, &a->elems);
    obj->type = OBJECT_ARRAY; obj->arr_value = a;
    return obj;
}

static void free_arr(object * o)
{
    if (!o) return;
    object_arr_dim_delete(o->arr_value->dv); free(o->arr_value); free(o);
}

int main(int argc, char ** argv)
{
    if (argc < 2) { fprintf(stderr, "usage: indexdrive FILE\n"); return 2; }
    FILE * f = fopen(argv[1], "r");
    if (!f) { perror(argv[1]); return 2; }
    char * line = NULL; size_t cap = 0;
    while (getline(&line, &cap, f) > 0)
    {
        split(line);
        if (ntok == 0) { printf("\n"); continue; }
        const char * c = toks[0];
        if (!strcmp(c, "M"))
        {
            unsigned int dims = ntok - 1, d, elems = 0;
            object_arr_dim * dv = object_arr_dim_new(dims ? dims : 1);
            for (d = 0; d < dims; d++) { dv[d].elems = u(toks[1 + d]); dv[d].mult = 0; }
            object_arr_dim_mult(dims, dv, &elems);
            printf("M %u", elems);
            for (d = 0; d < dims; d++) printf(" %u", dv[d].mult);
            printf("\n");
            object_arr_dim_delete(dv);
        }
        else if (!strcmp(c, "F"))
        {
            unsigned int dims = ntok - 1, d;
            object_arr_dim * dv = object_arr_dim_new(dims ? dims : 1);
            for (d = 0; d < dims; d++) { dv[d].elems = u(toks[1 + d]); dv[d].mult = 0; }
            if (object_arr_dim_fits) printf("F %d\n", object_arr_dim_fits(dims, dv) ? 1 : 0);
            else printf("F ?\n");
            object_arr_dim_delete(dv);
        }
        else if (!strcmp(c, "A") || !strcmp(c, "D"))
        {
            int isd = !strcmp(c, "D");
            int b = bar(1);
            unsigned int dims = isd ? (b - 1) / 2 : (b - 1), d, elems = 0;
            object_arr_dim * dv = object_arr_dim_new(dims ? dims : 1);
            object_arr_dim * addr = object_arr_dim_new(dims ? dims : 1);
            for (d = 0; d < dims; d++)
            {
                if (isd) { dv[d].elems = u(toks[1 + 2 * d]); dv[d].mult = u(toks[2 + 2 * d]); }
                else { dv[d].elems = u(toks[1 + d]); dv[d].mult = 0; }
                addr[d].elems = 0;
                addr[d].mult = (b + 1 + (int)d < ntok) ? u(toks[b + 1 + d]) : 0;
            }
            if (!isd) object_arr_dim_mult(dims, dv, &elems);
            int oob = 12345;
            unsigned int a = object_arr_dim_addr(dims, dv, addr, &oob);
            printf("%s %u %d\n", c, a, oob);
            object_arr_dim_delete(dv); object_arr_dim_delete(addr);
        }
        else if (!strcmp(c, "R"))
        {
            int rf = 0, rt = 0, oob = 0;
            vm_get_slice_range(si(toks[1]), si(toks[2]), si(toks[3]), si(toks[4]), &rf, &rt, &oob);
            printf("R %d %d %d\n", rf, rt, oob ? 1 : 0);
        }
        else if (!strcmp(c, "CA") || !strcmp(c, "CM"))
        {
            int b = bar(1);
            object * o1 = mk_arr(1, b), * o2 = mk_arr(b + 1, ntok);
            object_arr * a1 = o1 ? o1->arr_value : NULL, * a2 = o2 ? o2->arr_value : NULL;
            char r = !strcmp(c, "CA") ? object_arr_can_add(a1, a2) : object_arr_can_mult(a1, a2);
            printf("%s %d\n", c, r ? 1 : 0);
            free_arr(o1); free_arr(o2);
        }
        else if (!strcmp(c, "C") || !strcmp(c, "CD"))
        {
            int isd = !strcmp(c, "CD");
            unsigned int dims = isd ? (ntok - 1) / 2 : (ntok - 1), d, elems = 0;
            object_arr_dim * dv = object_arr_dim_new(dims ? dims : 1);
            for (d = 0; d < dims; d++)
            {
                if (isd) { dv[d].elems = u(toks[1 + 2 * d]); dv[d].mult = u(toks[2 + 2 * d]); }
                else { dv[d].elems = u(toks[1 + d]); dv[d].mult = 0; }
            }
            if (!isd) object_arr_dim_mult(dims, dv, &elems);
            object_arr_dim * cp = object_arr_dim_copy(dims, dv);
            printf("%s", c);
            for (d = 0; d < dims; d++) printf(" %u %u", cp[d].elems, cp[d].mult);
            printf("\n");
            object_arr_dim_delete(dv); object_arr_dim_delete(cp);
        }
        else if (!strcmp(c, "CO"))
        {
            unsigned int dims = ntok - 1, d;
            object_arr_dim * dv = object_arr_dim_new(dims ? dims : 1);
            for (d = 0; d < dims; d++) { dv[d].elems = u(toks[1 + d]); dv[d].mult = 0; }
            object * o = object_new_arr(dims, dv);
            object * cp = object_arr_copy(o);
            printf("CO %u %u", cp->arr_value->dims, cp->arr_value->elems);
            for (d = 0; d < dims; d++) printf(" %u %u", cp->arr_value->dv[d].elems, cp->arr_value->dv[d].mult);
            printf("\n");
            object_delete(o); object_delete(cp);
        }
        else if (!strcmp(c, "X"))
        {
            int b = bar(1), i;
            exctab * t = exception_tab_new(2);
            for (i = 1; i + 1 < b; i += 2) exception_tab_insert(t, u(toks[i]), u(toks[i + 1]));
            printf("X");
            for (i = b + 1; i < ntok; i++)
            {
                unsigned int ip = u(toks[i]);
                exctab_entry * e = exctab_search(t->tab, (int)t->count, ip);
                if (e == NULL) printf(" -");
                else printf(" %ld:%u", (long)(e - t->tab), exception_tab_search(t, ip));
            }
            printf("\n");
            exception_tab_delete(t);
        }
        else if (!strcmp(c, "XN"))
        {
            int i;
            printf("X");
            for (i = 1; i < ntok; i++) printf(exctab_search(NULL, 3, u(toks[i])) ? " ?" : " -");
            printf("\n");
        }
        else printf("? %s\n", c);
    }
    free(line);
    fclose(f);
    return 0;
}
