(* Arith/VMOps.v — the arithmetic handlers of the VM, written from back/vmexec.c (and only
   from there): one function per opcode family, over boxed scalar values.  Definitions only.

   A handler reads its operands with gc_get_<type>, which asserts the object tag
   (back/gc.c): an operand of another type is `Crash TagMismatch` (abort under the assert
   build).  bool values and item-enum values are OBJECT_INT at run time. *)
From Coq Require Import ZArith Bool.
From NV Require Import Arith.NumTy Arith.Bits Arith.IntOps Arith.FloatOps.
Local Open Scope Z_scope.

Inductive value :=
  | VInt (z : Z)          (* OBJECT_INT: int, bool, item enum *)
  | VLong (z : Z)         (* OBJECT_LONG *)
  | VFloat (bits : Z)     (* OBJECT_FLOAT, bit pattern *)
  | VDouble (bits : Z).   (* OBJECT_DOUBLE, bit pattern *)

Inductive fault := DivisionByZero.            (* EXCEPT_NO_DIVISION "division_by_zero" *)
Inductive crash :=
  | SigFpe                                    (* idiv trap on INT_MIN / -1 *)
  | TagMismatch                               (* gc_get_<type> assertion *)
  | EmitAssert.                               (* assert(0) in front/emit.c: no opcode for the types *)

Inductive outcome := Val (v : value) | Fault (f : fault) | Crash (c : crash).

Definition value_eqb (a b : value) : bool :=
  match a, b with
  | VInt x, VInt y | VLong x, VLong y | VFloat x, VFloat y | VDouble x, VDouble y => x =? y
  | _, _ => false
  end.

Definition of_ires (mk : Z -> value) (r : ires) : outcome :=
  match r with
  | IVal z => Val (mk z)
  | IDivZero => Fault DivisionByZero
  | ISigFpe => Crash SigFpe
  end.

(* integer handlers at width n, results boxed by mk (gc_alloc_int / gc_alloc_long);
   comparisons always box an int *)
Definition exec_int_bop (n : Z) (mk : Z -> value) (o : binop) (a b : Z) : outcome :=
  match o with
  | Add => Val (mk (iadd n a b))
  | Sub => Val (mk (isub n a b))
  | Mul => Val (mk (imul n a b))
  | Div => of_ires mk (idiv n a b)
  | Mod => of_ires mk (imod n a b)
  | OLt => Val (VInt (ilt a b))
  | OGt => Val (VInt (igt a b))
  | OLe => Val (VInt (ile a b))
  | OGe => Val (VInt (ige a b))
  | OEq => Val (VInt (ieq a b))
  | ONe => Val (VInt (ine a b))
  | BAnd => Val (mk (iand n a b))
  | BOr => Val (mk (ior n a b))
  | BXor => Val (mk (ixor n a b))
  | Shl => Val (mk (ishl n a b))
  | Shr => Val (mk (ishr n a b))
  | And | Or => Crash EmitAssert   (* no such opcode: && || are jumps *)
  end.

(* floating handlers; vm_execute_op_div_type tests `b == 0` for float and double too.  The
   macro computes (b == -1) ? -a : a / b also at the floating types; IEEE division by -1.0 is
   exact and equals -a (zeros, infinities included; a NaN stays a NaN and SpecFloat has a single
   NaN), so the handler is modelled as plain division — tied by the correspondence runs, whose
   corner set contains -1.0 *)
Definition exec_flt_bop (f : fmt) (mk : Z -> value) (o : binop) (a b : Z) : outcome :=
  match o with
  | Add => Val (mk (fadd f a b))
  | Sub => Val (mk (fsub f a b))
  | Mul => Val (mk (fmul f a b))
  | Div => if fis_zero f b then Fault DivisionByZero else Val (mk (fdiv f a b))
  | OLt => Val (VInt (flt f a b))
  | OGt => Val (VInt (fgt f a b))
  | OLe => Val (VInt (fle f a b))
  | OGe => Val (VInt (fge f a b))
  | OEq => Val (VInt (feq f a b))
  | ONe => Val (VInt (fne f a b))
  | _ => Crash EmitAssert          (* no % & | ^ << >> on floating types *)
  end.

(* handler of opcode `VBin o t` *)
Definition exec_bop (o : binop) (t : ty) (x y : value) : outcome :=
  match t, x, y with
  | TInt, VInt a, VInt b => exec_int_bop 32 VInt o a b
  | TLong, VLong a, VLong b => exec_int_bop 64 VLong o a b
  | TFloat, VFloat a, VFloat b => exec_flt_bop b32 VFloat o a b
  | TDouble, VDouble a, VDouble b => exec_flt_bop b64 VDouble o a b
  | _, _, _ => Crash TagMismatch
  end.

(* handler of opcode `VUn o t`: op_neg_<t>, op_not_int, op_bin_not_<t> *)
Definition exec_uop (o : unop) (t : ty) (x : value) : outcome :=
  match o, t, x with
  | Neg, TInt, VInt a => Val (VInt (ineg 32 a))
  | Neg, TLong, VLong a => Val (VLong (ineg 64 a))
  | Neg, TFloat, VFloat a => Val (VFloat (fneg b32 a))
  | Neg, TDouble, VDouble a => Val (VDouble (fneg b64 a))
  | Not, TInt, VInt a => Val (VInt (inot a))
  | BNot, TInt, VInt a => Val (VInt (ibnot 32 a))
  | BNot, TLong, VLong a => Val (VLong (ibnot 64 a))
  | _, _, _ => Crash TagMismatch
  end.

(* vm_execute_<from>_to_<to> : a C cast *)
Definition exec_conv (c : conv) (x : value) : outcome :=
  match c, x with
  | I2L, VInt a => Val (VLong (i2l a))
  | I2F, VInt a => Val (VFloat (of_Z b32 a))
  | I2D, VInt a => Val (VDouble (of_Z b64 a))
  | L2I, VLong a => Val (VInt (l2i a))
  | L2F, VLong a => Val (VFloat (of_Z b32 a))
  | L2D, VLong a => Val (VDouble (of_Z b64 a))
  | F2I, VFloat a => Val (VInt (to_Z 32 b32 a))
  | F2L, VFloat a => Val (VLong (to_Z 64 b32 a))
  | F2D, VFloat a => Val (VDouble (f2d a))
  | D2I, VDouble a => Val (VInt (to_Z 32 b64 a))
  | D2L, VDouble a => Val (VLong (to_Z 64 b64 a))
  | D2F, VDouble a => Val (VFloat (d2f a))
  | _, _ => Crash TagMismatch
  end.

(* JUMPZ reads its operand with gc_get_int *)
Definition truth (x : value) : option bool :=
  match x with VInt a => Some (negb (a =? 0)) | _ => None end.

(* vm_execute_op_ass_<t>: the payload of the right cell is copied into the left cell; both
   are read through gc_get_<t>/gc_set_<t> of the opcode's type *)
Definition exec_ass (t : ty) (left right : value) : outcome :=
  match t, left, right with
  | TInt, VInt _, VInt b => Val (VInt b)
  | TLong, VLong _, VLong b => Val (VLong b)
  | TFloat, VFloat _, VFloat b => Val (VFloat b)
  | TDouble, VDouble _, VDouble b => Val (VDouble b)
  | _, _, _ => Crash TagMismatch
  end.

Definition bind (r : outcome) (k : value -> outcome) : outcome :=
  match r with Val v => k v | _ => r end.
