/* dlcachedrive — runs operation sequences against the REAL library handle cache of the tree
 * (back/dlcache.c: dlcache_entry_new/add_dl/lookup/resize, dlcache_new/add_dl/lookup/get_handle/
 * resize/delete) and front/hash.c hash_string, and prints after every operation the full table.
 * harness/ocaml/hash/hashrun.ml runs the extracted Coq model on the same file and prints the
 * same lines; checks/parts/hashtab.py compares them and applies the property's own oracle.
 *
 * No library is ever opened: this file DEFINES dlopen/dlclose (the definitions of the executable
 * win over libdl's), so dlcache_new's ffi_decl_get_handle("host") and the miss branch of
 * dlcache_get_handle receive the fake handle the case file names ((void *)(uintptr_t)k, 0 = dlopen
 * fails), and dlcache_delete's dlclose calls are recorded instead of executed.
 *
 * usage: dlcachedrive <casefile>        one operation per line, names hex-encoded ("-" = ""):
 *   C <size> <host>      dlcache_new(size), dlopen(NULL) gives <host>        -> C | size count | slots
 *   A <name> <h>         dlcache_add_dl(cache, name, h)                       -> A | ...
 *   G <name> <h>         dlcache_get_handle(cache, name), dlopen gives <h>    -> G <ret> <dlopen calls> | ...
 *   L <name>             dlcache_lookup(cache, name)                          -> L <idx>:<h> or L - | ...
 *   R                    dlcache_resize(cache)                                -> R | ...
 *   D                    dlcache_delete(cache)                                -> D <handles dlclosed, in call order>
 *   E <size>             raw = dlcache_entry_new(size)                        -> E | size | slots
 *   a <name> <h>         dlcache_entry_add_dl(raw, size, name, h)             -> a | ...
 *   l <name>             dlcache_entry_lookup(raw, size, name)                -> l <idx>:<h> or l - | ...
 *   r <size_new>         dlcache_entry_resize(raw, size, new, size_new)       -> r | ...
 *   H <name>             hash_string(name)                                    -> H <value>
 * a slot prints as  <index>:<hex name>:<handle>.
 */
#include <stdio.h>
#include <stdlib.h>
#include <string.h>
#include <stdint.h>
#include "dlcache.h"
#include "hash.h"

static uintptr_t next_dl = 0;
static unsigned int dlopen_calls = 0;
static uintptr_t closed[1 << 16];
static unsigned int nclosed = 0;

void * dlopen(const char * file, int mode)
{
    (void)file; (void)mode;
    dlopen_calls++;
    return (void *)next_dl;
}

int dlclose(void * handle)
{
    if (nclosed < (1 << 16)) closed[nclosed++] = (uintptr_t)handle;
    return 0;
}

char * dlerror(void) { return "dlcachedrive: fake dlopen"; }

/* names handed to the cache must stay alive: the cache stores the pointer */
static char ** arena = NULL;
static unsigned int narena = 0, caparena = 0;

static char * keep(char * s)
{
    if (narena == caparena)
    {
        caparena = caparena ? caparena * 2 : 1024;
        arena = (char **)realloc(arena, caparena * sizeof(char *));
    }
    arena[narena++] = s;
    return s;
}

static int hexval(int c)
{
    if (c >= '0' && c <= '9') return c - '0';
    if (c >= 'a' && c <= 'f') return c - 'a' + 10;
    return -1;
}

/* fresh heap copy of the decoded name (so equal names never share a pointer) */
static char * unhex(const char * h)
{
    size_t n = strlen(h), i;
    char * s;
    if (strcmp(h, "-") == 0) n = 0;
    s = (char *)malloc(n / 2 + 1);
    for (i = 0; i + 1 < n; i += 2) s[i / 2] = (char)(hexval(h[i]) * 16 + hexval(h[i + 1]));
    s[n / 2] = 0;
    return s;
}

static void puthex(const char * s)
{
    if (*s == 0) { putchar('-'); return; }
    for (; *s; s++) printf("%02x", (unsigned char)*s);
}

static void dump(dlcache_entry * es, unsigned int size)
{
    unsigned int i;
    for (i = 0; i < size; i++)
    {
        if (es[i].dl_name != NULL)
        {
            printf(" %u:", i);
            puthex(es[i].dl_name);
            printf(":%lu", (unsigned long)(uintptr_t)es[i].handle);
        }
    }
    putchar('\n');
}

static void dump_cache(dlcache * c)
{
    printf(" | %u %u |", c->size, c->count);
    dump(c->entries, c->size);
}

int main(int argc, char ** argv)
{
    FILE * f;
    char * line = NULL;
    size_t cap = 0;
    dlcache * cache = NULL;
    dlcache_entry * raw = NULL;
    unsigned int rawsize = 0;

    if (argc < 2 || (f = fopen(argv[1], "r")) == NULL) { fprintf(stderr, "usage: dlcachedrive file\n"); return 2; }
    while (getline(&line, &cap, f) > 0)
    {
        char op = line[0];
        char * a1 = strtok(line + 1, " \n");
        char * a2 = strtok(NULL, " \n");

        if (op == 'C')
        {
            if (cache != NULL) { free(cache->entries); free(cache); }
            next_dl = (uintptr_t)strtoul(a2, NULL, 10);
            cache = dlcache_new((unsigned int)strtoul(a1, NULL, 10));
            printf("C");
            dump_cache(cache);
        }
        else if (op == 'A' && cache)
        {
            dlcache_add_dl(cache, keep(unhex(a1)), (void *)(uintptr_t)strtoul(a2, NULL, 10));
            printf("A");
            dump_cache(cache);
        }
        else if (op == 'G' && cache)
        {
            void * h;
            unsigned int before = dlopen_calls;
            next_dl = (uintptr_t)strtoul(a2, NULL, 10);
            h = dlcache_get_handle(cache, keep(unhex(a1)));
            printf("G %lu %u", (unsigned long)(uintptr_t)h, dlopen_calls - before);
            dump_cache(cache);
        }
        else if (op == 'L' && cache)
        {
            char * n = unhex(a1);
            dlcache_entry * e = dlcache_lookup(cache, n);
            if (e != NULL) printf("L %ld:%lu", (long)(e - cache->entries), (unsigned long)(uintptr_t)e->handle);
            else printf("L -");
            free(n);
            dump_cache(cache);
        }
        else if (op == 'R' && cache)
        {
            dlcache_resize(cache);
            printf("R");
            dump_cache(cache);
        }
        else if (op == 'D' && cache)
        {
            unsigned int i;
            nclosed = 0;
            dlcache_delete(cache);
            cache = NULL;
            printf("D");
            for (i = 0; i < nclosed; i++) printf(" %lu", (unsigned long)closed[i]);
            putchar('\n');
        }
        else if (op == 'E')
        {
            if (raw) free(raw);
            rawsize = (unsigned int)strtoul(a1, NULL, 10);
            raw = dlcache_entry_new(rawsize);
            printf("E | %u |", rawsize);
            dump(raw, rawsize);
        }
        else if (op == 'a' && raw)
        {
            dlcache_entry_add_dl(raw, rawsize, keep(unhex(a1)), (void *)(uintptr_t)strtoul(a2, NULL, 10));
            printf("a | %u |", rawsize);
            dump(raw, rawsize);
        }
        else if (op == 'l' && raw)
        {
            char * n = unhex(a1);
            dlcache_entry * e = dlcache_entry_lookup(raw, rawsize, n);
            if (e != NULL) printf("l %ld:%lu", (long)(e - raw), (unsigned long)(uintptr_t)e->handle);
            else printf("l -");
            free(n);
            printf(" | %u |", rawsize);
            dump(raw, rawsize);
        }
        else if (op == 'r' && raw)
        {
            unsigned int size_new = (unsigned int)strtoul(a1, NULL, 10);
            dlcache_entry * nw = dlcache_entry_new(size_new);
            dlcache_entry_resize(raw, rawsize, nw, size_new);
            dlcache_entry_delete(raw);
            raw = nw;
            rawsize = size_new;
            printf("r | %u |", rawsize);
            dump(raw, rawsize);
        }
        else if (op == 'H')
        {
            char * n = unhex(a1);
            printf("H %u\n", hash_string(n));
            free(n);
        }
        else
        {
            printf("? %c\n", op);
        }
        fflush(stdout);
    }
    fclose(f);
    free(line);
    if (cache != NULL) { free(cache->entries); free(cache); }
    if (raw) free(raw);
    while (narena > 0) free(arena[--narena]);
    free(arena);
    return 0;
}
