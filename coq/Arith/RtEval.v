(* Arith/RtEval.v — what the VM computes for an elaborated expression tree whose leaves are
   literals, when NOTHING is reduced at compile time (the leaves could as well be variables
   holding the same values): the emitter (front/emit.c, modelled in the Promote.emit_ functions) picks one
   opcode per node from the static types, the handler (back/vmexec.c, modelled in VMOps) runs
   on the operand values, operands left to right; && || ?: are jumps.  Definitions only.

   A node for which the emitter has no case makes the whole compilation abort
   (assert(0)): rt_eval = Crash EmitAssert, decided before anything runs.  Since /repo 2ca194c
   (an item enumerator operand is typed int) this cannot happen to a tree the typechecker
   accepts: ConstredProofs.well_typed_is_emitted (ty_of e = Some t -> emit_ok e = true); emit_ok
   stays in the definition for the trees ty_of rejects. *)
From Coq Require Import ZArith Bool.
From NV Require Import Arith.NumTy Arith.Bits Arith.IntOps Arith.FloatOps Arith.VMOps Arith.Promote.
Local Open Scope Z_scope.

(* the run-time object a literal becomes (expr_int_emit for bool, expr_enumtype_emit: INT) *)
Definition lit_val (l : lit) : value :=
  match l with
  | LBool b => VInt (if b then 1 else 0)
  | LInt z => VInt z
  | LLong z => VLong z
  | LFloat b => VFloat b
  | LDouble b => VDouble b
  | LEnum i => VInt i
  end.

Definition is_some {A} (o : option A) : bool := match o with Some _ => true | None => false end.

(* opcode of an operator node, from the combs of its (elaborated) children *)
Definition sel_bin (o : binop) (a b : expr) : option vmop :=
  match ty_of a, ty_of b with
  | Some ta, Some tb =>
      match check_bin o ta tb with
      | Some (res, _, _) => emit_bin o ta tb res
      | None => None
      end
  | _, _ => None
  end.

Definition sel_un (o : unop) (a : expr) : option vmop :=
  match ty_of a with
  | Some ta => match check_un o ta with Some res => emit_un o ta res | None => None end
  | None => None
  end.

Definition sel_conv (c : conv) (a : expr) : option vmop :=
  match ty_of a with Some ta => emit_conv c ta | None => None end.

Definition is_shortcircuit (o : binop) : bool := match o with And | Or => true | _ => false end.

(* does the emitter have a case for every node? *)
Fixpoint emit_ok (e : expr) : bool :=
  match e with
  | ELit _ => true
  | EUn o a => emit_ok a && is_some (sel_un o a)
  | EBin o a b =>
      emit_ok a && emit_ok b && (is_shortcircuit o || is_some (sel_bin o a b))
  | EConv c a => emit_ok a && is_some (sel_conv c a)
  | ESup a => emit_ok a
  | ECond c a b => emit_ok c && emit_ok a && emit_ok b
  end.

Definition exec_vmop2 (op : option vmop) (x y : value) : outcome :=
  match op with
  | Some (VBin o t) => exec_bop o t x y
  | _ => Crash EmitAssert
  end.

Definition exec_vmop1 (op : option vmop) (x : value) : outcome :=
  match op with
  | Some (VUn o t) => exec_uop o t x
  | Some (VConv c) => exec_conv c x
  | _ => Crash EmitAssert
  end.

Definition of_truth (x : value) (k : bool -> outcome) : outcome :=
  match truth x with Some b => k b | None => Crash TagMismatch end.

Fixpoint run (e : expr) : outcome :=
  match e with
  | ELit l => Val (lit_val l)
  | ESup a => run a
  | EUn o a => bind (run a) (exec_vmop1 (sel_un o a))
  | EConv c a => bind (run a) (exec_vmop1 (sel_conv c a))
  | EBin And a b =>
      (* a; JUMPZ F; b; JUMPZ F; INT 1; JUMP E; F: INT 0; E: *)
      bind (run a) (fun va => of_truth va (fun ta =>
        if ta then bind (run b) (fun vb => of_truth vb (fun tb => Val (VInt (b2z tb))))
        else Val (VInt 0)))
  | EBin Or a b =>
      bind (run a) (fun va => of_truth va (fun ta =>
        if ta then Val (VInt 1)
        else bind (run b) (fun vb => of_truth vb (fun tb => Val (VInt (b2z tb))))))
  | EBin o a b =>
      bind (run a) (fun va => bind (run b) (fun vb => exec_vmop2 (sel_bin o a b) va vb))
  | ECond c a b =>
      bind (run c) (fun vc => of_truth vc (fun tc => if tc then run a else run b))
  end.

Definition rt_eval (e : expr) : outcome :=
  if emit_ok e then run e else Crash EmitAssert.

(* assignment `x = e` with x a variable of type tl currently holding `old`:
   conversion chosen by expr_conv_ass_type, opcode by expr_ass_emit on the node's comb *)
Definition rt_assign (tl : ty) (old : value) (e : expr) : outcome :=
  match ty_of e with
  | Some tr =>
      match check_ass tl tr with
      | Some (res, c) =>
          let e' := wrap_conv c e in
          if emit_ok e' then
            bind (run e') (fun v =>
              match emit_ass res with
              | Some (VAss t) => exec_ass t old v
              | _ => Crash EmitAssert
              end)
          else Crash EmitAssert
      | None => Crash EmitAssert
      end
  | None => Crash EmitAssert
  end.
