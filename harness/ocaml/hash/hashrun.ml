(* hashrun — runs the extracted open-addressing table model (Hashmodel, from coq/Hash/*Model.v) on
   the case file that harness/hash/dlcachedrive.c runs against the real back/dlcache.c, and prints
   the same lines (see the header of dlcachedrive.c for the operations).  Untrusted glue: decoding of
   the case file, conversion nat/N <-> int, printing.  Every decision (probe sequence, slot chosen,
   when to resize, what a lookup returns, hash value) is taken by the extracted functions.

   The same runner serves harness/hash/tabdrive.c (string table S s q T, function table F f g K).

   usage: run <casefile> *)
open Hashmodel

let rec nat_of_int i = if i <= 0 then O else S (nat_of_int (i - 1))
let nat_of_int i =
  (* tail recursive: sizes up to a few 10^4 *)
  let rec go acc k = if k <= 0 then acc else go (S acc) (k - 1) in go O i
let int_of_nat n = let rec go acc = function O -> acc | S k -> go (acc + 1) k in go 0 n

let rec pos_of_int i =
  if i = 1 then XH else if i land 1 = 1 then XI (pos_of_int (i lsr 1)) else XO (pos_of_int (i lsr 1))
let n_of_int i = if i = 0 then N0 else Npos (pos_of_int i)
let rec int_of_pos = function XH -> 1 | XO p -> 2 * int_of_pos p | XI p -> 2 * int_of_pos p + 1
let int_of_n = function N0 -> 0 | Npos p -> int_of_pos p

let hexval c =
  if c >= '0' && c <= '9' then Char.code c - 48 else Char.code c - 87

let unhex (h : string) : n list =
  if h = "-" then []
  else begin
    let l = ref [] in
    let k = String.length h / 2 in
    for i = k - 1 downto 0 do
      l := n_of_int (hexval h.[2 * i] * 16 + hexval h.[2 * i + 1]) :: !l
    done;
    !l
  end

let hex (n : n list) : string =
  if n = [] then "-" else String.concat "" (List.map (fun b -> Printf.sprintf "%02x" (int_of_n b)) n)

let dump buf (es : (cname, n) entries) =
  List.iteri
    (fun i s ->
      match s with
      | None -> ()
      | Some (nm, h) -> Buffer.add_string buf (Printf.sprintf " %d:%s:%d" i (hex nm) (int_of_n h)))
    es

let dump_cache buf (c : (cname, n) tab) =
  Buffer.add_string buf (Printf.sprintf " | %d %d |" (int_of_nat c.t_size) (int_of_nat c.t_count));
  dump buf c.t_entries

let dump_strtab buf (t : (cname, nat) tab) =
  Buffer.add_string buf (Printf.sprintf " | %d %d |" (int_of_nat t.t_size) (int_of_nat t.t_count));
  List.iteri
    (fun i s ->
      match s with
      | None -> ()
      | Some (nm, o) -> Buffer.add_string buf (Printf.sprintf " %d:%s:%d" i (hex nm) (int_of_nat o)))
    t.t_entries

let dump_functab buf (t : (cname, fpayload) tab) =
  Buffer.add_string buf (Printf.sprintf " | %d %d |" (int_of_nat t.t_size) (int_of_nat t.t_count));
  List.iteri
    (fun i s ->
      match s with
      | None -> ()
      | Some (nm, (k, (e, pc))) ->
          Buffer.add_string buf (Printf.sprintf " %d:%s:%d:%d:%d" i (hex nm) (int_of_n k) (int_of_n e) (int_of_n pc)))
    t.t_entries

let host_name = unhex "686f7374"

type 'a st = Live of 'a | Dead of string | Absent

let res_name = function Abort -> "ABORT" | DivZero -> "DIVZERO" | Fuel -> "FUEL" | Ok _ -> "OK"

let () =
  let ic = open_in Sys.argv.(1) in
  let cache : (cname, n) tab st ref = ref Absent in
  let raw : ((cname, n) entries * int) st ref = ref Absent in
  let strt : (cname, nat) tab st ref = ref Absent in
  let funt : (cname, fpayload) tab st ref = ref Absent in
  let nfunc = ref 0 in
  let buf = Buffer.create 65536 in
  (try
     while true do
       let line = input_line ic in
       let toks = List.filter (fun s -> s <> "") (String.split_on_char ' ' line) in
       Buffer.clear buf;
       (match toks with
        | [ "C"; size; host ] ->
            (match dl_new (nat_of_int (int_of_string size)) (Some (host_name, n_of_int (int_of_string host))) with
             | Ok c -> cache := Live c; Buffer.add_string buf "C"; dump_cache buf c
             | r -> cache := Dead (res_name r); Buffer.add_string buf ("C " ^ res_name r))
        | [ "A"; nm; h ] ->
            (match !cache with
             | Live c ->
                 (match dl_add_dl c (unhex nm) (n_of_int (int_of_string h)) with
                  | Ok c' -> cache := Live c'; Buffer.add_string buf "A"; dump_cache buf c'
                  | r -> cache := Dead (res_name r); Buffer.add_string buf ("A " ^ res_name r))
             | _ -> Buffer.add_string buf "? A")
        | [ "G"; nm; h ] ->
            (match !cache with
             | Live c ->
                 let hv = int_of_string h in
                 let dl = if hv = 0 then None else Some (n_of_int hv) in
                 (* the number of dlopen calls is 1 exactly when the lookup missed *)
                 let missed = (match dl_lookup c (unhex nm) with Hit _ -> 0 | _ -> 1) in
                 (match dl_get_handle c (unhex nm) dl with
                  | Ok (c', r) ->
                      cache := Live c';
                      Buffer.add_string buf
                        (Printf.sprintf "G %d %d" (match r with None -> 0 | Some v -> int_of_n v) missed);
                      dump_cache buf c'
                  | r -> cache := Dead (res_name r); Buffer.add_string buf ("G " ^ res_name r))
             | _ -> Buffer.add_string buf "? G")
        | [ "L"; nm ] ->
            (match !cache with
             | Live c ->
                 (match dl_lookup c (unhex nm) with
                  | Hit i ->
                      (match slot_at c.t_entries i with
                       | Some (_, h) -> Buffer.add_string buf (Printf.sprintf "L %d:%d" (int_of_nat i) (int_of_n h))
                       | None -> Buffer.add_string buf "L hit-on-free-slot")
                  | Miss | MissGiveUp -> Buffer.add_string buf "L -"
                  | LDivZero -> Buffer.add_string buf "L DIVZERO"
                  | LOutOfFuel -> Buffer.add_string buf "L FUEL");
                 dump_cache buf c
             | _ -> Buffer.add_string buf "? L")
        | [ "R" ] ->
            (match !cache with
             | Live c ->
                 (match dl_resize c with
                  | Ok c' -> cache := Live c'; Buffer.add_string buf "R"; dump_cache buf c'
                  | r -> cache := Dead (res_name r); Buffer.add_string buf ("R " ^ res_name r))
             | _ -> Buffer.add_string buf "? R")
        | [ "D" ] ->
            (* dlcache_delete: dlclose of every non-NULL handle in slot order (glue, not a model function) *)
            (match !cache with
             | Live c ->
                 Buffer.add_string buf "D";
                 List.iter
                   (function
                     | Some (_, h) when int_of_n h <> 0 -> Buffer.add_string buf (Printf.sprintf " %d" (int_of_n h))
                     | _ -> ())
                   c.t_entries;
                 cache := Absent
             | _ -> Buffer.add_string buf "? D")
        | [ "E"; size ] ->
            let s = int_of_string size in
            let es = dl_entry_new (nat_of_int s) in
            raw := Live (es, s);
            Buffer.add_string buf (Printf.sprintf "E | %d |" s);
            dump buf es
        | [ "a"; nm; h ] ->
            (match !raw with
             | Live (es, s) ->
                 (match dl_entry_add es (nat_of_int s) (unhex nm) (n_of_int (int_of_string h)) with
                  | AddOk es' ->
                      raw := Live (es', s);
                      Buffer.add_string buf (Printf.sprintf "a | %d |" s);
                      dump buf es'
                  | AddAbort -> raw := Dead "ABORT"; Buffer.add_string buf "a ABORT"
                  | AddDivZero -> raw := Dead "DIVZERO"; Buffer.add_string buf "a DIVZERO"
                  | _ -> raw := Dead "FUEL"; Buffer.add_string buf "a FUEL")
             | _ -> Buffer.add_string buf "? a")
        | [ "l"; nm ] ->
            (match !raw with
             | Live (es, s) ->
                 (match dl_entry_lookup es (nat_of_int s) (unhex nm) with
                  | Hit i ->
                      (match slot_at es i with
                       | Some (_, h) -> Buffer.add_string buf (Printf.sprintf "l %d:%d" (int_of_nat i) (int_of_n h))
                       | None -> Buffer.add_string buf "l hit-on-free-slot")
                  | Miss | MissGiveUp -> Buffer.add_string buf "l -"
                  | LDivZero -> Buffer.add_string buf "l DIVZERO"
                  | LOutOfFuel -> Buffer.add_string buf "l FUEL");
                 Buffer.add_string buf (Printf.sprintf " | %d |" s);
                 dump buf es
             | _ -> Buffer.add_string buf "? l")
        | [ "r"; size_new ] ->
            (match !raw with
             | Live (es, _) ->
                 let s = int_of_string size_new in
                 (match dl_entry_resize es (dl_entry_new (nat_of_int s)) (nat_of_int s) with
                  | AddOk es' ->
                      raw := Live (es', s);
                      Buffer.add_string buf (Printf.sprintf "r | %d |" s);
                      dump buf es'
                  | AddAbort -> raw := Dead "ABORT"; Buffer.add_string buf "r ABORT"
                  | AddDivZero -> raw := Dead "DIVZERO"; Buffer.add_string buf "r DIVZERO"
                  | _ -> raw := Dead "FUEL"; Buffer.add_string buf "r FUEL")
             | _ -> Buffer.add_string buf "? r")
        (* ---- string table (StrTabModel) ---- *)
        | [ "S"; size ] ->
            let t = str_new (nat_of_int (int_of_string size)) in
            strt := Live t; Buffer.add_string buf "S"; dump_strtab buf t
        | [ "s"; nm ] ->
            (match !strt with
             | Live t ->
                 (match str_add t (unhex nm) with
                  | Ok (t', order) ->
                      strt := Live t'; Buffer.add_string buf (Printf.sprintf "s %d" (int_of_nat order)); dump_strtab buf t'
                  | r -> strt := Dead (res_name r); Buffer.add_string buf ("s " ^ res_name r))
             | _ -> Buffer.add_string buf "? s")
        | [ "q"; nm ] ->
            (match !strt with
             | Live t ->
                 (match str_lookup t (unhex nm) with
                  | Ok order -> Buffer.add_string buf (Printf.sprintf "q %d" (int_of_nat order)); dump_strtab buf t
                  | r -> Buffer.add_string buf ("q " ^ res_name r))
             | _ -> Buffer.add_string buf "? q")
        | [ "T" ] ->
            (match !strt with
             | Live t ->
                 (match str_to_array t with
                  | Some arr ->
                      Buffer.add_string buf (Printf.sprintf "T %d" (List.length arr));
                      List.iter (function None -> Buffer.add_string buf " ~" | Some s -> Buffer.add_string buf (" " ^ hex s)) arr
                  | None -> Buffer.add_string buf "T OUT-OF-BOUNDS-WRITE");
                 strt := Absent
             | _ -> Buffer.add_string buf "? T")
        (* ---- function table (FuncTabModel) ---- *)
        | [ "F"; size ] ->
            let t = ft_new (nat_of_int (int_of_string size)) in
            funt := Live t; nfunc := 0; Buffer.add_string buf "F"; dump_functab buf t
        | [ "f"; nm; e; pc ] ->
            (match !funt with
             | Live t ->
                 let k = !nfunc in
                 incr nfunc;
                 (match ft_add t (unhex nm) (n_of_int k, (n_of_int (int_of_string e), n_of_int (int_of_string pc))) with
                  | Ok t' -> funt := Live t'; Buffer.add_string buf "f"; dump_functab buf t'
                  | r -> funt := Dead (res_name r); Buffer.add_string buf ("f " ^ res_name r))
             | _ -> Buffer.add_string buf "? f")
        | [ "g"; nm ] ->
            (match !funt with
             | Live t ->
                 (match ft_lookup t (unhex nm) with
                  | Hit i ->
                      (match slot_at t.t_entries i with
                       | Some (_, (k, (e, pc))) ->
                           Buffer.add_string buf (Printf.sprintf "g %d:%d:%d:%d" (int_of_nat i) (int_of_n k) (int_of_n e) (int_of_n pc))
                       | None -> Buffer.add_string buf "g hit-on-free-slot")
                  | Miss | MissGiveUp -> Buffer.add_string buf "g -"
                  | LDivZero -> Buffer.add_string buf "g DIVZERO"
                  | LOutOfFuel -> Buffer.add_string buf "g FUEL");
                 dump_functab buf t
             | _ -> Buffer.add_string buf "? g")
        | [ "K" ] ->
            (* functab_close rewrites payload fields of occupied slots only: keys and positions unchanged *)
            (match !funt with
             | Live t -> Buffer.add_string buf "K"; dump_functab buf t
             | _ -> Buffer.add_string buf "? K")
        | [ "H"; nm ] -> Buffer.add_string buf (Printf.sprintf "H %d" (int_of_n (hash_string (unhex nm))))
        | _ -> Buffer.add_string buf ("? " ^ (if line = "" then "" else String.make 1 line.[0])));
       print_string (Buffer.contents buf);
       print_newline ()
     done
   with End_of_file -> ());
  close_in ic
