/* compiledrive — compile-only batch driver for the C05 search (links the tree's libnev.a).
 *
 *   compiledrive --batch FILE --tmpdir DIR [--timeout T]
 *
 * FILE holds any number of cases, each
 *     @@@ <id> <nbytes> <mode> [path=<NEVER_PATH value>]\n
 *     <nbytes raw bytes>\n
 * mode = str    nev_compile_str on the bytes (a NUL byte ends the text, as for any C string)
 *        file   the bytes are written to DIR/i<pid>.nev and given to nev_compile_file
 *        tokens only the scanner runs (scan_string + lex_scan until 0); after every module
 *               name token that follows `use` the value of use_stack_ptr is recorded
 * Every case runs in a forked child with alarm(T); stdout+stderr of the child go to an
 * unlinked temporary file in DIR.  Output on stdout, per case, length-framed so that
 * arbitrary bytes in the diagnostics cannot confuse the reader:
 *     @@CASE <id> status=<exit N|signal N|timeout> res=<RET_<ret>_<msgcount> | USE_<p1,p2,..>_<final> | -> len=<L>\n
 *     <L bytes of diagnostics>\n
 * res=- means the child did not reach the end of the compilation (crash, sanitizer abort, time-out).
 */
#define _GNU_SOURCE
#include <stdio.h>
#include <stdlib.h>
#include <string.h>
#include <unistd.h>
#include <fcntl.h>
#include <signal.h>
#include <sys/wait.h>
#include <sys/types.h>
#include <sys/stat.h>
#include "nev.h"
#include "types.h"
#include "scanner.h"
#include "parser.h"

extern int use_stack_ptr;

static int g_timeout = 10;
static const char * g_tmpdir = "/var/tmp";

static void run_tokens(const char * src, int resfd)
{
    token tok;
    int t, prev = 0, n = 0;
    static char out[1 << 16];
    size_t len = 0;

    len += snprintf(out + len, sizeof out - len, "USE_");
    scan_string(src);
    while ((t = lex_scan(&tok)) != 0)
    {
        if (prev == TOK_USE && t == TOK_NUM_STRING && len + 32 < sizeof out)
        {
            len += snprintf(out + len, sizeof out - len, "%s%d", n ? "," : "", use_stack_ptr);
            n++;
        }
        prev = t;
    }
    len += snprintf(out + len, sizeof out - len, "_%d", use_stack_ptr);
    scanner_destroy();
    if (write(resfd, out, len) < 0) { }
}

static void run_compile(const char * src, size_t n, const char * mode, int resfd)
{
    char res[64];
    int ret;
    program * prog = program_new();

    if (!strcmp(mode, "file"))
    {
        char path[512];
        snprintf(path, sizeof path, "%s/i%d.nev", g_tmpdir, (int)getpid());
        FILE * f = fopen(path, "wb");
        if (!f) { perror(path); _exit(98); }
        fwrite(src, 1, n, f);
        fclose(f);
        ret = nev_compile_file(path, prog);
        unlink(path);
    }
    else
    {
        ret = nev_compile_str(src, prog);
    }
    fflush(stdout); fflush(stderr);
    snprintf(res, sizeof res, "RET_%d_%u", ret, prog->msg_count);
    if (write(resfd, res, strlen(res)) < 0) { }
    program_delete(prog);
}

int main(int argc, char ** argv)
{
    const char * batch = NULL;
    int i;
    for (i = 1; i < argc; i++)
    {
        if (!strcmp(argv[i], "--timeout") && i + 1 < argc) g_timeout = atoi(argv[++i]);
        else if (!strcmp(argv[i], "--batch") && i + 1 < argc) batch = argv[++i];
        else if (!strcmp(argv[i], "--tmpdir") && i + 1 < argc) g_tmpdir = argv[++i];
    }
    if (!batch) { fprintf(stderr, "usage: compiledrive --batch FILE --tmpdir DIR [--timeout T]\n"); return 2; }
    FILE * f = fopen(batch, "rb");
    if (!f) { perror(batch); return 2; }
    fseek(f, 0, SEEK_END); long total = ftell(f); fseek(f, 0, SEEK_SET);
    char * buf = malloc(total + 1);
    if (fread(buf, 1, total, f) != (size_t)total) { perror("read"); return 2; }
    buf[total] = 0; fclose(f);

    char * p = buf, * end = buf + total;
    while (p < end)
    {
        if (strncmp(p, "@@@ ", 4) != 0) { fprintf(stderr, "bad batch framing at offset %ld\n", (long)(p - buf)); return 2; }
        char * eol = memchr(p, '\n', end - p);
        if (!eol) break;
        *eol = 0;
        char id[256] = "?", mode[32] = "str", pathopt[1024] = "";
        long nbytes = 0;
        if (sscanf(p + 4, "%255s %ld %31s path=%1023s", id, &nbytes, mode, pathopt) < 3) { fprintf(stderr, "bad header %s\n", p); return 2; }
        char * src = eol + 1;
        if (src + nbytes > end) { fprintf(stderr, "truncated case %s\n", id); return 2; }
        char saved = src[nbytes];
        src[nbytes] = 0;

        char tmpl[512];
        snprintf(tmpl, sizeof tmpl, "%s/o%d.XXXXXX", g_tmpdir, (int)getpid());
        int ofd = mkstemp(tmpl);
        if (ofd < 0) { perror(tmpl); return 2; }
        unlink(tmpl);
        int rp[2];
        if (pipe(rp) < 0) { perror("pipe"); return 2; }
        fflush(stdout);
        pid_t pid = fork();
        if (pid == 0)
        {
            close(rp[0]);
            dup2(ofd, 1); dup2(ofd, 2);
            setvbuf(stdout, NULL, _IONBF, 0);
            if (pathopt[0]) setenv("NEVER_PATH", pathopt, 1); else unsetenv("NEVER_PATH");
            alarm(g_timeout);
            if (!strcmp(mode, "tokens")) run_tokens(src, rp[1]);
            else run_compile(src, (size_t)nbytes, mode, rp[1]);
            fflush(stdout);
            _exit(0);
        }
        close(rp[1]);
        char res[1 << 16]; ssize_t rl = 0, k;
        while ((k = read(rp[0], res + rl, sizeof res - 1 - rl)) > 0) rl += k;
        res[rl] = 0;
        close(rp[0]);
        int st = 0;
        waitpid(pid, &st, 0);
        off_t L = lseek(ofd, 0, SEEK_END);
        lseek(ofd, 0, SEEK_SET);
        char status[64];
        if (WIFEXITED(st)) snprintf(status, sizeof status, "exit_%d", WEXITSTATUS(st));
        else if (WIFSIGNALED(st) && WTERMSIG(st) == SIGALRM) snprintf(status, sizeof status, "timeout");
        else if (WIFSIGNALED(st)) snprintf(status, sizeof status, "signal_%d", WTERMSIG(st));
        else snprintf(status, sizeof status, "unknown");
        const long cap = 1 << 20;        /* keep head and tail of very long diagnostics */
        if (L <= cap)
        {
            printf("@@CASE %s status=%s res=%s len=%ld\n", id, status, rl ? res : "-", (long)L);
            char cb[65536]; ssize_t r;
            while ((r = read(ofd, cb, sizeof cb)) > 0) fwrite(cb, 1, r, stdout);
        }
        else
        {
            printf("@@CASE %s status=%s res=%s len=%ld\n", id, status, rl ? res : "-", cap);
            char * cb = malloc(cap);
            ssize_t r = read(ofd, cb, cap / 2);
            lseek(ofd, L - (cap - r), SEEK_SET);
            ssize_t r2 = read(ofd, cb + r, cap - r);
            fwrite(cb, 1, r + (r2 > 0 ? r2 : 0), stdout);
            free(cb);
        }
        printf("\n");
        fflush(stdout);
        close(ofd);
        src[nbytes] = saved;
        p = src + nbytes;
        if (p < end && *p == '\n') p++;
    }
    free(buf);
    return 0;
}
