"""C06 — ill-typed programs are rejected, with a diagnostic at the offending line.

Proof side (ctx.proofs()): coq/Properties/Properties_C06.v — model typechecker Src/Typecheck.v
(mirrors front/typecheck.c for the core AST of Src/Syntax.v: scopes, constness TEMP/CONST/VAR,
argument count/kinds/const->var, operators, bool conditions, result kind; Src/TypecheckMatch.v:
match exhaustiveness by enumerator marking, exception-name table, attribute names), the declarative
judgment of Src/TypecheckSpec.v with `typecheck_sound`, and the `*_rejected` theorems of
Src/Mutations.v (every single-fault mutant of an accepted program is rejected with the rule of
the operator, at every nesting depth).

Tie / search (DESIGN.md §4.2, §5 C06):
  build/ocaml/tc/run (extracted model + generator + pretty-printer + mutator, harness/ocaml/tc)
  emits generated well-typed programs P (the model says OK), their single-fault mutants (AST
  level: every operator of harness/ocaml/tc/tmut.ml at every site, sampled per (operator, nesting
  context); text level: unknown exception name) and enum/match templates with random enumerator
  counts in six nesting contexts (mutant: one enumerator's guard / the else guard removed).
  Everything is compiled by the tree's real compiler (harness/common/nevrun.c, compile-only,
  ASan/UBSan build, 16 processes).  Property oracle (independent of what the model computes for a
  mutant beyond "it is a fault"):
      P                     must be COMPILED
      every mutant          must be COMPILE_ERROR with >= 1 `<stdin>:<line>: error:` diagnostic whose
                            line lies on the lines of the mutated node (first..last line of the
                            smallest changed expression/item as printed; one line in > 98% of the
                            cases, the tolerance is needed for multi-line nodes: the compiler
                            attributes e.g. a bad array element to the element's own line)
   real compiler accepts a mutant            -> ctx.violation("accepted:<operator>")
   rejected, but no diagnostic on the site   -> ctx.violation("wrong-line:<operator>")
   model OK, compiler rejects P              -> ctx.correspondence_broken
   diagnostic kind differs from model's rule -> ctx.correspondence_broken
  Text-level families (constructs outside the core AST; python oracle, independent of the compiler):
   (a) state across constructs: 2-4 `match`es over the same enum(s) in one compilation unit (separate
       functions, nested function, in sequence in one body, match inside an arm), each exhaustive /
       with else / omitting one enumerator (every choice incl. first- and last-declared).  The
       verdict per match is independent of the others: the set of `does not cover E::x` diagnostics
       must be exactly {(line of the match, omitted enumerator)}; the model's match_check judges
       every match as well (build/ocaml/tc/run mcheck).
   (b) scope of pattern binders: `match` record arms, `if let` with record / item guards, with and
       without braces, `else if let` chains; one use of a pattern-bound name per program at: its own
       arm / then-branch (also inside a closure there), another arm, the else-branch, a closure in the
       else-branch, the then/else-branch of a chained `else if let`, after the construct.  Without an
       outer binding every use outside the arm must be `cannot find identifier`; with an outer
       binding of ANOTHER type (bool) the use must resolve to the outer one outside the arm and to
       the binder inside (use sites `x + 1` and `x && true`: a wrong resolution is a type error or
       a missing one).  The grid is enumerated completely.
   (c) qualifier/type mismatch at every type position: random function-bearing types up to depth 3
       (functions taking / returning functions, arrays and tuples of functions); expected and given
       type differ in exactly one place (var qualifier, parameter kind, result kind, arity +-1) at
       every function node of the type; the given value is passed as argument, assigned, returned,
       put into an array literal, used as the other branch of ?: -- all must be rejected at that
       line; the identical type must be accepted.
   (d) offence kind x syntactic context x sink (gen_context_family): 16 one-line offences covering every
       offence kind the property names (assignment to a `let` / to a non-var parameter, argument count
       more/less, argument kind, const passed to a var parameter, undefined name, undefined attribute,
       operator arithmetic/comparison, non-bool condition of ?: / if / while, result kind, match omitting
       an enumerator, unknown exception name), each with a well-typed twin, planted into the int-typed
       hole of each of 48 context expressions (list comprehension element / generator source / filter /
       second generator, array literal and dims, record constructor argument, match arm / else arm /
       scrutinee, if-let branches and scrutinee, for-in body / bound / array, 3-part for body / cond /
       step, while and do body / cond, lambda body / catch clause / catch-all, nested function body /
       catch, range bounds, slice bound, string concatenation operands, call arguments, built-in
       argument, index, ?: and if branches and conditions, tuple element, block statement / let, unary /
       binary operand, pipe, assignment right side), 1-3 contexts deep (inner values projected to int by
       index / attribute / call / length), the value of the outermost expression bound by let / var /
       discarded / returned / passed / assigned, the statement inside a function / nested function /
       lambda / catch clause, offence optionally on a line of its own.  Complete grid offence x context
       x sink in the quick tier; the (offence x context x sink) distribution is in the evidence
       (coverage.context_family).  Oracle: COMPILE_ERROR and the offence's diagnostic on the lines of the
       statement; every program without offence must compile.
   (e) assignment to a const binding THROUGH an alias (gen_alias_family): array bindings (let / var local, parameter
       with / without var, captured from the enclosing function or from its parameters) x path to the assignment
       (element, for-in iterator also inside a closure / nested loop / branch, list-comprehension iterator, for-in
       over a slice, slice element, slice / ?: / block bound to a var, element of ?: / if / match / if-let / block
       results, bound to var, passed / piped to a var parameter, whole array) x element kind (int, record,
       string, function); scalar bindings x (direct, closure, nested function, comprehension element, for-in /
       while body, match arm, if-let branch, bound to var, var parameter, 3-part for); range iterators, range /
       slice bound names, array dimension names, string characters, call results, tuple elements, function names.
       The const variant must be rejected with `cannot assign ...` on its lines, the var twin must compile.
       Measured rules of the language, pinned as accepted controls (not offences): the fields of a record are
       assignable whatever the record's binding is (`let r = R(1); r.x = 5`, also fields reached through a
       let array element or a for-in iterator), and a match / if-let binder writes through to the field.
       Known findings of the pinned tree (known_findings.jsonl, one key_regex): iterators of list comprehensions
       and of for-in over a slice, array values derived by slice / ?: / if / match / if-let, and the bound names of
       range / slice parameters are not const.
   (f) wrong number / kinds of arguments through every call syntax (gen_call_family): too few / wrong kind at
       first, middle, last position, surplus of the same / another kind / in front / two, x call `f(..)`, pipe with a
       scalar left side, pipe with a tuple of 1-4 components (literal or let-bound) x callee (named function,
       function value, function parameter, lambda, record field, array element, call result, module function,
       record / enum-record constructor, module constructors; corpus/C06/lib/calls.nev) x 5 signatures.
   (g) nested array literals (gen_array_family): rectangular 2-4 level literals (extents 0..3) and their one-row
       mutants (row empty / shorter / longer / deeper / shallower / scalar / non-empty among empty rows at first,
       middle, last position of every depth) x 9 sinks x element kind.
   (h) same-named types of different modules (gen_module_family): enum E, enum ER with a record item, record R and
       functions over them declared locally and in corpus/C06/lib/modp.nev, modq.nev; match item / record guards
       (with / without else, one foreign guard), if-let guards, arguments (also piped, lambda), assignments, returns,
       array elements / element type, ?: branches, function values x expected owner x given owner: different owners
       must be rejected, the same owner must compile.  (Comparisons / arithmetic convert enumerators to int: not in
       the matrix.)
   (i) operators on arrays (gen_arrayop_family): + - * / % over every ordered pair of (scalar, rank 1-3 array) x (int,
       long, float, double, bool, string, char) with an array operand, and unary minus; accepted exactly: a +- b of one
       numeric kind and rank, numeric scalar * numeric array, rank-2 * rank-2 of one numeric kind, - numeric array.
   (j) arms / branches of one expression have different types (gen_branch_family): match with item / record guards,
       with else, nested, over a call; if-let; ?: (nested, inside a match arm); if-else, if-elseif-else; catch clauses
       against the function's result type; list comprehension element against its declared type - ONE arm of another
       kind (int, string, bool, record, array, function, char) at every arm position incl. else, value returned / passed /
       assigned (coverage.branch_types_family).
       (e)-(i): distributions in coverage.alias_family / call_syntax_family / array_literal_family / module_type_family /
       array_operator_family.
  Corpus: /verif/corpus/C06/*.nev (first line `# expect: accept` | `# expect: reject line=<n>
  key=<key>`), and the negative samples of <repo>/sample (`*.nev.err` with an `error:` line): each
  must be rejected at the first recorded line.
"""
LEVEL = "proof"

import collections
import json
import multiprocessing.pool
import os
import random
import re
import subprocess
import time

from lib import common

RUN = os.path.join(common.BUILD, "ocaml", "tc", "run")
CORPUS = os.path.join(common.VERIF, "corpus", "C06")
NPROC = 16
ASAN_ENV = "detect_leaks=0:abort_on_error=0:exitcode=99:allocator_may_return_null=1"
ERR_RE = re.compile(r"^<stdin>:(\d+): error: (.*)$")

RULES = ["RAssignConst", "RAssignType", "RVarInitConst", "RArgs", "RNotCallable", "RUndefined", "RAttr",
         "ROperator", "RCond", "RBranches", "RReturn", "RRecordArgs", "RArray", "RIndex", "RRedefined",
         "RSeq", "RUnknownType", "RMatch", "RException", "RForIn"]

# diagnostic text -> rule (front/typecheck.c, front/tcmatch.c, front/tcheckarr.c)
CLASSES = [
    (2, re.compile(r"^cannot assign \S+ .* to var")),
    (1, re.compile(r"^cannot assign different types")),
    (0, re.compile(r"^cannot assign to ")),
    (3, re.compile(r"^function call type mismatch")),
    (4, re.compile(r"^cannot execute function on type")),
    (5, re.compile(r"^cannot find identifier")),
    (6, re.compile(r"^cannot find attribute|^cannot get record attribute")),
    (7, re.compile(r"^cannot exec arithmetic|^cannot exec mod|^cannot compare types|^cannot ne type|"
                   r"^cannot bin not|^cannot negate|^cannot binary")),
    (8, re.compile(r"^cannot execute conditional operator on|^while loop condition|^for loop condition")),
    (9, re.compile(r"^types on conditional expression do not match")),
    (10, re.compile(r"^incorrect return type")),
    (11, re.compile(r"^record create type mismatch")),
    (12, re.compile(r"^array is not well formed|^incorrect types in array")),
    (13, re.compile(r"^cannot deref|^incorrect types .* passed to deref|^incorrect number of dim")),
    (14, re.compile(r"already defined at line")),
    (15, re.compile(r"^last item in sequence|^no type in sequence")),
    (16, re.compile(r"^cannot find record or enum")),
    (17, re.compile(r"^match expression does not cover")),
    (18, re.compile(r"^unknown exception")),
    (19, re.compile(r"^for in loop expression|^expected range (from|to) of type int")),
]
# param_expr_cmp prints these before the caller names the offence
PRELUDE = re.compile(r"^expected param |^passing \S+ expression to variable param")


def classify(msgs):
    """set of rule ids named by a list of diagnostic texts"""
    out = set()
    for m in msgs:
        if PRELUDE.search(m):
            continue
        for rid, rx in CLASSES:
            if rx.search(m):
                out.add(rid)
                break
    return out


def drv_env():
    env = dict(os.environ)
    env["ASAN_OPTIONS"] = ASAN_ENV
    env["UBSAN_OPTIONS"] = "print_stacktrace=0:halt_on_error=0"
    env["NEVER_PATH"] = os.path.join(common.REPO, "sample", "lib") + ":" + os.path.join(CORPUS, "lib")
    return env


def run_batch(args):
    drv, path = args
    try:
        p = subprocess.run([drv, "--timeout", "20", "--batch", path], stdout=subprocess.PIPE,
                           stderr=subprocess.STDOUT, env=drv_env(), timeout=1500)
        return p.stdout.decode(errors="replace")
    except subprocess.TimeoutExpired:
        return ""


def parse_out(text, res):
    cur = None
    for line in text.splitlines():
        if line.startswith("@@BEGIN "):
            cur = line.split()[1]
            res[cur] = {"kind": None, "errs": [], "san": False, "end": ""}
        elif cur is None:
            continue
        elif line.startswith("@@OUTCOME "):
            res[cur]["kind"] = line.split()[2]
        elif line.startswith("@@END "):
            res[cur]["end"] = line.split("status=")[-1]
            cur = None
        else:
            m = ERR_RE.match(line)
            if m and not m.group(2).startswith("====="):
                res[cur]["errs"].append((int(m.group(1)), m.group(2)))
            if "AddressSanitizer" in line or "runtime error:" in line or "LeakSanitizer" in line:
                res[cur]["san"] = True


def compile_all(ctx, drv, cases, tag):
    """cases: list of dict with id, src -> dict id -> result"""
    nb = max(1, min(NPROC * 4, len(cases) // 40 + 1))
    paths = []
    for b in range(nb):
        path = os.path.join(ctx.outdir, "batch_%s_%d.txt" % (tag, b))
        with open(path, "w") as f:
            for c in cases[b::nb]:
                f.write("@@@ %s compile-only\n%s\n" % (c["id"], c["src"]))
        paths.append(path)
    res = {}
    with multiprocessing.pool.ThreadPool(NPROC) as pool:
        for out in pool.imap_unordered(run_batch, [(drv, p) for p in paths]):
            parse_out(out, res)
    for p in paths:
        os.remove(p)
    return res


def judge(ctx, c, r, stats, faults):
    """c: case (kind, op, ctx, model, l0, l1, src); r: compiler result.  Returns a short verdict."""
    op, where = c["op"], c["ctx"]
    if r is None or r["kind"] is None or r["san"]:
        faults.append({"id": c["id"], "op": op, "end": (r or {}).get("end"), "sanitizer": bool(r and r["san"])})
        return "compiler-fault"
    if c["model"] == "OK":
        if r["kind"] == "COMPILED":
            return "accepted-ok"
        ctx.correspondence_broken("model-accepts-compiler-rejects",
                                  {"id": c["id"], "errors": r["errs"][:4], "src": c["src"]})
        return "base-rejected"
    rule = int(c["model"][1:])
    if r["kind"] != "COMPILE_ERROR":
        ctx.violation("accepted:%s" % op,
                      "ill-typed program accepted by the compiler: operator %s (%s), context %s" % (op, RULES[rule], where),
                      {"case": c["id"], "operator": op, "context": where, "expected": "COMPILE_ERROR naming %s at line %d" % (RULES[rule], c["l0"]),
                       "observed": r["kind"], "source": c["src"]})
        return "ACCEPTED"
    on_site = [m for (ln, m) in r["errs"] if c["l0"] <= ln <= c["l1"]]
    if r["errs"] and r["errs"][0][0] == 0 and rule in classify([m for (_, m) in r["errs"][:3]]):
        # the diagnostic that names the offence carries line 0 (what lands on the site lines are
        # follow-up diagnostics about the resulting error type)
        on_site = []
    if not on_site:
        lines = sorted({ln for (ln, _) in r["errs"]})
        key = ("wrong-line:line0:%s" % RULES[rule]) if lines[:1] == [0] else ("wrong-line:%s" % op.split(":")[0])
        ctx.violation(key, "diagnostic not reported at the offending line: operator %s, context %s" % (op, where),
                      {"case": c["id"], "operator": op, "context": where, "expected_lines": [c["l0"], c["l1"]],
                       "observed": r["errs"][:5], "source": c["src"]})
        return "WRONG-LINE"
    first_line = r["errs"][0][0]
    stats["line_first_exact" if first_line == c["l0"] else
          ("line_first_within" if c["l0"] <= first_line <= c["l1"] else "line_later_diag")] += 1
    kinds = classify(on_site)
    if rule not in kinds:
        # param_expr_cmp prints its own text ("expected param ... but got ... instead") on the line of
        # the offending expression; the caller's diagnostic that names the rule follows it and may
        # carry the line of the enclosing function / catch clause ("incorrect return type in ...")
        idx = next(i for i, (ln, _) in enumerate(r["errs"]) if c["l0"] <= ln <= c["l1"])
        for (_, m) in r["errs"][idx:]:
            if not PRELUDE.search(m):
                kinds |= classify([m])
                break
    if rule not in kinds:
        ctx.correspondence_broken("diagnostic-kind-differs-from-model-rule",
                                  {"id": c["id"], "operator": op, "model": RULES[rule], "diagnostics": on_site[:4], "src": c["src"]})
        return "kind-differs"
    return "rejected-ok"



# ==========================================================================================
# text-level families (a) (b) (c): python builds the programs and knows the verdict
# ==========================================================================================
class Src:
    """source text builder that knows the line of what it emits"""
    def __init__(self):
        self.lines = []

    def add(self, text):
        for l in text.split("\n"):
            self.lines.append(l)
        return len(self.lines)          # line number of the last line added

    def next_line(self):
        return len(self.lines) + 1

    def text(self):
        return "\n".join(self.lines) + "\n"


def tcase(cid, group, kind, op, where, expect, src, line=0, msg=None, extra=None):
    c = {"id": cid, "group": group, "kind": kind, "op": op, "ctx": where, "expect": expect,
         "l0": line, "l1": line, "msg": msg, "src": src, "text": True}
    if extra:
        c.update(extra)
    return c


# ---- (a) several matches over the same enums ------------------------------------------------
def match_lines(rng, enum, n, arms, scrut, ind, val=None):
    """arms: list of enumerator numbers and/or 'else'"""
    out = [ind + "match " + scrut, ind + "{"]
    for a in arms:
        if a == "else":
            out.append("%s    else -> 99;" % ind)
        else:
            out.append("%s    %s::e%d -> %d;" % (ind, enum, a, 10 + a))
    out.append(ind + "}")
    return out


def gen_multimatch(rng, ngroups):
    """-> list of cases; each case carries `expect_cover`: [(line, 'E::e2'), ...] (exact set)"""
    cases = []
    for g in range(ngroups):
        group = "mm%d" % g
        enums = [("E", rng.randint(1, 6))] + ([("F", rng.randint(2, 5))] if rng.random() < 0.4 else [])
        nm = rng.randint(2, 4)
        layout = rng.choice(["functions", "sequence", "nested-func", "in-arm", "mixed"])
        # the matches of the base program: each exhaustive (full, or subset + else)
        base = []
        for j in range(nm):
            en, n = enums[0] if (j < 2 or rng.random() < 0.6) else rng.choice(enums)
            ks = list(range(n))
            rng.shuffle(ks)
            if rng.random() < 0.3:
                arms = ks[:rng.randint(0, n - 1)] + ["else"]
            else:
                arms = ks
            base.append((en, n, arms))

        def build(matches):
            """-> (text, [line of match j])"""
            s = Src()
            for en, n in enums:
                s.add("enum %s { %s }" % (en, ", ".join("e%d" % k for k in range(n))))
            mline = [0] * len(matches)
            lay = layout if layout != "mixed" else None

            def put(j, scrut, ind, prefix="", suffix=""):
                en, n, arms = matches[j]
                ls = match_lines(rng, en, n, arms, scrut, ind)
                if prefix:
                    ls[0] = ind + prefix + ls[0].strip()
                ls[-1] = ls[-1] + suffix
                mline[j] = s.next_line()
                s.add("\n".join(ls))

            def param(j):
                return "x%d : %s" % (j, matches[j][0])

            if lay == "functions" or (lay is None and len(matches) == 2):
                for j in range(len(matches)):
                    s.add("func m%d(%s) -> int\n{" % (j, param(j)))
                    put(j, "x%d" % j, "    ")
                    s.add("}")
            elif lay == "sequence":
                s.add("func m0(%s) -> int\n{" % ", ".join(param(j) for j in range(len(matches))))
                for j in range(len(matches)):
                    put(j, "x%d" % j, "    ", prefix="let r%d = " % j, suffix=";")
                s.add("    " + " + ".join("r%d" % j for j in range(len(matches))))
                s.add("}")
            elif lay == "nested-func":
                s.add("func m0(%s) -> int\n{" % ", ".join(param(j) for j in range(len(matches))))
                for j in range(1, len(matches)):
                    s.add("    func in%d(y : %s) -> int\n    {" % (j, matches[j][0]))
                    put(j, "y", "        ")
                    s.add("    };")
                s.add("    " + " + ".join("in%d(x%d)" % (j, j) for j in range(1, len(matches))) + " +")
                put(0, "x0", "    ")
                s.add("}")
            elif lay == "in-arm":
                # match 1.. inside the first arm of match 0 (block arm), written by hand
                s.add("func m0(%s) -> int\n{" % ", ".join(param(j) for j in range(len(matches))))
                en0, n0, arms0 = matches[0]
                mline[0] = s.add("    match x0")
                s.add("    {")
                first = True
                for a in arms0:
                    head = "        else" if a == "else" else "        %s::e%d" % (en0, a)
                    if first:
                        first = False
                        s.add(head + " ->")
                        s.add("        {")
                        for j in range(1, len(matches)):
                            put(j, "x%d" % j, "            ", prefix="let r%d = " % j, suffix=";")
                        s.add("            " + " + ".join("r%d" % j for j in range(1, len(matches))))
                        s.add("        };")
                    else:
                        s.add(head + " -> 7;")
                s.add("    }")
                s.add("}")
            else:   # mixed: first in its own function, the rest in sequence in another
                s.add("func m0(%s) -> int\n{" % param(0))
                put(0, "x0", "    ")
                s.add("}")
                s.add("func m1(%s) -> int\n{" % ", ".join(param(j) for j in range(1, len(matches))))
                for j in range(1, len(matches)):
                    put(j, "x%d" % j, "    ", prefix="let r%d = " % j, suffix=";")
                s.add("    " + " + ".join("r%d" % j for j in range(1, len(matches))))
                s.add("}")
            s.add("func main() -> int\n{\n    0\n}")
            return s.text(), mline

        def emit(tag, kind, op, matches):
            text, mline = build(matches)
            cover = []
            for j, (en, n, arms) in enumerate(matches):
                if "else" not in arms:
                    for k in range(n):
                        if k not in arms:
                            cover.append([mline[j], "%s::e%d" % (en, k)])
            cases.append(tcase("%s.%s" % (group, tag), group, kind, op, layout,
                               "reject" if cover else "accept", text,
                               extra={"expect_cover": cover,
                                      "matches": [[n] + arms for (_, n, arms) in matches]}))

        if all(len([a for a in arms if a != "else"]) + ("else" in arms) > 0 for (_, _, arms) in base):
            emit("base", "base", "-", base)
        cnt = 0
        for j, (en, n, arms) in enumerate(base):
            if "else" in arms:
                if len(arms) - 1 < n and len(arms) > 1:
                    cnt += 1
                    emit("m%d" % cnt, "mutant", "MatchDropElse:multi", base[:j] + [(en, n, [a for a in arms if a != "else"])] + base[j + 1:])
                continue
            if n == 1:
                continue
            ks = sorted({0, n - 1} | ({rng.randrange(n)} if n > 2 else set())) if n > 4 else list(range(n))
            for k in ks:
                cnt += 1
                pos = "first" if k == 0 else ("last" if k == n - 1 else "middle")
                emit("m%d" % cnt, "mutant", "MatchOmitEnumerator:multi:" + pos,
                     base[:j] + [(en, n, [a for a in arms if a != k])] + base[j + 1:])
        # one double fault: two different matches each omit their last-declared enumerator
        el = [j for j, (en, n, arms) in enumerate(base) if "else" not in arms and n > 1]
        if len(el) >= 2:
            a, b = el[0], el[-1]
            mm = list(base)
            for j in (a, b):
                en, n, arms = mm[j]
                mm[j] = (en, n, [x for x in arms if x != n - 1])
            cnt += 1
            emit("m%d" % cnt, "mutant", "MatchOmitEnumerator:multi:two-matches", mm)
    return cases


# ---- (b) scope of pattern binders ---------------------------------------------------------------
USES = {"plus": "x + 1", "and": "((x && true) ? 1 : 0)"}


def gen_binders():
    """complete grid: construct x site x outer binding x use form"""
    cases = []
    enum = "enum R { A { x : int; }, B { y : int; z : int; }, C }"

    def wrap(site_expr, closure):
        return ("let func () -> int { %s }()" % site_expr) if closure else site_expr

    # every construct is a list of lines with placeholders {own} {other} {else} {chain_then} {chain_else};
    # absent sites get the filler "0"
    constructs = {
        "match-record-arm": (["    let r = match e", "    {", "        R::A(x) -> {own};", "        R::B(y, z) -> {other};",
                              "        R::C -> {else};", "    };"], ["own", "other", "else", "after"]),
        "match-record-arm-else": (["    let r = match e", "    {", "        R::A(x) -> {own};", "        else -> {else};", "    };"],
                                  ["own", "else", "after"]),
        "iflet-record-braces": (["    let r = if let (R::A(x) = e)", "    {", "        {own}", "    }", "    else", "    {",
                                 "        {else}", "    };"], ["own", "else", "after"]),
        "iflet-record-nobraces": (["    let r = if let (R::A(x) = e)", "        {own}", "    else", "        {else};"],
                                  ["own", "else", "after"]),
        "iflet-record-noelse": (["    let r = if let (R::A(x) = e)", "    {", "        {own}", "    };"], ["own", "after"]),
        "iflet-chain-record-first": (["    let r = if let (R::A(x) = e)", "    {", "        {own}", "    }",
                                      "    else if let (R::B(y, z) = e)", "    {", "        {chain_then}", "    }", "    else", "    {",
                                      "        {chain_else}", "    };"], ["own", "chain_then", "chain_else", "after"]),
        "iflet-chain-item-first": (["    let r = if let (R::C = e)", "    {", "        {other}", "    }",
                                    "    else if let (R::A(x) = e)", "    {", "        {own}", "    }", "    else", "    {",
                                    "        {chain_else}", "    };"], ["other", "own", "chain_else", "after"]),
    }
    n = 0
    for cname, (tmpl, sites) in sorted(constructs.items()):
        for site in sites:
            for closure in (False, True):
                for outer in (False, True):
                    for uname, use in sorted(USES.items()):
                        if not outer and uname == "and" and site != "own":
                            continue          # undefined either way, one use form is enough
                        n += 1
                        s = Src()
                        s.add(enum)
                        s.add("func f(e : R) -> int\n{")
                        if outer:
                            s.add("    let x = true;")
                        site_line = 0
                        for l in tmpl:
                            m = re.search(r"\{(own|other|else|chain_then|chain_else)\}", l)
                            if m:
                                if m.group(1) == site:
                                    site_line = s.next_line()
                                    s.add(l.replace(m.group(0), wrap(use, closure)))
                                else:
                                    s.add(l.replace(m.group(0), "0"))
                            else:
                                s.add(l)
                        if site == "after":
                            site_line = s.next_line()
                            s.add("    r + " + wrap(use, closure))
                        else:
                            s.add("    r")
                        s.add("}")
                        s.add("func main() -> int\n{\n    f(R::C)\n}")
                        inside = (site == "own")
                        sees_int = inside                      # the binder (int)
                        sees_bool = (not inside) and outer     # the outer let (bool)
                        if sees_int:
                            expect, msg = ("accept", None) if uname == "plus" else ("reject", r"^cannot compare types")
                        elif sees_bool:
                            expect, msg = ("accept", None) if uname == "and" else ("reject", r"^cannot exec arithmetic")
                        else:
                            expect, msg = "reject", r"^cannot find identifier x"
                        where = "%s/%s%s%s" % (cname, site, "+closure" if closure else "", "+outer" if outer else "")
                        op = ("BinderScope:" + ("in-arm" if inside else "outside-arm") + (":outer" if outer else ""))
                        cases.append(tcase("bs%d" % n, "bs-" + cname, "base" if expect == "accept" else "mutant", op, where,
                                           expect, s.text(), line=site_line, msg=msg))
    return cases


# ---- (c) one-place type differences -----------------------------------------------------------------
def gen_type(rng, depth, need_fun=True):
    """types: ('int',) ('bool',) ('fun', [(var, T)..], T) ('arr', T) ('tup', [T, T])"""
    if depth <= 0:
        return (rng.choice(["int", "bool"]),)
    kind = rng.choice(["fun", "fun", "fun", "arr", "tup"]) if need_fun else rng.choice(["base", "base", "fun", "arr", "tup"])
    if kind == "base":
        return (rng.choice(["int", "bool"]),)
    if kind == "fun":
        np_ = rng.choice([0, 1, 1, 2])
        ps = [(rng.random() < 0.3, gen_type(rng, depth - 1, need_fun=(rng.random() < 0.5))) for _ in range(np_)]
        return ("fun", ps, gen_type(rng, depth - 1, need_fun=(rng.random() < 0.4)))
    if kind == "arr":
        return ("arr", gen_type(rng, depth - 1, need_fun=need_fun))
    return ("tup", [(rng.choice(["int", "bool"]),), gen_type(rng, depth - 1, need_fun=need_fun)])


def has_fun(t):
    return t[0] == "fun" or (t[0] == "arr" and has_fun(t[1])) or (t[0] == "tup" and any(has_fun(x) for x in t[1]))


class Names:
    def __init__(self):
        self.n = 0

    def fresh(self, p):
        self.n += 1
        return "%s%d" % (p, self.n)


def ty_str(t, nm):
    if t[0] in ("int", "bool"):
        return t[0]
    if t[0] == "fun":
        return "(" + ", ".join(("var " if v else "") + ty_str(p, nm) for v, p in t[1]) + ") -> " + ty_str(t[2], nm)
    if t[0] == "arr":
        return "[%s] : %s" % (nm.fresh("D"), ty_str(t[1], nm))
    return "(" + ", ".join(ty_str(x, nm) for x in t[1]) + ")"


def param_str(name, t, nm, var=False):
    pre = "var " if var else ""
    if t[0] == "fun":
        return pre + name + "(" + ", ".join(("var " if v else "") + ty_str(p, nm) for v, p in t[1]) + ") -> " + ty_str(t[2], nm)
    if t[0] == "arr":
        return pre + "%s[%s] : %s" % (name, nm.fresh("D"), ty_str(t[1], nm))
    return pre + name + " : " + ty_str(t, nm)


def value_str(t, nm):
    """a closed one-line expression of type t"""
    if t[0] == "int":
        return "0"
    if t[0] == "bool":
        return "true"
    if t[0] == "fun":
        ps = ", ".join(param_str(nm.fresh("q"), p, nm, var=v) for v, p in t[1])
        return "let func (%s) -> %s { %s }" % (ps, ty_str(t[2], nm), value_str(t[2], nm))
    if t[0] == "arr":
        return "[ %s ] : %s" % (value_str(t[1], nm), ty_str(t[1], nm))
    return "(%s) : %s" % (", ".join(value_str(x, nm) for x in t[1]), ty_str(t, nm))


def flip(t):
    return ("bool",) if t[0] == "int" else ("int",)


def one_place_variants(t, path=""):
    """-> [(kind, path, t')] : t' differs from t in exactly one place inside a function type"""
    out = []
    if t[0] == "fun":
        here = path + "fun"
        ps, r = t[1], t[2]
        for i, (v, p) in enumerate(ps):
            out.append(("varflag", here, ("fun", ps[:i] + [(not v, p)] + ps[i + 1:], r)))
            if p[0] in ("int", "bool"):
                out.append(("paramkind", here, ("fun", ps[:i] + [(v, flip(p))] + ps[i + 1:], r)))
            for k, pa, p2 in one_place_variants(p, here + ".param>"):
                out.append((k, pa, ("fun", ps[:i] + [(v, p2)] + ps[i + 1:], r)))
        if r[0] in ("int", "bool"):
            out.append(("retkind", here, ("fun", ps, flip(r))))
        for k, pa, r2 in one_place_variants(r, here + ".ret>"):
            out.append((k, pa, ("fun", ps, r2)))
        out.append(("arity+1", here, ("fun", ps + [(False, ("int",))], r)))
        if ps:
            out.append(("arity-1", here, ("fun", ps[:-1], r)))
    elif t[0] == "arr":
        for k, pa, e2 in one_place_variants(t[1], path + "arr>"):
            out.append((k, pa, ("arr", e2)))
    elif t[0] == "tup":
        for i, x in enumerate(t[1]):
            for k, pa, x2 in one_place_variants(x, path + "tup>"):
                out.append((k, pa, ("tup", t[1][:i] + [x2] + t[1][i + 1:])))
    return out


POSITIONS = ["arg", "assign", "return", "array-elem", "cond-branch"]


def type_program(texp, tgiv, pos):
    """-> (source, line of the offending expression, diagnostic regex)"""
    nm = Names()
    s = Src()
    if pos == "arg":
        s.add("func sink(%s) -> int\n{\n    0\n}" % param_str("p", texp, nm))
        s.add("func main() -> int\n{")
        line = s.add("    sink(%s);" % value_str(tgiv, nm))
        s.add("    0\n}")
        return s.text(), line, r"^function call type mismatch"
    if pos == "assign":
        s.add("func main() -> int\n{")
        s.add("    var v = %s;" % value_str(texp, nm))
        line = s.add("    v = %s;" % value_str(tgiv, nm))
        s.add("    0\n}")
        return s.text(), line, r"^cannot assign different types"
    if pos == "return":
        line0 = s.add("func mk() -> %s" % ty_str(texp, nm))
        s.add("{")
        line = s.add("    %s" % value_str(tgiv, nm))
        s.add("}")
        s.add("func main() -> int\n{\n    0\n}")
        return s.text(), (line0, line), r"^incorrect return type"
    if pos == "array-elem":
        s.add("func main() -> int\n{")
        line = s.add("    let a = [ %s, %s ] : %s;" % (value_str(texp, nm), value_str(tgiv, nm), ty_str(texp, nm)))
        s.add("    0\n}")
        return s.text(), line, r"^array is not well formed|^incorrect types in array"
    s.add("func main() -> int\n{")
    s.add("    let c = 1 < 2;")
    line = s.add("    let a = c ? %s : %s;" % (value_str(texp, nm), value_str(tgiv, nm)))
    s.add("    0\n}")
    return s.text(), line, r"^types on conditional expression do not match|are different"


def gen_functypes(rng, ntypes, cap):
    cases = []
    seen = set()
    g = 0
    tries = 0
    while g < ntypes and tries < ntypes * 20:
        tries += 1
        t = gen_type(rng, rng.choice([1, 2, 2, 3, 3]))
        if not has_fun(t) or repr(t) in seen:
            continue
        seen.add(repr(t))
        g += 1
        group = "ft%d" % g
        vs = one_place_variants(t)
        rng.shuffle(vs)
        # keep every (kind, path) class once, then fill up to cap
        chosen, classes = [], set()
        for v in vs:
            if (v[0], v[1]) not in classes:
                classes.add((v[0], v[1]))
                chosen.append(v)
        chosen = chosen[:cap]
        for pos in POSITIONS:
            src, line, msg = type_program(t, t, pos)
            cases.append(tcase("%s.%s.base" % (group, pos), group, "base", "-", pos, "accept", src))
            for i, (kind, path, t2) in enumerate(chosen):
                src, line, msg = type_program(t, t2, pos)
                l0, l1 = line if isinstance(line, tuple) else (line, line)
                c = tcase("%s.%s.m%d" % (group, pos, i), group, "mutant", "TypeMismatch:%s@%s" % (kind, path), pos,
                          "reject", src, line=l0, msg=msg)
                c["l1"] = l1
                cases.append(c)
    return cases


def judge_text(ctx, c, r, faults, model=None):
    op, where = c["op"], c["ctx"]
    if r is None or r["kind"] is None or r["san"]:
        faults.append({"id": c["id"], "op": op, "end": (r or {}).get("end"), "sanitizer": bool(r and r["san"])})
        return "compiler-fault"
    if "expect_cover" in c:
        got = sorted([ln, m.split()[-2]] for (ln, m) in r["errs"] if m.startswith("match expression does not cover"))
        want = sorted(c["expect_cover"])
        if model is not None:
            mwant = "reject" if any(v != "OK" for v in model) else "accept"
            if mwant != c["expect"]:
                ctx.correspondence_broken("match-model-differs-from-oracle", {"id": c["id"], "model": model, "oracle": want})
        missing = [w for w in want if w not in got]
        if missing:
            ctx.violation("accepted:%s" % op,
                          "a match omitting an enumerator without else is not diagnosed (%s, layout %s)" % (op, where),
                          {"case": c["id"], "operator": op, "context": where, "expected_diagnostics": want,
                           "observed": r["errs"][:6], "outcome": r["kind"], "source": c["src"]})
            return "ACCEPTED"
        extra = [g for g in got if g not in want]
        if extra or (not want and r["kind"] != "COMPILED"):
            ctx.correspondence_broken("exhaustive-match-rejected", {"id": c["id"], "errors": r["errs"][:4], "src": c["src"]})
            return "base-rejected"
        return "rejected-ok" if want else "accepted-ok"
    if c["expect"] == "accept":
        if r["kind"] == "COMPILED":
            return "accepted-ok"
        ctx.correspondence_broken("text-positive-rejected", {"id": c["id"], "op": op, "context": where,
                                                             "errors": r["errs"][:4], "src": c["src"]})
        return "base-rejected"
    if r["kind"] != "COMPILE_ERROR":
        if op.startswith("TypeMismatch"):
            # stable class: kind of difference, what the differing function type is nested in, position
            kind, path = op[len("TypeMismatch:"):].split("@")
            comps = path.split(">")
            key = "accepted:TypeMismatch:%s:in-%s:%s" % (kind, comps[-2] if len(comps) > 1 else "top", where)
        else:
            key = "accepted:%s" % op
        ctx.violation(key,
                      "ill-typed program accepted by the compiler: %s at %s" % (op, where),
                      {"case": c["id"], "operator": op, "context": where,
                       "expected": "COMPILE_ERROR /%s/ at line %d" % (c["msg"], c["l1"]), "observed": r["kind"],
                       "source": c["src"]})
        return "ACCEPTED"
    rx = re.compile(c["msg"])
    if not any(c["l0"] <= ln <= c["l1"] and rx.search(m) for (ln, m) in r["errs"]):
        if any(c["l0"] <= ln <= c["l1"] for (ln, _) in r["errs"]):
            ctx.correspondence_broken("text-diagnostic-kind-differs", {"id": c["id"], "op": op, "context": where,
                                                                       "expected": c["msg"], "errors": r["errs"][:4], "src": c["src"]})
            return "kind-differs"
        ctx.violation("wrong-line:%s" % op.split("@")[0],
                      "diagnostic not reported at the offending line: %s at %s" % (op, where),
                      {"case": c["id"], "operator": op, "context": where, "expected_lines": [c["l0"], c["l1"]],
                       "observed": r["errs"][:5], "source": c["src"]})
        return "WRONG-LINE"
    return "rejected-ok"


def run_text_families(ctx, drv, quick):
    rng = random.Random((ctx.seed << 8) ^ 0xC06)
    mm = gen_multimatch(rng, 120 if quick else 500)
    bs = gen_binders()
    ft = gen_functypes(rng, 160 if quick else 700, 12 if quick else 16)
    cases = mm + bs + ft
    # the model judges every match of family (a)
    qpath = os.path.join(ctx.outdir, "mcheck.txt")
    with open(qpath, "w") as f:
        for c in mm:
            for m in c["matches"]:
                f.write(" ".join(str(x) for x in m) + "\n")
    rc, so, se = common.sh([RUN, "mcheck", qpath], timeout=300)
    os.remove(qpath)
    verd = so.split()
    k = 0
    models = {}
    for c in mm:
        models[c["id"]] = verd[k:k + len(c["matches"])]
        k += len(c["matches"])
    if rc != 0 or k != len(verd):
        ctx.correspondence_broken("mcheck-driver", {"rc": rc, "stderr": se[-500:]})
    res = compile_all(ctx, drv, cases, "text")
    faults = []
    verdicts = collections.Counter()
    per = collections.Counter()
    distinct = set()
    for c in cases:
        v = judge_text(ctx, c, res.get(c["id"]), faults, models.get(c["id"]))
        verdicts[v] += 1
        fam = "a:multi-match" if c["id"].startswith("mm") else ("b:binder-scope" if c["id"].startswith("bs") else "c:type-position")
        per["%s | %s | %s" % (fam, c["op"].split("@")[0], c["ctx"].split("/")[0])] += 1
        if c["kind"] == "mutant":
            distinct.add((c["op"], c["ctx"], c["group"]))
    ctx.count(evaluations=sum(verdicts.values()), nontrivial=len(distinct))
    ctx.coverage["text_families"] = {"verdicts": dict(verdicts), "cases": {"multi_match": len(mm), "binder_scope": len(bs), "type_position": len(ft)},
                                     "per_family_operator_position": dict(sorted(per.items())),
                                     "binder_scope_grid_exhaustive": True, "compiler_faults": faults[:3]}
    for c in (mm[1:2] + bs[5:6] + [x for x in ft if x["kind"] == "mutant"][:1]):
        ctx.sample({"family_case": c["id"], "operator": c["op"], "context": c["ctx"], "expect": c["expect"],
                    "compiler": (res.get(c["id"]) or {}).get("errs", [])[:2], "source": c["src"][-500:]}, limit=9)


# ---- (d) every offence kind x every syntactic context x every sink ----------------------------------
# An offence is a one-line int-valued expression that breaks exactly one static rule (with a well-typed
# twin that differs from it in the one offending token); a context is a one-line expression with an
# int-typed hole; a sink is where the value of the context expression goes.  Nothing here is computed
# by the compiler under test: the verdict (reject, diagnostic of the offence's rule on the lines of the
# statement) follows from the construction.
CF_PRE = """record R { x : int; }
enum E { a, b, c }
func f1(a : int) -> int { a + 1 }
func f2(a : int, c : int) -> int { a + c }
func fv(var a : int) -> int { a = a + 1; a }
func i2e(i : int) -> E { E::a }
func s_int(z : int) -> int { 0 }
func s_arr(z[D] : int) -> int { 0 }
func s_rec(z : R) -> int { 0 }
func s_str(z : string) -> int { 0 }
func s_fun(z(int) -> int) -> int { 0 }
func s_rng([f .. t] : range) -> int { 0 }
func s_tup(z : (int, int)) -> int { 0 }
func s_slc(z[f .. t] : int) -> int { 0 }"""
CF_LOCALS = 'let k = 1; var v = 2; let b = true; let r = R(3); let e = E::a; let a = [ 1, 2, 3 ] : int;'

# type of a context expression -> (type text, default value, projection of an expression of that type to int)
CF_TYPES = {
    "int": ("int", "0", "({C})"),
    "slc": ("[..] : int", "([ 7, 8 ] : int)[0 .. 1]", "({C})[0]"),
    "arr": ("[_] : int", "[ 7 ] : int", "({C})[0]"),
    "rec": ("R", "R(0)", "({C}).x"),
    "str": ("string", '"d"', "length({C})"),
    "fun": ("(int) -> int", "f1", "({C})(1)"),
    "rng": ("[..] : range", "[ 0 .. 1 ]", "s_rng({C})"),
    "tup": ("(int, int)", "(0, 0) : (int, int)", "({C})[0]"),
}

# (offence, ill-typed expression, well-typed twin, diagnostic that names the offence)
CF_OFFENCES = [
    ("AssignToLet", "(k = k + 1)", "(v = v + 1)", r"^cannot assign to "),
    ("AssignToParam", "(p = p + 1)", "(pv = pv + 1)", r"^cannot assign to "),
    ("ArgCount:more", "f1(1, 2)", "f1(1)", r"^function call type mismatch"),
    ("ArgCount:less", "f2(1)", "f2(1, 2)", r"^function call type mismatch"),
    ("ArgKind", "f1(b)", "f1(k)", r"^function call type mismatch"),
    ("ArgConstToVar", "fv(k)", "fv(v)", r"^function call type mismatch"),
    ("UndefinedName", "(zz + 1)", "(k + 1)", r"^cannot find identifier zz"),
    ("UndefinedAttr", "r.nope", "r.x", r"^cannot find attribute|^cannot get record attribute"),
    ("Operator:arith", "(k + b)", "(k + v)", r"^cannot exec arithmetic"),
    ("Operator:compare", "((k < b) ? 1 : 0)", "((k < v) ? 1 : 0)", r"^cannot compare types"),
    ("CondNotBool:?:", "(k ? 1 : 2)", "(b ? 1 : 2)", r"^cannot execute conditional operator on"),
    ("CondNotBool:if", "(if (k) { 1 } else { 2 })", "(if (b) { 1 } else { 2 })", r"^cannot execute conditional operator on"),
    ("CondNotBool:while", "(while (k) { 0 })", "(while (b) { 0 })", r"^while loop condition"),
    ("ReturnKind", "(let func () -> int { b }())", "(let func () -> int { k }())", r"^incorrect return type"),
    ("MatchOmit", "(match e { E::a -> 1; E::b -> 2; })", "(match e { E::a -> 1; E::b -> 2; E::c -> 3; })",
     r"^match expression does not cover"),
    ("UnknownException", "((let func () -> int { 1 } catch (no_such_exception) { 0 })())",
     "((let func () -> int { 1 } catch (division_by_zero) { 0 })())", r"^unknown exception"),
]
CF_GOOD = "(v + 1)"

# (context, expression with an int-typed hole, type of the expression)
CF_CONTEXTS = [
    ("listcomp-elem", "[ {X} + x | x in a ] : int", "arr"),
    ("listcomp-source", "[ x | x in [ {X}, 2 ] : int ] : int", "arr"),
    ("listcomp-filter", "[ x | x in a; x > {X} ] : int", "arr"),
    ("listcomp-2nd-generator", "[ x + y | x in a; y in [ {X} ] : int ] : int", "arr"),
    ("array-literal", "[ 1, {X}, 3 ] : int", "arr"),
    ("array-dims", "{[ {X} ]} : int", "arr"),
    ("record-arg", "R({X})", "rec"),
    ("match-arm", "match e { E::a -> {X}; E::b -> 2; E::c -> 3; }", "int"),
    ("match-else-arm", "match e { E::a -> 1; else -> {X}; }", "int"),
    ("match-scrutinee", "match i2e({X}) { E::a -> 1; else -> 2; }", "int"),
    ("iflet-then", "if let (E::a = e) { {X} } else { 0 }", "int"),
    ("iflet-else", "if let (E::a = e) { 0 } else { {X} }", "int"),
    ("iflet-scrutinee", "if let (E::a = i2e({X})) { 1 } else { 0 }", "int"),
    ("for-in-body", "for (i in [ 0 .. 2 ]) { {X} }", "int"),
    ("for-in-bound", "for (i in [ 0 .. {X} ]) { 0 }", "int"),
    ("for-in-array", "for (i in [ {X} ] : int) { 0 }", "int"),
    ("for3-body", "for (v = 0; v < 2; v = v + 1) { {X} }", "int"),
    ("for3-cond", "for (v = 0; v < {X}; v = v + 1) { 0 }", "int"),
    ("for3-step", "for (v = 0; v < 2; v = v + {X}) { 0 }", "int"),
    ("while-body", "while (false) { {X} }", "int"),
    ("while-cond", "while ({X} < 0) { 0 }", "int"),
    ("do-body", "do { {X} } while (false)", "int"),
    ("do-cond", "do { 0 } while ({X} < 0)", "int"),
    ("lambda-body", "let func (q : int) -> int { {X} }", "fun"),
    ("lambda-catch", "let func (q : int) -> int { q } catch (division_by_zero) { {X} }", "fun"),
    ("lambda-catch-all", "let func (q : int) -> int { q } catch { {X} }", "fun"),
    ("nested-func-body", "{ func g(q : int) -> int { {X} }; g(1) }", "int"),
    ("nested-func-catch", "{ func g(q : int) -> int { q } catch (nil_pointer) { {X} }; g(1) }", "int"),
    ("range-lo", "[ {X} .. 9 ]", "rng"),
    ("range-hi", "[ 0 .. {X} ]", "rng"),
    ("slice-bound", "a[0 .. {X}]", "slc"),
    ("string-concat-left", '{X} + "s"', "str"),
    ("string-concat-right", '"s" + {X}', "str"),
    ("call-arg", "f1({X})", "int"),
    ("call-arg-2nd", "f2(1, {X})", "int"),
    ("builtin-arg", "print({X})", "int"),
    ("index", "a[{X}]", "int"),
    ("cond-branch", "(b ? {X} : 0)", "int"),
    ("cond-cond", "({X} > 0 ? 1 : 0)", "int"),
    ("if-then", "if (b) { {X} } else { 0 }", "int"),
    ("if-cond", "if ({X} > 0) { 1 } else { 0 }", "int"),
    ("tuple-elem", "({X}, 1) : (int, int)", "tup"),
    ("block-stmt", "{ {X}; 0 }", "int"),
    ("block-let", "{ let t = {X}; t }", "int"),
    ("neg", "-{X}", "int"),
    ("arith-operand", "1 + {X}", "int"),
    ("pipe", "{X} |> f1()", "int"),
    ("assign-rhs", "(v = {X})", "int"),
]
CF_SINKS = ["let", "var", "discard", "return", "pass", "assign"]
CF_HOSTS = ["func", "nested", "lambda", "catch"]
# `var w = <const expression>` is itself an offence: the var sink does not apply to contexts whose value is
# const (call results, while/do, an element of a `let` array, a block ending in a `let` name, an assignment:
# measured on the unchanged tree; a context missing here shows up as a rejected well-typed program)
CF_CONST_RESULT = {"call-arg", "call-arg-2nd", "pipe", "while-body", "while-cond", "do-body", "do-cond", "index",
                   "block-let", "nested-func-body", "nested-func-catch", "assign-rhs"}


def cf_program(ctxs, xexpr, sink, host, split=False):
    """ctxs: outermost first.  -> (source, first line, last line of the statement holding the offence)"""
    inner = "\n            %s\n        " % xexpr if split else xexpr
    ty = "int"
    for i, (_n, tmpl, t) in enumerate(reversed(ctxs)):
        if i > 0:
            inner = CF_TYPES[ty][2].replace("{C}", inner)
        inner = tmpl.replace("{X}", inner)
        ty = t
    tytext, dflt, _proj = CF_TYPES[ty]
    body = [CF_LOCALS]
    if sink == "let":
        body += ["let w = %s;" % inner, dflt]
    elif sink == "var":
        body += ["var w = %s;" % inner, dflt]
    elif sink == "discard":
        body += ["%s;" % inner, dflt]
    elif sink == "return":
        body += [inner]
    elif sink == "pass":
        body += ["s_%s(%s);" % (ty, inner), dflt]
    else:
        body += ["var w = %s;" % dflt, "w = %s;" % inner, dflt]
    site = 1 if sink != "assign" else 2
    s = Src()
    s.add(CF_PRE)
    params = "p : int, var pv : int"

    def put_body(ind):
        l0 = l1 = 0
        for i, st in enumerate(body):
            if i == site:
                l0 = s.next_line()
            l = s.add("\n".join(ind + x for x in st.split("\n")))
            if i == site:
                l1 = l
        return l0, l1

    if host == "func":
        s.add("func host(%s) -> %s\n{" % (params, tytext))
        l0, l1 = put_body("    ")
        s.add("}")
        s.add("func main() -> int\n{\n    0\n}")
    elif host == "nested":
        s.add("func main() -> int\n{")
        s.add("    func host(%s) -> %s\n    {" % (params, tytext))
        l0, l1 = put_body("        ")
        s.add("    };\n    0\n}")
    elif host == "lambda":
        s.add("func main() -> int\n{")
        s.add("    let host = let func (%s) -> %s\n    {" % (params, tytext))
        l0, l1 = put_body("        ")
        s.add("    };\n    0\n}")
    else:
        s.add("func host(%s) -> %s\n{\n    %s\n}\ncatch (wrong_array_size)\n{" % (params, tytext, dflt))
        l0, l1 = put_body("    ")
        s.add("}")
        s.add("func main() -> int\n{\n    0\n}")
    return s.text(), l0, l1


def gen_context_family(rng, quick):
    cases = []
    n = [0]

    def add(kind, off, ctxs, sink, host, split=False):
        name, bad, good, rx = off if off else ("-", CF_GOOD, CF_GOOD, None)
        x = bad if kind == "mutant" else good
        src, l0, l1 = cf_program(ctxs, x, sink, host, split)
        n[0] += 1
        where = ">".join(c[0] for c in ctxs)
        c = tcase("cf%d" % n[0], "cf", kind, name, "%s|%s|%s%s" % (where, sink, host, "|split" if split else ""),
                  "reject" if kind == "mutant" else "accept", src, line=l0, msg=rx,
                  extra={"cf": (name.split(":")[0], ctxs[0][0], sink, host, len(ctxs))})
        c["l1"] = l1
        cases.append(c)

    def sinks_for(ctxs):
        return [s for s in CF_SINKS if not (s == "var" and ctxs[0][0] in CF_CONST_RESULT)]

    # 1. the complete grid offence x context x sink in a plain function; one cell in eight also with the
    #    offending expression on a line of its own
    for c in CF_CONTEXTS:
        for sink in sinks_for([c]):
            add("base", None, [c], sink, "func")
            for off in CF_OFFENCES:
                add("mutant", off, [c], sink, "func", split=(rng.random() < 0.125))
    # 2. well-typed twin of every offence in every context (the offence, not its shape, is what is rejected)
    for c in CF_CONTEXTS:
        for off in CF_OFFENCES:
            add("base", off, [c], rng.choice(sinks_for([c])), "func")
    # 3. other hosts (nested function, lambda, catch clause): every context x sink, offences rotated / all
    for host in CF_HOSTS[1:]:
        for c in CF_CONTEXTS:
            for sink in sinks_for([c]):
                add("base", None, [c], sink, host)
                offs = [rng.choice(CF_OFFENCES)] if quick else CF_OFFENCES
                for off in offs:
                    add("mutant", off, [c], sink, host, split=(rng.random() < 0.125))
    # 4. two contexts deep: every ordered pair (outer, inner); the inner value is projected to int
    for co in CF_CONTEXTS:
        for ci in CF_CONTEXTS:
            ss = sinks_for([co, ci])
            sel = [rng.choice(ss)] if quick else ss
            for sink in sel:
                host = rng.choice(CF_HOSTS)
                add("base", None, [co, ci], sink, host)
                add("mutant", rng.choice(CF_OFFENCES), [co, ci], sink, host)
    # 5. three deep, random
    for _ in range(300 if quick else 3000):
        cs = [rng.choice(CF_CONTEXTS) for _ in range(3)]
        sink = rng.choice(sinks_for(cs))
        host = rng.choice(CF_HOSTS)
        add("base", None, cs, sink, host)
        add("mutant", rng.choice(CF_OFFENCES), cs, sink, host)
    return cases


def run_context_family(ctx, drv, quick):
    rng = random.Random((ctx.seed << 10) ^ 0xC06D)
    cases = gen_context_family(rng, quick)
    res = compile_all(ctx, drv, cases, "cf")
    verdicts = collections.Counter()
    faults = []
    cells = collections.Counter()          # (offence, outermost context, sink) of judged mutants
    t_os, t_cs, t_oc, t_host, t_depth = (collections.Counter() for _ in range(5))
    accepted = collections.Counter()
    reported = 0
    for c in cases:
        r = res.get(c["id"])
        off, cname, sink, host, depth = c["cf"]
        if r is None or r["kind"] is None or r["san"]:
            faults.append({"id": c["id"], "op": c["op"], "context": c["ctx"], "end": (r or {}).get("end"),
                           "sanitizer": bool(r and r["san"])})
            verdicts["compiler-fault"] += 1
            continue
        if c["kind"] == "base":
            if r["kind"] == "COMPILED":
                verdicts["accepted-ok"] += 1
            else:
                verdicts["base-rejected"] += 1
                ctx.correspondence_broken("context-family-positive-rejected",
                                          {"id": c["id"], "op": c["op"], "context": c["ctx"], "errors": r["errs"][:4], "src": c["src"]})
            continue
        cells[(off, cname, sink)] += 1
        t_os["%s | %s" % (off, sink)] += 1
        t_cs["%s | %s" % (cname, sink)] += 1
        t_oc["%s | %s" % (off, cname)] += 1
        t_host[host] += 1
        t_depth[depth] += 1
        rx = re.compile(c["msg"])
        if r["kind"] != "COMPILE_ERROR":
            verdicts["ACCEPTED"] += 1
            accepted["%s | %s" % (cname, sink)] += 1
            if reported < 6:
                before = len(ctx.violations)
                ctx.violation("accepted:%s:in-%s:sink-%s" % (off, cname, sink),
                              "ill-typed program accepted by the compiler: offence %s inside %s, value of the enclosing "
                              "expression goes to: %s" % (c["op"], c["ctx"].split("|")[0], sink),
                              {"case": c["id"], "operator": c["op"], "context": c["ctx"],
                               "expected": "COMPILE_ERROR /%s/ on lines %d..%d" % (c["msg"], c["l0"], c["l1"]),
                               "observed": {"outcome": r["kind"], "diagnostics": r["errs"][:5]}, "source": c["src"]})
                reported += len(ctx.violations) - before
            continue
        on_site = [m for (ln, m) in r["errs"] if c["l0"] <= ln <= c["l1"]]
        if not on_site:
            verdicts["WRONG-LINE"] += 1
            if reported < 6:
                before = len(ctx.violations)
                ctx.violation("wrong-line:%s:in-%s" % (off, cname),
                              "diagnostic not reported at the offending line: offence %s inside %s" % (c["op"], c["ctx"]),
                              {"case": c["id"], "operator": c["op"], "context": c["ctx"], "expected_lines": [c["l0"], c["l1"]],
                               "observed": r["errs"][:5], "source": c["src"]})
                reported += len(ctx.violations) - before
            continue
        if not any(rx.search(m) for m in on_site):
            verdicts["kind-differs"] += 1
            ctx.correspondence_broken("context-family-diagnostic-kind-differs",
                                      {"id": c["id"], "op": c["op"], "context": c["ctx"], "expected": c["msg"],
                                       "errors": r["errs"][:4], "src": c["src"]})
            continue
        verdicts["rejected-ok"] += 1
    ctx.count(evaluations=sum(verdicts.values()), nontrivial=len(cells))
    grid = len({o[0].split(":")[0] for o in CF_OFFENCES}) * sum(len([s for s in CF_SINKS if not (s == "var" and c[0] in CF_CONST_RESULT)])
                                                               for c in CF_CONTEXTS)
    ctx.coverage["context_family"] = {
        "rule": "one-line offence (16 forms of the 12 offence kinds of the property, each with a well-typed twin) planted in the "
                "int-typed hole of a context expression (%d contexts), 1-3 contexts deep, the value of the outermost expression "
                "bound by let / var / discarded / returned / passed / assigned, inside a function / nested function / lambda / "
                "catch clause; every mutant must be COMPILE_ERROR with the offence's diagnostic on the statement's lines, every "
                "twin and every context x sink x host without offence must compile" % len(CF_CONTEXTS),
        "verdicts": dict(verdicts),
        "cells_offence_kind_x_context_x_sink": {"possible": grid, "covered": len(cells),
                                                "min_cases_per_cell": min(cells.values()) if cells else 0,
                                                "max_cases_per_cell": max(cells.values()) if cells else 0},
        "offence_x_sink": dict(sorted(t_os.items())),
        "context_x_sink": dict(sorted(t_cs.items())),
        "offence_x_context": dict(sorted(t_oc.items())),
        "mutants_per_host": dict(t_host), "mutants_per_depth": {str(k): v for k, v in sorted(t_depth.items())},
        "accepted_cells_context_x_sink": dict(sorted(accepted.items())),
        "compiler_faults": faults[:3], "compiler_fault_count": len(faults),
    }
    for c in [x for x in cases if x["kind"] == "mutant"][5:400:131]:
        ctx.sample({"family_case": c["id"], "offence": c["op"], "context|sink|host": c["ctx"],
                    "site_lines": [c["l0"], c["l1"]], "compiler": (res.get(c["id"]) or {}).get("errs", [])[:2],
                    "statement": "\n".join(c["src"].split("\n")[c["l0"] - 1:c["l1"]])}, limit=12)


# ==========================================================================================
# (e) (f) (g): assignment through aliases, arguments through every call syntax, array literals
# ==========================================================================================
def host_program(pre, host, params, ret, outer, body, tail="0"):
    """body: list of (text, is_site).  host: func | nested | lambda; `outer` (declarations of the enclosing
    function: captured names) forces nested / lambda.  -> (source, first site line, last site line)"""
    s = Src()
    s.add(pre)
    site = [0, 0]

    def put(ind):
        for text, is_site in body:
            l0 = s.next_line()
            l1 = s.add("\n".join(ind + x for x in text.split("\n")))
            if is_site:
                site[0] = site[0] or l0
                site[1] = l1
        if tail:
            s.add(ind + tail)

    if host == "func" and not outer:
        s.add("func host(%s) -> %s\n{" % (params, ret))
        put("    ")
        s.add("}")
        s.add("func main() -> int\n{\n    0\n}")
    else:
        s.add("func main() -> int\n{")
        for o in outer:
            s.add("    " + o)
        if host == "lambda":
            s.add("    let host = let func (%s) -> %s\n    {" % (params, ret))
        else:
            s.add("    func host(%s) -> %s\n    {" % (params, ret))
        put("        ")
        s.add("    };\n    0\n}")
    return s.text(), site[0], site[1]


def judge_family(ctx, cases, res, keyfn, what, cap=12):
    """shared oracle of the families below.  case: kind base|mutant, msg (regex of the diagnostics that name the
    offence), l0..l1, op, ctx, cell (tuple counted in the evidence).  -> (verdicts, cells, accepted, faults)"""
    verdicts, cells, accepted = collections.Counter(), collections.Counter(), collections.Counter()
    faults = []
    reported = 0
    for c in cases:
        r = res.get(c["id"])
        if r is None or r["kind"] is None or r["san"]:
            faults.append({"id": c["id"], "op": c["op"], "context": c["ctx"], "end": (r or {}).get("end"),
                           "sanitizer": bool(r and r["san"]), "src": c["src"] if len(faults) < 2 else None})
            verdicts["compiler-fault"] += 1
            continue
        if c["kind"] == "base":
            if r["kind"] == "COMPILED":
                verdicts["accepted-ok"] += 1
            else:
                verdicts["base-rejected"] += 1
                ctx.correspondence_broken("%s-positive-rejected" % what,
                                          {"id": c["id"], "op": c["op"], "context": c["ctx"], "errors": r["errs"][:4], "src": c["src"]})
            continue
        cells[c["cell"]] += 1
        if r["kind"] != "COMPILE_ERROR":
            verdicts["ACCEPTED"] += 1
            accepted[" | ".join(str(x) for x in c["cell"])] += 1
            before = len(ctx.violations)
            if reported < cap:
                ctx.violation(keyfn(c), "ill-typed program accepted by the compiler: %s, %s" % (c["op"], c["ctx"]),
                              {"case": c["id"], "operator": c["op"], "context": c["ctx"],
                               "expected": "COMPILE_ERROR /%s/ on lines %d..%d" % (c["msg"], c["l0"], c["l1"]),
                               "observed": {"outcome": r["kind"], "diagnostics": r["errs"][:5]}, "source": c["src"]})
                reported += len(ctx.violations) - before
            continue
        on_site = [m for (ln, m) in r["errs"] if c["l0"] <= ln <= c["l1"]]
        if not on_site:
            verdicts["WRONG-LINE"] += 1
            before = len(ctx.violations)
            if reported < cap:
                ctx.violation("wrong-line:" + keyfn(c).split(":", 1)[1],
                              "diagnostic not reported at the offending line: %s, %s" % (c["op"], c["ctx"]),
                              {"case": c["id"], "operator": c["op"], "context": c["ctx"], "expected_lines": [c["l0"], c["l1"]],
                               "observed": r["errs"][:5], "source": c["src"]})
                reported += len(ctx.violations) - before
            continue
        if not any(re.search(c["msg"], m) for m in on_site):
            verdicts["kind-differs"] += 1
            ctx.correspondence_broken("%s-diagnostic-kind-differs" % what,
                                      {"id": c["id"], "op": c["op"], "context": c["ctx"], "expected": c["msg"],
                                       "errors": r["errs"][:4], "src": c["src"]})
            continue
        verdicts["rejected-ok"] += 1
    return verdicts, cells, accepted, faults


# ---- (e) assignment to a const binding through every aliasing construct ------------------------------
AL_PRE = """record R { x : int; }
record RA { m[D] : int; }
enum E { A { x : int; }, B }
func inc(a : int) -> int { a + 1 }
func dec(a : int) -> int { a - 1 }
func fv(var a : int) -> int { a = a + 1; a }
func set_int(var z[D] : int) -> int { z[0] = 5; 0 }
func set_rec(var z[D] : R) -> int { z[0] = R(9); 0 }
func set_str(var z[D] : string) -> int { z[0] = "z"; 0 }
func set_fun(var z[D] : (int) -> int) -> int { z[0] = dec; 0 }
func garr() -> [_] : int { [ 1, 2, 3 ] : int }"""
AL_MSG = (r"^cannot assign to (const|temp)|^cannot assign (const|temp) .* to var|^function call type mismatch|"
          r"^passing \S+ expression to variable param")
# element kind -> (type, array literal, array parameter declaration, a value, another literal)
AL_ELEMS = {
    "int": ("int", "[ 1, 2, 3 ] : int", "5", "[ 7, 8, 9 ] : int"),
    "rec": ("R", "[ R(1), R(2), R(3) ] : R", "R(9)", "[ R(7), R(8), R(9) ] : R"),
    "str": ("string", '[ "a", "b", "c" ] : string', '"z"', '[ "x", "y", "z" ] : string'),
    "fun": ("(int) -> int", "[ inc, inc, inc ] : (int) -> int", "dec", "[ dec, dec, dec ] : (int) -> int"),
}
# path from an array binding to an assignment: statements over ARR (the array), VAL (a value), EL (element kind),
# LIT (another array)
AL_ARRAY_PATHS = [
    ("element", ["ARR[0] = VAL;"]),
    ("forin-iterator", ["for (e in ARR) { e = VAL };"]),
    ("forin-iterator-in-closure", ["for (e in ARR) { let g = let func () -> int { e = VAL; 0 }; g() };"]),
    ("forin-iterator-nested-loop", ["for (e in ARR) { for (f in ARR) { f = VAL } };"]),
    ("forin-iterator-in-branch", ["for (e in ARR) { if (1 < 2) { e = VAL; 0 } else { 0 } };"]),
    ("listcomp-iterator", ["let w = [ { e = VAL; 0 } | e in ARR ] : int;"]),
    ("slice-forin", ["for (e in ARR[0 .. 1]) { e = VAL };"]),
    ("slice-element", ["ARR[0 .. 1][0] = VAL;"]),
    ("slice-bound-to-var", ["var s = ARR[0 .. 1];", "s[0] = VAL;"]),
    ("bound-to-var", ["var b = ARR;", "b[0] = VAL;"]),
    ("passed-to-var-param", ["set_EL(ARR);"]),
    ("piped-to-var-param", ["ARR |> set_EL();"]),
    ("cond-element", ["(1 < 2 ? ARR : ARR)[0] = VAL;"]),
    ("cond-bound-to-var", ["var b = (1 < 2 ? ARR : ARR);", "b[0] = VAL;"]),
    ("if-element", ["(if (1 < 2) { ARR } else { ARR })[0] = VAL;"]),
    ("match-arm-element", ["(match E::B { E::A(y) -> ARR; E::B -> ARR; })[0] = VAL;"]),
    ("iflet-branch-element", ["(if let (E::A(y) = E::B) { ARR } else { ARR })[0] = VAL;"]),
    ("block-element", ["{ ARR }[0] = VAL;"]),
    ("block-bound-to-var", ["var b = { ARR };", "b[0] = VAL;"]),
    ("whole-array", ["ARR = LIT;"]),
]
AL_SCALARS = {
    "int": ("int", "1", "5"),
    "rec": ("R", "R(1)", "R(9)"),
    "str": ("string", '"a"', '"z"'),
    "fun": ("(int) -> int", "inc", "dec"),
}
AL_SCALAR_PATHS = [
    ("direct", ["KEY = VAL;"], None),
    ("in-closure", ["let g = let func () -> int { KEY = VAL; 0 };", "g();"], None),
    ("in-nested-function", ["func g() -> int { KEY = VAL; 0 };", "g();"], None),
    ("in-listcomp-element", ["let w = [ { KEY = VAL; x } | x in [ 1, 2 ] : int ] : int;"], None),
    ("in-forin-body", ["for (x in [ 0 .. 2 ]) { KEY = VAL };"], None),
    ("in-while-body", ["while (1 > 2) { KEY = VAL; 0 };"], None),
    ("in-match-arm", ["match E::B { E::A(y) -> { KEY = VAL; 0 }; E::B -> 0; };"], None),
    ("in-iflet-branch", ["if let (E::A(y) = E::B) { KEY = VAL; 0 } else { 0 };"], None),
    ("bound-to-var", ["var q = KEY;", "q = VAL;"], None),
    ("passed-to-var-param", ["fv(KEY);"], "int"),
    ("for3-init-and-step", ["for (KEY = 0; KEY < 2; KEY = KEY + 1) { 0 };"], "int"),
]
# constructs whose verdict does not follow the const / var scheme: (name, parameters, declarations, statements,
# verdict).  `rule:` entries pin what the unchanged tree was measured to do for record fields (always
# assignable, also through match / if-let binders): both twins must compile.
AL_SPECIAL = [
    ("range-literal-iterator", "", [], ["for (e in [ 0 .. 3 ]) { e = 5 };"], "reject"),
    ("range-let-iterator", "", ["let rr = [ 0 .. 3 ];"], ["for (e in rr) { e = 5 };"], "reject"),
    ("range-var-iterator", "", ["var rr = [ 0 .. 3 ];"], ["for (e in rr) { e = 5 };"], "reject"),
    ("range-param-iterator", "[f .. t] : range", [], ["for (e in [ f .. t ]) { e = 5 };"], "reject"),
    ("range-iterator-read", "", ["var v0 = 0;"], ["for (e in [ 0 .. 3 ]) { v0 = e };"], "accept"),
    ("range-iterator-in-closure", "", [], ["for (e in [ 0 .. 3 ]) { let g = let func () -> int { e = 5; 0 }; g() };"], "reject"),
    ("range-bound-names", "[f .. t] : range", [], ["f = 5;"], "reject"),
    ("range-bound-names-upper", "[f .. t] : range", [], ["t = 5;"], "reject"),
    ("range-bound-names-read", "[f .. t] : range", [], ["let y = f + t;"], "accept"),
    ("slice-bound-names", "z[f .. t] : int", [], ["f = 5;"], "reject"),
    ("slice-bound-names-read", "z[f .. t] : int", [], ["let y = f + t;"], "accept"),
    ("tuple-element-of-let", "", ["let tp = (1, 2) : (int, int);"], ["tp[0] = 5;"], "reject"),
    ("tuple-element-of-var", "", ["var tp = (1, 2) : (int, int);"], ["tp[0] = 5;"], "accept"),
    ("tuple-element-of-param", "tp : (int, int)", [], ["tp[0] = 5;"], "reject"),
    ("forin-over-literal", "", [], ["for (e in [ 1, 2 ] : int) { e = 5 };"], "reject"),
    ("cond-of-scalars", "", ["let k = 1;"], ["(1 < 2 ? k : k) = 5;"], "reject"),
    ("string-char-let", "", ['let s = "abc";'], ["s[0] = 'x';"], "reject"),
    ("string-char-var", "", ['var s = "abc";'], ["s[0] = 'x';"], "reject"),
    ("string-char-read", "", ['let s = "abc";'], ["let c = s[0];"], "accept"),
    ("call-result-element", "", [], ["garr()[0] = 5;"], "reject"),
    ("call-result-forin", "", [], ["for (e in garr()) { e = 5 };"], "reject"),
    ("call-result-read", "", [], ["let y = garr()[0];"], "accept"),
    ("array-dims-name", "a[D] : int", [], ["D = 5;"], "reject"),
    ("function-name", "", [], ["inc = dec;"], "reject"),
    ("own-function-name", "", [], ["host = host;"], "reject"),
    ("literal", "", [], ["5 = 6;"], "reject"),
    ("enum-value", "", [], ["E::B = E::B;"], "reject"),
    ("match-binder-of-let", "", ["let m = E::A(1);"], ["match m { E::A(x) -> { x = 5; x }; E::B -> 0; };"], "rule:accept"),
    ("match-binder-of-var", "", ["var m = E::A(1);"], ["match m { E::A(x) -> { x = 5; x }; E::B -> 0; };"], "accept"),
    ("match-binder-of-param", "m : E", [], ["match m { E::A(x) -> { x = 5; x }; E::B -> 0; };"], "rule:accept"),
    ("iflet-binder-of-let", "", ["let m = E::A(1);"], ["if let (E::A(x) = m) { x = 5; x } else { 0 };"], "rule:accept"),
    ("iflet-binder-of-var", "", ["var m = E::A(1);"], ["if let (E::A(x) = m) { x = 5; x } else { 0 };"], "accept"),
    ("record-field-of-let", "", ["let r = R(1);"], ["r.x = 5;"], "rule:accept"),
    ("record-field-of-var", "", ["var r = R(1);"], ["r.x = 5;"], "accept"),
    ("record-field-of-param", "r : R", [], ["r.x = 5;"], "rule:accept"),
    ("record-field-of-var-param", "var r : R", [], ["r.x = 5;"], "accept"),
    ("record-array-field-element-of-let", "", ["let r = RA([ 1, 2 ] : int);"], ["r.m[0] = 5;"], "rule:accept"),
    ("record-array-field-forin-of-let", "", ["let r = RA([ 1, 2 ] : int);"], ["for (e in r.m) { e = 5 };"], "rule:accept"),
    ("field-of-let-array-element", "", ["let a = [ R(1), R(2) ] : R;"], ["a[0].x = 5;"], "rule:accept"),
    ("field-of-forin-iterator-of-let-array", "", ["let a = [ R(1), R(2) ] : R;"], ["for (e in a) { e.x = 5 };"], "rule:accept"),
]
AL_HOSTS = ["func", "nested", "lambda"]


def al_subst(stmts, **kw):
    out = []
    for st in stmts:
        st = st.replace("set_EL", "set_" + kw.get("EL", "EL"))
        st = re.sub(r"\b(LIT|ARR|VAL|KEY)\b", lambda m: kw.get(m.group(1), m.group(1)), st)
        out.append(st)
    return out


def gen_alias_family(rng, quick):
    cases = []
    n = [0]

    def add(kind, construct, source, el, host, params, outer, decls, stmts, variant):
        body = [(d, False) for d in decls] + [(st, True) for st in stmts]
        src, l0, l1 = host_program(AL_PRE, host, params, "int", outer, body)
        n[0] += 1
        c = tcase("al%d" % n[0], "al", kind, "AssignConst:" + construct, "%s|%s|%s|%s" % (source, el, host, variant),
                  "reject" if kind == "mutant" else "accept", src, line=l0, msg=AL_MSG,
                  extra={"cell": (construct, source), "construct": construct})
        c["l1"] = l1
        cases.append(c)

    def sources(name, decl_const, decl_var, param_const, param_var):
        """-> [(source, const?, params, outer, decls, hosts)]"""
        return [("let-local", True, "", [], [decl_const], AL_HOSTS), ("var-local", False, "", [], [decl_var], AL_HOSTS),
                ("parameter", True, param_const, [], [], AL_HOSTS), ("var-parameter", False, param_var, [], [], AL_HOSTS),
                ("captured-let", True, "", [decl_const], [], AL_HOSTS[1:]), ("captured-var", False, "", [decl_var], [], AL_HOSTS[1:]),
                ("captured-parameter", True, "", ["func mid(%s) -> int\n    {" % param_const], [], ["mid"]),
                ("captured-var-parameter", False, "", ["func mid(%s) -> int\n    {" % param_var], [], ["mid"])]

    def emit(construct, el, srcs, stmts):
        for (source, const, params, outer, decls, hosts) in srcs:
            for host in hosts:
                if host == "mid":
                    # the binding is a parameter of an enclosing function, the assignment sits in a closure inside it
                    body = [(d, False) for d in decls] + [(st, True) for st in stmts]
                    s = Src()
                    s.add(AL_PRE)
                    s.add("func main() -> int\n{")
                    s.add("    " + outer[0])
                    s.add("        let host = let func () -> int\n        {")
                    l0 = s.next_line()
                    l1 = l0
                    for st in stmts:
                        l1 = s.add("            " + st)
                    s.add("            0\n        };\n        0\n    };\n    0\n}")
                    n[0] += 1
                    c = tcase("al%d" % n[0], "al", "mutant" if const else "base", "AssignConst:" + construct,
                              "%s|%s|closure-in-function|%s" % (source, el, "const" if const else "var"),
                              "reject" if const else "accept", s.text(), line=l0, msg=AL_MSG,
                              extra={"cell": (construct, source), "construct": construct})
                    c["l1"] = l1
                    cases.append(c)
                else:
                    add("mutant" if const else "base", construct, source, el, host, params, outer, decls, stmts,
                        "const" if const else "var")

    for el, (ty, lit, val, lit2) in AL_ELEMS.items():
        srcs = sources("a", "let a = %s;" % lit, "var a = %s;" % lit, "a[D] : %s" % ty, "var a[D] : %s" % ty)
        for pname, stmts in AL_ARRAY_PATHS:
            emit("array:" + pname, el, srcs, al_subst(stmts, ARR="a", VAL=val, EL=el, LIT=lit2))
    for el, (ty, init, val) in AL_SCALARS.items():
        pdecl = "k(int) -> int" if el == "fun" else "k : %s" % ty
        srcs = sources("k", "let k = %s;" % init, "var k = %s;" % init, pdecl, "var " + pdecl)
        for pname, stmts, only in AL_SCALAR_PATHS:
            if only and only != el:
                continue
            emit("scalar:" + pname, el, srcs, al_subst(stmts, KEY="k", VAL=val))
    for name, params, decls, stmts, verdict in AL_SPECIAL:
        for host in AL_HOSTS:
            if name == "own-function-name" and host == "lambda":
                continue
            add("mutant" if verdict == "reject" else "base", name, verdict, "-", host, params, [], decls, stmts, verdict)
    return cases


# ---- (f) wrong number / kinds of arguments through every call syntax ------------------------------------
CS_VALUES = {"int": ["1", "2", "3", "4"], "bool": ["true", "false", "true", "false"], "string": ['"s"', '"t"', '"u"', '"w"']}
CS_WRONG = {"int": ["true", '"s"'], "bool": ["1", '"s"'], "string": ["1", "true"]}
CS_SIGS = {"i": ["int"], "ii": ["int", "int"], "iii": ["int", "int", "int"], "ibs": ["int", "bool", "string"],
           "sib": ["string", "int", "bool"]}
CS_MSG = r"^function call type mismatch|^record create type mismatch|^enum record create type mismatch|type mismatch"


def cs_pre():
    out = ["use calls"]
    for sg, tys in CS_SIGS.items():
        fl = " ".join("p%d : %s;" % (i, t) for i, t in enumerate(tys))
        out.append("record R_%s { %s }" % (sg, fl))
        out.append("record RF_%s { f(%s) -> int; }" % (sg, ", ".join(tys)))
    for sg, tys in CS_SIGS.items():
        fl = " ".join("p%d : %s;" % (i, t) for i, t in enumerate(tys))
        out.append("enum E_%s { A { %s }, B }" % (sg, fl))
    for sg, tys in CS_SIGS.items():
        ps = ", ".join("p%d : %s" % (i, t) for i, t in enumerate(tys))
        out.append("func f_%s(%s) -> int { 0 }" % (sg, ps))
        out.append("func mk_%s() -> (%s) -> int { f_%s }" % (sg, ", ".join(tys), sg))
    return "\n".join(out)


# callee form -> (expression of the callee, declarations it needs in the body, is a constructor, signatures)
def cs_callees(sg):
    tys = CS_SIGS[sg]
    ps = ", ".join("p%d : %s" % (i, t) for i, t in enumerate(tys))
    c = [("named-function", "f_%s" % sg, [], False),
         ("function-value", "g", ["let g = f_%s;" % sg], False),
         ("function-parameter", "h", [], False),
         ("lambda", "let func (%s) -> int { 0 }" % ps, [], False),
         ("record-field", "rf.f", ["let rf = RF_%s(f_%s);" % (sg, sg)], False),
         ("array-element", "fa[0]", ["let fa = [ f_%s, f_%s ] : (%s) -> int;" % (sg, sg, ", ".join(tys))], False),
         ("call-result", "mk_%s()" % sg, [], False),
         ("record-constructor", "R_%s" % sg, [], True),
         ("enum-record-constructor", "E_%s::A" % sg, [], True)]
    if sg == "iii":
        c += [("module-function", "calls.f3", [], False), ("module-record-constructor", "calls.MR", [], True),
              ("module-enum-record-constructor", "calls.ME::A", [], True)]
    if sg == "ibs":
        c += [("module-function", "calls.fm", [], False)]
    return c


def cs_offences(tys, rng):
    """-> [(offence, position, [(type written, text)])]: argument lists that do not fit `tys`"""
    base = [(t, CS_VALUES[t][i]) for i, t in enumerate(tys)]
    n = len(tys)
    out = []
    for i in sorted({0, n // 2, n - 1}):
        pos = "first" if i == 0 else ("last" if i == n - 1 else "middle")
        if n == 1:
            pos = "only"
        out.append(("too-few", pos, base[:i] + base[i + 1:]))
        w = CS_WRONG[tys[i]][rng.randrange(2)]
        wt = "bool" if w in ("true", "false") else ("string" if w.startswith('"') else "int")
        out.append(("wrong-kind", pos, base[:i] + [(wt, w)] + base[i + 1:]))
    out.append(("too-many", "surplus-of-last-kind", base + [(tys[-1], CS_VALUES[tys[-1]][3])]))
    other = [t for t in ("string", "bool", "int") if t != tys[-1]][0]
    out.append(("too-many", "surplus-of-other-kind", base + [(other, CS_VALUES[other][3])]))
    out.append(("too-many", "surplus-first", [(tys[0], CS_VALUES[tys[0]][3])] + base))
    out.append(("too-many", "two-surplus", base + [(tys[-1], CS_VALUES[tys[-1]][3]), (tys[0], CS_VALUES[tys[0]][3])]))
    return base, out


def cs_call(syntax, callee, args, decls):
    """-> (call expression, extra declarations) or None when the syntax cannot express the argument list"""
    tx = [a[1] for a in args]
    if callee.startswith("let func"):
        callee_e = "(" + callee + ")"
    else:
        callee_e = callee
    if syntax == "call":
        return "%s(%s)" % (callee_e, ", ".join(tx)), []
    if syntax == "pipe-scalar":
        if not args:
            return None
        return "%s |> %s(%s)" % (tx[0], callee if callee.startswith("let func") else callee_e, ", ".join(tx[1:])), []
    m = re.match(r"pipe-tuple(-bound)?-(\d)", syntax)
    k = int(m.group(2))
    if len(args) < k:
        return None
    tup = "(%s%s) : (%s)" % (", ".join(tx[:k]), "," if k == 1 else "", ", ".join(a[0] for a in args[:k]))
    rest = ", ".join(tx[k:])
    ce = callee if callee.startswith("let func") else callee_e
    if m.group(1):
        return "tp |> %s(%s)" % (ce, rest), ["let tp = %s;" % tup]
    return "%s |> %s(%s)" % (tup, ce, rest), []


CS_SYNTAXES = ["call", "pipe-scalar", "pipe-tuple-1", "pipe-tuple-2", "pipe-tuple-3", "pipe-tuple-bound-2", "pipe-tuple-4"]


def gen_call_family(rng, quick):
    pre = cs_pre()
    cases = []
    n = [0]

    def add(kind, sg, cname, syntax, offence, pos, expr, decls, hparam):
        body = [(d, False) for d in decls] + [("let w = %s;" % expr, True)]
        host = AL_HOSTS[n[0] % 3] if quick else rng.choice(AL_HOSTS)
        src, l0, l1 = host_program(pre, host, hparam, "int", [], body)
        n[0] += 1
        c = tcase("cs%d" % n[0], "cs", kind, "Args:%s:%s" % (offence, pos), "%s|%s|%s|%s" % (syntax, cname, sg, host),
                  "reject" if kind == "mutant" else "accept", src, line=l0, msg=CS_MSG,
                  extra={"cell": (offence, syntax, cname), "offence": offence, "syntax": syntax})
        c["l1"] = l1
        cases.append(c)

    for sg, tys in CS_SIGS.items():
        base, offs = cs_offences(tys, rng)
        for cname, callee, decls, ctor in cs_callees(sg):
            hparam = "h(%s) -> int" % ", ".join(tys) if cname == "function-parameter" else ""
            for syntax in CS_SYNTAXES:
                if ctor and syntax != "call":
                    continue          # a constructor cannot be the right side of a pipe
                r = cs_call(syntax, callee, base, decls)
                if r is not None and not (syntax.startswith("pipe-tuple") and int(syntax[-1]) > len(tys)):
                    add("base", sg, cname, syntax, "-", "-", r[0], decls + r[1], hparam)
                for offence, pos, args in offs:
                    r = cs_call(syntax, callee, args, decls)
                    if r is None:
                        continue
                    if quick and syntax.startswith("pipe-tuple") and sg in ("ii", "sib") and rng.random() < 0.5:
                        continue
                    add("mutant", sg, cname, syntax, offence, pos, r[0], decls + r[1], hparam)
    return cases


# ---- (g) nested array literals: rows of one depth must have one length ------------------------------------
AR_MSG = r"^array is not well formed|^incorrect types in array|^incorrect dim|^syntax error"


def ar_text(t, leaf):
    if isinstance(t, list):
        return "[ " + ", ".join(ar_text(x, leaf) for x in t) + " ]" if t else "[ ]"
    return leaf(t)


def ar_rect(dims, counter):
    if not dims:
        counter[0] += 1
        return counter[0]
    return [ar_rect(dims[1:], counter) for _ in range(dims[0])]


def ar_rows(t, depth, path=()):
    """paths of the sub-lists at nesting depth `depth` (1 = rows of the outermost list)"""
    if depth == 0:
        return [path]
    out = []
    if isinstance(t, list):
        for i, x in enumerate(t):
            out += ar_rows(x, depth - 1, path + (i,))
    return out


def ar_get(t, path):
    for i in path:
        t = t[i]
    return t


def ar_set(t, path, v):
    import copy
    t = copy.deepcopy(t)
    if not path:
        return v
    cur = t
    for i in path[:-1]:
        cur = cur[i]
    cur[path[-1]] = v
    return t


def ar_mutants(lit, dims, rng):
    """-> [(mutation, position, literal)]: one row made different from its siblings"""
    out = []
    for depth in range(1, len(dims)):
        rows = ar_rows(lit, depth)
        if len(rows) < 2:
            continue
        picks = sorted({0, len(rows) // 2, len(rows) - 1})
        for pi in picks:
            pos = "first" if pi == 0 else ("last" if pi == len(rows) - 1 else "middle")
            pos = "%s-row-of-depth-%d" % (pos, depth)
            row = ar_get(lit, rows[pi])
            if len(row) > 0:
                out.append(("row-empty", pos, ar_set(lit, rows[pi], [])))
                if len(row) > 1:
                    out.append(("row-shorter", pos, ar_set(lit, rows[pi], row[:-1])))
                out.append(("row-longer", pos, ar_set(lit, rows[pi], row + [row[-1]])))
                out.append(("row-deeper", pos, ar_set(lit, rows[pi], [[x] if not isinstance(x, list) else [x] for x in row])))
                if isinstance(row[0], list) and row[0]:
                    out.append(("row-shallower", pos, ar_set(lit, rows[pi], [x[0] for x in row])))
                out.append(("scalar-for-row", pos, ar_set(lit, rows[pi], 77)))
            else:
                out.append(("row-non-empty-among-empty", pos, ar_set(lit, rows[pi], [5] if depth == len(dims) - 1 else [[5]])))
    return out


AR_SINKS = ["let", "var", "discard", "pass", "return", "index", "assign", "record-field", "listcomp-element"]


def ar_statement(text, ndim, sink, leafty):
    """-> (host return type, body [(text, is_site)], tail)"""
    lit = "%s : %s" % (text, leafty)
    dims = ", ".join("_" for _ in range(ndim))
    z = ", ".join("D%d" % i for i in range(ndim))
    zero = ", ".join("0" for _ in range(ndim))
    if sink == "let":
        return "int", [("let w = %s;" % lit, True)], "0"
    if sink == "var":
        return "int", [("var w = %s;" % lit, True)], "0"
    if sink == "discard":
        return "int", [("%s;" % lit, True)], "0"
    if sink == "pass":
        return "int", [("func sink(z[%s] : %s) -> int { 0 };" % (z, leafty), False), ("sink(%s);" % lit, True)], "0"
    if sink == "return":
        return "[%s] : %s" % (dims, leafty), [(lit, True)], None
    if sink == "index":
        return "int", [("let w = (%s)[%s];" % (lit, zero), True)], "0"
    if sink == "assign":
        return "int", [("var w = {[ %s ]} : %s;" % (", ".join("1" for _ in range(ndim)), leafty), False), ("w = %s;" % lit, True)], "0"
    if sink == "record-field":
        return "int", [("let w = RM%d(%s);" % (ndim, lit), True)], "0"
    return "int", [("func sink(z[%s] : %s) -> int { 0 };" % (z, leafty), False),
                   ("let w = [ sink(%s) | x in [ 1, 2 ] : int ] : int;" % lit, True)], "0"


def gen_array_family(rng, quick):
    cases = []
    n = [0]
    pre = "\n".join("record RM%d { m[%s] : int; }" % (k, ", ".join("D%d" % i for i in range(k))) for k in (2, 3, 4))
    leaves = {"int": lambda v: str(v), "string": lambda v: '"s%d"' % v}
    shapes = [(a, b) for a in range(1, 4) for b in range(0, 4)] + \
             [(a, b, c) for a in range(1, 3) for b in range(1, 4) for c in range(0, 3)] + [(2, 2, 2, 2)]

    def add(kind, mutation, pos, lit, ndim, sink, leafty, shape):
        if leafty == "string" and sink == "record-field":
            sink = "let"
        ret, body, tail = ar_statement(ar_text(lit, leaves[leafty]), ndim, sink, leafty)
        host = AL_HOSTS[n[0] % 3]
        src, l0, l1 = host_program(pre, host, "", ret, [], body, tail=tail)
        n[0] += 1
        c = tcase("ar%d" % n[0], "ar", kind, "ArrayLiteral:%s:%s" % (mutation, pos),
                  "%s|%s|%s|%s" % ("x".join(map(str, shape)), sink, leafty, host),
                  "reject" if kind == "mutant" else "accept", src, line=l0, msg=AR_MSG,
                  extra={"cell": (mutation, pos.split("-row-")[0], "%dD" % ndim, sink), "mutation": mutation})
        c["l1"] = l1
        cases.append(c)

    for shape in shapes:
        lit = ar_rect(list(shape), [0])
        ndim = len(shape)
        for sink in (AR_SINKS if not quick else [AR_SINKS[(n[0] + i) % len(AR_SINKS)] for i in range(3)]):
            add("base", "-", "-", lit, ndim, sink, "int" if rng.random() < 0.8 else "string", shape)
        if ndim > 3 and quick:
            muts = ar_mutants(lit, shape, rng)[::3]
        else:
            muts = ar_mutants(lit, shape, rng)
        for mutation, pos, m in muts:
            sinks = AR_SINKS if not quick else [rng.choice(AR_SINKS), "let"]
            for sink in dict.fromkeys(sinks):
                add("mutant", mutation, pos, m, ndim, sink, "int" if rng.random() < 0.8 else "string", shape)
    # arrays OF arrays are not nested literals: rows of different lengths are well typed there
    for rows in ([2, 1], [0, 3], [1, 2, 3]):
        text = "[ " + ", ".join("[ %s ] : int" % ", ".join(str(i) for i in range(r)) for r in rows) + " ]"
        src, l0, l1 = host_program(pre, "func", "", "int", [], [("let w = %s : [_] : int;" % text, True)])
        n[0] += 1
        cases.append(tcase("ar%d" % n[0], "ar", "base", "-", "array-of-arrays|let|int|func", "accept", src, line=l0, msg=AR_MSG,
                           extra={"cell": ("-",), "mutation": "-"}))
    return cases


# ---- (h) same-named types of different modules ---------------------------------------------------
# corpus/C06/lib/modp.nev and modq.nev declare the same names (enum E, enum ER with a record item, record R,
# functions mk / mker / mkr / take / takeer / taker); the program declares them a third time locally.  A
# value of owner X's type used where owner Y's type of the same name is expected is an offence.  (Comparisons and
# arithmetic are not in the matrix: enumerators convert to int there, also between differently named enums.)
MT_OWNERS = [("local", ""), ("modp", "modp."), ("modq", "modq.")]
MT_LOCAL = """use modp
use modq
enum E { A, B, C }
enum ER { A { x : int; }, B }
record R { x : int; }
func mk() -> E { E::A }
func mker() -> ER { ER::A(1) }
func mkr() -> R { R(1) }
func take(e : E) -> int { 1 }
func takeer(e : ER) -> int { 2 }
func taker(r : R) -> int { r.x }"""
MT_MSG = (r"enums are different|^function call type mismatch|^cannot assign different types|^incorrect return type|"
          r"^array is not well formed|^incorrect types in array|^types on conditional expression do not match|"
          r"^cannot compare|^cannot ne |^record create type mismatch|^enum record create type mismatch|"
          r"^cannot find enum|^match guard|^cannot exec arithmetic")
# (construct, kind of type, declarations, statement lines, return type of the host or None) over X. (expected
# owner prefix) and Y. (given owner prefix)
MT_CONSTRUCTS = [
    ("match-item-guards-with-else", "enum", ["let e = X.E::A;"], ["let w = match e { Y.E::A -> 1; Y.E::B -> 2; else -> 3; };"]),
    ("match-item-guards-exhaustive", "enum", ["let e = X.E::A;"], ["let w = match e { Y.E::A -> 1; Y.E::B -> 2; Y.E::C -> 3; };"]),
    ("match-one-foreign-item-guard", "enum", ["let e = X.E::A;"], ["let w = match e { X.E::A -> 1; Y.E::B -> 2; X.E::C -> 3; };"]),
    ("match-one-foreign-item-guard-with-else", "enum", ["let e = X.E::A;"], ["let w = match e { X.E::A -> 1; Y.E::B -> 2; else -> 3; };"]),
    ("match-record-guards-with-else", "enum-record", ["let er = X.ER::A(1);"], ["let w = match er { Y.ER::A(x) -> x; else -> 3; };"]),
    ("match-record-guards-exhaustive", "enum-record", ["let er = X.ER::A(1);"], ["let w = match er { Y.ER::A(x) -> x; Y.ER::B -> 2; };"]),
    ("match-foreign-record-guard-own-item-guard", "enum-record", ["let er = X.ER::A(1);"], ["let w = match er { Y.ER::A(x) -> x; X.ER::B -> 2; };"]),
    ("match-call-result", "enum", [], ["let w = match X.mk() { Y.E::A -> 1; else -> 3; };"]),
    ("iflet-item-guard", "enum", ["let e = X.E::A;"], ["let w = if let (Y.E::A = e) { 1 } else { 0 };"]),
    ("iflet-record-guard", "enum-record", ["let er = X.ER::A(1);"], ["let w = if let (Y.ER::A(x) = er) { x } else { 0 };"]),
    ("argument-enumerator", "enum", [], ["let w = X.take(Y.E::A);"]),
    ("argument-call-result", "enum", [], ["let w = X.take(Y.mk());"]),
    ("argument-enum-record", "enum-record", [], ["let w = X.takeer(Y.ER::A(1));"]),
    ("argument-record", "record", [], ["let w = X.taker(Y.R(1));"]),
    ("argument-record-call-result", "record", [], ["let w = X.taker(Y.mkr());"]),
    ("piped-argument", "enum", [], ["let w = Y.E::A |> X.take();"]),
    ("lambda-argument", "record", [], ["let w = (let func (r : X.R) -> int { r.x })(Y.R(1));"]),
    ("assignment-enum", "enum", ["var v = X.E::A;"], ["v = Y.E::B;"]),
    ("assignment-enum-record", "enum-record", ["var v = X.ER::A(1);"], ["v = Y.ER::B;"]),
    ("assignment-record", "record", ["var v = X.R(1);"], ["v = Y.R(2);"]),
    ("assignment-call-result", "record", ["var v = X.R(0);"], ["v = Y.mkr();"]),
    ("return-enum", "enum", [], ["Y.E::A"], "X.E"),
    ("return-record", "record", [], ["Y.R(1)"], "X.R"),
    ("return-enum-record-call-result", "enum-record", [], ["Y.mker()"], "X.ER"),
    ("array-elements", "enum", [], ["let w = [ X.E::A, Y.E::A ] : X.E;"]),
    ("array-element-type", "record", [], ["let w = [ Y.R(1) ] : X.R;"]),
    ("conditional-branches", "enum", [], ["let w = (1 < 2) ? X.E::A : Y.E::B;"]),
    ("conditional-branches-record", "record", [], ["let w = (1 < 2) ? X.R(1) : Y.R(2);"]),
    ("function-value", "enum", [], ["let w = (let func (f(X.E) -> int) -> int { 0 })(Y.take);"]),
    ("function-value-result", "record", [], ["let w = (let func (f() -> X.R) -> int { 0 })(Y.mkr);"]),
]


def gen_module_family(rng, quick):
    cases = []
    n = [0]
    for con in MT_CONSTRUCTS:
        cname, kind, decls, stmts = con[:4]
        ret = con[4] if len(con) > 4 else None
        for xo, xp in MT_OWNERS:
            for yo, yp in MT_OWNERS:
                def sub(t):
                    return t.replace("X.", xp).replace("Y.", yp)
                body = [(sub(d), False) for d in decls] + [(sub(st), True) for st in stmts]
                host = AL_HOSTS[n[0] % 3]
                src, l0, l1 = host_program(MT_LOCAL, host, "", sub(ret) if ret else "int", [], body, tail=None if ret else "0")
                if ret:
                    l0 -= 2           # `incorrect return type` is reported at the function's own line
                n[0] += 1
                bad = xo != yo
                c = tcase("mt%d" % n[0], "mt", "mutant" if bad else "base", "ModuleType:" + cname,
                          "%s|expected-%s|given-%s|%s" % (kind, xo, yo, host), "reject" if bad else "accept", src,
                          line=l0, msg=MT_MSG, extra={"cell": (cname, "%s<-%s" % (xo, yo), kind), "construct": cname})
                c["l1"] = l1
                cases.append(c)
    return cases


# ---- (i) operators on arrays ----------------------------------------------------------------------------
# Decision rule (front/typecheck.c expr_add_sub_check_type / expr_mul_check_type, measured on the unchanged tree):
#   a + b, a - b   arrays of the SAME numeric element type (int, long, float, double) and the same rank
#   s * a          numeric scalar times numeric array (any pair of kinds: the scalar is converted)
#   a * b          matrix product: both of rank 2 and of the same numeric element type
#   - a            numeric array
#   anything else with an array operand (other element kinds, different kinds, different ranks, array (+) scalar,
#   array * scalar, / and %) is `cannot exec arithmetic operation`
AO_KINDS = [("int", "1"), ("long", "1L"), ("float", "1.0"), ("double", "1.0d"), ("bool", "true"), ("string", '"s"'), ("char", "'c'")]
AO_NUM = {"int", "long", "float", "double"}
AO_MSG = r"^cannot exec arithmetic|^cannot negate|^cannot exec mod|^cannot exec"


def ao_lit(rank, lit):
    return lit if rank == 0 else "[ " + ", ".join([ao_lit(rank - 1, lit)] * 2) + " ]"


def ao_verdict(op, l, r):
    (lr, lk), (rr, rk) = l, r
    if op in ("+", "-"):
        return lr == rr and lr > 0 and lk == rk and lk in AO_NUM
    if op == "*":
        if lr == 0 and rr > 0:
            return lk in AO_NUM and rk in AO_NUM
        return lr == 2 and rr == 2 and lk == rk and lk in AO_NUM
    return False


def ao_class(op, l, r):
    (lr, lk), (rr, rk) = l, r
    if op in ("/", "%"):
        return "division-of-arrays"
    if lr > 0 and rr > 0:
        if lk not in AO_NUM or rk not in AO_NUM:
            return "non-numeric-elements"
        if lk != rk:
            return "element-kinds-differ"
        if lr != rr:
            return "ranks-differ"
        return "vector-or-cube-product"
    if lr == 0:
        return "scalar-op-array" if (lk in AO_NUM and rk in AO_NUM) else "non-numeric-scalar-or-elements"
    return "array-op-scalar"


def gen_arrayop_family(rng, quick):
    decls = []
    operands = []
    for kind, lit in AO_KINDS:
        for rank in (0, 1, 2, 3):
            name = "%s%d" % (kind[0] + kind[1], rank)
            decls.append("var %s = %s%s;" % (name, ao_lit(rank, lit), (" : " + kind) if rank else ""))
            operands.append(((rank, kind), name))
    cases = []
    n = [0]
    sinks = ["let", "discard", "operand", "index", "argument"]

    def add(op, l, ln, r, rn):
        ok = ao_verdict(op, l, r) if r is not None else (l[0] > 0 and l[1] in AO_NUM)
        expr = "%s %s %s" % (ln, op, rn) if r is not None else "-%s" % ln
        sink = sinks[n[0] % len(sinks)]
        rank = (r[0] if (r is not None and l[0] == 0) else l[0])
        if sink == "let":
            st = "let w = %s;" % expr
        elif sink == "discard":
            st = "%s;" % expr
        elif sink == "operand":
            st = "let w = (%s) == (%s);" % (expr, expr) if False else "let w = { %s };" % expr
        elif sink == "index":
            st = "let w = (%s)[%s];" % (expr, ", ".join(["0"] * max(rank, 1)))
            if not ok and rank == 0:
                st = "let w = %s;" % expr
        else:
            st = "let w = idf({ %s; 1 });" % expr
        used = sorted({ln, rn} - {None})
        body = [(d, False) for d in decls if d.split()[1] in used] + [(st, True)]
        src, l0, l1 = host_program("func idf(a : int) -> int { a }", AL_HOSTS[n[0] % 3], "", "int", [], body)
        n[0] += 1
        cls = ao_class(op, l, r) if r is not None else ("negate-non-numeric" if not ok else "-")
        c = tcase("ao%d" % n[0], "ao", "base" if ok else "mutant", "ArrayOperator:%s:%s" % (op if r is not None else "neg", cls),
                  "%s%s|%s|%s" % ("%s:%d" % (l[1], l[0]), (" %s:%d" % (r[1], r[0])) if r is not None else "", sink, AL_HOSTS[(n[0] - 1) % 3]),
                  "accept" if ok else "reject", src, line=l0, msg=AO_MSG,
                  extra={"cell": (op if r is not None else "neg", cls, "%s:%d|%s" % (l[1], l[0], ("%s:%d" % (r[1], r[0])) if r is not None else "-")),
                         "opclass": (op if r is not None else "neg", cls)})
        c["l1"] = l1
        cases.append(c)

    for op in ("+", "-", "*", "/", "%"):
        for l, ln in operands:
            for r, rn in operands:
                if l[0] == 0 and r[0] == 0:
                    continue
                if op in ("/", "%") and (l[1] not in AO_NUM or r[1] not in AO_NUM) and rng.random() < 0.7:
                    continue
                if op == "%" and ("float" in (l[1], r[1]) or "double" in (l[1], r[1])) and rng.random() < 0.5:
                    continue
                add(op, l, ln, r, rn)
    for l, ln in operands:
        if l[0] > 0:
            add("neg", l, ln, None, None)
    return cases


# ---- (j) arms / branches of one expression have different types ------------------------------------------
BR_PRE = """enum E { A, B, C }
enum ER { A { x : int; }, B, C }
record R { x : int; }
func f1(a : int) -> int { a + 1 }
func s_int(z : int) -> int { 0 }
func s_str(z : string) -> int { 0 }
func s_bool(z : bool) -> int { 0 }
func s_rec(z : R) -> int { 0 }
func s_arr(z[D] : int) -> int { 0 }
func s_fun(z(int) -> int) -> int { 0 }
func s_chr(z : char) -> int { 0 }
func s_tup(z : (int, int)) -> int { 0 }
func s_tup2(z : (string, float)) -> int { 0 }
func s_rng([ zf .. zt ] : range) -> int { 0 }
func s_rng2([ zf .. zt, zg .. zu ] : range) -> int { 0 }"""
# kind -> (type text, values, default for a var)
BR_KINDS = {
    "int": ("int", ["1", "2", "3", "4"]),
    "str": ("string", ['"a"', '"b"', '"c"', '"d"']),
    "bool": ("bool", ["true", "false", "(1 < 2)", "true"]),
    "rec": ("R", ["R(1)", "R(2)", "R(3)", "R(4)"]),
    "arr": ("[_] : int", ["[ 1 ] : int", "[ 2, 3 ] : int", "[ 4 ] : int", "[ 5 ] : int"]),
    "fun": ("(int) -> int", ["f1", "let func (q : int) -> int { q }", "f1", "f1"]),
    "chr": ("char", ["'a'", "'b'", "'c'", "'d'"]),
    # tuples of two component lists and ranges of two ranks: same outer kind, different type (fixes eefbe5a, 5390c54)
    "tup": ("(int, int)", ["(1, 2) : (int, int)", "(3, 4) : (int, int)", "(5, 6) : (int, int)", "(7, 8) : (int, int)"]),
    "tup2": ("(string, float)", ['("a", 1.5) : (string, float)', '("b", 2.5) : (string, float)', '("c", 3.5) : (string, float)',
                                 '("d", 4.5) : (string, float)']),
    "rng": ("[..] : range", ["[ 1 .. 2 ]", "[ 3 .. 5 ]", "[ 6 .. 6 ]", "[ 9 .. 7 ]"]),
    "rng2": ("[.., ..] : range", ["[ 1 .. 2, 1 .. 3 ]", "[ 3 .. 5, 0 .. 1 ]", "[ 6 .. 6, 2 .. 2 ]", "[ 9 .. 7, 1 .. 0 ]"]),
}
BR_SIBLING = {"tup": "tup2", "tup2": "tup", "rng": "rng2", "rng2": "rng"}
BR_MSG = (r"^match guards? |^ranges are different|^types on conditional expression do not match|^incorrect return type|^list comprehension|"
          r"^cannot assign different types|^function call type mismatch|^expected param |are different|do not match|"
          r"^array is not well formed|^incorrect types")
# construct -> (expression template over arms $0 $1 $2, number of arms, names of the arm positions)
BR_CONSTRUCTS = [
    ("match-item-guards", "match e { E::A -> $0; E::B -> $1; E::C -> $2; }", ["first", "middle", "last"]),
    ("match-item-guards-else", "match e { E::A -> $0; E::B -> $1; else -> $2; }", ["first", "middle", "else"]),
    ("match-one-guard-else", "match e { E::B -> $0; else -> $1; }", ["first", "else"]),
    ("match-record-guards", "match er { ER::A(x) -> $0; ER::B -> $1; ER::C -> $2; }", ["record-guard", "middle", "last"]),
    ("match-record-guards-else", "match er { ER::B -> $0; ER::A(x) -> $1; else -> $2; }", ["first", "record-guard", "else"]),
    ("match-call-scrutinee-else", "match mk() { E::A -> $0; else -> $1; }", ["first", "else"]),
    ("match-nested-in-else", "match e { E::A -> $0; else -> match e { E::B -> $1; else -> $2; }; }", ["outer", "inner", "inner-else"]),
    ("iflet-item", "if let (E::A = e) { $0 } else { $1 }", ["then", "else"]),
    ("iflet-record", "if let (ER::A(x) = er) { $0 } else { $1 }", ["then", "else"]),
    ("conditional", "(b ? $0 : $1)", ["then", "else"]),
    ("conditional-nested", "(b ? $0 : (b ? $1 : $2))", ["then", "inner-then", "inner-else"]),
    ("if-else", "if (b) { $0 } else { $1 }", ["then", "else"]),
    ("if-elseif-else", "if (b) { $0 } else if (b) { $1 } else { $2 }", ["then", "elseif", "else"]),
    ("match-arm-conditional", "match e { E::A -> (b ? $0 : $1); else -> $2; }", ["arm-then", "arm-else", "else"]),
]
BR_SINKS = ["return", "pass", "assign", "let-pass"]


def gen_branch_family(rng, quick):
    cases = []
    n = [0]
    kinds = list(BR_KINDS)

    def add(kind, cname, pos, tk, uk, sink, body, ret, tail, params=""):
        host = AL_HOSTS[n[0] % 3]
        src, l0, l1 = host_program(BR_PRE + "\nfunc mk() -> E { E::A }", host, params, ret, [], body, tail=tail)
        if sink == "return" and kind == "mutant":
            l0 -= 2               # `incorrect return type` may be reported at the function's line
        n[0] += 1
        c = tcase("br%d" % n[0], "br", kind, "BranchTypes:%s:%s" % (cname, pos), "%s-vs-%s|%s|%s" % (tk, uk, sink, host),
                  "reject" if kind == "mutant" else "accept", src, line=max(l0, 1), msg=BR_MSG,
                  extra={"cell": (cname, pos, sink), "construct": cname, "pos": pos})
        c["l1"] = l1
        cases.append(c)

    locs = [("let e = mk(); let er = ER::A(1); let b = 1 < 2;", False)]

    def use(expr, tk, sink):
        ty = BR_KINDS[tk][0]
        if sink == "return":
            return locs + [(expr, True)], ty, None
        if sink == "pass":
            return locs + [("let u = s_%s(%s);" % (tk, expr), True)], "int", "0"
        if sink == "assign":
            return locs + [("var w = %s;" % BR_KINDS[tk][1][3], False), ("w = %s;" % expr, True)], "int", "0"
        return locs + [("let w = %s;" % expr, True), ("let u = s_%s(w);" % tk, True)], "int", "0"

    for cname, tmpl, positions in BR_CONSTRUCTS:
        for tk in kinds:
            vals = BR_KINDS[tk][1]
            base = tmpl
            for i in range(len(positions)):
                base = base.replace("$%d" % i, vals[i])
            for sink in BR_SINKS:
                body, ret, tail = use(base, tk, sink)
                add("base", cname, "-", tk, tk, sink, body, ret, tail)
            for pi, pos in enumerate(positions):
                others = [k for k in kinds if k != tk]
                picked = others if not quick else rng.sample(others, 3)
                if tk in BR_SIBLING and BR_SIBLING[tk] not in picked:
                    picked = [BR_SIBLING[tk]] + picked[1:]
                for uk in picked:
                    expr = tmpl
                    for i in range(len(positions)):
                        expr = expr.replace("$%d" % i, BR_KINDS[uk][1][i] if i == pi else vals[i])
                    sink = BR_SINKS[n[0] % len(BR_SINKS)]
                    body, ret, tail = use(expr, tk, sink)
                    add("mutant", cname, pos, tk, uk, sink, body, ret, tail)
    # catch clauses against the function's result type, list comprehension element against its declared type
    for tk in kinds:
        ty, vals = BR_KINDS[tk]
        for uk in kinds:
            bad = uk != tk
            uv = BR_KINDS[uk][1]
            for cname, pos, text in (
                    ("catch-clauses", "typed-clause", "func g(q : int) -> %s { %s } catch (division_by_zero) { %s } catch { %s };" % (ty, vals[0], uv[1], vals[2])),
                    ("catch-clauses", "catch-all", "func g(q : int) -> %s { %s } catch (division_by_zero) { %s } catch { %s };" % (ty, vals[0], vals[1], uv[2])),
                    ("catch-clauses", "second-typed-clause", "func g(q : int) -> %s { %s } catch (nil_pointer) { %s } catch (index_out_of_bounds) { %s };" % (ty, vals[0], vals[1], uv[2])),
                    ("catch-clauses", "lambda-clause", "let g = let func (q : int) -> %s { %s } catch (wrong_array_size) { %s };" % (ty, vals[0], uv[1]))):
                body = [(text, True), ("let u = s_%s(g(1));" % tk, False)]
                add("mutant" if bad else "base", cname, pos, tk, uk, "pass", body, "int", "0")
            if tk != "arr":
                for sink in ("pass", "return"):
                    lc = "[ %s | x in [ 1, 2 ] : int ] : %s" % (uv[0], ty)
                    if sink == "pass":
                        body = [("func sk(z[D] : %s) -> int { 0 };" % ty if tk != "fun" else "func sk(z[D] : (int) -> int) -> int { 0 };", False),
                                ("let u = sk(%s);" % lc, True)]
                        add("mutant" if bad else "base", "listcomp-element", "element", tk, uk, sink, body, "int", "0")
                    else:
                        add("mutant" if bad else "base", "listcomp-element", "element", tk, uk, sink, [(lc, True)], "[_] : %s" % ty, None)
    # slice := slice (expr_ass_check_type, slice branch): element type and rank of both sides must agree
    SL = {"int": "[ 1, 2, 3 ] : int", "str": '[ "a", "b", "c" ] : string', "flt": "[ 1.5, 2.5, 3.5 ] : float",
          # (long / double element types: param_cmp has no case for them, so even equal types are rejected -- a
          #  completeness gap of the type checker recorded in DESIGN section 7, not an acceptance of an ill-typed program)
          "int2": "[ [ 1, 2 ], [ 3, 4 ] ] : int"}
    SLI = {"int2": "[0 .. 1, 0 .. 1]"}
    for tk in SL:
        for uk in SL:
            body = [("let xa = %s;" % SL[tk], False), ("let ya = %s;" % SL[uk], False),
                    ("var s = xa%s;" % SLI.get(tk, "[0 .. 1]"), False), ("s = ya%s;" % SLI.get(uk, "[1 .. 2]").replace("[1 .. 2]", "[1 .. 2]"), True)]
            add("mutant" if tk != uk else "base", "slice-assign", "right-hand-side", tk, uk, "assign", body, "int", "0")
    # range := range (expr_ass_check_type, range branch): both sides must have the same number of dimensions
    RG = {"rng1": "[ 0 .. 3 ]", "rng2": "[ 0 .. 2, 0 .. 3 ]", "rng3": "[ 0 .. 1, 0 .. 1, 0 .. 1 ]"}
    for tk in RG:
        for uk in RG:
            body = [("var r = %s;" % RG[tk], False), ("let q = %s;" % RG[uk], False), ("r = q;", True)]
            add("mutant" if tk != uk else "base", "range-assign", "right-hand-side", tk, uk, "assign", body, "int", "0")
            body = [("var r = %s;" % RG[tk], False), ("r = %s;" % RG[uk], True)]
            add("mutant" if tk != uk else "base", "range-assign", "literal-right-hand-side", tk, uk, "assign", body, "int", "0")
    return cases


def run_round3_families(ctx, drv, quick):
    rng = random.Random((ctx.seed << 12) ^ 0xC063)
    fams = [("alias", gen_alias_family(rng, quick),
             lambda c: "accepted:AssignConst:%s" % c["construct"].split(":")[-1]),
            ("call_syntax", gen_call_family(rng, False),       # cheap: the complete grids in both tiers
             lambda c: "accepted:Args:%s:%s" % (c["offence"], c["syntax"])),
            ("array_literal", gen_array_family(rng, False),
             lambda c: "accepted:ArrayLiteral:%s" % c["mutation"]),
            ("module_type", gen_module_family(rng, False),
             lambda c: "accepted:ModuleType:%s" % c["construct"]),
            ("array_operator", gen_arrayop_family(rng, False),
             lambda c: "accepted:ArrayOperator:%s:%s" % c["opclass"]),
            ("branch_types", gen_branch_family(rng, quick),
             lambda c: "accepted:BranchTypes:%s:%s" % (c["construct"], c["pos"]))]
    allcases = [c for _n, cs, _k in fams for c in cs]
    res = compile_all(ctx, drv, allcases, "r3")
    for name, cases, keyfn in fams:
        verdicts, cells, accepted, faults = judge_family(ctx, cases, res, keyfn, name.replace("_", "-") + "-family")
        ctx.count(evaluations=sum(verdicts.values()), nontrivial=len(cells))
        table, table2 = collections.Counter(), collections.Counter()
        for cell, k in cells.items():
            table[" | ".join(str(x) for x in cell[:2])] += k
            if len(cell) > 2:
                table2["%s | %s" % (cell[0], cell[-1])] += k       # offence x callee form / mutation x sink
        ctx.coverage[name + "_family"] = {
            "verdicts": dict(verdicts), "distinct_cells": len(cells),
            "offence_x_construct": dict(sorted(table.items())),
            "offence_x_callee_or_sink": dict(sorted(table2.items())),
            "accepted_cells": dict(sorted(accepted.items())[:40]),
            "compiler_faults": [{k: v for k, v in f.items() if v is not None} for f in faults[:3]], "compiler_fault_count": len(faults)}
        muts = [c for c in cases if c["kind"] == "mutant"]
        for c in muts[3:len(muts):max(1, len(muts) // 2)][:2]:
            ctx.sample({"family": name, "case": c["id"], "offence": c["op"], "construct": c["ctx"], "site_lines": [c["l0"], c["l1"]],
                        "compiler": (res.get(c["id"]) or {}).get("errs", [])[:2],
                        "statement": "\n".join(c["src"].split("\n")[c["l0"] - 1:c["l1"]])}, limit=18)
    ctx.coverage["alias_family"]["rule"] = (
        "assignment to a const binding reached through an alias: (array binding let/var local, parameter with/without var, "
        "captured from the enclosing function or its parameters) x (element, for-in iterator [in closure / nested loop / branch], "
        "list-comprehension iterator, slice for-in / element / bound to var, bound to var, passed to a var parameter, whole array) x "
        "element kind (int, record, string, function); the same for scalar bindings (direct, closure, nested function, "
        "comprehension, for-in / while body, match arm, if-let branch, bound to var, var parameter, 3-part for); range iterators, "
        "range bound names, string characters, call results, array dimension names, function names: always const.  Every const "
        "variant must be rejected with a `cannot assign ...` diagnostic on its lines, every var twin must compile.  `rule:accept` "
        "cells pin the measured rule that record fields (also through match / if-let binders) are assignable whatever the "
        "record's binding is.")
    ctx.coverage["call_syntax_family"]["rule"] = (
        "argument lists that do not fit (too few at first/middle/last, wrong kind at first/middle/last, surplus of the last kind / "
        "another kind / in front / two) x call syntax (call, pipe with scalar left side, pipe with a tuple of 1-4 components "
        "literal or let-bound) x callee (named function, function value, function parameter, lambda, record field, array "
        "element, call result, module function, record / enum-record constructor, module constructors) x 5 signatures; the "
        "fitting list must compile, every other must be rejected with a type-mismatch diagnostic on its line")
    ctx.coverage["module_type_family"]["rule"] = (
        "enum E / enum ER with a record item / record R and functions over them declared three times under the same names (locally, "
        "module modp, module modq); %d constructs (match item / record guards with and without else, one foreign guard, if-let guards, "
        "arguments incl. piped and lambda, assignments, returns, array elements and element type, ?: branches, comparisons, function "
        "values) x expected owner x given owner: owners differ -> must be rejected on the statement's lines, same owner -> must compile"
        % len(MT_CONSTRUCTS))
    ctx.coverage["array_operator_family"]["rule"] = (
        "+ - * / % over every ordered pair of operands (scalar, rank 1, 2, 3 arrays of int, long, float, double, bool, string, char) "
        "with at least one array, and unary minus; accepted exactly: a+-b same numeric kind and rank, numeric scalar * numeric array, "
        "rank-2 * rank-2 of one numeric kind, -numeric array; everything else must be `cannot exec arithmetic ...` on its line")
    ctx.coverage["branch_types_family"]["rule"] = (
        "every multi-branch expression (match with item / record guards, with else, nested, call scrutinee; if-let item / record; ?: "
        "also nested and inside a match arm; if-else, if-elseif-else; catch clauses against the function's result type; list "
        "comprehension element against its declared type) with ONE arm of another kind (int, string, bool, record, array, function, "
        "char) at every arm position incl. the else arm, the value returned / passed / assigned; all arms of one kind must compile")
    ctx.coverage["array_literal_family"]["rule"] = (
        "rectangular nested literals of 2-4 levels (every extent 0..3, all-empty rows included: accepted) and their one-row "
        "mutants (row empty / shorter / longer / deeper / shallower / replaced by a scalar / non-empty among empty, first / middle / "
        "last row of every depth) x sink (let, var, discarded, passed, returned, indexed, assigned, record field, comprehension "
        "element) x element kind; arrays of arrays with rows of different lengths are accepted controls")


def run_corpus(ctx, drv):
    cases = []
    meta = {}
    if os.path.isdir(CORPUS):
        for fn in sorted(os.listdir(CORPUS)):
            if not fn.endswith(".nev"):
                continue
            src = open(os.path.join(CORPUS, fn)).read()
            m = re.match(r"# expect: (accept|reject)(?: line=(\d+))?(?: key=(\S+))?", src)
            if not m:
                continue
            cid = "corpus." + fn[:-4]
            cases.append({"id": cid, "src": src})
            meta[cid] = (m.group(1), int(m.group(2) or 0), m.group(3) or ("corpus:" + fn[:-4]))
    sdir = os.path.join(common.REPO, "sample")
    for fn in sorted(os.listdir(sdir)):
        if fn.endswith(".nev.err"):
            exp = open(os.path.join(sdir, fn)).read()
            m = re.search(r":(\d+): error:", exp)
            nev = os.path.join(sdir, fn[:-4])
            if m and os.path.exists(nev):
                cid = "sample." + fn[:-8]
                cases.append({"id": cid, "src": open(nev).read()})
                meta[cid] = ("reject", int(m.group(1)), "sample:" + fn[:-8])
    res = compile_all(ctx, drv, cases, "corpus")
    n = 0
    for c in cases:
        exp, line, key = meta[c["id"]]
        r = res.get(c["id"])
        if r is None or r["kind"] is None or r["san"]:
            ctx.notes.setdefault("corpus_compiler_faults", []).append(c["id"])
            continue
        n += 1
        if exp == "accept":
            if r["kind"] != "COMPILED":
                ctx.correspondence_broken("corpus-positive-rejected", {"id": c["id"], "errors": r["errs"][:3]})
        else:
            if r["kind"] != "COMPILE_ERROR":
                ctx.violation(key, "ill-typed corpus program accepted by the compiler (%s)" % c["id"],
                              {"case": c["id"], "expected": "COMPILE_ERROR at line %d" % line, "observed": r["kind"],
                               "source": c["src"]})
            elif line and not any(ln == line for (ln, _) in r["errs"]):
                ctx.violation(key if key.startswith("wrong-line:") else "wrong-line:" + key,
                              "diagnostic not at the offending line (%s)" % c["id"],
                              {"case": c["id"], "expected_line": line, "observed": r["errs"][:5], "source": c["src"]})
    return n, len(cases)


def run(ctx):
    ctx.proofs()
    lib = common.repobuild("asan")
    ok, log = common.ocaml_build()
    if not ok and not os.path.exists(RUN):
        raise common.BuildError("ocaml build failed:\n" + log[-3000:])
    if not ok:
        ctx.notes["ocaml_build_warning"] = log[-600:]
    drv = common.cc_driver("nevrun", ["common/nevrun.c"], lib)

    t0 = time.time()
    ncorp, ncorp_all = run_corpus(ctx, drv)
    ctx.notes["corpus_cases"] = ncorp_all
    ctx.count(evaluations=ncorp, nontrivial=ncorp)

    quick = ctx.tier == "quick"
    run_text_families(ctx, drv, quick)
    ctx.notes["text_families_s"] = round(time.time() - t0, 1)
    run_context_family(ctx, drv, quick)
    ctx.notes["context_family_s"] = round(time.time() - t0, 1)
    run_round3_families(ctx, drv, quick)
    ctx.notes["alias_call_array_families_s"] = round(time.time() - t0, 1)
    nprog, kcap, nmatch = (320, 2, 120) if quick else (1600, 3, 500)
    cases_path = os.path.join(ctx.outdir, "cases.jsonl")
    rc, so, se = common.sh([RUN, "gen", str(ctx.seed), str(nprog), str(kcap), str(nmatch), cases_path], timeout=900)
    if rc != 0:
        raise common.BuildError("tc generator failed: " + se[-2000:])
    cases = [json.loads(l) for l in open(cases_path)]
    os.remove(cases_path)
    ctx.notes["generate_s"] = round(time.time() - t0, 1)

    res = compile_all(ctx, drv, cases, "gen")
    stats = collections.Counter()
    per_op = collections.Counter()
    per_ctx = collections.Counter()
    table = collections.Counter()
    verdicts = collections.Counter()
    faults = []
    distinct = set()
    gen_bad = 0
    for c in cases:
        if c["kind"] == "base" and c["model"] != "OK":
            gen_bad += 1          # the generator produced something the model rejects: not a case
            continue
        v = judge(ctx, c, res.get(c["id"]), stats, faults)
        verdicts[v] += 1
        if c["model"] != "OK" and v in ("rejected-ok", "ACCEPTED", "WRONG-LINE", "kind-differs"):
            per_op[c["op"]] += 1
            per_ctx[c["ctx"]] += 1
            table["%s | %s" % (c["op"], c["ctx"])] += 1
            distinct.add((c["op"], c["ctx"], c["model"], c["group"]))
        if v == "rejected-ok" and c["op"] in ("AssignToParam", "WrongArgKind:func-ret", "MatchOmitEnumerator", "UnknownException"):
            ctx.sample({"operator": c["op"], "context": c["ctx"], "model": RULES[int(c["model"][1:])],
                        "site_lines": [c["l0"], c["l1"]], "compiler": res[c["id"]]["errs"][:2],
                        "source_tail": c["src"][-400:]}, limit=5)
    if gen_bad:
        ctx.correspondence_broken("generator-produced-model-rejected-program", {"count": gen_bad})
    ctx.count(evaluations=sum(verdicts.values()), nontrivial=len(distinct))
    ctx.coverage["rule"] = ("one case = one compilation by the tree's compiler of a generated well-typed program or of one "
                            "single-fault mutant of it; non-trivial = distinct (operator, nesting context, model rule, program) "
                            "mutants that reached a verdict")
    ctx.coverage["exhaustive"] = False
    ctx.coverage["verdicts"] = dict(verdicts)
    ctx.coverage["mutants_per_operator"] = dict(sorted(per_op.items()))
    ctx.coverage["mutants_per_context"] = dict(sorted(per_ctx.items()))
    ctx.coverage["operator_x_context"] = dict(sorted(table.items()))
    ctx.coverage["line_attribution"] = dict(stats)
    ctx.coverage["programs"] = verdicts["accepted-ok"]
    ctx.coverage["generator"] = {"programs": nprog, "cap_per_operator_and_context": kcap, "match_templates": nmatch,
                                 "seed": ctx.seed}
    ctx.coverage["skipped"] = {"compiler_fault_or_sanitizer_report (not a C06 matter, see C05)": len(faults),
                               "examples": faults[:3]}
    if faults:
        # keep one reproducer for whoever owns C05
        f0 = faults[0]
        src = next(c["src"] for c in cases if c["id"] == f0["id"])
        with open(os.path.join(ctx.outdir, "compiler_fault_example.nev"), "w") as f:
            f.write(src)
    ctx.notes["compile_s"] = round(time.time() - t0, 1)
