(* The for-in rules of the reference evaluator (Src/Eval.v: EForInRange, EForInArr), as theorems
   (C02: what a loop computes; C08: every iteration binds the loop variable to a cell of its
   own).  No axioms. *)
From Coq Require Import ZArith List Bool Lia Sorted.
From NV Require Import Src.Syntax Src.Eval Src.EvalLemmas Src.EvalProps.
Import ListNotations.
Local Open Scope Z_scope.

(* ---- the iterations of a loop: the cell bound to the loop variable and the store in which the
        body starts, in order --------------------------------------------------------------- *)

Fixpoint forin_trace (ev : nat -> state -> res * state) (n : nat) (s : lsrc) (st : state)
  : list (nat * state) :=
  match n with
  | O => []
  | S n' =>
    match forin_step st s with
    | LsBind c st1 s' =>
      (c, st1) :: match ev c st1 with
                  | (ROk _, st2) => forin_trace ev n' s' st2
                  | _ => []
                  end
    | _ => []
    end
  end.

Definition forin_cells ev n s st : list nat := map fst (forin_trace ev n s st).

(* the value the loop variable has when the body of each iteration starts *)
Definition forin_values ev n s st : list (option cellval) :=
  map (fun p => get_cell (snd p) (fst p)) (forin_trace ev n s st).

Definition is_range (s : lsrc) : Prop := match s with LArr _ _ => False | _ => True end.

(* the body evaluator never removes cells (true of `eval`: store_monotone) *)
Definition ev_grows (ev : nat -> state -> res * state) : Prop :=
  forall c st r st', ev c st = (r, st') -> (length (cells st) <= length (cells st'))%nat.

Lemma eval_body_grows : forall genv k x e body,
  ev_grows (fun c s => eval genv k ((x, c) :: e) s body).
Proof. intros genv k x e body c st r st' H. eapply cells_only_grow; eauto. Qed.

(* ---- one iteration of a range loop -------------------------------------------------------- *)

(* The loop variable of an iteration over a range is bound to a BRAND-NEW cell holding the
   current value; nothing else changes; the loop goes on with the next value. *)
Theorem forin_range_step_fresh_cell : forall st s,
  is_range s ->
  match forin_step st s with
  | LsDone => match s with LUp z zb => zb < z | LDown z zb => z < zb | LArr _ _ => False end
  | LsFault _ => False
  | LsBind c st1 s' =>
    exists z zb, (s = LUp z zb /\ z <= zb /\ s' = LUp (wrap32 (z + 1)) zb \/
                  s = LDown z zb /\ zb <= z /\ s' = LDown (wrap32 (z - 1)) zb) /\
    c = length (cells st) /\ get_cell st c = None /\
    st1 = with_new_cell st (CInt z) /\ get_cell st1 c = Some (CInt z) /\
    (forall c', c' <> c -> get_cell st1 c' = get_cell st c')
  end.
Proof.
  intros st [z zb|z zb|ca i] Hr; try contradiction; cbn [forin_step].
  - destruct (Z.leb_spec z zb); [|lia]. exists z, zb. split; [left; auto|].
    unfold get_cell, with_new_cell; simpl. repeat split; auto.
    + apply nth_error_None; lia.
    + rewrite nth_error_app2, Nat.sub_diag by lia. reflexivity.
    + intros c' Hc. destruct (Nat.lt_ge_cases c' (length (cells st))) as [Hlt|Hge].
      * apply nth_error_app1; auto.
      * transitivity (@None cellval); [|symmetry]; apply nth_error_None; auto.
        rewrite app_length; simpl; lia.
  - destruct (Z.leb_spec zb z); [|lia]. exists z, zb. split; [right; auto|].
    unfold get_cell, with_new_cell; simpl. repeat split; auto.
    + apply nth_error_None; lia.
    + rewrite nth_error_app2, Nat.sub_diag by lia. reflexivity.
    + intros c' Hc. destruct (Nat.lt_ge_cases c' (length (cells st))) as [Hlt|Hge].
      * apply nth_error_app1; auto.
      * transitivity (@None cellval); [|symmetry]; apply nth_error_None; auto.
        rewrite app_length; simpl; lia.
Qed.

Lemma forin_step_range_next : forall st s c st1 s', is_range s ->
  forin_step st s = LsBind c st1 s' ->
  is_range s' /\ c = length (cells st) /\ length (cells st1) = S (length (cells st)).
Proof.
  intros st s c st1 s' Hr H. pose proof (forin_range_step_fresh_cell st s Hr) as G.
  rewrite H in G. destruct G as [z [zb [[[-> [_ ->]]|[-> [_ ->]]] [-> [_ [-> _]]]]]]; simpl;
    rewrite app_length; simpl; repeat split; lia.
Qed.

(* ---- distinct iterations, distinct cells --------------------------------------------------- *)

Lemma forin_cells_bound : forall ev, ev_grows ev -> forall n s st, is_range s ->
  Forall (fun c => (length (cells st) <= c)%nat) (forin_cells ev n s st) /\
  StronglySorted lt (forin_cells ev n s st).
Proof.
  intros ev Hg. unfold forin_cells.
  induction n as [|n IH]; intros s st Hr; simpl; [split; constructor|].
  destruct (forin_step st s) as [|rf|c st1 s'] eqn:Es; simpl;
    [split; constructor|split; constructor|].
  destruct (forin_step_range_next _ _ _ _ _ Hr Es) as [Hr' [-> Hl]].
  assert (Hone : forall l : list nat, l = [] ->
            (Forall (fun c => (length (cells st) <= c)%nat) (length (cells st) :: l) /\ StronglySorted lt (length (cells st) :: l))).
  { intros l ->. split; repeat constructor. }
  destruct (ev (length (cells st)) st1) as [[c2| | |] st2] eqn:E2; simpl;
    try (apply Hone; reflexivity).
  pose proof (Hg _ _ _ _ E2) as Hle. destruct (IH s' st2 Hr') as [Hb Hs].
  split; constructor; auto.
  - eapply Forall_impl; [|exact Hb]. simpl; intros; lia.
  - eapply Forall_impl; [|exact Hb]. simpl; intros; lia.
Qed.

(* The cells bound to the loop variable in the iterations of a range loop are pairwise
   different (strictly increasing), and none of them existed when the loop started. *)
Theorem forin_range_cells_distinct : forall genv k x e body n s st, is_range s ->
  let cs := forin_cells (fun c st' => eval genv k ((x, c) :: e) st' body) n s st in
  StronglySorted lt cs /\ NoDup cs /\ Forall (fun c => get_cell st c = None) cs.
Proof.
  intros genv k x e body n s st Hr cs.
  destruct (forin_cells_bound _ (eval_body_grows genv k x e body) n s st Hr) as [Hb Hs].
  fold cs in Hb, Hs. split; [exact Hs|]. split.
  - clear Hb. induction Hs as [|a l Hs IH Ha]; constructor; auto.
    intros Hin. rewrite Forall_forall in Ha. specialize (Ha _ Hin). lia.
  - eapply Forall_impl; [|exact Hb]. intros c Hc. apply nth_error_None. exact Hc.
Qed.

(* ---- what a closure made in an iteration sees ---------------------------------------------- *)

(* A function value created in the body of an iteration whose loop variable is bound to cell c
   stores the environment of THAT iteration; whenever it is called later -- in any store, with
   any arguments, during or after the loop -- the name of the loop variable denotes cell c
   (unless a parameter of the function has the same name). *)
Theorem forin_closure_reads_own_cell : forall genv k x c e st fd,
  eval genv (S k) ((x, c) :: e) st (ELambda fd) =
    (ROk (length (cells st)), with_new_cell st (CFun fd ((x, c) :: e))) /\
  forall k' cs penv st',
    bind_params (fd_params fd) cs = Some penv ->
    (forall p, In p (fd_params fd) -> fst (fst p) <> x) ->
    eval genv (S k') (penv ++ (x, c) :: e) st' (EVar x) = (ROk c, st').
Proof.
  intros genv k x c e st fd. split; [apply lambda_captures_env|].
  intros k' cs penv st' Hb Hn.
  eapply closure_var_denotes_captured_cell; eauto. simpl. rewrite N.eqb_refl. reflexivity.
Qed.

(* ---- the values and the number of iterations ------------------------------------------------ *)

Definition int32 (z : Z) : Prop := -2147483648 <= z <= 2147483647.

Lemma wrap32_id : forall z, int32 z -> wrap32 z = z.
Proof. unfold int32, wrap32. intros z H. rewrite Z.mod_small by lia. lia. Qed.

(* a, a+1, .., b   when a < b;   a, a-1, .., b   otherwise *)
Definition range_values (za zb : Z) : list Z :=
  if za <? zb then map (fun i => za + Z.of_nat i) (seq 0 (Z.to_nat (zb - za + 1)))
  else map (fun i => za - Z.of_nat i) (seq 0 (Z.to_nat (za - zb + 1))).

Lemma range_values_length : forall za zb,
  length (range_values za zb) = Z.to_nat (Z.abs (zb - za) + 1).
Proof.
  intros. unfold range_values. destruct (Z.ltb_spec za zb); rewrite map_length, seq_length; f_equal; lia.
Qed.

Lemma up_values : forall ev m n z zb st c st', Z.to_nat (zb - z + 1) = m ->
  int32 z -> zb < 2147483647 -> z <= zb + 1 ->
  forin_loop ev n (LUp z zb) st = (ROk c, st') ->
  forin_values ev n (LUp z zb) st =
  map (fun i => Some (CInt (z + Z.of_nat i))) (seq 0 m).
Proof.
  unfold forin_values.
  intros ev. induction m as [|m IH]; intros n z zb st c st' Hm Hz Hb Hzb H;
    (destruct n as [|n]; [rewrite forin_loop_O in H; discriminate|]);
    rewrite forin_loop_S in H; cbn [forin_trace forin_step] in *.
  - destruct (Z.leb_spec z zb); [lia|]. reflexivity.
  - destruct (Z.leb_spec z zb); [|lia].
    destruct (ev (length (cells st)) (snd (alloc st (CInt z)))) as [[c2| | |] st2] eqn:E2;
      simpl in E2; simpl in H; rewrite E2 in H; try discriminate.
    simpl. rewrite E2. f_equal.
    + unfold get_cell; simpl. rewrite nth_error_app2, Nat.sub_diag by lia. simpl.
      rewrite Z.add_0_r. reflexivity.
    + assert (Ew : wrap32 (z + 1) = z + 1) by (apply wrap32_id; unfold int32 in *; lia).
      rewrite Ew in *. rewrite (IH n (z + 1) zb st2 c st'); auto; try (unfold int32 in *; lia).
      rewrite <- seq_shift, map_map. apply map_ext. intros i. do 2 f_equal. lia.
Qed.

Lemma down_values : forall ev m n z zb st c st', Z.to_nat (z - zb + 1) = m ->
  int32 z -> -2147483648 < zb -> zb <= z + 1 ->
  forin_loop ev n (LDown z zb) st = (ROk c, st') ->
  forin_values ev n (LDown z zb) st =
  map (fun i => Some (CInt (z - Z.of_nat i))) (seq 0 m).
Proof.
  unfold forin_values.
  intros ev. induction m as [|m IH]; intros n z zb st c st' Hm Hz Hb Hzb H;
    (destruct n as [|n]; [rewrite forin_loop_O in H; discriminate|]);
    rewrite forin_loop_S in H; cbn [forin_trace forin_step] in *.
  - destruct (Z.leb_spec zb z); [lia|]. reflexivity.
  - destruct (Z.leb_spec zb z); [|lia].
    destruct (ev (length (cells st)) (snd (alloc st (CInt z)))) as [[c2| | |] st2] eqn:E2;
      simpl in E2; simpl in H; rewrite E2 in H; try discriminate.
    simpl. rewrite E2. f_equal.
    + unfold get_cell; simpl. rewrite nth_error_app2, Nat.sub_diag by lia. simpl.
      rewrite Z.sub_0_r. reflexivity.
    + assert (Ew : wrap32 (z - 1) = z - 1) by (apply wrap32_id; unfold int32 in *; lia).
      rewrite Ew in *. rewrite (IH n (z - 1) zb st2 c st'); auto; try (unfold int32 in *; lia).
      rewrite <- seq_shift, map_map. apply map_ext. intros i. do 2 f_equal. lia.
Qed.

(* A range loop that runs to its end executes its body |b - a| + 1 times, with the loop
   variable holding a, a+-1, .., b in this order -- provided the last value is not the extreme
   int of its direction (the hidden counter is stepped once more after the last iteration and
   wraps around there: such a loop does not terminate, in the model as in the implementation). *)
Theorem forin_range_values : forall ev n za zb st c st',
  int32 za -> int32 zb ->
  (za < zb -> zb < 2147483647) -> (zb <= za -> -2147483648 < zb) ->
  forin_loop ev n (range_src za zb) st = (ROk c, st') ->
  forin_values ev n (range_src za zb) st = map (fun z => Some (CInt z)) (range_values za zb) /\
  length (forin_cells ev n (range_src za zb) st) = Z.to_nat (Z.abs (zb - za) + 1).
Proof.
  intros ev n za zb st c st' Ha Hb Hup Hdn H.
  assert (V : forin_values ev n (range_src za zb) st = map (fun z => Some (CInt z)) (range_values za zb)).
  { unfold range_src, range_values in *. destruct (Z.ltb_spec za zb).
    - rewrite (up_values ev _ n za zb st c st' eq_refl); auto; try lia. now rewrite map_map.
    - rewrite (down_values ev _ n za zb st c st' eq_refl); auto; try lia. now rewrite map_map. }
  split; [exact V|].
  unfold forin_cells. rewrite map_length.
  unfold forin_values in V. apply (f_equal (@length _)) in V. rewrite !map_length in V.
  rewrite V. apply range_values_length.
Qed.

(* ---- the bounds are evaluated once ---------------------------------------------------------- *)

Section Rules.
Variable genv : env.

(* The upper bound first, then the lower bound, each exactly once; from then on the loop only
   knows the two VALUES: whatever the body does to the cells the bounds were read from (or to
   the variables mentioned in a and b) cannot change the iterations. *)
Theorem forin_range_bounds_once : forall k e st x a b body cb st1 ca st2 za zb,
  eval genv k e st b = (ROk cb, st1) ->
  eval genv k e st1 a = (ROk ca, st2) ->
  get_cell st2 ca = Some (CInt za) -> get_cell st2 cb = Some (CInt zb) ->
  eval genv (S k) e st (EForInRange x a b body) =
  forin_loop (fun c s => eval genv k ((x, c) :: e) s body) k (range_src za zb) st2.
Proof.
  intros. rewrite eval_EForInRange, H, H0. unfold get_int. rewrite H1, H2. reflexivity.
Qed.

(* a bound that does not yield a value ends the loop before anything else is evaluated *)
Theorem forin_range_bound_raises : forall k e st x a b body r st1, (forall c, r <> ROk c) ->
  eval genv k e st b = (r, st1) ->
  eval genv (S k) e st (EForInRange x a b body) = (r, st1).
Proof.
  intros k e st x a b body r st1 Hr H. rewrite eval_EForInRange, H.
  destruct r; auto. exfalso; eapply Hr; eauto.
Qed.

(* one iteration, unfolded: fresh cell, body, next value *)
Theorem forin_range_iteration : forall ev n z zb st, z <= zb ->
  forin_loop ev (S n) (LUp z zb) st =
  match ev (length (cells st)) (with_new_cell st (CInt z)) with
  | (ROk _, st2) => forin_loop ev n (LUp (wrap32 (z + 1)) zb) st2
  | r => r
  end.
Proof.
  intros. rewrite forin_loop_S. cbn [forin_step]. destruct (Z.leb_spec z zb); [reflexivity|lia].
Qed.

Theorem forin_range_iteration_down : forall ev n z zb st, zb <= z ->
  forin_loop ev (S n) (LDown z zb) st =
  match ev (length (cells st)) (with_new_cell st (CInt z)) with
  | (ROk _, st2) => forin_loop ev n (LDown (wrap32 (z - 1)) zb) st2
  | r => r
  end.
Proof.
  intros. rewrite forin_loop_S. cbn [forin_step]. destruct (Z.leb_spec zb z); [reflexivity|lia].
Qed.

(* the value of a finished loop is a fresh int 0 *)
Theorem forin_done_value : forall ev n s st, forin_step st s = LsDone ->
  forin_loop ev (S n) s st = (ROk (length (cells st)), with_new_cell st (CInt 0)).
Proof. intros. rewrite forin_loop_S, H. reflexivity. Qed.

(* a fault in the body leaves the loop at once *)
Theorem forin_body_raises : forall ev n s st c st1 s' r st2, (forall c', r <> ROk c') ->
  forin_step st s = LsBind c st1 s' -> ev c st1 = (r, st2) ->
  forin_loop ev (S n) s st = (r, st2).
Proof.
  intros ev n s st c st1 s' r st2 Hr Hs He. rewrite forin_loop_S, Hs, He.
  destruct r; auto. exfalso; eapply Hr; eauto.
Qed.

(* ---- arrays: the loop variable IS the element cell ------------------------------------------ *)

(* Iteration i over an array binds the loop variable to the i-th element cell of the array that
   the iterable's cell refers to AT THAT MOMENT: no new cell, no copy (an assignment to the loop
   variable is an assignment to the element; a closure capturing it shares the element). *)
Theorem forin_arr_step_shares_cell : forall st ca i ar elems,
  get_cell st ca = Some (CArr (Some ar)) -> nth_error (arrs st) ar = Some elems ->
  forin_step st (LArr ca i) =
  match nth_error elems i with
  | Some c => LsBind c st (LArr ca (S i))
  | None => LsDone
  end.
Proof. intros st ca i ar elems H1 H2. cbn [forin_step]. rewrite H1, H2. reflexivity. Qed.

Theorem forin_arr_iterable_once : forall k e st x arr body ca st1,
  eval genv k e st arr = (ROk ca, st1) ->
  eval genv (S k) e st (EForInArr x arr body) =
  forin_loop (fun c s => eval genv k ((x, c) :: e) s body) k (LArr ca 0) st1.
Proof. intros. rewrite eval_EForInArr, H. reflexivity. Qed.

End Rules.
