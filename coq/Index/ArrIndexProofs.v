(* Proofs about array addressing (models: Index/ArrIndex.v, notions: Index/IndexSpec.v).
   No axioms. *)
From Coq Require Import ZArith List Bool Lia.
From NV Require Import Index.W32 Index.ArrIndex Index.IndexSpec.
Import ListNotations.
Local Open Scope Z_scope.

(* ---- 32-bit helpers -------------------------------------------------------------------- *)
Lemma u32_small z : 0 <= z < two32 -> u32 z = z.
Proof. intros H. unfold u32. apply Z.mod_small. exact H. Qed.

Lemma u32_range z : 0 <= u32 z < two32.
Proof. unfold u32. apply Z.mod_pos_bound. reflexivity. Qed.

Lemma s32_small z : is_s32 z -> s32 z = z.
Proof.
  unfold is_s32, s32. intros H. rewrite Z.mod_small; [lia|].
  unfold two31, two32 in *. lia.
Qed.

Lemma u32_neg z : - two31 <= z < 0 -> u32 z = z + two32.
Proof.
  intros H. unfold u32. symmetry.
  apply (Z.mod_unique_pos z two32 (-1) (z + two32)); unfold two31, two32 in *; lia.
Qed.

Lemma u32_s32_lt31 z : is_s32 z -> u32 z < two31 -> 0 <= z /\ u32 z = z.
Proof.
  intros Hs Hu. unfold is_s32 in Hs.
  destruct (Z_lt_le_dec z 0) as [Hneg|Hpos].
  - rewrite u32_neg in Hu by lia. unfold two31, two32 in *. lia.
  - split; [exact Hpos|]. apply u32_small. unfold two31, two32 in *. lia.
Qed.

(* ---- products --------------------------------------------------------------------------- *)
Lemma prodZ_pos l : Forall (fun n => 0 < n) l -> 0 < prodZ l.
Proof. induction 1; cbn; [lia|]. apply Z.mul_pos_pos; assumption. Qed.

Lemma in_range_length : forall exts idx, in_range exts idx -> length idx = length exts.
Proof.
  induction exts as [|n ns IH]; destruct idx as [|i is]; cbn; intros H; try tauto.
  destruct H as [_ H]. f_equal. apply IH. exact H.
Qed.

Lemma in_range_exts_pos : forall exts idx, in_range exts idx -> Forall (fun n => 0 < n) exts.
Proof.
  induction exts as [|n ns IH]; destruct idx as [|i is]; cbn; intros H; try tauto.
  - constructor.
  - destruct H as [Hi H]. constructor; [lia|]. eapply IH; eauto.
Qed.

Lemma in_range_idx_nonneg : forall exts idx, in_range exts idx -> Forall (fun i => 0 <= i) idx.
Proof.
  induction exts as [|n ns IH]; destruct idx as [|i is]; cbn; intros H; try tauto.
  - constructor.
  - destruct H as [Hi H]. constructor; [lia|]. eapply IH; eauto.
Qed.

Lemma row_major_bound : forall exts idx,
  in_range exts idx -> 0 <= row_major exts idx < prodZ exts.
Proof.
  induction exts as [|n ns IH]; destruct idx as [|i is]; cbn; intros H; try tauto; [lia|].
  destruct H as [Hi H]. specialize (IH is H).
  assert (0 < prodZ ns) by (apply prodZ_pos; eapply in_range_exts_pos; eauto).
  nia.
Qed.

Lemma row_major_injective : forall exts idx1 idx2,
  in_range exts idx1 -> in_range exts idx2 ->
  row_major exts idx1 = row_major exts idx2 -> idx1 = idx2.
Proof.
  induction exts as [|n ns IH]; destruct idx1 as [|i1 is1]; destruct idx2 as [|i2 is2];
    cbn; intros H1 H2 E; try tauto.
  destruct H1 as [Hi1 H1]. destruct H2 as [Hi2 H2].
  pose proof (row_major_bound ns is1 H1) as B1.
  pose proof (row_major_bound ns is2 H2) as B2.
  assert (Ei : i1 = i2) by nia.
  subst i2. f_equal. apply IH; try assumption. lia.
Qed.

(* ---- row-major numbering is a bijection tuples <-> [0, product) ---------------------------- *)
(* the index tuple of element number a: the inverse of row_major *)
Fixpoint unrank (exts : list Z) (a : Z) : list Z :=
  match exts with
  | [] => []
  | _ :: ns => a / prodZ ns :: unrank ns (a mod prodZ ns)
  end.

Lemma unrank_spec : forall exts a,
  Forall (fun n => 0 < n) exts -> 0 <= a < prodZ exts ->
  in_range exts (unrank exts a) /\ row_major exts (unrank exts a) = a.
Proof.
  induction exts as [|n ns IH]; cbn; intros a H Ha.
  - split; [exact I|lia].
  - inversion H as [|? ? Hn Hns]; subst.
    pose proof (prodZ_pos ns Hns) as Hp.
    pose proof (Z.mod_pos_bound a (prodZ ns) Hp) as Hm.
    destruct (IH (a mod prodZ ns) Hns Hm) as [IR RM].
    split.
    + split; [|exact IR]. split.
      * apply Z.div_pos; lia.
      * apply Z.div_lt_upper_bound; lia.
    + rewrite RM. pose proof (Z.div_mod a (prodZ ns)). lia.
Qed.

Lemma row_major_surjective : forall exts a,
  Forall (fun n => 0 < n) exts -> 0 <= a < prodZ exts ->
  exists idx, in_range exts idx /\ row_major exts idx = a.
Proof. intros exts a H Ha. exists (unrank exts a). apply unrank_spec; assumption. Qed.

Lemma in_range_pos : forall exts idx, in_range exts idx -> Forall (fun n => 0 < n) exts.
Proof.
  induction exts as [|n ns IH]; destruct idx as [|i is]; cbn; intros H; try tauto; constructor.
  - lia.
  - apply (IH is); tauto.
Qed.

Lemma unrank_row_major : forall exts idx,
  in_range exts idx -> unrank exts (row_major exts idx) = idx.
Proof.
  intros exts idx H.
  pose proof (in_range_pos _ _ H) as Hp.
  pose proof (row_major_bound exts idx H) as B.
  destruct (unrank_spec exts (row_major exts idx) Hp B) as [IR RM].
  apply (row_major_injective exts); assumption.
Qed.

(* row-major order is the lexicographic order of the tuples (the last index varies fastest) *)
Lemma row_major_lex : forall exts idx1 idx2,
  in_range exts idx1 -> in_range exts idx2 ->
  lex_lt idx1 idx2 -> row_major exts idx1 < row_major exts idx2.
Proof.
  induction exts as [|n ns IH]; destruct idx1 as [|i1 is1]; destruct idx2 as [|i2 is2];
    cbn; intros H1 H2 L; try tauto.
  destruct H1 as [Hi1 H1]. destruct H2 as [Hi2 H2].
  pose proof (row_major_bound ns is1 H1) as B1.
  pose proof (row_major_bound ns is2 H2) as B2.
  destruct L as [L|[E L]].
  - nia.
  - subst i2. specialize (IH is1 is2 H1 H2 L). lia.
Qed.

(* ---- object_arr_dim_mult ---------------------------------------------------------------- *)
(* the dimension vector a correct implementation would build: (n_k, prod_{j>k} n_j) *)
Fixpoint spec_dv (exts : list Z) : dimv :=
  match exts with
  | [] => []
  | n :: t => (n, prodZ t) :: spec_dv t
  end.

Lemma prod_wrap_exact : forall exts e,
  Forall (fun n => 0 < n) exts -> 0 <= e -> e * prodZ exts < two32 ->
  prod_wrap e exts = e * prodZ exts.
Proof.
  induction exts as [|n t IH]; intros e Hp He Hb; cbn in *; [lia|].
  inversion Hp as [|? ? Hn Ht]; subst.
  pose proof (prodZ_pos t Ht) as Hpt.
  assert (Hen : 0 <= e * n < two32) by nia.
  rewrite u32_small by exact Hen.
  rewrite IH; try assumption; try lia.
Qed.

Lemma mults_exact : forall exts,
  Forall (fun n => 0 < n) exts -> mults (prodZ exts) exts = spec_dv exts.
Proof.
  induction exts as [|n t IH]; intros Hp; cbn; [reflexivity|].
  inversion Hp as [|? ? Hn Ht]; subst.
  destruct (n =? 0) eqn:E; [apply Z.eqb_eq in E; lia|].
  rewrite Z.mul_comm, Z.div_mul by lia.
  f_equal. apply IH. exact Ht.
Qed.

Lemma mults_fst : forall exts e, map fst (mults e exts) = exts.
Proof.
  induction exts as [|n t IH]; intros e; cbn; [reflexivity|].
  destruct (n =? 0); cbn; f_equal; apply IH.
Qed.

Lemma spec_dv_fst : forall exts, map fst (spec_dv exts) = exts.
Proof. induction exts; cbn; congruence. Qed.

Lemma dim_mult_exact : forall exts,
  Forall (fun n => 0 < n) exts -> prodZ exts < two32 ->
  dim_mult exts = (spec_dv exts, prodZ exts).
Proof.
  intros exts Hp Hb. unfold dim_mult.
  rewrite prod_wrap_exact by (try assumption; lia).
  rewrite Z.mul_1_l. rewrite mults_exact by assumption. reflexivity.
Qed.

(* ---- object_arr_dim_addr ---------------------------------------------------------------- *)
Lemma dim_addr_loop_in_range : forall exts idx m acc,
  in_range exts idx -> 0 <= acc -> acc + row_major exts idx < two32 ->
  dim_addr_loop m acc (spec_dv exts) idx = (acc + row_major exts idx, -1).
Proof.
  induction exts as [|n ns IH]; destruct idx as [|i is]; cbn; intros m acc H Ha Hb; try tauto.
  - f_equal. lia.
  - destruct H as [Hi H].
    destruct (n <=? i) eqn:E; [apply Z.leb_le in E; lia|].
    pose proof (row_major_bound ns is H) as B.
    assert (0 < prodZ ns) by (apply prodZ_pos; eapply in_range_exts_pos; eauto).
    rewrite u32_small by nia.
    rewrite IH; try assumption; try nia.
    f_equal. lia.
Qed.

Theorem dim_addr_row_major : forall exts idx,
  prodZ exts < two32 -> in_range exts idx ->
  snd (dim_mult exts) = prodZ exts /\
  dim_addr (fst (dim_mult exts)) idx = (row_major exts idx, -1) /\
  0 <= row_major exts idx < snd (dim_mult exts).
Proof.
  intros exts idx Hb H.
  pose proof (in_range_exts_pos exts idx H) as Hp.
  pose proof (row_major_bound exts idx H) as B.
  rewrite dim_mult_exact by assumption. cbn [fst snd].
  split; [reflexivity|]. split; [|exact B].
  unfold dim_addr. rewrite dim_addr_loop_in_range; try assumption; try lia.
  reflexivity.
Qed.

(* first dimension whose index is not below the extent is reported, nothing is computed *)
Lemma dim_addr_loop_oob : forall k dv addr m acc,
  (k < length dv)%nat -> length addr = length dv ->
  (forall j, (j < k)%nat -> nthZ addr j < fst (nth j dv (0, 0))) ->
  fst (nth k dv (0, 0)) <= nthZ addr k ->
  dim_addr_loop m acc dv addr = (0, m + Z.of_nat k).
Proof.
  induction k as [|k IH]; intros dv addr m acc Hk Hlen Hbelow Hoob;
    destruct dv as [|[n mu] dv]; destruct addr as [|i addr]; cbn in Hk, Hlen; try lia; try discriminate.
  - cbn in Hoob. cbn [dim_addr_loop]. unfold nthZ in Hoob. cbn in Hoob.
    destruct (n <=? i) eqn:E; [f_equal; lia | apply Z.leb_gt in E; lia].
  - cbn [dim_addr_loop].
    pose proof (Hbelow 0%nat ltac:(lia)) as H0. unfold nthZ in H0. cbn in H0.
    destruct (n <=? i) eqn:E; [apply Z.leb_le in E; lia|].
    rewrite (IH dv addr (m + 1) (u32 (acc + mu * i))); try lia.
    + f_equal. lia.
    + intros j Hj. specialize (Hbelow (S j) ltac:(lia)). exact Hbelow.
    + exact Hoob.
Qed.

Theorem dim_addr_oob : forall dv addr k,
  (k < length dv)%nat -> length addr = length dv ->
  (forall j, (j < k)%nat -> nthZ addr j < fst (nth j dv (0, 0))) ->
  fst (nth k dv (0, 0)) <= nthZ addr k ->
  dim_addr dv addr = (0, Z.of_nat k).
Proof.
  intros dv addr k H1 H2 H3 H4. unfold dim_addr.
  rewrite (dim_addr_loop_oob k dv addr 0 0); auto.
Qed.

(* a tuple that is not in range (all components non-negative) always hits the guard *)
Lemma dim_addr_loop_not_in_range : forall dv addr m acc,
  length addr = length dv -> Forall (fun i => 0 <= i) addr ->
  ~ in_range (map fst dv) addr ->
  exists k, dim_addr_loop m acc dv addr = (0, m + Z.of_nat k) /\ (k < length dv)%nat /\
            fst (nth k dv (0, 0)) <= nthZ addr k.
Proof.
  induction dv as [|[n mu] dv IH]; destruct addr as [|i addr]; cbn [length map];
    intros m acc Hlen Hnn Hnot; try discriminate.
  - exfalso. apply Hnot. exact I.
  - inversion Hnn as [|? ? Hi Hnn']; subst.
    cbn [dim_addr_loop].
    destruct (n <=? i) eqn:E.
    + apply Z.leb_le in E. exists 0%nat. cbn. unfold nthZ. cbn. repeat split; try lia. f_equal; lia.
    + apply Z.leb_gt in E.
      destruct (IH addr (m + 1) (u32 (acc + mu * i))) as [k [Hk1 [Hk2 Hk3]]]; try assumption.
      * cbn in Hlen. lia.
      * intros Hin. apply Hnot. cbn. split; [lia|exact Hin].
      * exists (S k). rewrite Hk1. unfold nthZ in *. cbn [nth length].
        split; [f_equal; lia|]. split; [lia|exact Hk3].
Qed.

(* ---- the handler (ARRAY_DEREF / ARRAYREF_DEREF) ------------------------------------------ *)
Lemma pop_indices_nonneg : forall idx d,
  Forall (fun i => 0 <= i < two31) idx -> pop_indices d idx = inr idx.
Proof.
  induction idx as [|i t IH]; intros d H; cbn; [reflexivity|].
  inversion H as [|? ? Hi Ht]; subst.
  destruct (i <? 0) eqn:E; [apply Z.ltb_lt in E; lia|].
  rewrite IH by assumption. rewrite u32_small; [reflexivity|]. unfold two31, two32 in *. lia.
Qed.

Lemma pop_indices_negative : forall idx d,
  ~ Forall (fun i => 0 <= i) idx ->
  exists k, pop_indices d idx = inl (d + Z.of_nat k) /\ (k < length idx)%nat /\ nthZ idx k < 0.
Proof.
  induction idx as [|i t IH]; intros d H; cbn.
  - exfalso. apply H. constructor.
  - destruct (i <? 0) eqn:E.
    + apply Z.ltb_lt in E. exists 0%nat. unfold nthZ. cbn. repeat split; try lia. f_equal; lia.
    + apply Z.ltb_ge in E.
      destruct (IH (d + 1)) as [k [Hk1 [Hk2 Hk3]]].
      * intros Hall. apply H. constructor; assumption.
      * exists (S k). rewrite Hk1. unfold nthZ in *. cbn. repeat split; try lia. f_equal; lia.
Qed.

Lemma Forall_nonneg_dec : forall idx : list Z,
  Forall (fun i => 0 <= i) idx \/ ~ Forall (fun i => 0 <= i) idx.
Proof.
  induction idx as [|i t [IH|IH]].
  - left. constructor.
  - destruct (Z_le_dec 0 i); [left; constructor; assumption | right; intros H; inversion H; lia].
  - right. intros H. inversion H. tauto.
Qed.

Lemma mk_arr_fst exts : map fst (mk_arr exts) = exts.
Proof. unfold mk_arr, dim_mult. cbn. apply mults_fst. Qed.

Lemma nth_map_fst (dv : dimv) k : fst (nth k dv (0, 0)) = nth k (map fst dv) 0.
Proof. symmetry. exact (map_nth fst dv (0, 0) k). Qed.

Theorem array_deref_spec : forall exts idx,
  Forall is_s32 idx -> length idx = length exts ->
  (* in range in every dimension: exactly the row-major element, inside value[] *)
  (prodZ exts < two32 -> in_range exts idx ->
     array_deref (Some (mk_arr exts)) idx = Ok (row_major exts idx) /\
     0 <= row_major exts idx < arr_elems exts) /\
  (* negative or >= extent in some dimension: index_out_of_bounds, naming such a dimension;
     no element is read *)
  (~ in_range exts idx ->
     exists d, array_deref (Some (mk_arr exts)) idx = Exc (IndexOob (Z.of_nat d)) /\
               (d < length exts)%nat /\ (nthZ idx d < 0 \/ nthZ exts d <= nthZ idx d)).
Proof.
  intros exts idx Hs Hlen. split.
  - intros Hb Hin.
    destruct (dim_addr_row_major exts idx Hb Hin) as [He [Ha Hr]].
    unfold array_deref.
    rewrite pop_indices_nonneg.
    + unfold mk_arr, arr_elems. rewrite Ha. cbn. split; [reflexivity|exact Hr].
    + pose proof (in_range_idx_nonneg exts idx Hin) as Hnn.
      rewrite Forall_forall in *. intros x Hx. specialize (Hs x Hx). specialize (Hnn x Hx).
      unfold is_s32 in Hs. lia.
  - intros Hnot. unfold array_deref.
    destruct (Forall_nonneg_dec idx) as [Hnn|Hneg].
    + rewrite pop_indices_nonneg.
      * destruct (dim_addr_loop_not_in_range (mk_arr exts) idx 0 0) as [k [Hk1 [Hk2 Hk3]]].
        { rewrite Hlen. rewrite <- (mk_arr_fst exts) at 1. now rewrite map_length. }
        { exact Hnn. }
        { rewrite mk_arr_fst. exact Hnot. }
        unfold dim_addr. rewrite Hk1. cbn [Z.add].
        destruct (0 <=? Z.of_nat k) eqn:E; [|apply Z.leb_gt in E; lia].
        exists k. split; [reflexivity|]. split.
        { rewrite <- (mk_arr_fst exts), map_length. exact Hk2. }
        { right. rewrite nth_map_fst, mk_arr_fst in Hk3. exact Hk3. }
      * rewrite Forall_forall in *. intros x Hx. specialize (Hs x Hx). specialize (Hnn x Hx).
        unfold is_s32 in Hs. lia.
    + destruct (pop_indices_negative idx 0 Hneg) as [k [Hk1 [Hk2 Hk3]]].
      rewrite Hk1. cbn [Z.add]. exists k. split; [reflexivity|]. split; [lia|]. left. exact Hk3.
Qed.

(* nil array: nil_pointer (after the negative-index guard, as in the C) *)
Lemma array_deref_nil : forall idx, Forall (fun i => 0 <= i < two31) idx ->
  array_deref None idx = Exc NilPointer.
Proof. intros idx H. unfold array_deref. now rewrite pop_indices_nonneg. Qed.

(* ---- object_arr_dim_fits and the MK_ARRAY handler (fix 1f9996a) ------------------------------ *)
Lemma dim_fits_loop_spec : forall exts e,
  Forall (fun n => 0 < n) exts -> 0 < e < two32 ->
  (dim_fits_loop e exts = true <-> e * prodZ exts < two32).
Proof.
  induction exts as [|n t IH]; intros e Hp He; cbn [dim_fits_loop prodZ].
  - split; [intros _; lia | reflexivity].
  - inversion Hp as [|? ? Hn Ht]; subst. pose proof (prodZ_pos t Ht) as Hpt. cbv zeta.
    destruct (Z.ltb_spec UINT_MAX (e * n)) as [Hbig|Hfit]; unfold UINT_MAX in *.
    + split; [discriminate|]. unfold two32 in *. nia.
    + rewrite IH by (try assumption; unfold two32 in *; nia).
      rewrite Z.mul_assoc. tauto.
Qed.

Lemma dim_fits_spec : forall exts, Forall (fun n => 0 < n) exts ->
  (dim_fits exts = true <-> prodZ exts < two32).
Proof.
  intros exts Hp. unfold dim_fits. rewrite dim_fits_loop_spec by (try assumption; unfold two32; lia).
  rewrite Z.mul_1_l. tauto.
Qed.

Lemma pop_extents_inr : forall exts d ns,
  Forall is_s32 exts -> pop_extents d exts = inr ns -> ns = exts /\ Forall (fun n => 0 < n) exts.
Proof.
  induction exts as [|e t IH]; intros d ns Hs H; cbn [pop_extents] in H.
  - inversion H. split; [reflexivity|constructor].
  - inversion Hs as [|? ? He Ht]; subst.
    destruct (Z.leb_spec e 0); [discriminate|].
    destruct (pop_extents (d + 1) t) as [d'|l] eqn:E; [discriminate|].
    inversion H; subst. destruct (IH (d + 1) l Ht E) as [-> Hp].
    rewrite u32_small by (unfold is_s32, two31, two32 in *; lia).
    split; [reflexivity|constructor; assumption].
Qed.

Lemma pop_extents_pos : forall exts d,
  Forall is_s32 exts -> Forall (fun n => 0 < n) exts -> pop_extents d exts = inr exts.
Proof.
  induction exts as [|e t IH]; intros d Hs Hp; cbn [pop_extents]; [reflexivity|].
  inversion Hs as [|? ? He Ht]; subst. inversion Hp as [|? ? He' Ht']; subst.
  destruct (Z.leb_spec e 0); [lia|]. rewrite IH by assumption.
  rewrite u32_small by (unfold is_s32, two31, two32 in *; lia). reflexivity.
Qed.

Lemma pop_extents_nonpos : forall exts d,
  ~ Forall (fun n => 0 < n) exts ->
  exists k, pop_extents d exts = inl (d + Z.of_nat k) /\ (k < length exts)%nat /\ nthZ exts k <= 0.
Proof.
  induction exts as [|e t IH]; intros d H; cbn [pop_extents].
  - exfalso. apply H. constructor.
  - destruct (Z.leb_spec e 0).
    + exists 0%nat. unfold nthZ. cbn. repeat split; try lia. f_equal; lia.
    + destruct (IH (d + 1)) as [k [Hk1 [Hk2 Hk3]]].
      * intros Hall. apply H. constructor; assumption.
      * exists (S k). rewrite Hk1. unfold nthZ in *. cbn. repeat split; try lia. f_equal; lia.
Qed.

Lemma Forall_pos_dec : forall l : list Z,
  Forall (fun n => 0 < n) l \/ ~ Forall (fun n => 0 < n) l.
Proof.
  induction l as [|n t [IH|IH]].
  - left. constructor.
  - destruct (Z_lt_dec 0 n); [left; constructor; assumption | right; intros H; inversion H; lia].
  - right. intros H. inversion H. tauto.
Qed.

(* MK_ARRAY: a non-positive extent raises index_out_of_bounds naming it; positive extents whose
   product does not fit unsigned int raise wrong_array_size; otherwise the array has exactly
   prod(extents) cells and the row-major multipliers *)
Theorem mk_array_spec : forall exts, Forall is_s32 exts ->
  (Forall (fun n => 0 < n) exts -> prodZ exts < two32 ->
     mk_array exts = Ok (mk_arr exts, prodZ exts) /\ arr_elems exts = prodZ exts) /\
  (Forall (fun n => 0 < n) exts -> two32 <= prodZ exts -> mk_array exts = Exc WrongArraySize) /\
  (~ Forall (fun n => 0 < n) exts ->
     exists d, mk_array exts = Exc (IndexOob (Z.of_nat d)) /\ (d < length exts)%nat /\ nthZ exts d <= 0) /\
  (forall dv elems, mk_array exts = Ok (dv, elems) ->
     Forall (fun n => 0 < n) exts /\ prodZ exts < two32 /\ dv = mk_arr exts /\ elems = prodZ exts).
Proof.
  intros exts Hs. unfold mk_array. split; [|split; [|split]].
  - intros Hp Hb. rewrite pop_extents_pos by assumption.
    assert (F : dim_fits exts = true) by (apply dim_fits_spec; assumption).
    rewrite F. cbn [negb]. unfold mk_arr, arr_elems. rewrite dim_mult_exact by assumption.
    split; reflexivity.
  - intros Hp Hb. rewrite pop_extents_pos by assumption.
    destruct (dim_fits exts) eqn:F; [|reflexivity].
    apply dim_fits_spec in F; [lia|assumption].
  - intros Hn. destruct (pop_extents_nonpos exts 0 Hn) as [k [Hk1 [Hk2 Hk3]]].
    rewrite Hk1. cbn [Z.add]. eauto.
  - intros dv elems H.
    destruct (pop_extents 0 exts) as [d|ns] eqn:E; [discriminate|].
    destruct (pop_extents_inr exts 0 ns Hs E) as [-> Hp].
    destruct (dim_fits exts) eqn:F; cbn [negb] in H; [|discriminate].
    apply dim_fits_spec in F; [|assumption].
    rewrite dim_mult_exact in H by assumption. inversion H; subst.
    unfold mk_arr. rewrite dim_mult_exact by assumption. repeat split; assumption.
Qed.

(* the property without any hypothesis on the product: for an array the VM has created, an
   in-range index tuple denotes the row-major element, which lies inside value[]; any other
   tuple raises index_out_of_bounds *)
Theorem mk_array_deref_spec : forall exts dv elems idx,
  Forall is_s32 exts -> Forall is_s32 idx -> length idx = length exts ->
  mk_array exts = Ok (dv, elems) ->
  (in_range exts idx ->
     array_deref (Some dv) idx = Ok (row_major exts idx) /\ 0 <= row_major exts idx < elems) /\
  (~ in_range exts idx ->
     exists d, array_deref (Some dv) idx = Exc (IndexOob (Z.of_nat d)) /\
               (d < length exts)%nat /\ (nthZ idx d < 0 \/ nthZ exts d <= nthZ idx d)).
Proof.
  intros exts dv elems idx Hse Hsi Hlen Hmk.
  destruct (mk_array_spec exts Hse) as [_ [_ [_ Hinv]]].
  destruct (Hinv dv elems Hmk) as [Hp [Hb [-> ->]]].
  destruct (array_deref_spec exts idx Hsi Hlen) as [A1 A2]. split.
  - intros Hin. destruct (A1 Hb Hin) as [Q1 Q2]. split; [exact Q1|].
    apply row_major_bound. exact Hin.
  - exact A2.
Qed.

(* regression (finding array_deref:extent-product-overflow, fixed by 1f9996a): {[65536, 65536]}
   got 0 cells and no value[] while index [1, 1] passed the guards (former witness of
   dim_mult_overflow_refuted); 3 * 1431655766 wrapped to 2 cells with all multipliers 0;
   the largest products that fit are still created with their exact number of cells *)
Theorem dim_mult_overflow_regression :
  mk_array [65536; 65536] = Exc WrongArraySize /\
  mk_array [65537; 65537] = Exc WrongArraySize /\
  mk_array [3; 1431655766] = Exc WrongArraySize /\
  mk_array [46341; 46341; 2] = Exc WrongArraySize /\
  mk_array [2147483647; 3] = Exc WrongArraySize /\
  mk_array [2147483647; 2147483647; 2147483647] = Exc WrongArraySize /\
  mk_array [65535; 65537] = Ok ([(65535, 65537); (65537, 1)], 4294967295) /\
  mk_array [65536; 65535] = Ok ([(65536, 65535); (65535, 1)], 4294901760) /\
  mk_array [2; 0] = Exc (IndexOob 1) /\ mk_array [-1; 65536] = Exc (IndexOob 0).
Proof. repeat split; vm_compute; reflexivity. Qed.

(* ---- hypotheses are satisfiable ----------------------------------------------------------- *)
Example dim_addr_row_major_example :
  prodZ [2; 3; 4] < two32 /\ in_range [2; 3; 4] [1; 2; 3] /\
  dim_addr (fst (dim_mult [2; 3; 4])) [1; 2; 3] = (23, -1) /\ row_major [2; 3; 4] [1; 2; 3] = 23.
Proof. cbn [in_range]. repeat split; try (vm_compute; congruence); lia. Qed.

Example dim_addr_oob_example :
  dim_addr (fst (dim_mult [2; 3; 4])) [1; 3; 4] = (0, 1) /\
  array_deref (Some (mk_arr [2; 3; 4])) [1; -1; 9] = Exc (IndexOob 1) /\
  ~ in_range [2; 3; 4] [1; -1; 9].
Proof. repeat split; try (vm_compute; reflexivity). cbn. lia. Qed.
