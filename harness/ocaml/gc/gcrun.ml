(* Correspondence harness for the collector model (engine E1, property C09).

   run gen <seed> <ncases> <outdir> [profile [first]]
        writes <outdir>/case<i>.hist (operation history) and <outdir>/case<i>.exp (the
        model's canonical dump after gc_new and after every operation), i = first ..
        first+ncases-1 (first defaults to 0); prints the input distribution as JSON on
        stdout.  profile: mixed (default) | tiny | boundary | long
        (boundary: case i uses heap size 2 + i mod 299, i.e. every size 2..300 in turn)
   run replay <hist> [<outhist>]
        re-runs an existing history through the model: operations the model rejects are
        dropped, the "!oom" markers are recomputed; prints the dump of the normalised
        history on stdout and (optionally) writes the normalised history to <outhist>.

   The generator drives the *extracted* model (Gcmodel.step) to decide which operations are
   valid: an operation is emitted only when step answers SOk or SOom.

   History format (one operation per line, tokens separated by one blank):
     size <n>
     alloc sc <kind> <len> <p>...          kind in 1..6,8 ; kind 6 (STRING): payload = bytes
     alloc strref <r> | alloc vecref <r> | alloc arrref <r>
     alloc vec <len> <e>...
     alloc arr <ndims> <d>... <nelems> <e>...
     alloc func <vec> <ip>
     setvec <a> <i> <v> | setarr <a> <i> <v> | append <a> <v>
     setref str|vec|arr <a> <r>
     setfuncvec <a> <v>
     setsc <kind> <a> <len> <p>...
     collect <nslots> <slot>...           slot = a<addr> | i<num> | s<num> | u<num>
     run <gv> <nslots> <slot>...
   an alloc line ends with " !oom" when the model answers SOom for it. *)

module M = Gcmodel

(* ---------- conversions ------------------------------------------------------------ *)
let rec pos_of_int i =
  if i <= 1 then M.XH
  else if i land 1 = 0 then M.XO (pos_of_int (i lsr 1))
  else M.XI (pos_of_int (i lsr 1))
let n_of_int i = if i <= 0 then M.N0 else M.Npos (pos_of_int i)
let rec int_of_pos = function
  | M.XH -> 1
  | M.XO p -> 2 * int_of_pos p
  | M.XI p -> 2 * int_of_pos p + 1
let int_of_n = function M.N0 -> 0 | M.Npos p -> int_of_pos p
let nl l = List.map n_of_int l
let il l = List.map int_of_n l

(* ---------- PRNG: splitmix64 ------------------------------------------------------- *)
type rng = { mutable s : int64 }
let rng_make seed = { s = Int64.of_int seed }
let next64 r =
  r.s <- Int64.add r.s 0x9E3779B97F4A7C15L;
  let z = r.s in
  let z = Int64.mul (Int64.logxor z (Int64.shift_right_logical z 30)) 0xBF58476D1CE4E5B9L in
  let z = Int64.mul (Int64.logxor z (Int64.shift_right_logical z 27)) 0x94D049BB133111EBL in
  Int64.logxor z (Int64.shift_right_logical z 31)
(* uniform in [0, n) *)
let rint r n =
  if n <= 1 then 0
  else Int64.to_int (Int64.rem (Int64.shift_right_logical (next64 r) 2) (Int64.of_int n))
let rrange r lo hi = lo + rint r (hi - lo + 1)
let chance r pct = rint r 100 < pct
let pick r (a : 'a array) = a.(rint r (Array.length a))
let pickl r l = List.nth l (rint r (List.length l))
let shuffle r (a : 'a array) =
  for i = Array.length a - 1 downto 1 do
    let j = rint r (i + 1) in
    let t = a.(i) in a.(i) <- a.(j); a.(j) <- t
  done

(* ---------- history operations ----------------------------------------------------- *)
type hobj =
  | Sc of int * int list
  | StrRef of int
  | Vec of int list
  | VecRef of int
  | Arr of int list * int list
  | ArrRef of int
  | Func of int * int

type slot = SA of int | SI of int | SS of int | SU of int

type hop =
  | HAlloc of hobj
  | HSetVec of int * int * int
  | HSetArr of int * int * int
  | HAppend of int * int
  | HSetRef of int * int * int        (* 0 = str, 1 = vec, 2 = arr ; holder ; target *)
  | HSetFuncVec of int * int
  | HSetSc of int * int * int list    (* kind ; holder ; payload *)
  | HCollect of slot list
  | HRun of int * slot list

let obj_to_model = function
  | Sc (k, p) -> M.OScalar (n_of_int k, nl p)
  | StrRef r -> M.OStrRef (n_of_int r)
  | Vec l -> M.OVec (nl l)
  | VecRef r -> M.OVecRef (n_of_int r)
  | Arr (d, l) -> M.OArr (nl d, nl l)
  | ArrRef r -> M.OArrRef (n_of_int r)
  | Func (v, ip) -> M.OFunc (n_of_int v, n_of_int ip)

let obj_of_model = function
  | M.OScalar (k, p) -> Sc (int_of_n k, il p)
  | M.OStrRef r -> StrRef (int_of_n r)
  | M.OVec l -> Vec (il l)
  | M.OVecRef r -> VecRef (int_of_n r)
  | M.OArr (d, l) -> Arr (il d, il l)
  | M.OArrRef r -> ArrRef (int_of_n r)
  | M.OFunc (v, ip) -> Func (int_of_n v, int_of_n ip)

let roots_of_slots sl =
  List.fold_right (fun s acc -> match s with SA a -> a :: acc | _ -> acc) sl []

let ints l = String.concat " " (List.map string_of_int l)
(* dump lines: every item is preceded by one blank (no trailing blanks, empty lists print nothing) *)
let sp l = String.concat "" (List.map (fun i -> " " ^ string_of_int i) l)
let cnt_ints l = if l = [] then string_of_int 0 else Printf.sprintf "%d %s" (List.length l) (ints l)

let render_obj = function
  | Sc (k, p) -> Printf.sprintf "sc %d %s" k (cnt_ints p)
  | StrRef r -> Printf.sprintf "strref %d" r
  | Vec l -> Printf.sprintf "vec %s" (cnt_ints l)
  | VecRef r -> Printf.sprintf "vecref %d" r
  | Arr (d, l) -> Printf.sprintf "arr %s %s" (cnt_ints d) (cnt_ints l)
  | ArrRef r -> Printf.sprintf "arrref %d" r
  | Func (v, ip) -> Printf.sprintf "func %d %d" v ip

let render_slot = function
  | SA a -> Printf.sprintf "a%d" a
  | SI a -> Printf.sprintf "i%d" a
  | SS a -> Printf.sprintf "s%d" a
  | SU a -> Printf.sprintf "u%d" a
let render_slots sl =
  if sl = [] then "0"
  else Printf.sprintf "%d %s" (List.length sl) (String.concat " " (List.map render_slot sl))

let refname = [| "str"; "vec"; "arr" |]

let render = function
  | HAlloc o -> "alloc " ^ render_obj o
  | HSetVec (a, i, v) -> Printf.sprintf "setvec %d %d %d" a i v
  | HSetArr (a, i, v) -> Printf.sprintf "setarr %d %d %d" a i v
  | HAppend (a, v) -> Printf.sprintf "append %d %d" a v
  | HSetRef (w, a, r) -> Printf.sprintf "setref %s %d %d" refname.(w) a r
  | HSetFuncVec (a, v) -> Printf.sprintf "setfuncvec %d %d" a v
  | HSetSc (k, a, p) -> Printf.sprintf "setsc %d %d %s" k a (cnt_ints p)
  | HCollect sl -> "collect " ^ render_slots sl
  | HRun (gv, sl) -> Printf.sprintf "run %d %s" gv (render_slots sl)

(* ---------- applying an operation to the model ------------------------------------- *)
type verdict = VOk of M.gc * int | VOom | VReject of string

let valid_kind k = (k >= 1 && k <= 6) || k = 8

let prod l = List.fold_left (fun a b -> a * b) 1 l

(* things the model does not look at but the C API depends on *)
let precheck (g : M.gc) (h : hop) : string option =
  let obj_at a = M.tget g.M.g_obj (n_of_int a) in
  match h with
  | HAlloc (Sc (k, p)) ->
    if not (valid_kind k) then Some "scalar kind"
    else if k <> 6 && List.length p <> 1 then Some "scalar payload length"
    else if k = 6 && List.exists (fun c -> c < 1 || c > 255) p then Some "string byte"
    else None
  | HAlloc (Arr (d, l)) ->
    if d = [] then Some "array without dimension"
    else if prod d <> List.length l then Some "array dims/elements mismatch"
    else None
  | HSetRef (w, a, _) ->
    (match obj_at a, w with
     | Some (M.OStrRef _), 0 | Some (M.OVecRef _), 1 | Some (M.OArrRef _), 2 -> None
     | _ -> Some "setref holder kind")
  | HSetSc (k, a, p) ->
    (match obj_at a with
     | Some (M.OScalar (k', _)) when int_of_n k' = k ->
       if k <> 6 && List.length p <> 1 then Some "scalar payload length"
       else if k = 6 && List.exists (fun c -> c < 1 || c > 255) p then Some "string byte"
       else None
     | _ -> Some "setsc holder kind")
  | _ -> None

let to_model = function
  | HAlloc o -> M.OpAlloc (obj_to_model o)
  | HSetVec (a, i, v) -> M.OpSetVec (n_of_int a, n_of_int i, n_of_int v)
  | HSetArr (a, i, v) -> M.OpSetArr (n_of_int a, n_of_int i, n_of_int v)
  | HAppend (a, v) -> M.OpAppend (n_of_int a, n_of_int v)
  | HSetRef (_, a, r) -> M.OpSetRef (n_of_int a, n_of_int r)
  | HSetFuncVec (a, v) -> M.OpSetFuncVec (n_of_int a, n_of_int v)
  | HSetSc (_, a, p) -> M.OpSetScalar (n_of_int a, nl p)
  | HCollect sl -> M.OpCollect (nl (roots_of_slots sl))
  | HRun (gv, sl) -> M.OpRun (nl (roots_of_slots sl), n_of_int gv)

let apply (g : M.gc) (h : hop) : verdict =
  match precheck g h with
  | Some why -> VReject why
  | None ->
    match M.step g (to_model h) with
    | M.SOk (g', r) -> VOk (g', int_of_n r)
    | M.SOom -> VOom
    | M.SReject -> VReject "reject"
    | M.SFuel -> VReject "fuel"
    | M.SBad -> VReject "bad"

(* ---------- canonical dump --------------------------------------------------------- *)
type snap = {
  size : int;
  objs : hobj option array;      (* index = cell *)
  cur : int list;                (* current allocated-list, in order *)
  nfree : int;                   (* size - 1 - number of cells holding an object *)
}

let take_snap (g : M.gc) : snap =
  let size = int_of_n g.M.g_size in
  let objs = Array.make size None in
  let na = ref 0 in
  for i = 0 to size - 1 do
    match M.tget g.M.g_obj (n_of_int i) with
    | Some o -> objs.(i) <- Some (obj_of_model o); if i > 0 then incr na
    | None -> ()
  done;
  { size; objs; cur = il (M.cur_list g); nfree = size - 1 - !na }

let dump_obj b i o =
  let p = Printf.bprintf in
  match o with
  | Sc (k, pl) -> p b "c %d sc %d :%s\n" i k (sp pl)
  | StrRef r -> p b "c %d strref %d\n" i r
  | Vec l -> p b "c %d vec %d :%s\n" i (List.length l) (sp l)
  | VecRef r -> p b "c %d vecref %d\n" i r
  | Arr (d, l) -> p b "c %d arr %d%s :%s\n" i (List.length d) (sp d) (sp l)
  | ArrRef r -> p b "c %d arrref %d\n" i r
  | Func (v, ip) -> p b "c %d func %d %d\n" i v ip

(* head: "@ <index> <op text>" ; res: the line describing the result *)
let dump (b : Buffer.t) (g : M.gc) (s : snap) (idx : int) (text : string) (res : string) =
  let p = Printf.bprintf in
  p b "@ %d %s\n%s\n" idx text res;
  (match M.free_list g with
   | Some l -> p b "free %d :%s\n" (int_of_n g.M.g_free) (sp (il l))
   | None -> p b "free %d : !overrun\n" (int_of_n g.M.g_free));
  p b "w %d\n" (if g.M.g_w then 1 else 0);
  let l0 = il g.M.g_l0 and l1 = il g.M.g_l1 in
  p b "L0 %d :%s\n" (List.length l0) (sp l0);
  p b "L1 %d :%s\n" (List.length l1) (sp l1);
  let marks = ref [] in
  for i = s.size - 1 downto 0 do
    if M.tget g.M.g_mark (n_of_int i) then marks := i :: !marks
  done;
  p b "marks :%s\n" (sp !marks);
  Array.iteri (fun i o -> match o with Some o -> dump_obj b i o | None -> ()) s.objs

(* ---------- parsing a history file ------------------------------------------------- *)
exception Bad_format of string
let bad fmt = Printf.ksprintf (fun s -> raise (Bad_format s)) fmt

let max_num = 1 lsl 53

let parse_int lineno tok =
  let ok = String.length tok > 0 && String.length tok <= 16 &&
           (let r = ref true in String.iter (fun c -> if c < '0' || c > '9' then r := false) tok; !r) in
  if not ok then bad "line %d: not a number: %S" lineno tok;
  let v = int_of_string tok in
  if v > max_num then bad "line %d: number too large: %S" lineno tok;
  v

let parse_line lineno (line : string) : hop * bool =
  let toks = List.filter (fun s -> s <> "") (String.split_on_char ' ' (String.trim line)) in
  let toks, oom =
    match List.rev toks with
    | "!oom" :: rest -> List.rev rest, true
    | _ -> toks, false in
  let num = parse_int lineno in
  (* take a counted list <n> <x1> ... <xn> *)
  let counted toks =
    match toks with
    | [] -> bad "line %d: missing count" lineno
    | c :: rest ->
      let c = num c in
      if c > 100000 then bad "line %d: count too large" lineno;
      let rec go k acc rest =
        if k = 0 then List.rev acc, rest
        else match rest with
          | [] -> bad "line %d: too few items" lineno
          | x :: r -> go (k - 1) (x :: acc) r in
      go c [] rest in
  let nums l = List.map num l in
  let slot tok =
    if String.length tok < 2 then bad "line %d: bad slot %S" lineno tok;
    let v = num (String.sub tok 1 (String.length tok - 1)) in
    match tok.[0] with
    | 'a' -> SA v | 'i' -> SI v | 's' -> SS v | 'u' -> SU v
    | _ -> bad "line %d: bad slot %S" lineno tok in
  let fin rest = if rest <> [] then bad "line %d: trailing tokens" lineno in
  let h =
    match toks with
    | "alloc" :: "sc" :: k :: rest ->
      let p, rest = counted rest in fin rest; HAlloc (Sc (num k, nums p))
    | [ "alloc"; "strref"; r ] -> HAlloc (StrRef (num r))
    | [ "alloc"; "vecref"; r ] -> HAlloc (VecRef (num r))
    | [ "alloc"; "arrref"; r ] -> HAlloc (ArrRef (num r))
    | "alloc" :: "vec" :: rest ->
      let l, rest = counted rest in fin rest; HAlloc (Vec (nums l))
    | "alloc" :: "arr" :: rest ->
      let d, rest = counted rest in
      let l, rest = counted rest in
      fin rest; HAlloc (Arr (nums d, nums l))
    | [ "alloc"; "func"; v; ip ] -> HAlloc (Func (num v, num ip))
    | [ "setvec"; a; i; v ] -> HSetVec (num a, num i, num v)
    | [ "setarr"; a; i; v ] -> HSetArr (num a, num i, num v)
    | [ "append"; a; v ] -> HAppend (num a, num v)
    | [ "setref"; w; a; r ] ->
      let w = (match w with "str" -> 0 | "vec" -> 1 | "arr" -> 2
                          | _ -> bad "line %d: setref str|vec|arr" lineno) in
      HSetRef (w, num a, num r)
    | [ "setfuncvec"; a; v ] -> HSetFuncVec (num a, num v)
    | "setsc" :: k :: a :: rest ->
      let p, rest = counted rest in fin rest; HSetSc (num k, num a, nums p)
    | "collect" :: rest ->
      let s, rest = counted rest in fin rest; HCollect (List.map slot s)
    | "run" :: gv :: rest ->
      let s, rest = counted rest in fin rest; HRun (num gv, List.map slot s)
    | _ -> bad "line %d: unknown operation: %S" lineno line in
  (match h with
   | HAlloc _ -> ()
   | _ -> if oom then bad "line %d: !oom on a non-alloc line" lineno);
  h, oom

let read_lines path =
  let ic = open_in path in
  let rec go acc =
    match input_line ic with
    | l -> go (l :: acc)
    | exception End_of_file -> close_in ic; List.rev acc in
  go []

let parse_history path : int * hop list =
  let lines = read_lines path in
  let lines = List.mapi (fun i l -> (i + 1, l)) lines in
  let lines = List.filter (fun (_, l) -> String.trim l <> "" && (String.trim l).[0] <> '#') lines in
  match lines with
  | [] -> bad "empty history"
  | (n0, first) :: rest ->
    let size =
      match String.split_on_char ' ' (String.trim first) with
      | [ "size"; n ] -> parse_int n0 n
      | _ -> bad "line %d: expected 'size <n>'" n0 in
    if size < 2 || size > 100000 then bad "size out of range (2..100000): %d" size;
    size, List.map (fun (i, l) -> fst (parse_line i l)) rest

(* ---------- replay ----------------------------------------------------------------- *)
let res_line = function
  | VOk (_, r) -> Printf.sprintf "ret %d" r
  | VOom -> "oom-expected free=0"
  | VReject _ -> assert false

let replay path outhist =
  let size, ops = parse_history path in
  let b = Buffer.create 65536 and hb = Buffer.create 4096 in
  let g = ref (M.gc_new (n_of_int size)) in
  let s = ref (take_snap !g) in
  Printf.bprintf hb "size %d\n" size;
  dump b !g !s 0 (Printf.sprintf "new %d" size) "ret 0";
  let idx = ref 0 and k = ref 0 in
  List.iter (fun h ->
      incr k;
      match apply !g h with
      | VReject why -> Printf.eprintf "dropped op %d (%s): %s\n" !k why (render h)
      | v ->
        incr idx;
        let text = render h ^ (match v with VOom -> " !oom" | _ -> "") in
        (match v with VOk (g', _) -> g := g'; s := take_snap g' | _ -> ());
        Printf.bprintf hb "%s\n" text;
        dump b !g !s !idx text (res_line v)) ops;
  print_string (Buffer.contents b);
  match outhist with
  | Some p -> let oc = open_out p in output_string oc (Buffer.contents hb); close_out oc
  | None -> ()

(* ---------- statistics ------------------------------------------------------------- *)
let tbl_incr (t : (string, int) Hashtbl.t) k n =
  Hashtbl.replace t k (n + (try Hashtbl.find t k with Not_found -> 0))
let st_ops : (string, int) Hashtbl.t = Hashtbl.create 32
let st_kinds : (string, int) Hashtbl.t = Hashtbl.create 32
let st_misc : (string, int) Hashtbl.t = Hashtbl.create 32
let st_sizes : (string, int) Hashtbl.t = Hashtbl.create 32
let st_lens : (string, int) Hashtbl.t = Hashtbl.create 32
let st_styles : (string, int) Hashtbl.t = Hashtbl.create 32
let st_macros : (string, int) Hashtbl.t = Hashtbl.create 32
let misc k = tbl_incr st_misc k 1

let op_name = function
  | HAlloc _ -> "alloc" | HSetVec _ -> "setvec" | HSetArr _ -> "setarr" | HAppend _ -> "append"
  | HSetRef _ -> "setref" | HSetFuncVec _ -> "setfuncvec" | HSetSc _ -> "setsc"
  | HCollect _ -> "collect" | HRun _ -> "run"
let kind_name = function
  | Sc (k, _) -> (match k with 1 -> "int" | 2 -> "long" | 3 -> "float" | 4 -> "double"
                             | 5 -> "char" | 6 -> "string" | 8 -> "c_ptr" | _ -> "sc?")
  | StrRef _ -> "string_ref" | Vec _ -> "vec" | VecRef _ -> "vec_ref" | Arr _ -> "array"
  | ArrRef _ -> "array_ref" | Func _ -> "func"

let size_bucket n =
  if n <= 5 then string_of_int n
  else if n <= 8 then "6-8" else if n <= 16 then "9-16" else if n <= 32 then "17-32"
  else if n <= 64 then "33-64" else if n <= 128 then "65-128" else if n <= 256 then "129-256"
  else "257-300"
let len_bucket n =
  if n <= 20 then "10-20" else if n <= 50 then "21-50" else if n <= 100 then "51-100"
  else if n <= 200 then "101-200" else if n <= 500 then "201-500" else if n <= 1000 then "501-1000"
  else if n <= 2000 then "1001-2000" else if n <= 5000 then "2001-5000" else "5001-10000"

let json_of_tbl t =
  let l = Hashtbl.fold (fun k v acc -> (k, v) :: acc) t [] in
  let l = List.sort compare l in
  "{" ^ String.concat ", " (List.map (fun (k, v) -> Printf.sprintf "%S: %d" k v) l) ^ "}"

(* ---------- generator -------------------------------------------------------------- *)
type gst = {
  r : rng;
  mutable g : M.gc;
  mutable sn : snap;
  mutable roots : int list;
  mutable nops : int;
  target : int;
  hist : Buffer.t;
  exp : Buffer.t;
  p_root : int;                 (* percent: a fresh structure is added to the root set *)
  mutable freed_colls : int;
  mutable kept_colls : int;
}

let over st = st.nops >= st.target

let is_collection = function HCollect _ | HRun _ -> true | _ -> false

(* propose an operation: it is emitted iff the model accepts it (SOk / SOom) *)
let emit (st : gst) (h : hop) : int option =
  if over st then None
  else
    match apply st.g h with
    | VReject why ->
      misc "proposals_rejected_by_model";
      (* never expected: the mark ran out of fuel / read an object through the wrong accessor *)
      if why = "fuel" then misc "model_fuel";
      if why = "bad" then misc "model_bad";
      None
    | VOom ->
      st.nops <- st.nops + 1;
      let text = render h ^ " !oom" in
      Printf.bprintf st.hist "%s\n" text;
      dump st.exp st.g st.sn st.nops text "oom-expected free=0";
      tbl_incr st_ops "alloc" 1; misc "oom"; None
    | VOk (g', ret) ->
      st.nops <- st.nops + 1;
      let text = render h in
      st.g <- g'; st.sn <- take_snap g';
      Printf.bprintf st.hist "%s\n" text;
      dump st.exp st.g st.sn st.nops text (Printf.sprintf "ret %d" ret);
      tbl_incr st_ops (op_name h) 1;
      (match h with HAlloc o -> tbl_incr st_kinds (kind_name o) 1 | _ -> ());
      if is_collection h then
        (* cells that were not passed as roots may be gone now *)
        st.roots <- List.filter (fun a -> a > 0 && a < st.sn.size && st.sn.objs.(a) <> None) st.roots;
      Some ret

let allocated (st : gst) : int array = Array.of_list st.sn.cur
let cells_where (st : gst) pred : int array =
  Array.of_list (List.filter (fun a -> match st.sn.objs.(a) with Some o -> pred o | None -> false) st.sn.cur)
let is_vec = function Vec _ -> true | _ -> false
let is_arr = function Arr _ -> true | _ -> false
let is_arr1 = function Arr ([ _ ], _) -> true | _ -> false
let is_str = function Sc (6, _) -> true | _ -> false

(* a reference to store: nil or any allocated cell *)
let any_ref st =
  let a = allocated st in
  if Array.length a = 0 || chance st.r 15 then 0 else pick st.r a
let ref_where st pred =
  let a = cells_where st pred in
  if Array.length a = 0 || chance st.r 10 then 0 else pick st.r a

let add_root st a = st.roots <- a :: st.roots
let maybe_root st a = if chance st.r st.p_root then add_root st a

let scalar_kinds = [| 1; 2; 3; 4; 5; 6; 8 |]
let rand_payload st k =
  match k with
  | 1 -> [ (if chance st.r 20 then 2147483647 - rint st.r 3 else rint st.r 100000) ]
  | 2 -> [ (if chance st.r 20 then (1 lsl 52) + rint st.r 1000 else rint st.r 1000000) ]
  | 3 -> [ rint st.r 100000 ]
  | 4 -> [ (if chance st.r 20 then (1 lsl 40) + rint st.r 1000 else rint st.r 1000000) ]
  | 5 -> [ rint st.r 128 ]
  | 6 -> List.init (rint st.r 9) (fun _ -> if chance st.r 90 then rrange st.r 97 122 else rrange st.r 1 255)
  | _ -> [ rint st.r (1 lsl 40) ]
let rand_scalar st = let k = pick st.r scalar_kinds in Sc (k, rand_payload st k)

let alloc st o = emit st (HAlloc o)

(* --- macros: every one returns unit; they stop silently at out-of-memory / budget ----- *)
let ( >>= ) o f = match o with Some x -> f x | None -> ()

let m_scalar st = alloc st (rand_scalar st) >>= maybe_root st

let m_string_ref st =
  let target =
    if chance st.r 60 then alloc st (Sc (6, rand_payload st 6))
    else Some (ref_where st is_str) in
  target >>= fun s ->
  alloc st (StrRef s) >>= fun r ->
  maybe_root st r;
  if chance st.r 20 then ignore (emit st (HSetRef (0, r, ref_where st is_str)))

let m_vec st =
  let n = (if chance st.r 10 then 0 else rrange st.r 1 5) in
  alloc st (Vec (List.init n (fun _ -> any_ref st))) >>= maybe_root st

let m_vecref st =
  let target = if chance st.r 50 then alloc st (Vec [ any_ref st ]) else Some (ref_where st is_vec) in
  target >>= fun v ->
  alloc st (VecRef v) >>= fun r ->
  maybe_root st r;
  if chance st.r 20 then ignore (emit st (HSetRef (1, r, ref_where st is_vec)))

let m_list st =
  let k = rrange st.r 1 8 in
  let rec go i prev =
    if i = 0 then (if prev <> 0 then maybe_root st prev)
    else
      alloc st (Sc (1, [ i ])) >>= fun x ->
      match alloc st (Vec [ x; prev ]) with
      | Some c -> go (i - 1) c
      | None -> if prev <> 0 then maybe_root st prev in
  go k 0

let rec build_tree st depth : int option =
  if depth = 0 || chance st.r 25 then alloc st (rand_scalar st)
  else begin
    let arity = rrange st.r 1 3 in
    let kids = List.init arity (fun _ -> match build_tree st (depth - 1) with Some a -> a | None -> 0) in
    if chance st.r 30 then alloc st (Arr ([ arity ], kids)) else alloc st (Vec kids)
  end
let m_tree st = build_tree st (rrange st.r 1 3) >>= maybe_root st

let m_cycle1 st =
  alloc st (Vec [ 0 ]) >>= fun v ->
  ignore (emit st (HSetVec (v, 0, v)));
  maybe_root st v

let m_cycle2 st =
  alloc st (Vec [ 0; any_ref st ]) >>= fun a ->
  alloc st (Vec [ a ]) >>= fun b ->
  ignore (emit st (HSetVec (a, 0, b)));
  if chance st.r st.p_root then add_root st (if chance st.r 50 then a else b)

let m_cycle_func st =
  alloc st (Vec [ 0; any_ref st ]) >>= fun v ->
  alloc st (Func (v, rint st.r 5000)) >>= fun f ->
  ignore (emit st (HSetVec (v, 0, f)));
  if chance st.r st.p_root then add_root st (if chance st.r 60 then f else v)

let m_closure st =
  let n = rrange st.r 0 4 in
  let cells = List.init n (fun _ ->
      if chance st.r 50 then (match alloc st (rand_scalar st) with Some a -> a | None -> 0)
      else any_ref st) in
  alloc st (Vec cells) >>= fun env ->
  alloc st (Func (env, rint st.r 5000)) >>= fun f ->
  if chance st.r 30 then begin
    (* a table of functions sharing the environment *)
    match alloc st (Func (env, rint st.r 5000)) with
    | Some f2 -> alloc st (Vec [ f; f2 ]) >>= maybe_root st
    | None -> maybe_root st f
  end else maybe_root st f;
  if chance st.r 15 then ignore (emit st (HSetFuncVec (f, ref_where st is_vec)))

let m_arr st =
  let k = (if chance st.r 10 then 0 else rrange st.r 1 6) in
  let elems = List.init k (fun _ ->
      if chance st.r 60 then (match alloc st (rand_scalar st) with Some a -> a | None -> 0)
      else any_ref st) in
  alloc st (Arr ([ k ], elems)) >>= fun a ->
  if chance st.r 60 then (alloc st (ArrRef a) >>= maybe_root st) else maybe_root st a

let m_arr_md st =
  let nd = rrange st.r 2 3 in
  let d = List.init nd (fun _ -> if chance st.r 8 then 0 else rrange st.r 1 3) in
  let elems = List.init (prod d) (fun _ -> any_ref st) in
  alloc st (Arr (d, elems)) >>= fun a ->
  if chance st.r 50 then (alloc st (ArrRef a) >>= maybe_root st) else maybe_root st a

let m_arrref st =
  alloc st (ArrRef (ref_where st is_arr)) >>= fun r ->
  maybe_root st r;
  if chance st.r 30 then ignore (emit st (HSetRef (2, r, ref_where st is_arr)))

let m_append st =
  let a1 = cells_where st is_arr1 in
  if Array.length a1 > 0 then begin
    let a = pick st.r a1 in
    for _ = 1 to rrange st.r 1 3 do
      let v = if chance st.r 50 then (match alloc st (rand_scalar st) with Some x -> x | None -> 0)
        else any_ref st in
      ignore (emit st (HAppend (a, v)))
    done
  end else m_arr st

let m_mutate st =
  match rint st.r 7 with
  | 0 | 1 ->
    let vs = cells_where st (function Vec (_ :: _) -> true | _ -> false) in
    if Array.length vs > 0 then begin
      let a = pick st.r vs in
      let n = (match st.sn.objs.(a) with Some (Vec l) -> List.length l | _ -> 1) in
      ignore (emit st (HSetVec (a, rint st.r n, any_ref st)))
    end
  | 2 | 6 ->
    let vs = cells_where st (function Arr (_, _ :: _) -> true | _ -> false) in
    if Array.length vs > 0 then begin
      let a = pick st.r vs in
      let n = (match st.sn.objs.(a) with Some (Arr (_, l)) -> List.length l | _ -> 1) in
      ignore (emit st (HSetArr (a, rint st.r n, any_ref st)))
    end
  | 3 ->
    let hs = cells_where st (function StrRef _ | VecRef _ | ArrRef _ -> true | _ -> false) in
    if Array.length hs > 0 then begin
      let a = pick st.r hs in
      match st.sn.objs.(a) with
      | Some (StrRef _) -> ignore (emit st (HSetRef (0, a, ref_where st is_str)))
      | Some (VecRef _) -> ignore (emit st (HSetRef (1, a, ref_where st is_vec)))
      | Some (ArrRef _) -> ignore (emit st (HSetRef (2, a, ref_where st is_arr)))
      | _ -> ()
    end
  | 4 ->
    let fs = cells_where st (function Func _ -> true | _ -> false) in
    if Array.length fs > 0 then ignore (emit st (HSetFuncVec (pick st.r fs, ref_where st is_vec)))
  | _ ->
    let ss = cells_where st (function Sc _ -> true | _ -> false) in
    if Array.length ss > 0 then begin
      let a = pick st.r ss in
      match st.sn.objs.(a) with
      | Some (Sc (k, _)) -> ignore (emit st (HSetSc (k, a, rand_payload st k)))
      | _ -> ()
    end

let m_roots st =
  (match rint st.r 7 with
   | 0 | 1 | 2 ->   (* drop one *)
     (match st.roots with
      | [] -> ()
      | l -> let k = rint st.r (List.length l) in
        st.roots <- List.filteri (fun i _ -> i <> k) l)
   | 3 -> st.roots <- List.filter (fun _ -> chance st.r 50) st.roots
   | 4 -> if chance st.r 40 then st.roots <- []
   | 5 -> let a = allocated st in if Array.length a > 0 then add_root st (pick st.r a)
   | _ -> (match st.roots with [] -> () | l -> add_root st (pickl st.r l)));
  misc "root_set_changes"

(* the stack handed to the collector: ADDR slots for the roots (with duplicates and nil
   entries) and non-ADDR slots holding arbitrary numbers, which must be ignored *)
let mk_stack st (roots : int list) : slot list =
  let sl = ref (List.map (fun a -> SA a) roots) in
  let garbage = Array.of_list (List.filter (fun a -> not (List.mem a roots)) st.sn.cur) in
  (match roots with
   | [] -> ()
   | l -> for _ = 1 to (if chance st.r 40 then rrange st.r 1 3 else 0) do sl := SA (pickl st.r l) :: !sl done);
  for _ = 1 to (if chance st.r 40 then rrange st.r 1 2 else 0) do sl := SA 0 :: !sl done;
  let n_other = if chance st.r 60 then rrange st.r 1 4 else 0 in
  for _ = 1 to n_other do
    let v =
      if Array.length garbage > 0 && chance st.r 60 then pick st.r garbage
      else (match rint st.r 4 with
          | 0 -> rint st.r (st.sn.size + 3)
          | 1 -> 0
          | 2 -> 1000000 + rint st.r 1000
          | _ -> rint st.r 50) in
    sl := (match rint st.r 5 with 0 | 1 -> SI v | 2 | 3 -> SS v | _ -> SU v) :: !sl
  done;
  let a = Array.of_list !sl in
  shuffle st.r a;
  Array.to_list a

let root_subset st =
  if chance st.r 75 then st.roots
  else List.filter (fun _ -> chance st.r 60) st.roots

let note_collection st before_top =
  (* called after a collection that really ran *)
  let after = List.length st.sn.cur in
  if after < before_top then begin misc "collections_freed_ge1"; st.freed_colls <- st.freed_colls + 1 end;
  if after >= 1 then begin misc "collections_retained_ge1"; st.kept_colls <- st.kept_colls + 1 end;
  if after = 0 then misc "collections_emptied_heap";
  if after = before_top then misc "collections_freed_nothing"

let m_collect st =
  let before = List.length st.sn.cur in
  let rs = root_subset st in
  if rs = [] then misc "collect_with_no_roots";
  match emit st (HCollect (mk_stack st rs)) with
  | Some _ -> note_collection st before
  | None -> ()

let threshold size = (4 * size + 4) / 5          (* least top with 5*top >= 4*size *)

let m_run st =
  let before = List.length st.sn.cur in
  let size = st.sn.size in
  let rs = root_subset st in
  let gv =
    match rint st.r 10 with
    | 0 | 1 | 2 -> 0
    | 3 | 4 | 5 | 6 ->
      let rv = List.filter (fun a -> match st.sn.objs.(a) with Some (Vec _) -> true | _ -> false) st.roots in
      if rv = [] then ref_where st is_vec else pickl st.r rv
    | _ -> any_ref st in
  let trig = 5 * before >= 4 * size in
  match emit st (HRun (gv, mk_stack st rs)) with
  | Some _ ->
    if trig then begin misc "run_triggered"; note_collection st before end
    else misc "run_below_threshold";
    if before = threshold size then misc "run_at_threshold";
    if before = threshold size - 1 then misc "run_one_below_threshold"
  | None -> ()

(* bring the allocated-list to exactly threshold-1, run (nothing may happen), allocate one
   more cell, run again (must collect) *)
let m_boundary st =
  let size = st.sn.size in
  let t = threshold size in
  if t <= size - 1 then begin
    if List.length st.sn.cur >= t then (if chance st.r 50 then m_collect st else m_run st);
    let guard = ref (size + 2) in
    while not (over st) && !guard > 0 && List.length st.sn.cur < t - 1 && st.sn.nfree > 0 do
      decr guard;
      (match rint st.r 4 with
       | 0 -> m_vec st
       | _ -> m_scalar st)
    done;
    if List.length st.sn.cur = t - 1 then begin
      m_run st;
      (alloc st (rand_scalar st) >>= maybe_root st);
      if List.length st.sn.cur = t then m_run st
    end
  end else begin
    (* heaps of 2..4 cells can never reach the trigger: run stays without effect *)
    m_scalar st; m_run st
  end

let m_fill_oom st =
  let guard = ref (st.sn.size + 2) in
  while not (over st) && !guard > 0 && st.sn.nfree > 0 do
    decr guard;
    (match rint st.r 5 with
     | 0 -> m_vec st
     | 1 -> m_cycle1 st
     | _ -> m_scalar st)
  done;
  if st.sn.nfree = 0 then begin
    for _ = 1 to rrange st.r 1 3 do
      ignore (alloc st (if chance st.r 50 then rand_scalar st else Vec [ any_ref st ]))
    done;
    if chance st.r 30 then m_roots st;
    if chance st.r 80 then begin
      (if chance st.r 70 then m_collect st else m_run st);
      (* continue allocating in the space that was freed *)
      for _ = 1 to rrange st.r 1 4 do m_scalar st done
    end
  end

(* cells that were just freed are handed out again, as other kinds *)
let m_realloc_kinds st =
  m_collect st;
  let n = min st.sn.nfree (rrange st.r 2 7) in
  for i = 1 to n do
    match (i + rint st.r 3) mod 7 with
    | 0 -> m_scalar st
    | 1 -> m_vec st
    | 2 -> m_string_ref st
    | 3 -> m_closure st
    | 4 -> m_arr st
    | 5 -> m_vecref st
    | _ -> m_arrref st
  done

(* operations that are (very likely) invalid: they must be filtered by the model *)
let m_bogus st =
  let size = st.sn.size in
  let free_cell =
    let rec find i = if i >= size then 0 else if st.sn.objs.(i) = None then i else find (i + 1) in
    find 1 in
  let h =
    match rint st.r 8 with
    | 0 -> HAlloc (Vec [ (if free_cell > 0 then free_cell else size + 1) ])
    | 1 -> HSetVec (any_ref st, 99, 0)
    | 2 -> HAlloc (VecRef (ref_where st (fun o -> not (is_vec o))))
    | 3 -> HCollect [ SA (if free_cell > 0 then free_cell else size + 5) ]
    | 4 -> HAlloc (Func (ref_where st (fun o -> not (is_vec o)), 1))
    | 5 -> HAppend (ref_where st (fun o -> not (is_arr1 o)), 0)
    | 6 -> HAlloc (StrRef (ref_where st (fun o -> not (is_str o))))
    | _ -> HSetRef (rint st.r 3, any_ref st, any_ref st) in
  misc "bogus_proposals";
  match apply st.g h with
  | VReject _ -> misc "bogus_rejected"
  | _ -> ignore (emit st h)      (* happened to be valid (e.g. a nil reference) *)

let macros : (string * (gst -> unit)) array = [|
  "scalar", m_scalar; "string_ref", m_string_ref; "vec", m_vec; "vecref", m_vecref;
  "list", m_list; "tree", m_tree; "cycle1", m_cycle1; "cycle2", m_cycle2;
  "cycle_func", m_cycle_func; "closure", m_closure; "arr", m_arr; "arr_md", m_arr_md;
  "arrref", m_arrref; "append", m_append; "mutate", m_mutate; "roots", m_roots;
  "collect", m_collect; "run", m_run; "boundary", m_boundary; "fill_oom", m_fill_oom;
  "realloc_kinds", m_realloc_kinds; "bogus", m_bogus |]

(* weight vectors, in the order of [macros] *)
let styles : (string * int array) array = [|
  (*            sc sr ve vr li tr c1 c2 cf cl ar am af ap mu ro co ru bo fo rk bg *)
  "general",  [| 8; 4; 6; 3; 4; 4; 3; 3; 3; 5; 4; 2; 2; 4; 8; 8; 6; 5; 2; 1; 2; 1 |];
  "churn",    [| 20; 3; 8; 2; 3; 2; 2; 2; 2; 3; 3; 1; 1; 2; 3; 10; 12; 6; 2; 2; 4; 1 |];
  "survivors",[| 6; 3; 5; 3; 5; 5; 3; 3; 3; 5; 4; 2; 2; 3; 6; 3; 10; 5; 2; 1; 3; 1 |];
  "oom",      [| 10; 2; 6; 1; 3; 3; 2; 2; 2; 3; 3; 1; 1; 2; 3; 8; 4; 3; 2; 12; 3; 1 |];
  "boundary", [| 6; 2; 4; 1; 2; 2; 1; 1; 1; 2; 2; 1; 1; 1; 3; 8; 3; 12; 14; 2; 2; 1 |];
  "structures",[| 2; 4; 4; 4; 8; 8; 5; 5; 6; 8; 6; 4; 4; 6; 12; 8; 7; 4; 1; 1; 3; 1 |];
|]

let pick_weighted r (w : int array) =
  let tot = Array.fold_left ( + ) 0 w in
  let x = ref (rint r tot) and res = ref 0 in
  (try Array.iteri (fun i wi -> if !x < wi then (res := i; raise Exit) else x := !x - wi) w
   with Exit -> ());
  !res

let tiny_sizes = [| 2; 3; 4; 5; 8 |]
let mult5_sizes = [| 5; 10; 15; 20; 25; 40; 50; 100; 150; 200; 300 |]

let choose_size r profile i =
  match profile with
  | "tiny" -> pick r tiny_sizes
  | "boundary" -> 2 + (i mod 299)                    (* every size 2..300 in turn *)
  | _ ->
    let x = rint r 100 in
    if x < 30 then pick r tiny_sizes
    else if x < 40 then pick r mult5_sizes
    else if x < 50 then rrange r 6 12
    else if x < 72 then rrange r 13 40
    else if x < 90 then rrange r 41 120
    else rrange r 121 300

(* log-uniform in [lo, hi] *)
let log_uniform r lo hi =
  let l = log (float_of_int lo) and h = log (float_of_int hi +. 1.0) in
  let u = float_of_int (rint r 1000000) /. 1000000.0 in
  max lo (min hi (int_of_float (exp (l +. u *. (h -. l)))))

let choose_len r profile size =
  match profile with
  | "boundary" -> min 2000 (size + 30 + rint r 40)
  | "long" -> log_uniform r 2000 10000
  | "tiny" -> log_uniform r 10 400
  | _ ->
    (* volume of the dumps ~ ops * cells: long histories mostly on small heaps *)
    let hi = if size <= 16 then 2000 else if size <= 64 then 1200 else if size <= 128 then 600 else 300 in
    if chance r 4 then log_uniform r (hi / 2) 2000 else log_uniform r 10 hi

let gen_case (r : rng) profile i outdir : unit =
  let size = choose_size r profile i in
  let target = choose_len r profile size in
  let style_i = if profile = "boundary" then 4 else rint r (Array.length styles) in
  let sname, weights = styles.(style_i) in
  let p_root = (match sname with
      | "churn" -> rrange r 5 30 | "survivors" -> rrange r 60 95 | _ -> rrange r 15 80) in
  let g = M.gc_new (n_of_int size) in
  let st = { r; g; sn = take_snap g; roots = []; nops = 0; target;
             hist = Buffer.create 4096; exp = Buffer.create 65536; p_root;
             freed_colls = 0; kept_colls = 0 } in
  Printf.bprintf st.hist "size %d\n" size;
  dump st.exp st.g st.sn 0 (Printf.sprintf "new %d" size) "ret 0";
  let guard = ref (target * 20 + 200) in
  while not (over st) && !guard > 0 do
    decr guard;
    let full = st.sn.nfree = 0 in
    let mi =
      if full && chance st.r 88 then
        (let x = rint st.r 10 in if x < 6 then 16 (* collect *) else if x < 8 then 15 (* roots *) else 17 (* run *))
      else pick_weighted st.r weights in
    let name, f = macros.(mi) in
    tbl_incr st_macros name 1;
    f st
  done;
  tbl_incr st_sizes (size_bucket size) 1;
  tbl_incr st_lens (len_bucket st.nops) 1;
  tbl_incr st_styles sname 1;
  if size mod 5 = 0 then misc "heap_size_multiple_of_5" else misc "heap_size_not_multiple_of_5";
  if st.freed_colls >= 1 && st.kept_colls >= 1 then misc "histories_with_freeing_and_retaining_collection";
  misc "histories";
  tbl_incr st_misc "ops_total" st.nops;
  let w path b = let oc = open_out path in Buffer.output_buffer oc b; close_out oc in
  w (Filename.concat outdir (Printf.sprintf "case%d.hist" i)) st.hist;
  w (Filename.concat outdir (Printf.sprintf "case%d.exp" i)) st.exp

let gen seed ncases outdir profile first =
  (try Unix.mkdir outdir 0o755 with Unix.Unix_error (Unix.EEXIST, _, _) -> ());
  let r = rng_make seed in
  for i = first to first + ncases - 1 do gen_case r profile i outdir done;
  Printf.printf "{\"seed\": %d, \"profile\": %S, \"ops\": %s, \"object_kinds\": %s, \"events\": %s, \"heap_sizes\": %s, \"history_lengths\": %s, \"styles\": %s, \"macros\": %s}\n"
    seed profile (json_of_tbl st_ops) (json_of_tbl st_kinds) (json_of_tbl st_misc)
    (json_of_tbl st_sizes) (json_of_tbl st_lens) (json_of_tbl st_styles) (json_of_tbl st_macros)

let usage () =
  prerr_endline "usage: run gen <seed> <ncases> <outdir> [mixed|tiny|boundary|long [first]]\n       run replay <hist> [<outhist>]";
  exit 2

let () =
  try
    match Array.to_list Sys.argv with
    | [ _; "gen"; seed; n; outdir ] -> gen (int_of_string seed) (int_of_string n) outdir "mixed" 0
    | [ _; "gen"; seed; n; outdir; profile ] ->
      if not (List.mem profile [ "mixed"; "tiny"; "boundary"; "long" ]) then usage ();
      gen (int_of_string seed) (int_of_string n) outdir profile 0
    | [ _; "gen"; seed; n; outdir; profile; first ] ->
      if not (List.mem profile [ "mixed"; "tiny"; "boundary"; "long" ]) then usage ();
      gen (int_of_string seed) (int_of_string n) outdir profile (int_of_string first)
    | [ _; "replay"; h ] -> replay h None
    | [ _; "replay"; h; o ] -> replay h (Some o)
    | _ -> usage ()
  with
  | Bad_format s -> Printf.eprintf "history format error: %s\n" s; exit 2
  | Failure s -> Printf.eprintf "error: %s\n" s; exit 2
  | Sys_error s -> Printf.eprintf "error: %s\n" s; exit 2
