#!/usr/bin/env python3
"""Assemble /verif/MANIFEST.json from the table below (kept valid at all times)."""
import json
import os
import subprocess

VERIF = os.path.dirname(os.path.dirname(os.path.abspath(__file__)))

TB = ("Coq 8.16.1 kernel (+vm_compute); no axioms of our own (Print Assumptions per theorem in the evidence); "
      "extraction with ExtrOcamlBasic only; unverified glue: python/OCaml/C drivers; the C code is modelled, "
      "tied by regeneration/correspondence on the cases run")

CHECKS = {
    "C05": dict(
        engine="E6 front",
        technique="Coq proofs of the logic slices an executable model can carry (print_msg buffer arithmetic over constants regenerated from the tree, the `use` include-stack state machine, a verified outcome classifier); malformed-input search (token mutation, grammar-aware faults, raw bytes, long/deep inputs, use chains/cycles/missing modules) under ASan/UBSan with the extracted classifier as oracle",
        text="proof (partial by nature): msg_write_within_buffer (for all prefix/body lengths, over MAX_MSG_SIZE and the size expressions regenerated from back/utils.c on every run), use_depth_bounded, outcome_classifier_correct; crash-, hang- and memory-safety of the generated scanner/parser and of the typechecker on arbitrary bytes cannot be stated over an executable model in this sandbox and are observed on ~2.5x10^4 inputs per run, never presented as proof",
        ref="DESIGN.md §5 C05",
        note=TB + "; 12 genuine robustness defects of the pinned tree are listed as known findings, 6 were fixed"),
    "C16": dict(
        engine="E6 mem / E1 gc",
        technique="Coq proofs: an executable allocation-trace monitor is sound and complete for balanced / no double free / no free of unknown block, and exact about leaks; gc_delete frees each object exactly once (collector model); malloc-event traces of compile->run->dispose from a --wrap shim judged by the extracted monitor, LeakSanitizer as second opinion",
        text="proof (partial by nature): monitor_sound_complete, monitor_leak_exact, gc_delete_frees_each_object_once; which source constructs reach which %destructor / *_delete cannot be modelled and is observed: every allocation event of libnev between program_new and program_delete/vm_delete on valid, syntactically broken, ill-typed, reducer-rejected and missing-module sources and all run outcomes",
        ref="DESIGN.md §5 C16",
        note=TB + "; exits through exit() inside libnev (stack too large, out of memory, flex fatal) are counted but not judged for leaks; 3 parse-error leaks are known findings"),
    "C02": dict(
        engine="E5 source",
        technique="Coq reference evaluator (Src/Eval.v) with machine-checked theorems for every language rule the property names (operand / argument order, short-circuit, binding shares cells, assignment copies payloads, fuel independence) [+ compiler-correctness theorem for the fragment proved so far]; differential: real compiler+VM vs the extracted evaluator on type-directed generated programs (result, printed text, unhandled exception)",
        text="proof (partial): the property is equality with an independent reference evaluator; the evaluator is a Gallina program whose stated rules are theorems over all expressions and states (binop_left_to_right, call_args_right_to_left, and/or_short_circuits, binding_never_copies, assign_copies_payload, run_program_fuel_mono ...); the tie is the differential run on thousands of generated programs per run over all profiles (arith, order, alias, closure, shadow, loops, records, arrays, catch, tailrec), each also in uniquified and injectively renamed form; a compile-correctness theorem exists only for the fragment stated in Properties_C02 (see DESIGN §0): beyond it the evaluator is a model validated against the code, not a theorem about the compiler",
        ref="DESIGN.md §5 C02, §0",
        note=TB + "; constructs outside Src/Syntax.v (strings, floats, enums/match, tuples, ranges, slices, comprehensions, modules) are covered by the other engines' probe families, not by this evaluator; sibling nested functions and tail-call elimination under catch clauses are listed as not modelled"),
    "C08": dict(
        engine="E5 source",
        technique="Coq proofs on the reference evaluator: invariance under every injective renaming of all names, true alpha-conversion of a let/var binder to a fresh name (capture-avoiding substitution), closures capture the environment's cells, distinct activations get distinct cells, store monotonicity; differential: original vs uniquified vs injectively renamed programs on the real compiler, and vs the evaluator, on shadowing/closure/alias profiles",
        text="proof: rename_invariance, alpha_fresh_binder (+ in_block, block_expr), closure_captures_cells, distinct_activations_distinct_cells, store_monotone about Src/Eval.v; tie: generated programs with the same name bound at every binder kind in nested scopes, escaping and returned closures, counters shared between closures: the real compiler must give the same outcome on the original, on the alpha-renamed (all binders unique) and on an injectively renamed variant, and equal to the evaluator",
        ref="DESIGN.md §5 C08",
        note=TB + "; free-variable resolution inside the real compiler (gencode.c) is tied only through the differential; one known finding (late shadow after closure kills the compiler)"),
    "C06": dict(
        engine="E5 source",
        technique="Coq model typechecker for the core AST, proved sound AND complete w.r.t. a declarative typing judgment; every single-fault mutation operator of the rule catalogue proved rejected at any nesting depth; real compiler vs model on generated well-typed programs and all their mutants (accept/reject and diagnostic line), text-level mutants for unknown names/attributes/exceptions and match exhaustiveness",
        text="proof: typecheck_sound / typecheck_complete, mutant_rejected (for every well-typed P and every single-fault mutant at any depth: operands, branches, loop bodies, arguments, nested functions, lambdas, catch clauses), assign_to_const_rejected, match_omitting_enumerator_rejected, unknown_exception_rejected about coq/Src/Typecheck.v; tie: ~4x10^4 generated mutants per quick run through the tree's compiler (each must be rejected with a diagnostic on the mutated node's line; each base program accepted), negative samples as corpus",
        ref="DESIGN.md §5 C06",
        note=TB + "; the model covers the core AST of Src/Syntax.v; rules outside it (slices, ranges, modules, enums beyond match) are exercised only by text-level mutants and by C01's ill-typed acceptance matrix"),
    "C03": dict(
        engine="E4 verifier / E5 source",
        technique="Coq proofs: exception-table binary search spec and its link to the verifier's lookup; fault delivery on the shape machine for all paths of verified code (fault lands in own handler chain, chain finite and in source order, CLEAR_STACK restores the frame with parameters intact, RETHROW unwinds one frame, UNHANDLED only at top level); clause selection theorems on the reference evaluator; fault-program family with closed-form oracle + lock-step on real traces",
        text="proof: search_spec, handler_is_search, fault_lands_in_own_handler, handler_chain_finite, clear_stack_restores_frame, rethrow_pops_partial_frame / rethrow_returns_to_caller, unhandled_only_at_top_level (every verified module, every reachable state, any call depth, any number of frames under construction) and first_matching_clause / no_clause_propagates / clause_exception_goes_to_later_clauses on Src/Eval.v; tie: direct-call correspondence with exctab.c, the verifier + layout check on every corpus module, generated fault programs (13 fault kinds x argument position x nesting depth x clause order) compared with a closed-form oracle and run in lock-step with the shape machine",
        ref="DESIGN.md §5 C03",
        note=TB + "; which exception number a clause tests is data (INT; PUSH_EXCEPT; EQ; JUMPZ): decided at source level and by the generated programs, the shape machine only carries control"),
    "C13": dict(
        engine="E4 verifier / E5 source",
        technique="Coq proofs: a tail transfer keeps the frame (P, F) and the stack is bounded by (open non-tail calls + 1) x max certified frame size in every run of verified code; model of front/tailrec.c marks only (and all direct) tail-position self calls; generated tail-recursive family at N and 10N with peak-sp monitor (hook H1) and code-vs-model marking comparison",
        text="proof: tail_call_keeps_frame, stack_bounded_by_open_calls, tail_call_constant_stack (corollaries of verify_depth: any number of tail transfers, peak independent of the iteration count), tailrec_marks_only_tail_positions / tailrec_marks_all_direct_tail_self_calls for coq/Src/Tailrec.v; tie: generated shapes (cond, block, match arm, if-let, nested, locals, catch clauses, non-tail controls) run at N=5000/50000 on a 200-slot stack: equal peak sp, peak below the verifier's bound, result equal to the loop; tail sites in the dumped code equal the model's marking",
        ref="DESIGN.md §5 C13",
        note=TB),
    "C14": dict(
        engine="E4 verifier / E1 gc",
        technique="Coq proofs over per-opcode write plans (bump/check/write order mirrored from every handler, regenerated skeleton comparison): no write outside the stack and the limit reported exactly when needed, monotonicity in the stack size, on the shape machine for all runs of verified code; allocation on a full heap reports out of memory before writing (GC model); (heap,stack) grid under ASan with exact prediction of the instruction at which the limit fires",
        text="proof: no_write_outside_stack (check-first tree, every opcode), verified_run_under_limit, limit_monotone_stack, limit_fires_iff_needed, oom_reported; both plan tables (pinned / check-first) are kept and the run probes the real VM to see which the tree implements; tie: static skeleton of all 227 handlers regenerated from the C sources and compared with the model shapes; for every program and stack size the extracted model's prediction (completes / limit at instruction i) must equal the real VM exactly",
        ref="DESIGN.md §5 C14",
        note=TB + "; heap size 0 is outside the configured sizes; depth of the C recursion in gc_mark (host stack) not modelled"),
    "C10": dict(
        engine="E3 arith",
        technique="Coq proof by induction over literal expression trees that the model of front/constred.c agrees bit-for-bit with the run-time semantics written from back/vmexec.c; three-leg correspondence (real reducer vs fold, real VM vs rt_eval, literal-vs-variable metamorphic pairs on the real code)",
        text="proof: fold_agrees_with_runtime (for every tree whose cells have an opcode), fold_literal_is_runtime_value, fold_total, run_never_traps; statements the faithful model violates are proved as _refuted with witnesses and are known findings (division by zero rejected under short-circuit/conditional although never evaluated; enum comparison cells without opcode; enum INT_MIN / -1 in the folder); tie: the folded literal is read back from the dumped bytecode, the VM result from probe programs with operands in variables, exhaustive over operator x admitted type pairs, corner + random values",
        ref="DESIGN.md §5 C10",
        note=TB + "; excluded as C UB and stated in evidence: out-of-range float->int, shift counts >= width; enumred.c not modelled"),
    "C11": dict(
        engine="E3 arith",
        technique="Coq proofs over regenerated finite tables (promotion / assignment conversion / opcode selection: forallb by vm_compute lifted with forallb_forall) and over all values (wrap ring homomorphism, truncating division incl. MIN / -1, two's-complement bit operations, exact int<->long and float<->double conversions on SpecFloat); value probes on the real VM compared by bit pattern",
        text="proof: binary_result_is_join, assignment_converts_to_left, opcode_matches_type over tables regenerated from the tree's typechecker+emitter on every run (exhaustive: every operator class x ordered type pair), and value-level theorems for all operand values; tie: ~10^4 one-expression probe programs per run (corner values, halfway cases, denormals, NaN, random) on the real VM, results compared bit-for-bit with the extracted operations",
        ref="DESIGN.md §5 C11",
        note=TB + "; IEEE conformance of Coq.Floats.SpecFloat is Flocq's theorem (cited, not re-proved); number formatting (Fmt.v) is tied by correspondence only"),
    "C15": dict(
        engine="E2 api",
        technique="Coq proofs over all API histories of an abstract embedding-API machine (stack neutrality, repeatability, VM independence) with the instruction-level VM as a Section variable; API-history correspondence and fresh-process replay oracles on the real library under ASan",
        text="proof for the VM part: execute_stack_neutral, execute_uses_no_more_stack_than_first, execute_repeatable, vms_independent over every finite history; which policy (pop at HALT, restore on error) the tree implements is probed on the real VM on every run; compile determinism/isolation lives in C globals of flex/bison/utils.c that no Gallina model expresses and is decided by correspondence only: the k-th compile/execute in a random history must equal a fresh process's",
        ref="DESIGN.md §5 C15",
        note=TB + "; `exec` (the instruction-level run of the entry stub) is a parameter of the model: its frame discipline is C07's theorem"),
    "C04": dict(
        engine="E1 gc",
        technique="Coq proofs on the collector model: reachable cells preserved with identical objects, every path from the roots reads the same values, and schedule transparency of a path-addressed mutator language (any two collection schedules and heap sizes give equal observations); forced-schedule differential + heap audit on the real VM (hook H2) under ASan",
        text="proof: collect_preserves_reachable, deep_read_invariant and gc_schedule_transparent (simulation through a partial bijection of addresses, for every mutator automaton, every two schedules and heap sizes that do not run out of memory) about coq/GC/GCModel.v, which is tied to back/gc.c by E1's op-history correspondence; that the VM's roots are complete is checked on the real VM: every corpus/generated program under collect-at-every-safe-point / default / never / seeded schedules and several heap sizes must give identical outcomes, and an audit after every collection walks the real heap from the real roots",
        ref="DESIGN.md §5 C04",
        note=TB + "; the VM as a mutator (which slots are roots at each safe point) is observed through hook H2 + audit, not modelled instruction by instruction"),
    "C17": dict(
        engine="E7 ffi",
        technique="Coq proofs about a model of the record layout/marshalling code of back/vmffi.c (System V struct layout, marshal/unmarshal round-trip, descriptor stream, nil => ffi_fail decision); layout compared exhaustively with gcc's offsetof/sizeof; generated C callees + extern programs under ASan",
        text="proof (partial by nature): layout_is_c_layout, marshal_unmarshal_roundtrip, descriptor_stream_wellformed, nil_arg_is_ffi_fail about coq/FFI/Layout.v; the platform ABI/libffi/dlopen part cannot be modelled and is observed: generated signatures (arity up to 8/10, by-value structs 1-40 bytes, register and memory classes) must deliver every argument and result exactly",
        ref="DESIGN.md §5 C17",
        note=TB + "; register/memory classification, libffi and dlopen/dlsym are observed, not proved; one finding is a defect of the installed libffi 3.4.4 itself (known finding)"),
    "C01": dict(
        engine="E5 source / E4 verifier / E1 gc",
        technique="Coq theorems restated from the verifier (frame discipline on all paths), the collector model (reachable cells never reclaimed, allocation never hands out a cell in use) [+ evaluator type safety for the core when proved]; crash oracle: every accepted corpus/generated program under ASan+UBSan+asserts across heap/stack configurations",
        text="proof (partial by nature): the logic that an executable model can carry is proved — no stack-shape crash on any path of verified code, collector and allocator safety; that the C handlers do at the byte level what the models say is observed by sanitizers and the tree's own tag asserts on the cases run (every accepted program x several heap/stack sizes), never presented as proof",
        ref="DESIGN.md §5 C01",
        note=TB + "; byte-level memory safety of the C handlers is observed (ASan/UBSan/asserts), not proved: no C semantics (VST/CompCert) in this sandbox"),
    "C09": dict(
        engine="E1 gc",
        technique="Coq proof of heap-bookkeeping invariants and exact collection over all operation histories of a model of gc.c; op-history correspondence (exact addresses, lists, marks, objects) with the real gc.c + property oracle on the real heap",
        text="proof: WF/Closed invariants over every finite history, alloc hands out a free cell, cells conserved, collection leaves exactly the reachable cells allocated (payload untouched), fuel of the recursive mark suffices, bounded live data never runs out of memory — all about coq/GC/GCModel.v; the model is tied to back/gc.c by executing generated histories on both (the model predicts every address, both lists, free chain, marks and objects after every op) and an independent reachability oracle on the real heap",
        ref="DESIGN.md §5 C09",
        note=TB + "; not modelled: host recursion depth of gc_mark, malloc failure, OBJECT_UNKNOWN"),
    "C12": dict(
        engine="E3 index",
        technique="Coq proofs about models of object_arr_dim_mult/addr, vm_get_slice_range and the deref/slice/string handlers' guards; exhaustive small-extent + random direct-call correspondence and probe programs under ASan",
        text="proof: row-major addressing exact and injective for in-range tuples, oob reported for the first offending dimension, range/slice composition denotes exactly the composed positions in all four directions, string index/slice guards, shape conformance, exception-table search spec; refuted statements (overflow cases) are proved as _refuted with witnesses and listed as known findings; tie: direct calls into the tree's object.c/vmexec.c/exctab.c (exhaustive for <=3 dims, extents <=4, ranges in [-1,5]^4) and handler-level probe programs",
        ref="DESIGN.md §5 C12",
        note=TB + "; handler-level behaviour is tied through probe programs, not by a model of the whole VM"),
    "C07": dict(
        engine="E4 verifier",
        technique="Coq proof of a bytecode verifier (certificate checker) sound for a stack-shape machine along all paths; extracted checker run on every compiled module; lock-step of the machine on real register traces",
        text="proof: Theorem verify_sound (all observation sequences = all static paths incl. exceptional edges and dynamic call targets) about the shape machine; per program the extracted checker validates the module emitted by the tree's compiler (translation validation with a proved validator); the machine's effect table is tied to back/vmexec.c by lock-step on real traces (hook H1) and the opcode numbering is regenerated from back/bytecode.h",
        ref="DESIGN.md §5 C07",
        note=TB + "; operand kinds flowing through locals/calls are outside the untyped bytecode (C01/C02); function metadata comes from hook H3"),
}

PENDING_REASON = "check not built yet (framework under construction); will be claimed once its Coq theorems and correspondence run"


def main():
    props = [json.loads(l) for l in open(os.path.join(VERIF, "properties.jsonl"))]
    hooks = subprocess.run(["git", "-C", "/repo", "log", "--format=%H %s"], stdout=subprocess.PIPE, text=True).stdout
    hook_commits = [l.split()[0] for l in hooks.splitlines() if "verif hook" in l]
    checks, na = [], []
    for p in props:
        pid = p["id"]
        c = CHECKS.get(pid)
        if c and os.path.exists(os.path.join(VERIF, "checks", pid.lower() + ".py")):
            checks.append({
                "property_id": pid,
                "quick_cmd": "bin/check %s --tier quick" % pid,
                "thorough_cmd": "bin/check %s --tier thorough" % pid,
                "evidence_file": "evidence/%s.json" % pid,
                "replay_cmd_template": "bin/check %s --replay {path}" % pid,
                "engine": c["engine"],
                "level_claimed": {"category": c.get("category", "proof"), "text": c["text"], "design_ref": c["ref"]},
                "level_note": c["note"],
                "technique": c["technique"],
            })
        else:
            na.append({"property_id": pid, "reason": PENDING_REASON})
    m = {
        "version": 1,
        "setup_cmd": "bin/setup",
        "hooks": {"guard": "NEVER_VERIF",
                  "enable": "bin/repobuild asan|plain copies /repo's working tree to a scratch directory, regenerates parser/scanner and compiles it with -DNEVER_VERIF (asserts on; asan adds ASan+UBSan)",
                  "baseline_off_cmd": "bin/baseline-off",
                  "source_commits": hook_commits,
                  "add_only": True},
        "engines": [
            {"name": "E1 gc", "path": "coq/GC harness/gc", "serves_properties": ["C09", "C04", "C16"], "kind_free_text": "Coq model of gc.c + proofs; op-history correspondence"},
            {"name": "E4 verifier", "path": "coq/Verifier harness/vm harness/ocaml/verifier", "serves_properties": ["C07", "C13", "C14", "C03"], "kind_free_text": "proved bytecode verifier + shape machine lock-step"},
            {"name": "E5 source", "path": "coq/Src harness/ocaml/eval", "serves_properties": ["C02", "C08", "C06", "C01"], "kind_free_text": "reference evaluator in Coq, generator, differential"},
        ],
        "checks": checks,
        "notes": "see DESIGN.md; bin/check <id> is the single entry point; known_findings.jsonl lists findings/fixes",
        "not_applicable": na,
    }
    with open(os.path.join(VERIF, "MANIFEST.json"), "w") as f:
        json.dump(m, f, indent=1)
    print("checks:", [c["property_id"] for c in checks], "pending:", len(na))


if __name__ == "__main__":
    main()
