/* apidrive — interpreter of embedding-API histories (property C15) against the tree's libnev.a.
 *
 *   apidrive SCRIPT            one operation per line, '#' starts a comment line
 *
 *   compile_str  <h> <srcfile>            h := program_new(); nev_compile_str(contents of srcfile, h)
 *   compile_file <h> <srcfile>            h := program_new(); nev_compile_file(srcfile, h)
 *   prepare      <h> <entry> [arg]...     nev_prepare(h, entry); on success the declared parameters are
 *                                         filled positionally: i:<dec> | f:<text for strtof> | s:<hex bytes>
 *   prepare      <h> <entry>@argv [arg]...  nev_prepare_argc_argv(h, entry, argc, argv): the arguments as C strings in a
 *                                         NEW host-owned argv vector (earlier vectors stay alive until program_delete)
 *   vm_new       <v> <mem> <stack>        v := vm_new(mem, stack)
 *   execute      <h> <v>                  nev_execute(h, v, &result)
 *   program_delete <h>                    program_delete(h)
 *   vm_delete    <v>                      vm_delete(v)
 *   fpraise      <flag>[,<flag>...]       the HOST application's own float arithmetic: feraiseexcept() of
 *                                         inexact | underflow | overflow | invalid | divbyzero  (no libnev call)
 *   fpclear                               feclearexcept(FE_ALL_EXCEPT) by the host
 *   setenv       <name> <value>           the HOST application changes its environment (NEVER_PATH is read by the
 *   unsetenv     <name>                   compiler at every `use`); no libnev call
 *
 * File names are handed to nev_compile_file exactly as written in the script (relative names are relative to the
 * working directory the driver was started in).
 *
 * Handles are small integers (0..63), programs and VMs in separate pools.  Misuse that the API
 * itself cannot survive (executing a program whose compilation failed is fine: nev_execute returns 1;
 * using a dead handle is not) is refused with a line "REFUSED <why>"; the generator never emits it.
 *
 * After every operation the driver prints (all to the ORIGINAL stdout; everything libnev prints to
 * fd 1 / fd 2 during the call is captured and shown hex-encoded):
 *   @ <index> <the operation as read>
 *   OUT <hex>                 captured stdout of the call
 *   ERR <hex>                 captured stderr of the call
 *   RET <return code | ->
 *   -- compile:   MOD <h> code=<size>:<entry>:<fnv64> exc=<count>:<fnv64> str=<n>:<fnv64> ft=<n>:<fnv64>
 *   -- prepare:   PREP params=<n> addr=<entry_addr> types=<t,t,..>
 *   -- execute:   EXE init=<0|1> before=<sp>,<fp>,<pp> after=<sp>,<fp>,<pp> peak=<max sp seen by the step hook>
 *                     entrysp=<sp when ip first reached code_entry | -> ipeak=<peak before that moment>
 *                     speak=<peak from that moment on | -> steps=<n> state=<vm_state after | exit>
 *                 RES <type> <value>   (int/long decimal, float/double bit pattern, char code)
 *   then the digest of EVERY live handle (the isolation oracle compares the ones not named by the op):
 *   P <h> ret=<compile ret> code=<size>:<entry>:<hash> msgs=<count>:<hash> prep=<params_count>:<entry_addr>
 *   M <h> <k> <hex of msg_array[k]>                      (only for the handle named by a compile op,
 *                                                         and for any handle whose message count changed)
 *   V <v> init=<..> sp=<..> fp=<..> pp=<..> gp=<..> stack=<hash of slots 0..sp> heap=<live cells>:<hash>
 *   CWD <hex of getcwd()>     the working directory of the PROCESS after the operation (no API call may move it)
 *   .                          end of the block
 * If libnev terminates the process from inside a call (exit(1) on "stack too large"/"out of memory") an
 * atexit handler prints  "EXIT-IN-CALL <index>" + OUT/ERR + for execute the EXE line known so far.
 * If a sanitizer or a signal kills the process inside a call the capture files <SCRIPT>.cap.out / .cap.err are
 * left behind (ASan reports go to ASAN_OPTIONS=log_path=..., UBSan reports to the captured fd 2).
 * At end of script: "END <ops>"; remaining handles are deleted (vm first).
 */
#define _GNU_SOURCE
#include <stdio.h>
#include <stdlib.h>
#include <string.h>
#include <unistd.h>
#include <fcntl.h>
#include <fenv.h>
#include "nev.h"
#include "module.h"
#include "bytecode.h"
#include "functab.h"
#include "strtab.h"
#include "exctab.h"
#include "gc.h"

#ifdef NEVER_VERIF
extern void (*nev_verif_step_hook)(vm * machine, bytecode * code);
#endif

#define NH 64
typedef unsigned long long u64;

static FILE * out;
static program * progs[NH];
static int prog_ret[NH];
static unsigned prog_msgs_seen[NH];
static char * prog_src[NH];          /* keeps the source text / file name alive */
static char * prog_args[NH][16];     /* keeps string arguments alive */
static vm * vms[NH];
static char ** prog_argvs[NH][64];   /* every argv vector handed to nev_prepare_argc_argv, kept alive */
static int prog_nargvs[NH];

static int cap_out = -1, cap_err = -1, saved_out = -1, saved_err = -1;
static char cap_out_name[4200], cap_err_name[4200];
static int in_call = 0, cur_index = 0, cur_is_exec = 0;

/* step hook state */
static int h_peak, h_ipeak, h_speak, h_entrysp, h_entry_seen;
static unsigned long h_steps;
static unsigned h_code_entry;
static int e_init, e_sp, e_fp, e_pp;
static vm * e_vm;

static u64 fnv(u64 h, const void * p, size_t n)
{
    const unsigned char * c = p;
    for (size_t i = 0; i < n; i++) { h ^= c[i]; h *= 1099511628211ULL; }
    return h;
}
#define FNV0 1469598103934665603ULL
static u64 fnv_u(u64 h, unsigned v) { return fnv(h, &v, sizeof v); }
static u64 fnv_s(u64 h, const char * s) { if (s == NULL) return fnv_u(h, 0xdeadu); return fnv(fnv_u(h, (unsigned)strlen(s)), s, strlen(s)); }

static void hex(FILE * f, const unsigned char * s, size_t n)
{
    for (size_t i = 0; i < n; i++) fprintf(f, "%02x", s[i]);
}

static void begin_capture(void)
{
    fflush(out); fflush(stdout); fflush(stderr);
    if (ftruncate(cap_out, 0) != 0 || ftruncate(cap_err, 0) != 0) { }
    lseek(cap_out, 0, SEEK_SET); lseek(cap_err, 0, SEEK_SET);
    dup2(cap_out, 1); dup2(cap_err, 2);
    in_call = 1;
}

static void dump_fd(const char * tag, int fd)
{
    unsigned char b[4096]; ssize_t k;
    lseek(fd, 0, SEEK_SET);
    fprintf(out, "%s ", tag);
    while ((k = read(fd, b, sizeof b)) > 0) hex(out, b, (size_t)k);
    fprintf(out, "\n");
}

static void end_capture(void)
{
    fflush(stdout); fflush(stderr);
    dup2(saved_out, 1); dup2(saved_err, 2);
    in_call = 0;
    dump_fd("OUT", cap_out);
    dump_fd("ERR", cap_err);
}

static void step_hook(vm * m, bytecode * bc)
{
    h_steps++;
    if (m->sp > h_peak) h_peak = m->sp;
    if (!h_entry_seen && m->ip == h_code_entry) { h_entry_seen = 1; h_entrysp = m->sp; h_ipeak = h_peak; h_speak = m->sp; }
    if (h_entry_seen && m->sp > h_speak) h_speak = m->sp;
}

static void on_exit_handler(void)
{
    if (!in_call) { unlink(cap_out_name); unlink(cap_err_name); return; }
    fflush(stdout); fflush(stderr);
    dup2(saved_out, 1); dup2(saved_err, 2);
    fprintf(out, "EXIT-IN-CALL %d\n", cur_index);
    dump_fd("OUT", cap_out);
    dump_fd("ERR", cap_err);
    if (cur_is_exec && e_vm != NULL)
    {
        fprintf(out, "EXE init=%d before=%d,%d,%d after=%d,%d,%d peak=%d entrysp=", e_init, e_sp, e_fp, e_pp,
                e_vm->sp, e_vm->fp, e_vm->pp, h_peak > e_vm->sp ? h_peak : e_vm->sp);
        if (h_entry_seen) fprintf(out, "%d ipeak=%d speak=%d", h_entrysp, h_ipeak, h_speak > e_vm->sp ? h_speak : e_vm->sp);
        else fprintf(out, "- ipeak=%d speak=-", h_peak > e_vm->sp ? h_peak : e_vm->sp);
        fprintf(out, " steps=%lu state=exit\n", h_steps);
    }
    fflush(out);
    unlink(cap_out_name); unlink(cap_err_name);
}

/* ---- digests ------------------------------------------------------------------------------- */
static u64 code_hash(module * m)
{
    u64 h = FNV0;
    if (m->code_arr == NULL) return 0;
    for (unsigned a = 0; a < m->code_size; a++)
    {
        bytecode * bc = m->code_arr + a;
        unsigned w[4] = { 0, 0, 0, 0 };
        size_t off = (size_t)((char *)&bc->int_t - (char *)bc);
        size_t n = sizeof(bytecode) - off; if (n > 16) n = 16;
        memcpy(w, (char *)bc + off, n);
        if (bc->type == BYTECODE_ID_FUNC_ADDR) { w[1] = w[2] = w[3] = 0; }   /* union with a pointer */
        h = fnv_u(h, (unsigned)bc->type); h = fnv_u(h, bc->addr);
        h = fnv(h, w, sizeof w);
    }
    return h;
}

static void print_module(int hd, module * m)
{
    u64 h;
    fprintf(out, "MOD %d code=%u:%u:%016llx", hd, m->code_arr ? m->code_size : 0, m->code_arr ? m->code_entry : 0, code_hash(m));
    h = FNV0;
    if (m->exctab_value != NULL)
    {
        for (unsigned e = 0; e < m->exctab_value->count; e++)
        { h = fnv_u(h, m->exctab_value->tab[e].block_addr); h = fnv_u(h, m->exctab_value->tab[e].handler_addr); }
        fprintf(out, " exc=%u:%016llx", m->exctab_value->count, h);
    }
    else fprintf(out, " exc=-");
    h = FNV0;
    if (m->strtab_array != NULL)
    {
        for (unsigned s = 0; s < m->strtab_size; s++) h = fnv_s(h, m->strtab_array[s]);
        fprintf(out, " str=%u:%016llx", m->strtab_size, h);
    }
    else fprintf(out, " str=-");
    h = FNV0;
    if (m->functab_value != NULL)
    {
        functab * ft = m->functab_value; unsigned cnt = 0;
        for (unsigned e = 0; e < ft->size; e++)
            if (ft->entries[e].type != 0)
            {
                cnt++;
                h = fnv_u(h, e); h = fnv_s(h, ft->entries[e].id); h = fnv_u(h, ft->entries[e].func_addr);
                h = fnv_u(h, (unsigned)ft->entries[e].entry_type); h = fnv_u(h, ft->entries[e].params_count);
                for (unsigned p = 0; p < ft->entries[e].params_count; p++) h = fnv_u(h, (unsigned)ft->entries[e].params[p].type);
            }
        fprintf(out, " ft=%u:%016llx", cnt, h);
    }
    else fprintf(out, " ft=-");
    fprintf(out, "\n");
}

static void print_prog_digest(int hd, int force_msgs)
{
    program * p = progs[hd];
    u64 h = FNV0;
    for (unsigned k = 0; k < p->msg_count; k++) h = fnv_s(h, p->msg_array[k]);
    fprintf(out, "P %d ret=%d code=%u:%u:%016llx msgs=%u:%016llx prep=%u:%u\n", hd, prog_ret[hd],
            p->module_value->code_arr ? p->module_value->code_size : 0,
            p->module_value->code_arr ? p->module_value->code_entry : 0,
            code_hash(p->module_value), p->msg_count, h, p->params_count, p->entry_addr);
    if (force_msgs || p->msg_count != prog_msgs_seen[hd])
    {
        for (unsigned k = 0; k < p->msg_count; k++)
        {
            fprintf(out, "M %d %u ", hd, k);
            hex(out, (unsigned char *)p->msg_array[k], strlen(p->msg_array[k]));
            fprintf(out, "\n");
        }
        prog_msgs_seen[hd] = p->msg_count;
    }
}

static u64 object_hash(u64 h, object * o)
{
    h = fnv_u(h, (unsigned)o->type);
    switch (o->type)
    {
    case OBJECT_INT: h = fnv(h, &o->int_value, 4); break;
    case OBJECT_LONG: h = fnv(h, &o->long_value, 8); break;
    case OBJECT_FLOAT: h = fnv(h, &o->float_value, 4); break;
    case OBJECT_DOUBLE: h = fnv(h, &o->double_value, 8); break;
    case OBJECT_CHAR: h = fnv(h, &o->char_value, 1); break;
    case OBJECT_STRING: h = fnv_s(h, o->string_value); break;
    case OBJECT_STRING_REF: h = fnv_u(h, o->string_ref_value); break;
    case OBJECT_VEC_REF: h = fnv_u(h, o->vec_ref_value); break;
    case OBJECT_ARRAY_REF: h = fnv_u(h, o->arr_ref_value); break;
    case OBJECT_VEC:
        if (o->vec_value) { h = fnv_u(h, o->vec_value->size); for (unsigned i = 0; i < o->vec_value->size; i++) h = fnv_u(h, o->vec_value->value[i]); }
        break;
    case OBJECT_ARRAY:
        if (o->arr_value) { h = fnv_u(h, o->arr_value->dims); h = fnv_u(h, o->arr_value->elems);
            for (unsigned i = 0; i < o->arr_value->dims; i++) h = fnv_u(h, o->arr_value->dv[i].elems);
            for (unsigned i = 0; i < o->arr_value->elems; i++) h = fnv_u(h, o->arr_value->value[i]); }
        break;
    case OBJECT_FUNC:
        if (o->func_value) { h = fnv_u(h, o->func_value->vec); h = fnv_u(h, o->func_value->addr); }
        break;
    default: break;
    }
    return h;
}

static void print_vm_digest(int vd)
{
    vm * m = vms[vd];
    u64 hs = FNV0, hh = FNV0; unsigned live = 0;
    for (int i = 0; i <= m->sp && i < m->stack_size; i++)
    { hs = fnv_u(hs, (unsigned)m->stack[i].type); hs = fnv_u(hs, m->stack[i].addr); }
    for (unsigned i = 1; i < m->collector->mem_size; i++)
        if (m->collector->mem[i].object_value != NULL)
        { live++; hh = fnv_u(hh, i); hh = object_hash(hh, m->collector->mem[i].object_value); }
    fprintf(out, "V %d init=%u sp=%d fp=%d pp=%d gp=%u stack=%016llx heap=%u:%016llx\n", vd, m->initialized,
            m->sp, m->fp, m->pp, m->gp, hs, live, hh);
}

static void print_all(int named_prog)
{
    char cwd[4200];
    for (int i = 0; i < NH; i++) if (progs[i]) print_prog_digest(i, i == named_prog);
    for (int i = 0; i < NH; i++) if (vms[i]) print_vm_digest(i);
    if (getcwd(cwd, sizeof cwd) == NULL) strcpy(cwd, "?");
    fprintf(out, "CWD "); hex(out, (unsigned char *)cwd, strlen(cwd)); fprintf(out, "\n");
    fprintf(out, ".\n");
    fflush(out);
}

static void print_result(object * r)
{
    switch (r->type)
    {
    case OBJECT_INT: fprintf(out, "RES int %d\n", r->int_value); break;
    case OBJECT_LONG: fprintf(out, "RES long %lld\n", r->long_value); break;
    case OBJECT_FLOAT: { unsigned b; memcpy(&b, &r->float_value, 4); fprintf(out, "RES float %08x\n", b); break; }
    case OBJECT_DOUBLE: { u64 b; memcpy(&b, &r->double_value, 8); fprintf(out, "RES double %016llx\n", b); break; }
    case OBJECT_CHAR: fprintf(out, "RES char %d\n", (int)r->char_value); break;
    default: fprintf(out, "RES other %d\n", (int)r->type); break;
    }
}

static char * read_file(const char * path)
{
    FILE * f = fopen(path, "rb");
    if (!f) return NULL;
    fseek(f, 0, SEEK_END); long n = ftell(f); fseek(f, 0, SEEK_SET);
    char * b = malloc((size_t)n + 1);
    if (fread(b, 1, (size_t)n, f) != (size_t)n) { }
    b[n] = 0; fclose(f);
    return b;
}

static char * unhex(const char * s)
{
    size_t n = strlen(s) / 2; char * b = malloc(n + 1);
    for (size_t i = 0; i < n; i++) { unsigned v = 0; sscanf(s + 2 * i, "%2x", &v); b[i] = (char)v; }
    b[n] = 0; return b;
}

static int handle(const char * s)
{
    int h = atoi(s);
    return (h < 0 || h >= NH) ? -1 : h;
}

int main(int argc, char ** argv)
{
    if (argc < 2) { fprintf(stderr, "usage: apidrive SCRIPT\n"); return 2; }
    FILE * sc = fopen(argv[1], "r");
    if (!sc) { perror(argv[1]); return 2; }
    out = fdopen(dup(1), "w");
    saved_out = dup(1); saved_err = dup(2);
    /* capture files live beside the script; they are removed on every orderly end (return, exit()).  If a
       sanitizer or a signal kills the process inside a call they stay, and the caller finds in <script>.cap.err
       what went to fd 2 (UBSan reports, the library's last words). */
    snprintf(cap_out_name, sizeof cap_out_name, "%s.cap.out", argv[1]);
    snprintf(cap_err_name, sizeof cap_err_name, "%s.cap.err", argv[1]);
    cap_out = open(cap_out_name, O_CREAT | O_TRUNC | O_RDWR, 0600);
    cap_err = open(cap_err_name, O_CREAT | O_TRUNC | O_RDWR, 0600);
    if (cap_out < 0 || cap_err < 0) { perror("capture files"); return 2; }
    atexit(on_exit_handler);
#ifdef NEVER_VERIF
    nev_verif_step_hook = step_hook;
#endif

    char line[8192]; int index = 0;
    while (fgets(line, sizeof line, sc))
    {
        char * tok[40]; int nt = 0;
        size_t L = strlen(line);
        while (L > 0 && (line[L - 1] == '\n' || line[L - 1] == '\r')) line[--L] = 0;
        if (line[0] == '#' || line[0] == 0) continue;
        fprintf(out, "@ %d %s\n", index, line);
        for (char * t = strtok(line, " "); t && nt < 40; t = strtok(NULL, " ")) tok[nt++] = t;
        cur_index = index; cur_is_exec = 0;
        int named_prog = -1;
        if ((!strcmp(tok[0], "compile_str") || !strcmp(tok[0], "compile_file")) && nt == 3)
        {
            int h = handle(tok[1]);
            if (h < 0 || progs[h]) { fprintf(out, "REFUSED bad or live program handle\n"); }
            else
            {
                int is_str = !strcmp(tok[0], "compile_str");
                char * txt = is_str ? read_file(tok[2]) : strdup(tok[2]);
                if (txt == NULL) { fprintf(out, "REFUSED cannot read %s\n", tok[2]); }
                else
                {
                    progs[h] = program_new(); prog_src[h] = txt; prog_msgs_seen[h] = 0;
                    begin_capture();
                    int ret = is_str ? nev_compile_str(txt, progs[h]) : nev_compile_file(txt, progs[h]);
                    prog_ret[h] = ret;
                    end_capture();
                    fprintf(out, "RET %d\n", ret);
                    print_module(h, progs[h]->module_value);
                    named_prog = h;
                }
            }
        }
        else if (!strcmp(tok[0], "prepare") && nt >= 3)
        {
            int h = handle(tok[1]);
            if (h < 0 || !progs[h]) fprintf(out, "REFUSED dead program handle\n");
            else if (progs[h]->module_value->functab_value == NULL) fprintf(out, "REFUSED no functab\n");
            else
            {
                program * p = progs[h];
                char * at = strstr(tok[2], "@argv");
                if (at != NULL && at[5] == 0)
                {
                    int ac = nt - 3, ret;
                    char ** av = calloc((size_t)ac + 1, sizeof(char *));
                    *at = 0;
                    for (int i = 0; i < ac; i++)
                    {
                        const char * a = tok[i + 3];
                        av[i] = (a[0] == 's' && a[1] == ':') ? unhex(a + 2) : strdup(strlen(a) >= 2 && a[1] == ':' ? a + 2 : a);
                    }
                    if (prog_nargvs[h] < 64) prog_argvs[h][prog_nargvs[h]++] = av;
                    begin_capture();
                    ret = nev_prepare_argc_argv(p, tok[2], (unsigned)ac, av);
                    end_capture();
                    fprintf(out, "RET %d\n", ret);
                    if (ret == 0) fprintf(out, "PREP params=%u addr=%u types=argv:%d\n", p->params_count, p->entry_addr, ac);
                    print_all(-1);
                    index++;
                    continue;
                }
                begin_capture();
                int ret = nev_prepare(p, tok[2]);
                end_capture();
                fprintf(out, "RET %d\n", ret);
                if (ret == 0)
                {
                    fprintf(out, "PREP params=%u addr=%u types=", p->params_count, p->entry_addr);
                    for (unsigned i = 0; i < p->params_count; i++)
                    {
                        const char * a = (int)i + 3 < nt ? tok[i + 3] : "i:0";
                        const char * v = strlen(a) >= 2 ? a + 2 : "";
                        fprintf(out, "%s%d", i ? "," : "", (int)p->params[i].type);
                        if (p->params[i].type == OBJECT_INT) p->params[i].int_value = (int)strtol(v, NULL, 10);
                        else if (p->params[i].type == OBJECT_FLOAT) p->params[i].float_value = strtof(v, NULL);
                        else if (p->params[i].type == OBJECT_STRING_REF)
                        {
                            if (i < 16) { free(prog_args[h][i]); prog_args[h][i] = a[0] == 's' ? unhex(v) : strdup(v); p->params[i].string_value = prog_args[h][i]; }
                        }
                    }
                    fprintf(out, "\n");
                }
                named_prog = -1;
            }
        }
        else if (!strcmp(tok[0], "vm_new") && nt == 4)
        {
            int v = handle(tok[1]);
            if (v < 0 || vms[v]) fprintf(out, "REFUSED bad or live vm handle\n");
            else
            {
                begin_capture();
                vms[v] = vm_new((unsigned)atoi(tok[2]), (unsigned)atoi(tok[3]));
                end_capture();
                fprintf(out, "RET -\n");
            }
        }
        else if (!strcmp(tok[0], "execute") && nt == 3)
        {
            int h = handle(tok[1]), v = handle(tok[2]);
            if (h < 0 || v < 0 || !progs[h] || !vms[v]) fprintf(out, "REFUSED dead handle\n");
            else
            {
                object result = { 0 };
                vm * m = vms[v];
                e_vm = m; e_init = (int)m->initialized; e_sp = m->sp; e_fp = m->fp; e_pp = m->pp;
                h_peak = m->sp; h_ipeak = m->sp; h_speak = m->sp; h_steps = 0; h_entry_seen = 0; h_entrysp = 0;
                h_code_entry = progs[h]->module_value->code_entry;
                cur_is_exec = 1;
                begin_capture();
                int ret = nev_execute(progs[h], m, &result);
                end_capture();
                cur_is_exec = 0;
                fprintf(out, "RET %d\n", ret);
                fprintf(out, "EXE init=%d before=%d,%d,%d after=%d,%d,%d peak=%d entrysp=", e_init, e_sp, e_fp, e_pp,
                        m->sp, m->fp, m->pp, h_peak > m->sp ? h_peak : m->sp);
                if (h_entry_seen) fprintf(out, "%d ipeak=%d speak=%d", h_entrysp, h_ipeak, h_speak > m->sp ? h_speak : m->sp);
                else fprintf(out, "- ipeak=%d speak=-", h_peak > m->sp ? h_peak : m->sp);
                fprintf(out, " steps=%lu state=%d\n", h_steps, (int)m->running);
                if (ret == 0) print_result(&result);
            }
        }
        else if (!strcmp(tok[0], "program_delete") && nt == 2)
        {
            int h = handle(tok[1]);
            if (h < 0 || !progs[h]) fprintf(out, "REFUSED dead program handle\n");
            else
            {
                begin_capture();
                program_delete(progs[h]);
                end_capture();
                progs[h] = NULL; free(prog_src[h]); prog_src[h] = NULL;
                for (int i = 0; i < 16; i++) { free(prog_args[h][i]); prog_args[h][i] = NULL; }
                for (int i = 0; i < prog_nargvs[h]; i++) { for (char ** q = prog_argvs[h][i]; *q; q++) free(*q); free(prog_argvs[h][i]); }
                prog_nargvs[h] = 0;
                fprintf(out, "RET -\n");
            }
        }
        else if (!strcmp(tok[0], "vm_delete") && nt == 2)
        {
            int v = handle(tok[1]);
            if (v < 0 || !vms[v]) fprintf(out, "REFUSED dead vm handle\n");
            else
            {
                begin_capture();
                vm_delete(vms[v]);
                end_capture();
                vms[v] = NULL;
                fprintf(out, "RET -\n");
            }
        }
        else if (!strcmp(tok[0], "fpraise") && nt == 2)
        {
            int mask = 0;
            if (strstr(tok[1], "inexact")) mask |= FE_INEXACT;
            if (strstr(tok[1], "underflow")) mask |= FE_UNDERFLOW;
            if (strstr(tok[1], "overflow")) mask |= FE_OVERFLOW;
            if (strstr(tok[1], "invalid")) mask |= FE_INVALID;
            if (strstr(tok[1], "divbyzero")) mask |= FE_DIVBYZERO;
            feraiseexcept(mask);
            fprintf(out, "RET -\n");
        }
        else if (!strcmp(tok[0], "fpclear") && nt == 1)
        {
            feclearexcept(FE_ALL_EXCEPT);
            fprintf(out, "RET -\n");
        }
        else if (!strcmp(tok[0], "setenv") && nt == 3)
        {
            setenv(tok[1], tok[2], 1);
            fprintf(out, "RET -\n");
        }
        else if (!strcmp(tok[0], "setenv") && nt == 2)
        {
            setenv(tok[1], "", 1);
            fprintf(out, "RET -\n");
        }
        else if (!strcmp(tok[0], "unsetenv") && nt == 2)
        {
            unsetenv(tok[1]);
            fprintf(out, "RET -\n");
        }
        else fprintf(out, "REFUSED unknown operation\n");
        print_all(named_prog);
        index++;
    }
    fclose(sc);
    fprintf(out, "END %d\n", index);
    fflush(out);
    for (int i = 0; i < NH; i++) if (vms[i]) { vm_delete(vms[i]); vms[i] = NULL; }
    for (int i = 0; i < NH; i++) if (progs[i]) { program_delete(progs[i]); progs[i] = NULL; free(prog_src[i]);
        for (int k = 0; k < 16; k++) free(prog_args[i][k]); }
    close(cap_out); close(cap_err);
    return 0;
}
