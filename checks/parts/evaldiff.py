"""Source-level differential check (engine E5): real compiler + VM  vs  the reference evaluator
extracted from coq/Src/Eval.v, on type-directed generated programs.

    run_evaldiff(ctx, profiles, ncases, tier, on_crash=None, variants=("o","u","r"))

Pipeline (16 workers): `build/ocaml/eval/run gen <seed> <n> <dir> <profile>` writes for every case
the Never source of the original program (`<id>.o`), of the *uniquified* program (`<id>.u`: every
binder renamed to a fresh name following lexical scoping) and of an *injectively renamed* program
(`<id>.r`), together with the outcome the evaluator computed (result value, printed numbers,
unhandled exception).  The three programs run under harness/common/nevrun.c built against the
tree's ASan/UBSan libnev.a (fresh process per program, time limit).  Outcomes are canonicalised
to  (RESULT v | UNHANDLED name, [printed integers])  and compared.

Classification of a case
  (a) the compiler accepted the original and its outcome differs from the evaluator's
         -> C02: the PROPERTY fails on the real code (the evaluator is the property's oracle).
            The AST is shrunk automatically (`run shrink`: drop items, replace expressions by
            operands / literals, re-check on both sides) and the key of the violation is the
            node-kind signature of the minimised program, else the case id.
  (b) signal / abort / sanitizer report / time-out of the real tool chain on a generated program
         -> C01 material: reported through on_crash(case); also returned in `crashes`.
  (c) the compiler rejects the original of a generated program
         -> the generator and the type checker disagree: correspondence broken
            ("generator-program-rejected").
  (d) the three variants do not behave alike on the real compiler (outcome, or one is rejected /
      crashes and another is not)
         -> C08: the meaning of the program depends on how its bound names are spelled.
  Evaluator-internal: if renaming changes the *evaluator's* outcome the case is dropped and
  reported as a broken correspondence of the harness (uniquifier), never as a violation.

Heap configurations (`heaps=(150, 400)`): the original program additionally runs with these small
VM heaps (nevrun batch entries `<id>.h<mem>` with `mem=<mem>`; default 20000 cells), so that
garbage collections really happen while frames are suspended in calls.  A run that reaches the
heap limit is skipped for that configuration; a crash or an outcome that differs from the
evaluator's is classified as (b) / (a) with the configuration in the replay, and is shrunk under
the same heap.  heap_mode "all": every case runs with every size; "rotate": case i runs with
heaps[i mod len].

Constructs the generator avoids on purpose (each is a known difference, reported to the lead):
  * closure capturing x followed by a binding of x later in the same block (pinned compiler:
    assertion `unknown freevar x during emit`) — known finding, kept as corpus/C08/late_shadow_*.json;
  * (no longer avoided: adjacent nested functions are mutually visible in Never and, through func_env,
    in Eval.v: forward references and mutual recursion between siblings are generated);
  * compile-time constant zero divisors (rejected by the compiler);
  * catch clauses on a function whose self call is in tail position (the compiler turns the call into
    a jump; a clause that faults is then not followed by the clauses of the replaced activations; ruled
    correct under C13's loop reading; Eval.v has no tail-call elimination).
  INT_MIN / -1 was avoided until 7c75cd1 made it wrap; it is generated now.
"""
import concurrent.futures
import hashlib
import json
import os
import re
import shutil
import tempfile
import time

from lib import common

RUN = os.path.join(common.BUILD, "ocaml", "eval", "run")
NPROC = 16
CHUNK = 120                      # cases per generator/nevrun process (x3 programs)
CHUNK_OF = {"tailrec": 24}       # the evaluator needs ~0.2 s for a 400-iteration tail loop
PROFILE_WEIGHT = {"tailrec": 0.35}
ASAN_ENV = "detect_leaks=0:abort_on_error=0:exitcode=99:allocator_may_return_null=1"
INT_RE = re.compile(r"^-?\d+$")
UNH_RE = re.compile(r"unhandled (\w+) exception")
SAN_RE = re.compile(r"(ERROR: AddressSanitizer|ERROR: LeakSanitizer|runtime error:|Assertion `.*' failed|SUMMARY: \w+Sanitizer)")

ALL_PROFILES = ["arith", "order", "alias", "closure", "shadow", "loops", "records", "arrays", "catch",
                "tailrec", "pipe", "mix"]
PIPE_PCT = {"pipe": 65, "mix": 8}   # weight pp_pipe of the profiles (gen.ml): needed to re-print a case the same way


def drv_env():
    env = dict(os.environ)
    env["ASAN_OPTIONS"] = ASAN_ENV
    env["UBSAN_OPTIONS"] = "print_stacktrace=0:halt_on_error=1"
    return env


def build_eval():
    """bin/build-ocaml builds every engine and stops at the first one that fails; if some OTHER engine
    is broken, build the eval engine alone (same steps as bin/build-ocaml)."""
    ok, log = common.ocaml_build()
    if ok and os.path.exists(RUN):
        return True, log
    d = os.path.join(common.BUILD, "ocaml", "eval")
    ex = os.path.join(common.COQ, "Extract", "ExtractEval.v")
    drv = os.path.join(common.VERIF, "harness", "ocaml", "eval")
    cmd = ("set -e; mkdir -p %(d)s; cd %(d)s; rm -f *.ml *.mli *.cm* *.o; "
           "coqc -Q %(coq)s NV %(ex)s -o %(d)s/ExtractEval.vo >/dev/null; rm -f ExtractEval.vo ExtractEval.glob .*.aux; "
           "cp %(drv)s/*.ml .; files=\"$(ocamlfind ocamldep -sort *.mli *.ml)\"; "
           "ocamlfind ocamlopt -O3 -w -a -package unix,str -linkpkg $files -o run 2>build.log || "
           "ocamlfind ocamlopt -w -a -package unix,str -linkpkg $files -o run 2>build.log") % {
               "d": d, "coq": common.COQ, "ex": ex, "drv": drv}
    with common.Lock("ocaml"):
        rc, so, se = common.sh(["bash", "-c", cmd], timeout=600)
    return rc == 0 and os.path.exists(RUN), log + so + se


def run_ocaml(args, timeout=600):
    """the evaluator recurses deeply: give it a large stack"""
    cmd = "ulimit -s unlimited 2>/dev/null || ulimit -s 4000000 2>/dev/null; exec %s %s" % (
        RUN, " ".join("'%s'" % a for a in args))
    return common.sh(["bash", "-c", cmd], timeout=timeout)


# ------------------------------------------------------------------------------------------------
# parsing
# ------------------------------------------------------------------------------------------------
def parse_nevrun(text):
    """id -> dict(kind, value, printed, status, log)"""
    res = {}
    cur, lines, outcome = None, [], None
    for line in text.split("\n"):
        if line.startswith("@@BEGIN "):
            cur, lines, outcome = line[8:].strip(), [], None
        elif line.startswith("@@OUTCOME ") and cur is not None:
            outcome = line.split(" ", 3)[2:]
        elif line.startswith("@@END ") and cur is not None:
            m = re.search(r"status=(.*)$", line)
            status = m.group(1).strip() if m else "?"
            res[cur] = canon_real(outcome, status, lines)
            cur = None
        elif cur is not None:
            lines.append(line)
    return res


def canon_real(outcome, status, lines):
    printed = [int(l) for l in lines if INT_RE.match(l.strip())] if lines else []
    printed = [int(l.strip()) for l in lines if INT_RE.match(l.strip())]
    log = "\n".join(l for l in lines if l.strip() and not INT_RE.match(l.strip()))
    san = SAN_RE.search(log)
    r = {"printed": printed, "status": status, "log": log[-1500:]}
    if san or status.startswith("signal") or status == "timeout" or status == "unknown" or status == "99":
        r["kind"], r["value"] = "CRASH", (san.group(0) if san else status)
        return r
    if outcome is None:
        # exit(1) paths of the VM: stack too large / out of memory
        r["kind"], r["value"] = "LIMIT", log[-200:]
        return r
    kind = outcome[0]
    if kind == "RESULT":
        parts = outcome[1].split()
        r["kind"], r["value"] = "RESULT", (int(parts[1]) if parts[0] in ("int", "long", "char") else outcome[1])
    elif kind == "EXEC_ERROR":
        m = UNH_RE.search(log)
        r["kind"], r["value"] = ("UNHANDLED", m.group(1)) if m else ("EXEC_ERROR", log[-200:])
    elif kind == "COMPILE_ERROR":
        errs = [l for l in lines if "error:" in l]
        r["kind"], r["value"] = "COMPILE_ERROR", (errs[0] if errs else "")
    else:
        r["kind"], r["value"] = kind, " ".join(outcome[1:])
    return r


def canon_expected(kind, printed):
    """`RESULT int 5` / `RESULT bool 1` / `UNHANDLED name` -> same shape as canon_real"""
    p = [int(x) for x in printed.split(",") if x != ""]
    t = kind.split()
    if t[0] == "RESULT" and len(t) == 3 and t[1] in ("int", "bool"):
        return {"kind": "RESULT", "value": int(t[2]), "printed": p}
    if t[0] == "UNHANDLED":
        return {"kind": "UNHANDLED", "value": t[1], "printed": p}
    return {"kind": kind, "value": None, "printed": p}


def same(a, b):
    return a["kind"] == b["kind"] and a["value"] == b["value"] and a["printed"] == b["printed"]


def short(o):
    return {"kind": o["kind"], "value": o["value"], "printed": o["printed"][:40], "nprinted": len(o["printed"])}


def split_batch(text):
    """id -> source"""
    out = {}
    for m in re.finditer(r"^@@@ (\S+)[^\n]*\n(.*?)(?=^@@@ |\Z)", text, re.M | re.S):
        out[m.group(1)] = m.group(2)
    return out


# ------------------------------------------------------------------------------------------------
# one chunk: generate, run, compare
# ------------------------------------------------------------------------------------------------
def heaps_of(cid, heaps, heap_mode):
    """the small heap sizes case `cid` (= <profile>-<seed>-<index>) additionally runs with"""
    if not heaps:
        return ()
    if heap_mode == "rotate":
        try:
            i = int(cid.rsplit("-", 1)[1])
        except ValueError:
            i = 0
        return (heaps[i % len(heaps)],)
    return tuple(heaps)


def run_chunk(job):
    nevrun, tmp, profile, seed, n, overrides, variants, timeout, heaps, heap_mode = job
    d = os.path.join(tmp, "%s_%d" % (profile, seed))
    os.makedirs(d, exist_ok=True)
    t0 = time.time()
    rc, so, se = run_ocaml(["gen", str(seed), str(n), d, profile] + list(overrides), timeout=900)
    tgen = time.time() - t0
    tag = "%s_%d" % (profile, seed)
    if rc != 0:
        return {"error": "generator failed rc=%s: %s" % (rc, (se or so)[-1500:]), "profile": profile, "seed": seed}
    batch = os.path.join(d, "batch_%s.txt" % tag)
    nheap = 0
    if tuple(variants) != ("o", "u", "r") or heaps:
        srcs = split_batch(open(batch).read())
        with open(batch, "w") as f:
            for pid, src in srcs.items():
                cid, var = pid.rsplit(".", 1)
                if var in variants:
                    f.write("@@@ %s stack=3000 mem=20000\n%s" % (pid, src))
                if var == "o":
                    for mem in heaps_of(cid, heaps, heap_mode):
                        f.write("@@@ %s.h%d stack=3000 mem=%d\n%s" % (cid, mem, mem, src))
                        nheap += 1
    t1 = time.time()
    nprog = n * len(variants) + nheap
    # the whole batch has a time budget too: a tree on which loops do not terminate any more must not
    # stall the check (programs not reached are counted as skipped; what was seen is reported)
    rc, out, err = common.sh([nevrun, "--timeout", str(timeout), "--batch", batch], timeout=40 + 0.25 * nprog, env=drv_env())
    trun = time.time() - t1
    real = parse_nevrun(out)
    res = compare_chunk(d, tag, real, variants, heaps, heap_mode)
    res.update({"profile": profile, "seed": seed, "tgen": tgen, "trun": trun, "dir": d})
    res["dist"] = json.load(open(os.path.join(d, "dist_%s.json" % tag)))
    return res


def compare_chunk(d, tag, real, variants, heaps=(), heap_mode="all"):
    srcs = None
    asts = None

    def source(pid):
        nonlocal srcs
        if srcs is None:
            srcs = split_batch(open(os.path.join(d, "batch_%s.txt" % tag)).read())
        return srcs.get(pid, "")

    def ast(cid):
        nonlocal asts
        if asts is None:
            asts = {}
            for line in open(os.path.join(d, "ast_%s.txt" % tag)):
                k, _, v = line.rstrip("\n").partition("\t")
                asts[k] = v
        return asts.get(cid, "")

    res = {"evaluations": 0, "cases": 0, "nontrivial_hashes": [], "c02": [], "c08": [], "crashes": [],
           "rejected": [], "limits": 0, "harness": [], "samples": [], "agree": 0, "notrun": 0,
           "heap_runs": 0, "heap_limits": 0, "heap_agree": 0}
    for line in open(os.path.join(d, "expect_%s.tsv" % tag)):
        f = line.rstrip("\n").split("\t")
        if len(f) < 7:
            continue
        cid, profile, nt, kind, printed, flags, nodes = f[:7]
        if kind.startswith("HARNESS"):
            res["harness"].append({"case": cid, "what": kind, "ast": ast(cid)})
            continue
        exp = canon_expected(kind, printed)
        outs = {v: real.get("%s.%s" % (cid, v)) for v in variants}
        if any(o is None for o in outs.values()):
            res["notrun"] += 1
            continue
        res["cases"] += 1
        res["evaluations"] += len(variants)
        o = outs["o"] if "o" in outs else None
        base = {"case": cid, "profile": profile, "nodes": int(nodes), "flags": flags}

        def full(extra):
            c = dict(base)
            c.update(extra)
            c["source"] = source(cid + ".o")
            c["ast"] = ast(cid)
            c["expected"] = short(exp)
            c["real"] = {v: short(x) for v, x in outs.items()}
            return c

        # the original under small heaps: collections happen while calls are pending.  Reported only when
        # the default configuration itself behaves (that one is classified below); one report per case
        o_fine = o is not None and o["kind"] in ("RESULT", "UNHANDLED") and same(o, exp)
        for mem in heaps_of(cid, heaps, heap_mode):
            h = real.get("%s.h%d" % (cid, mem))
            if h is None:
                continue
            res["heap_runs"] += 1
            res["evaluations"] += 1
            if h["kind"] == "LIMIT":
                res["heap_limits"] += 1
            elif h["kind"] == "COMPILE_ERROR" or not o_fine:
                pass
            elif h["kind"] == "CRASH":
                c = full({"variant": "o", "mem": mem, "crash": h["value"], "log": h["log"],
                          "what": "crash with a %d-cell heap (no crash with 20000 cells)" % mem})
                c["real"]["h%d" % mem] = short(h)
                res["crashes"].append(c)
                break
            elif not same(h, exp):
                c = full({"mem": mem, "what": "with a %d-cell heap the real outcome differs from the evaluator (and from the run with 20000 cells)" % mem})
                c["real"]["h%d" % mem] = short(h)
                res["c02"].append(c)
                break
            else:
                res["heap_agree"] += 1

        kinds = {v: x["kind"] for v, x in outs.items()}
        if any(k == "CRASH" for k in kinds.values()):
            v = [v for v, k in kinds.items() if k == "CRASH"][0]
            c = full({"variant": v, "crash": outs[v]["value"], "log": outs[v]["log"], "variant_source": source("%s.%s" % (cid, v))})
            res["crashes"].append(c)
            if len(set(kinds.values())) > 1:
                res["c08"].append(full({"what": "variants differ: %s" % kinds, "log": outs[v]["log"]}))
            continue
        if any(k == "LIMIT" for k in kinds.values()):
            res["limits"] += 1
            continue
        if o is not None and o["kind"] == "COMPILE_ERROR":
            if all(k == "COMPILE_ERROR" for k in kinds.values()):
                res["rejected"].append(full({"error": o["value"], "log": o["log"]}))
            else:
                res["c08"].append(full({"what": "original rejected, a renamed variant accepted: %s" % kinds, "log": o["log"]}))
            continue
        # variants among each other (C08)
        ref = o if o is not None else list(outs.values())[0]
        diff = [v for v, x in outs.items() if not same(x, ref)]
        if diff:
            res["c08"].append(full({"what": "variant %s behaves differently from the original" % diff[0],
                                    "variant_source": source("%s.%s" % (cid, diff[0]))}))
        # original against the evaluator (C02)
        if o is not None and not same(o, exp):
            res["c02"].append(full({"what": "real outcome differs from the evaluator"}))
        elif not diff:
            res["agree"] += 1
            if nt == "1":
                res["nontrivial_hashes"].append(hashlib.sha256(source(cid + ".o").encode()).hexdigest()[:16])
            if len(res["samples"]) < 2 and int(nodes) < 120 and nt == "1":
                res["samples"].append({"case": cid, "source": source(cid + ".o"), "outcome": short(exp)})
    return res


# ------------------------------------------------------------------------------------------------
# shrinking
# ------------------------------------------------------------------------------------------------
def still_failing(exp_line, real):
    f = exp_line.rstrip("\n").split("\t")
    cid, kind, printed = f[0], f[3], f[4]
    o = real.get(cid + ".o")
    if o is None or o["kind"] in ("COMPILE_ERROR", "LIMIT"):
        return None
    exp = canon_expected(kind, printed)
    if o["kind"] == "CRASH" or not same(o, exp):
        return {"case": cid, "expected": short(exp), "real": short(o), "signature": f[5], "nodes": int(f[6])}
    return None


def shrink(nevrun, tmp, case, budget_s=90, max_rounds=60, want_crash=False):
    """greedy: among all one-step simplifications keep the smallest one that still disagrees
    (under the heap configuration of the case; candidates that reach the heap limit are dropped)"""
    mem = int(case.get("mem") or 20000)
    d = os.path.join(tmp, "shrink_" + re.sub(r"[^A-Za-z0-9]", "_", case["case"]))
    os.makedirs(d, exist_ok=True)
    cur_ast, best = case["ast"], None
    t0 = time.time()
    rounds = 0
    while rounds < max_rounds and time.time() - t0 < budget_s:
        rounds += 1
        with open(os.path.join(d, "cur.txt"), "w") as f:
            f.write("m\t" + cur_ast + "\n")
        rc, so, se = run_ocaml(["shrink", os.path.join(d, "cur.txt"), d] +
                               (["pipe=%d" % PIPE_PCT[case["profile"]]] if case.get("profile") in PIPE_PCT else []), timeout=300)
        if rc != 0:
            break
        batch = os.path.join(d, "batch_shrink.txt")
        if not os.path.exists(batch) or os.path.getsize(batch) == 0:
            break
        # split the candidates over the workers
        srcs = split_batch(open(batch).read())
        ids = list(srcs)
        parts = [ids[i::NPROC] for i in range(NPROC) if ids[i::NPROC]]
        files = []
        for i, part in enumerate(parts):
            p = os.path.join(d, "part_%d.txt" % i)
            with open(p, "w") as f:
                for pid in part:
                    f.write("@@@ %s stack=3000 mem=%d\n%s" % (pid, mem, srcs[pid]))
            files.append(p)
        with concurrent.futures.ThreadPoolExecutor(NPROC) as ex:
            outs = list(ex.map(lambda p: common.sh([nevrun, "--timeout", "5", "--batch", p], timeout=600, env=drv_env())[1], files))
        real = {}
        for o in outs:
            real.update(parse_nevrun(o))
        asts = {}
        for line in open(os.path.join(d, "ast_shrink.txt")):
            k, _, v = line.rstrip("\n").partition("\t")
            asts[k] = v
        cands = []
        for line in open(os.path.join(d, "expect_shrink.tsv")):
            r = still_failing(line, real)
            if r is not None and (not want_crash or r["real"]["kind"] == "CRASH"):
                cands.append(r)
        if not cands:
            break
        cands.sort(key=lambda r: r["nodes"])
        best = cands[0]
        best["source"] = srcs[best["case"] + ".o"]
        best["ast"] = asts[best["case"]]
        cur_ast = best["ast"]
    shutil.rmtree(d, ignore_errors=True)
    if best is not None:
        best["rounds"] = rounds
        best["mem"] = mem
    return best


# ------------------------------------------------------------------------------------------------
# corpus
# ------------------------------------------------------------------------------------------------
def run_corpus(nevrun, tmp, corpus_dir):
    """corpus entries: *.json with {"ast": sexp} (evaluated again by the model) — run first; an optional
    "mem" gives the VM heap (cells) the entry needs for its mechanism (default 20000)"""
    res = []
    if not os.path.isdir(corpus_dir):
        return res
    entries = sorted(f for f in os.listdir(corpus_dir) if f.endswith(".json"))
    if not entries:
        return res
    d = os.path.join(tmp, "corpus_" + os.path.basename(corpus_dir))
    os.makedirs(d, exist_ok=True)
    with open(os.path.join(d, "asts.txt"), "w") as f:
        for e in entries:
            j = json.load(open(os.path.join(corpus_dir, e)))
            f.write("%s\t%s\n" % (e[:-5], j["ast"]))
    rc, so, se = run_ocaml(["eval", os.path.join(d, "asts.txt")])
    exp = {}
    for line in so.splitlines():
        f = line.split("\t")
        if len(f) >= 3:
            exp[f[0]] = canon_expected(f[1], f[2])
    with open(os.path.join(d, "batch.txt"), "w") as f:
        for e in entries:
            with open(os.path.join(d, "one.txt"), "w") as g:
                g.write("%s\t%s\n" % (e[:-5], json.load(open(os.path.join(corpus_dir, e)))["ast"]))
            rc, src, _ = run_ocaml(["pp", os.path.join(d, "one.txt")])
            f.write("@@@ %s.o stack=3000 mem=%d\n%s" % (e[:-5], int(json.load(open(os.path.join(corpus_dir, e))).get("mem", 20000)), src))
    rc, out, err = common.sh([nevrun, "--timeout", "10", "--batch", os.path.join(d, "batch.txt")], timeout=600, env=drv_env())
    real = parse_nevrun(out)
    srcs = split_batch(open(os.path.join(d, "batch.txt")).read())
    for e in entries:
        cid = e[:-5]
        j = json.load(open(os.path.join(corpus_dir, e)))
        o, x = real.get(cid + ".o"), exp.get(cid)
        if o is None or x is None:
            continue
        ok = o["kind"] not in ("CRASH",) and same(o, x)
        res.append({"case": cid, "key": j.get("key", cid), "ok": ok, "note": j.get("note", ""), "expected": short(x), "real": short(o),
                    "source": srcs.get(cid + ".o", ""), "ast": j["ast"], "log": o["log"], "property": j.get("property", "C02")})
    return res


# ------------------------------------------------------------------------------------------------
# entry
# ------------------------------------------------------------------------------------------------
def merge_dist(acc, d):
    for sect in ("constructs", "outcomes", "mechanisms"):
        a = acc.setdefault(sect, {})
        for k, v in d.get(sect, {}).items():
            if k.startswith("max_"):
                a[k] = max(a.get(k, 0), v)
            else:
                a[k] = a.get(k, 0) + v
    acc["gen_seconds"] = acc.get("gen_seconds", 0.0) + d.get("gen_seconds", 0.0)
    acc["eval_seconds"] = acc.get("eval_seconds", 0.0) + d.get("eval_seconds", 0.0)


def summarise_dist(d):
    """a compact view for the evidence file"""
    c = d.get("constructs", {})
    progs = max(1, c.get("programs", 1))
    keys = ["EBin.add", "EBin.sub", "EBin.mul", "EBin.div", "EBin.mod", "EBin.band", "EBin.bor", "EBin.bxor", "EBin.shl",
            "EBin.shr", "EBin.and", "EBin.or", "EBin.lt", "EBin.eq", "ENeg", "ENot", "EBNot", "ECond", "EIf", "EAssign",
            "EAssign.var", "EAssign.elem", "EAssign.field", "ECall", "ECall.computed", "ECall.lambda", "EBlock", "EWhile",
            "EDoWhile", "EFor", "ELambda", "EArrLit", "EIndex", "ERecNew", "ERecNil", "EField", "EPrint", "ILet", "IVar",
            "IFunc", "fdef.top", "fdef.nested", "fdef.lambda", "fdef.with_catch", "catch.all", "catch.division_by_zero",
            "catch.index_out_of_bounds", "catch.nil_pointer", "params.var", "params.fun", "closures_capturing",
            "captured_vars", "shadowing_binders", "shadowing.param", "shadowing.let", "shadowing.var", "shadowing.func"]
    return {"programs": c.get("programs", 0),
            "mean_nodes": round(c.get("nodes", 0) / progs, 1),
            "max_nodes": c.get("max_nodes", 0),
            "sizes": {k[5:]: v for k, v in c.items() if k.startswith("size.")},
            "printed_numbers": {k[8:]: v for k, v in c.items() if k.startswith("printed.")},
            "max_shadow_depth": c.get("max_shadow_depth", 0), "max_fn_nesting": c.get("max_fn_nesting", 0),
            "max_captured": c.get("max_captured", 0),
            "constructs_total": {k: c[k] for k in keys if k in c},
            "outcomes": d.get("outcomes", {}),
            "mechanisms": {k: v for k, v in d.get("mechanisms", {}).items() if k.startswith("programs_with.")}}


def run_evaldiff(ctx, profiles, ncases, tier, on_crash=None, variants=("o", "u", "r"), overrides=(), nevrun=None,
                 shrink_max=3, timeout=4, shrink_budget_s=45, heaps=(), heap_mode="all"):
    """Returns dict(c02=[...], c08=[...], crashes=[...], rejected=[...], harness=[...], evaluations,
    distinct_nontrivial, distribution (per profile), throughput...).  Reporting is left to the caller
    (checks/c02.py, checks/c08.py) except for nothing: this function does not touch ctx.violations."""
    ok, log = build_eval()
    if not ok:
        raise common.BuildError("build/ocaml/eval/run could not be built: " + log[-2000:])
    if nevrun is None:
        lib = common.repobuild("asan")
        nevrun = common.cc_driver("nevrun", ["common/nevrun.c"], lib)
    # a private scratch directory: several runs of the same check may be in flight
    os.makedirs(ctx.outdir, exist_ok=True)
    tmp = tempfile.mkdtemp(prefix="evaldiff_", dir=ctx.outdir)
    # profiles: names or (name, weight); the expensive tail-recursion profile gets a smaller share
    profs = [(p, PROFILE_WEIGHT.get(p, 1.0)) if isinstance(p, str) else tuple(p) for p in profiles]
    totw = sum(w for _, w in profs)
    jobs = []
    for pi, (prof, wgt) in enumerate(profs):
        left, k = max(1, int(round(ncases * wgt / totw))), 0
        while left > 0:
            n = min(CHUNK_OF.get(prof, CHUNK), left)
            seed = (ctx.seed * 1000003 + pi * 10007 + k) % 2000000011
            jobs.append((nevrun, tmp, prof, seed, n, tuple(overrides), tuple(variants), timeout, tuple(heaps), heap_mode))
            left -= n
            k += 1
    jobs.sort(key=lambda j: 0 if j[2] in CHUNK_OF else 1)      # slow chunks first
    t0 = time.time()
    with concurrent.futures.ThreadPoolExecutor(NPROC) as ex:
        results = list(ex.map(run_chunk, jobs))
    wall = time.time() - t0
    out = {"c02": [], "c08": [], "crashes": [], "rejected": [], "harness": [], "errors": [], "evaluations": 0, "cases": 0,
           "limits": 0, "agree": 0, "notrun": 0, "samples": [], "distribution": {}, "wall_s": round(wall, 2),
           "heap_runs": 0, "heap_limits": 0, "heap_agree": 0, "heaps": list(heaps), "heap_mode": heap_mode}
    hashes = set()
    dist = {}
    for r in results:
        if "error" in r:
            out["errors"].append(r)
            continue
        for k in ("c02", "c08", "crashes", "rejected", "harness"):
            out[k].extend(r[k])
        for k in ("evaluations", "cases", "limits", "agree", "notrun", "heap_runs", "heap_limits", "heap_agree"):
            out[k] += r[k]
        hashes.update(r["nontrivial_hashes"])
        out["samples"].extend(r["samples"][:1])
        merge_dist(dist.setdefault(r["profile"], {}), r["dist"])
    out["distinct_nontrivial"] = len(hashes)
    out["distribution"] = {p: summarise_dist(d) for p, d in dist.items()}
    out["throughput_programs_per_s"] = round(out["evaluations"] / max(wall, 0.001), 1)
    out["generator_cpu_s"] = round(sum(d.get("gen_seconds", 0) for d in dist.values()), 1)
    # shrink the first few disagreements / crashes
    done = 0
    for lst, crash in ((out["c02"], False), (out["crashes"], True)):
        seen_sig = set()
        for c in sorted(lst, key=lambda c: c["nodes"]):
            if done >= shrink_max:
                break
            if not c.get("ast"):
                continue
            m = shrink(nevrun, tmp, c, want_crash=crash, budget_s=shrink_budget_s)
            done += 1
            if m is not None:
                c["minimised"] = m
                if m["signature"] in seen_sig:
                    continue
                seen_sig.add(m["signature"])
    if on_crash is not None:
        for c in out["crashes"]:
            on_crash(c)
    shutil.rmtree(tmp, ignore_errors=True)
    return out


def case_key(prefix, c):
    m = c.get("minimised")
    if m and m.get("signature"):
        return "%s:%s" % (prefix, m["signature"][:100])
    return "%s:%s" % (prefix, c["case"])


def replay_of(c):
    r = {"case": c["case"], "profile": c.get("profile"), "source": c.get("source"), "ast": c.get("ast"),
         "expected_by_evaluator": c.get("expected"), "observed": c.get("real"), "what": c.get("what"),
         "how_to_replay": "build/ocaml/eval/run eval <file with the ast s-expression>; put '@@@ x stack=3000 mem=%d' + source into "
                          "a file and run <bin/repobuild asan>/nevrun --batch file" % int(c.get("mem") or 20000)}
    if c.get("mem"):
        r["heap_cells"] = c["mem"]
    for k in ("log", "crash", "variant", "variant_source", "error"):
        if k in c:
            r[k] = c[k]
    if "minimised" in c:
        m = c["minimised"]
        r["minimised"] = {"source": m["source"], "ast": m["ast"], "expected_by_evaluator": m["expected"],
                          "observed": m["real"], "nodes": m["nodes"], "signature": m["signature"]}
        if m.get("mem") and m["mem"] != 20000:
            r["minimised"]["heap_cells"] = m["mem"]
    return r


if __name__ == "__main__":
    import sys

    class _Ctx:
        seed = int(os.environ.get("VERIF_SEED", "1"))
        outdir = os.path.join(common.OUT, "evaldiff_dev")
    os.makedirs(_Ctx.outdir, exist_ok=True)
    profs = sys.argv[1].split(",") if len(sys.argv) > 1 and sys.argv[1] not in ("", "all") else ALL_PROFILES
    n = int(sys.argv[2]) if len(sys.argv) > 2 else 600
    hp = tuple(int(x) for x in os.environ.get("HEAPS", "").split(",") if x)
    r = run_evaldiff(_Ctx, profs, n, "quick", overrides=sys.argv[3:], shrink_max=int(os.environ.get("SHRINK", "2")), heaps=hp)
    for k in ("c02", "c08", "crashes", "rejected", "harness", "errors"):
        print(k, len(r[k]))
    print({k: r[k] for k in ("evaluations", "cases", "limits", "agree", "distinct_nontrivial", "wall_s", "throughput_programs_per_s",
                             "heap_runs", "heap_limits", "heap_agree")})
    with open(os.path.join(_Ctx.outdir, "result.json"), "w") as f:
        json.dump(r, f, indent=1, default=str)
